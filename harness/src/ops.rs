use crate::{hex, parse_kind, unhex, write_kind};
use dolby_vision::av1::convert_regular_rpu_to_av1_payload;
use dolby_vision::utils::{
    add_start_code_emulation_prevention_3_byte, clear_start_code_emulation_prevention_3_byte,
    nits_to_pq, pq_to_nits,
};

fn f64_parts(x: f64) -> String {
    // exact value of a finite f64 as "<sign><mantissa> <exp2>" (value = mantissa * 2^exp2)
    if x.is_nan() {
        return "nan 0".into();
    }
    if x.is_infinite() {
        return if x > 0.0 { "inf 0".into() } else { "-inf 0".into() };
    }
    let bits = x.to_bits();
    let sign = if bits >> 63 == 1 { "-" } else { "" };
    let e = ((bits >> 52) & 0x7ff) as i64;
    let frac = bits & ((1u64 << 52) - 1);
    let (m, ex) = if e == 0 {
        (frac, -1074)
    } else {
        (frac | (1u64 << 52), e - 1075)
    };
    format!("{}{} {}", sign, m, ex)
}

pub fn dispatch(t: &[&str]) -> String {
    match t[0] {
        "escape" => {
            let mut d = unhex(t[1]);
            add_start_code_emulation_prevention_3_byte(&mut d);
            format!("ok {}", hex(&d))
        }
        "unescape" => {
            let d = unhex(t[1]);
            format!("ok {}", hex(&clear_start_code_emulation_prevention_3_byte(&d)))
        }
        "av1wrap" => {
            let d = unhex(t[1]);
            match convert_regular_rpu_to_av1_payload(&d) {
                Ok(o) => format!("ok {}", hex(&o)),
                Err(_) => "err".into(),
            }
        }
        // parse <kind> <hex> -> ok <json>
        "parse" => match parse_kind(t[1], &unhex(t[2])) {
            Ok(r) => format!("ok {}", serde_json::to_string(&r).unwrap()),
            Err(_) => "err".into(),
        },
        // parseclass <kind> <hex> -> ok | err   (no serialisation: C08)
        "parseclass" => match parse_kind(t[1], &unhex(t[2])) {
            Ok(_) => "ok".into(),
            Err(_) => "err".into(),
        },
        // rt <kind_in> <kind_out> <hex>: parse, write unmodified
        "rt" => match parse_kind(t[1], &unhex(t[3])) {
            Ok(r) => match write_kind(t[2], &r) {
                Ok(o) => format!("ok {}", hex(&o)),
                Err(_) => "err write".into(),
            },
            Err(_) => "err parse".into(),
        },
        "nits2pq" => {
            let x: f64 = t[1].parse().unwrap();
            format!("ok {}", f64_parts(nits_to_pq(x)))
        }
        "pq2nits" => {
            let x: f64 = t[1].parse().unwrap();
            format!("ok {}", f64_parts(pq_to_nits(x)))
        }
        // pqtab: the whole finite domain of C19 in one response (space separated integers)
        "pqtab" => match t[1] {
            // round(nits_to_pq(L) * 4095) for integer nits 0..=10000
            "nits" => {
                let v: Vec<String> = (0..=10000u32)
                    .map(|l| ((nits_to_pq(l as f64) * 4095.0).round() as i64).to_string())
                    .collect();
                format!("ok {}", v.join(" "))
            }
            // round(nits_to_pq(k/10000) * 4095) for k in 0..=10000 (min luminance values)
            "minlum" => {
                let v: Vec<String> = (0..=10000u32)
                    .map(|k| {
                        ((nits_to_pq(k as f64 / 10000.0) * 4095.0).round() as i64).to_string()
                    })
                    .collect();
                format!("ok {}", v.join(" "))
            }
            // code -> nits -> code round trip for all 4096 codes
            "codes_rt" => {
                let v: Vec<String> = (0..4096u32)
                    .map(|c| {
                        let n = pq_to_nits(c as f64 / 4095.0);
                        ((nits_to_pq(n) * 4095.0).round() as i64).to_string()
                    })
                    .collect();
                format!("ok {}", v.join(" "))
            }
            // pq_to_nits(c/4095) exact f64 values: "<mant> <exp>" pairs separated by ';'
            "codes_nits" => {
                let v: Vec<String> = (0..4096u32)
                    .map(|c| f64_parts(pq_to_nits(c as f64 / 4095.0)))
                    .collect();
                format!("ok {}", v.join(";"))
            }
            _ => panic!("bad pqtab"),
        },
        _ => crate::ops2::dispatch(t),
    }
}
