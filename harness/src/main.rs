// dvh: line-protocol harness around /repo's dolby_vision library.
// One request per stdin line: `<op> <args...>`; one response line: `ok <payload>` | `err [<kind>]` | `panic <where>`.
// Hex arguments: lowercase/uppercase hex, `-` for the empty string.
use std::io::{BufRead, Write};
use std::panic::{catch_unwind, AssertUnwindSafe};

use dolby_vision::rpu::dovi_rpu::DoviRpu;

mod capi;
mod ops;
mod ops2;

pub fn unhex(s: &str) -> Vec<u8> {
    if s == "-" {
        return Vec::new();
    }
    let b = s.as_bytes();
    let mut out = Vec::with_capacity(b.len() / 2);
    let v = |c: u8| -> u8 {
        match c {
            b'0'..=b'9' => c - b'0',
            b'a'..=b'f' => c - b'a' + 10,
            b'A'..=b'F' => c - b'A' + 10,
            _ => panic!("bad hex"),
        }
    };
    let mut i = 0;
    while i + 1 < b.len() {
        out.push(v(b[i]) * 16 + v(b[i + 1]));
        i += 2;
    }
    out
}

pub fn hex(b: &[u8]) -> String {
    if b.is_empty() {
        return "-".to_string();
    }
    let mut s = String::with_capacity(b.len() * 2);
    for x in b {
        s.push_str(&format!("{:02x}", x));
    }
    s
}

pub fn parse_kind(kind: &str, data: &[u8]) -> anyhow::Result<DoviRpu> {
    match kind {
        "rpu" => DoviRpu::parse_rpu(data),
        "nal" => DoviRpu::parse_unspec62_nalu(data),
        "av1" => DoviRpu::parse_itu_t35_dovi_metadata_obu(data),
        "st2094" => {
            // class only: map the ST 2094-10 result onto an RPU-typed result
            return dolby_vision::st2094_10::itu_t35::ST2094_10ItuT35::parse_itu_t35_dashif(data)
                .map(|_| DoviRpu::default());
        }
        _ => panic!("bad kind"),
    }
}

pub fn write_kind(kind: &str, rpu: &DoviRpu) -> anyhow::Result<Vec<u8>> {
    match kind {
        "rpu" => rpu.write_rpu(),
        "nal" => rpu.write_hevc_unspec62_nalu(),
        "av1" => rpu.write_av1_rpu_metadata_obu_t35_payload(),
        "av1c" => rpu.write_av1_rpu_metadata_obu_t35_complete(),
        _ => panic!("bad kind"),
    }
}

fn main() {
    // silent panics: location is reported through the protocol
    std::panic::set_hook(Box::new(|info| {
        let loc = info
            .location()
            .map(|l| format!("{}:{}", l.file(), l.line()))
            .unwrap_or_else(|| "?".into());
        LAST_PANIC.with(|p| *p.borrow_mut() = loc);
    }));

    let args: Vec<String> = std::env::args().collect();
    if args.len() > 1 && args[1] == "--limits" {
        // address-space limit (bytes) for the C08 worker
        let lim: u64 = args[2].parse().unwrap();
        unsafe {
            let r = libc::rlimit {
                rlim_cur: lim,
                rlim_max: lim,
            };
            libc::setrlimit(libc::RLIMIT_AS, &r);
        }
    }

    let stdin = std::io::stdin();
    let stdout = std::io::stdout();
    let mut out = std::io::BufWriter::new(stdout.lock());
    for line in stdin.lock().lines() {
        let line = match line {
            Ok(l) => l,
            Err(_) => break,
        };
        let toks: Vec<&str> = line.split_whitespace().collect();
        if toks.is_empty() {
            writeln!(out).ok();
            continue;
        }
        let res = catch_unwind(AssertUnwindSafe(|| ops::dispatch(&toks)));
        match res {
            Ok(s) => writeln!(out, "{}", s).ok(),
            Err(_) => {
                let loc = LAST_PANIC.with(|p| p.borrow().clone());
                writeln!(out, "panic {}", loc).ok()
            }
        };
        out.flush().ok();
    }
}

thread_local! {
    static LAST_PANIC: std::cell::RefCell<String> = std::cell::RefCell::new(String::new());
}
