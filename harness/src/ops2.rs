// further operations (RPU edits, containers, file reader, C API) are added here
pub fn dispatch(t: &[&str]) -> String {
    panic!("unknown op {}", t[0]);
}
