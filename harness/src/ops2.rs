// further operations (RPU edits, containers, file reader, C API) are added here
use crate::{hex, unhex};
use dolby_vision::av1::convert_regular_rpu_to_av1_payload;
use dolby_vision::rpu::dovi_rpu::DoviRpu;
use dolby_vision::rpu::extension_metadata::blocks::ExtMetadataBlock;
use dolby_vision::rpu::ConversionMode;

/// CRC-32/MPEG-2, bitwise, independent of the `crc` crate
pub fn crc32_mpeg2(data: &[u8]) -> u32 {
    let mut crc: u32 = 0xFFFF_FFFF;
    for b in data {
        crc ^= (*b as u32) << 24;
        for _ in 0..8 {
            crc = if crc & 0x8000_0000 != 0 { (crc << 1) ^ 0x04C1_1DB7 } else { crc << 1 };
        }
    }
    crc
}

/// valid raw RPU (prefix 0x19 .. 0x80) of exactly `size` payload bytes (without the 0x19 prefix)
/// built from `base` by inserting pseudo-random bytes before the CRC
pub fn rpu_of_size(base: &[u8], size: usize, seed: u64) -> Option<Vec<u8>> {
    // base = 19 <body> <crc32> 80
    let body_end = base.len() - 5;
    let cur = base.len() - 1;
    if size < cur {
        return None;
    }
    let extra = size - cur;
    let mut out = base[..body_end].to_vec();
    let mut x = seed.wrapping_mul(6364136223846793005).wrapping_add(size as u64 | 1);
    let start = out.len();
    for _ in 0..extra {
        x ^= x << 13;
        x ^= x >> 7;
        x ^= x << 17;
        out.push((x >> 24) as u8);
    }
    // every third size: byte patterns that look like emulation prevention (the AV1 container carries the RPU
    // without it, so they are plain payload): 00 00 03 0k, 00 00 0k, 00 00 00, at pseudo-random offsets
    if size % 3 == 1 && extra >= 4 {
        let pats: [&[u8]; 6] = [&[0, 0, 3, 0], &[0, 0, 3, 1], &[0, 0, 3, 3], &[0, 0, 1], &[0, 0, 0, 0], &[0, 0, 3, 2, 0, 0, 3]];
        let n = 1 + (x % 3) as usize;
        for k in 0..n {
            x ^= x << 13;
            x ^= x >> 7;
            x ^= x << 17;
            let p = pats[((x >> 16) as usize + k) % pats.len()];
            if extra >= p.len() {
                let off = start + ((x >> 32) as usize) % (extra - p.len() + 1);
                out[off..off + p.len()].copy_from_slice(p);
            }
        }
    }
    let crc = crc32_mpeg2(&out[1..]);
    out.extend_from_slice(&crc.to_be_bytes());
    out.push(0x80);
    Some(out)
}

pub fn dispatch(t: &[&str]) -> String {
    match t[0] {
        // av1size <base_hex> <lo> <hi> <seed> [b5]: for every payload size in lo..=hi build a valid RPU,
        // wrap it, check header/size, parse it back, compare with the direct parse
        "av1size" => {
            let base = unhex(t[1]);
            let lo: usize = t[2].parse().unwrap();
            let hi: usize = t[3].parse().unwrap();
            let seed: u64 = t[4].parse().unwrap();
            let b5 = t.len() > 5 && t[5] == "b5";
            let mut fails = Vec::new();
            let mut okc = 0usize;
            for size in lo..=hi {
                let rpu = match rpu_of_size(&base, size, seed) {
                    Some(r) => r,
                    None => continue,
                };
                let r = std::panic::catch_unwind(|| -> Result<(), String> {
                    let direct = DoviRpu::parse_rpu(&rpu).map_err(|e| format!("direct-parse:{e}"))?;
                    let mut wrapped = convert_regular_rpu_to_av1_payload(&rpu).map_err(|e| format!("wrap:{e}"))?;
                    if wrapped[..9] != [0x00, 0x3B, 0x00, 0x00, 0x08, 0x00, 0x37, 0xCD, 0x08] {
                        return Err("header".into());
                    }
                    if b5 {
                        wrapped.insert(0, 0xB5);
                    }
                    let back = DoviRpu::parse_itu_t35_dovi_metadata_obu(&wrapped).map_err(|e| format!("parse-back:{e}"))?;
                    let a = serde_json::to_string(&direct).unwrap();
                    let b = serde_json::to_string(&back).unwrap();
                    if a != b {
                        return Err("json-differs".into());
                    }
                    // the library's own AV1 writer on the parsed RPU
                    let w2 = back.write_av1_rpu_metadata_obu_t35_payload().map_err(|e| format!("write-av1:{e}"))?;
                    let mut w2c = w2.clone();
                    if b5 { w2c.insert(0, 0xB5); }
                    if w2c != wrapped {
                        return Err("rewrap-differs".into());
                    }
                    let raw = back.write_rpu().map_err(|e| format!("write-rpu:{e}"))?;
                    if raw != rpu {
                        return Err("raw-differs".into());
                    }
                    Ok(())
                });
                match r {
                    Ok(Ok(())) => okc += 1,
                    Ok(Err(e)) => fails.push(format!(
                        "{}:{}",
                        size,
                        e.chars().map(|c| if c.is_whitespace() || c == ',' { '_' } else { c }).collect::<String>()
                    )),
                    Err(_) => fails.push(format!("{}:panic", size)),
                }
            }
            format!("ok {} {}", okc, if fails.is_empty() { "-".to_string() } else { fails.join(",") })
        }
        // rpusize <base_hex> <size> <seed> -> the generated RPU (for replay / model correspondence)
        "rpusize" => {
            let base = unhex(t[1]);
            match rpu_of_size(&base, t[2].parse().unwrap(), t[3].parse().unwrap()) {
                Some(r) => format!("ok {}", hex(&r)),
                None => "err".into(),
            }
        }
        // seq <kind> <hex> <op>... : parse, apply the operations, report the final state and its encoding
        "seq" => seq(t),
        "seqw" => seqw(t),
        // hevc <chunk_size> <hex>: hevc_parser's view of a stream: NALs with frame indices, ordered frames
        "hevc" => hevc_view(t),
        // hsplit <chunk_size> <hex> [file]: the byte-level NAL batches hevc_parser hands over (parse_nals off):
        // through a cursor, or (`file`) through process_file and its BufReader
        "hsplit" => hevc_split(t),
        // hsplits <chunk_size> <hex,hex,...>: the same through the piped-stdin mode (IoFormat::RawStdin) with a
        // reader that returns exactly the given fragments, one per read() call
        "hsplits" => hevc_split_stdin(t),
        // madvrinfo <hex>: what the madvr_parse crate derives from a measurement file (inputs of the generator model):
        // flags, maxcll, maxfall, frame count, per scene start:length:round(max_pq*4095):round(avg_pq*4095), per frame round(target_pq*4095)
        "madvrinfo" => match madvr_parse::MadVRMeasurements::parse_measurements(&unhex(t[1])) {
            Ok(m) => format!(
                "ok {} {} {} {} {} {}",
                m.header.flags, m.header.maxcll, m.header.maxfall, m.frames.len(),
                if m.scenes.is_empty() { "-".to_string() } else { m.scenes.iter().map(|s| format!("{}:{}:{}:{}", s.start, s.length, (s.max_pq * 4095.0).round() as u16, (s.avg_pq * 4095.0).round() as u16)).collect::<Vec<_>>().join(",") },
                if m.frames.is_empty() { "-".to_string() } else { m.frames.iter().map(|f| format!("{}", (f.target_pq * 4095.0).round() as u16)).collect::<Vec<_>>().join(",") }
            ),
            Err(e) => format!("err {}", e.to_string().replace(char::is_whitespace, "_")),
        },
        // rpufile <chunk_size> <hex>: write the bytes to a temp file and read it with parse_rpu_file
        "rpufile" => {
            let cs = t[1];
            let data = unhex(t[2]);
            let path = std::env::temp_dir().join(format!("dvh_rpufile_{}.bin", std::process::id()));
            std::fs::write(&path, &data).unwrap();
            if cs == "0" {
                std::env::remove_var("DOVI_TOOL_VERIF_CHUNK_SIZE");
            } else {
                std::env::set_var("DOVI_TOOL_VERIF_CHUNK_SIZE", cs);
            }
            let r = dolby_vision::rpu::utils::parse_rpu_file(&path);
            let _ = std::fs::remove_file(&path);
            match r {
                Ok(rpus) => format!(
                    "ok {} {}",
                    rpus.len(),
                    if rpus.is_empty() { "-".to_string() } else { rpus.iter().map(|r| r.rpu_data_crc32.to_string()).collect::<Vec<_>>().join(",") }
                ),
                Err(_) => "err".into(),
            }
        }
        // genbase <profile 0|1|2> <cm40 0|1>: the RPU generated for the empty config of that profile / CM version
        // (second frame of a two-frame run: no scene cut), as a NAL
        // C API through the extern "C" entry points
        "capi" => crate::capi::capi(t),
        "capifile" => crate::capi::capifile(t),
        "genbase" => {
            use dolby_vision::rpu::generate::{GenerateConfig, GenerateProfile, VideoShot};
            use dolby_vision::rpu::vdr_dm_data::CmVersion;
            let cfg = GenerateConfig {
                cm_version: if t[2] == "1" { CmVersion::V40 } else { CmVersion::V29 },
                profile: match t[1] { "0" => GenerateProfile::Profile5, "1" => GenerateProfile::Profile81, _ => GenerateProfile::Profile84 },
                length: 2,
                level6: None,
                shots: vec![VideoShot { start: 0, duration: 2, ..Default::default() }],
                ..Default::default()
            };
            match cfg.generate_rpu_list() {
                Ok(l) => match l[1].write_hevc_unspec62_nalu() {
                    Ok(d) => format!("ok {}", hex(&d)),
                    Err(_) => "err".into(),
                },
                Err(_) => "err".into(),
            }
        }
        _ => panic!("unknown op {}", t[0]),
    }
}

fn block_from_spec(spec: &[&str]) -> ExtMetadataBlock {
    // <level>:<len>:<name=val,...>
    let level: u32 = spec[0].parse().unwrap();
    let mut fields: Vec<String> = Vec::new();
    for kv in spec[2].split(',') {
        if kv.is_empty() {
            continue;
        }
        let (k, v) = kv.split_once('=').unwrap();
        if k == "reference_mode_flag" {
            fields.push(format!("\"{}\":{}", k, if v == "1" { "true" } else { "false" }));
        } else {
            fields.push(format!("\"{}\":{}", k, v));
        }
    }
    if matches!(level, 8 | 9 | 10) {
        fields.push(format!("\"length\":{}", spec[1]));
    }
    let js = format!("{{\"Level{}\":{{{}}}}}", level, fields.join(","));
    serde_json::from_str::<ExtMetadataBlock>(&js).unwrap_or_else(|e| panic!("block json {js}: {e}"))
}

fn mode_of_idx(i: u8) -> ConversionMode {
    match i {
        0 => ConversionMode::Lossless,
        1 => ConversionMode::ToMel,
        2 => ConversionMode::To81,
        3 => ConversionMode::To84,
        4 => ConversionMode::To81MappingPreserved,
        _ => panic!("bad mode index"),
    }
}

pub fn apply_op(rpu: &mut DoviRpu, op: &str) -> anyhow::Result<()> {
    let parts: Vec<&str> = op.split(':').collect();
    match parts[0] {
        "add" | "repl" | "repllvl" => {
            let b = block_from_spec(&parts[1..]);
            rpu.modified = true;
            if let Some(dm) = rpu.vdr_dm_data.as_mut() {
                match parts[0] {
                    "add" => dm.add_metadata_block(b)?,
                    "repl" => dm.replace_metadata_block(b)?,
                    _ => dm.replace_metadata_level(b)?,
                }
            }
            Ok(())
        }
        "rm" => {
            rpu.modified = true;
            if let Some(dm) = rpu.vdr_dm_data.as_mut() {
                dm.remove_metadata_level(parts[1].parse().unwrap());
            }
            Ok(())
        }
        "crop" => rpu.crop(),
        "offsets" => {
            let v: Vec<u16> = parts[1].split(',').map(|x| x.parse().unwrap()).collect();
            rpu.set_active_area_offsets(v[0], v[1], v[2], v[3])
        }
        "rmmap" => {
            rpu.remove_mapping();
            Ok(())
        }
        // srclv:<min|->,<max|->: VdrDmData::change_source_levels (as the editor's min_pq / max_pq do)
        "srclv" => {
            let v: Vec<Option<u16>> = parts[1].split(',').map(|x| if x == "-" { None } else { Some(x.parse().unwrap()) }).collect();
            rpu.modified = true;
            if let Some(dm) = rpu.vdr_dm_data.as_mut() {
                dm.change_source_levels(v[0], v[1]);
            }
            Ok(())
        }
        "rmcmv40" => rpu.remove_cmv40_extension_metadata(),
        "conv" => rpu.convert_with_mode(mode_of_idx(parts[1].parse().unwrap())),
        "convu8" => rpu.convert_with_mode(parts[1].parse::<u8>().unwrap()),
        "copy" => {
            let src = DoviRpu::parse_rpu(&unhex(parts[1]))?;
            let levels: Vec<u8> = parts[2].split(',').filter(|x| !x.is_empty()).map(|x| x.parse().unwrap()).collect();
            rpu.replace_levels_from_rpu(&src, &levels)
        }
        _ => panic!("unknown seq op {}", parts[0]),
    }
}

fn seq(t: &[&str]) -> String {
    let mut rpu = match crate::parse_kind(t[1], &unhex(t[2])) {
        Ok(r) => r,
        Err(_) => return "err parse".into(),
    };
    for (i, op) in t[3..].iter().enumerate() {
        if apply_op(&mut rpu, op).is_err() {
            return format!("err {}", i);
        }
    }
    let js = serde_json::to_string(&rpu).unwrap();
    match rpu.write_rpu() {
        Ok(o) => {
            // decode what was written: the tool's own parser reads back the same values
            let mut pre = vec![0u8, 0, 0, 1];
            pre.extend_from_slice(&o);
            let back = match DoviRpu::parse_rpu(&pre) {
                Ok(r2) => serde_json::to_string(&r2).unwrap(),
                Err(e) => format!(
                    "\"reparse-error:{}\"",
                    e.to_string().chars().map(|c| if c.is_whitespace() || c == '"' { '_' } else { c }).collect::<String>()
                ),
            };
            format!("ok {} {} {}", js, hex(&o), back)
        }
        Err(_) => format!("ok {} errw -", js),
    }
}


// seqw <kind> <hex> <op>... : as `seq`, then all four Rust write calls; stops at the first failing op
// and reports how many succeeded: ok <n ops ok> <json> <rpu> <nal> <av1> <av1c>   (each hex or `errw`)
fn seqw(t: &[&str]) -> String {
    let mut rpu = match crate::parse_kind(t[1], &unhex(t[2])) {
        Ok(r) => r,
        Err(_) => return "err parse".into(),
    };
    let mut codes: Vec<String> = Vec::new();
    for op in t[3..].iter() {
        codes.push(if apply_op(&mut rpu, op).is_ok() { "0".into() } else { "-1".into() });
    }
    let js = serde_json::to_string(&rpu).unwrap();
    let w = |k: &str| match crate::write_kind(k, &rpu) {
        Ok(o) => hex(&o),
        Err(_) => "errw".to_string(),
    };
    format!("ok {} {} {} {} {} {}", if codes.is_empty() { "-".to_string() } else { codes.join(",") }, js, w("rpu"), w("nal"), w("av1"), w("av1c"))
}

struct Collect {
    input: std::path::PathBuf,
    nals: Vec<String>,
    frames: Vec<String>,
    batches: usize,
}

impl hevc_parser::io::IoProcessor for Collect {
    fn input(&self) -> &std::path::PathBuf {
        &self.input
    }
    fn update_progress(&mut self, _delta: u64) {}
    fn process_nals(&mut self, _parser: &hevc_parser::HevcParser, nals: &[hevc_parser::hevc::NALUnit], chunk: &[u8]) -> anyhow::Result<()> {
        self.batches += 1;
        for n in nals {
            let crc = crc32_mpeg2(&chunk[n.start..n.end]);
            self.nals.push(format!("{}:{}:{}:{}:{}", n.nal_type, n.decoded_frame_index, n.end - n.start, crc, n.start_code.size()));
        }
        Ok(())
    }
    fn finalize(&mut self, parser: &hevc_parser::HevcParser) -> anyhow::Result<()> {
        for f in parser.ordered_frames() {
            self.frames.push(format!("{}:{}:{}", f.decoded_number, f.presentation_number, f.frame_type));
        }
        Ok(())
    }
}

struct Batches {
    input: std::path::PathBuf,
    batches: Vec<Vec<String>>,
}

impl hevc_parser::io::IoProcessor for Batches {
    fn input(&self) -> &std::path::PathBuf {
        &self.input
    }
    fn update_progress(&mut self, _delta: u64) {}
    fn process_nals(&mut self, _parser: &hevc_parser::HevcParser, nals: &[hevc_parser::hevc::NALUnit], chunk: &[u8]) -> anyhow::Result<()> {
        self.batches.push(nals.iter().map(|n| if n.end > n.start { hex(&chunk[n.start..n.end]) } else { ".".to_string() }).collect());
        Ok(())
    }
    fn finalize(&mut self, _parser: &hevc_parser::HevcParser) -> anyhow::Result<()> {
        Ok(())
    }
}

fn hevc_split(t: &[&str]) -> String {
    use hevc_parser::io::{processor::{HevcProcessor, HevcProcessorOpts}, IoFormat};
    let cs: usize = t[1].parse().unwrap();
    let data = unhex(t[2]);
    let mut c = Batches { input: std::path::PathBuf::new(), batches: Vec::new() };
    let opts = HevcProcessorOpts { parse_nals: false, ..Default::default() };
    let mut p = HevcProcessor::new(IoFormat::Raw, opts, cs);
    let r = if t.len() > 3 && t[3] == "file" {
        let path = std::env::temp_dir().join(format!("dvh_hsplit_{}.hevc", std::process::id()));
        std::fs::write(&path, &data).unwrap();
        let r = p.process_file(&mut c, Some(path.clone()));
        let _ = std::fs::remove_file(&path);
        r
    } else {
        let mut rd = std::io::Cursor::new(data);
        p.process_io(&mut rd, &mut c)
    };
    match r {
        Ok(()) => format!("ok {}", if c.batches.is_empty() { "-".to_string() } else { c.batches.iter().map(|b| if b.is_empty() { "-".to_string() } else { b.join(",") }).collect::<Vec<_>>().join("|") }),
        Err(e) => format!("err {}", e.to_string().replace(char::is_whitespace, "_")),
    }
}

struct FragReader {
    frags: Vec<Vec<u8>>,
    i: usize,
}

impl std::io::Read for FragReader {
    fn read(&mut self, buf: &mut [u8]) -> std::io::Result<usize> {
        if self.i >= self.frags.len() {
            return Ok(0);
        }
        let f = &mut self.frags[self.i];
        let n = std::cmp::min(buf.len(), f.len());
        buf[..n].copy_from_slice(&f[..n]);
        if n == f.len() {
            self.i += 1;
        } else {
            f.drain(..n);
        }
        Ok(n)
    }
}

fn hevc_split_stdin(t: &[&str]) -> String {
    use hevc_parser::io::{processor::{HevcProcessor, HevcProcessorOpts}, IoFormat};
    let cs: usize = t[1].parse().unwrap();
    let frags: Vec<Vec<u8>> = if t[2] == "-" { Vec::new() } else { t[2].split(',').map(|x| if x == "." { Vec::new() } else { unhex(x) }).collect() };
    let mut c = Batches { input: std::path::PathBuf::new(), batches: Vec::new() };
    let opts = HevcProcessorOpts { parse_nals: false, ..Default::default() };
    let mut p = HevcProcessor::new(IoFormat::RawStdin, opts, cs);
    let mut rd = FragReader { frags, i: 0 };
    match p.process_io(&mut rd, &mut c) {
        Ok(()) => format!("ok {}", if c.batches.is_empty() { "-".to_string() } else { c.batches.iter().map(|b| if b.is_empty() { "-".to_string() } else { b.join(",") }).collect::<Vec<_>>().join("|") }),
        Err(e) => format!("err {}", e.to_string().replace(char::is_whitespace, "_")),
    }
}

fn hevc_view(t: &[&str]) -> String {
    use hevc_parser::io::{processor::{HevcProcessor, HevcProcessorOpts}, IoFormat};
    let cs: usize = t[1].parse().unwrap();
    let data = unhex(t[2]);
    let mut c = Collect { input: std::path::PathBuf::new(), nals: Vec::new(), frames: Vec::new(), batches: 0 };
    let mut p = HevcProcessor::new(IoFormat::Raw, HevcProcessorOpts::default(), cs);
    let mut rd = std::io::Cursor::new(data);
    match p.process_io(&mut rd, &mut c) {
        Ok(()) => format!("ok {} {} {}", c.batches, if c.nals.is_empty() { "-".to_string() } else { c.nals.join(",") }, if c.frames.is_empty() { "-".to_string() } else { c.frames.join(",") }),
        Err(e) => format!("err {}", e.to_string().replace(char::is_whitespace, "_")),
    }
}
