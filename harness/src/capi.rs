// C API exercised through the real extern "C" entry points; the returned structures are read
// through mirror declarations written here by hand (as a C program would, from the header):
// a swapped, missing or re-typed field in the crate's repr(C) structs shows up as different values.
#![allow(dead_code)]
use std::ffi::CStr;
use std::os::raw::c_char;

use dolby_vision::c_structs::RpuOpaque;
use dolby_vision::capi::*;
use dolby_vision::rpu::extension_metadata::blocks::*;
use serde_json::{json, Value};

use crate::{hex, unhex};

#[repr(C)]
struct CData { data: *const u8, len: usize }
#[repr(C)]
struct CU16Data { data: *const u16, len: usize }
#[repr(C)]
struct CU64Data { data: *const u64, len: usize }
#[repr(C)]
struct CI64Data { data: *const i64, len: usize }
#[repr(C)]
struct CU64Data2D { list: *const *const CU64Data, len: usize }
#[repr(C)]
struct CI64Data2D { list: *const *const CI64Data, len: usize }
#[repr(C)]
struct CU64Data3D { list: *const *const CU64Data2D, len: usize }
#[repr(C)]
struct CI64Data3D { list: *const *const CI64Data2D, len: usize }

#[repr(C)]
struct CHeader {
    guessed_profile: u8,
    el_type: *const c_char,
    rpu_nal_prefix: u8,
    rpu_type: u8,
    rpu_format: u16,
    vdr_rpu_profile: u8,
    vdr_rpu_level: u8,
    vdr_seq_info_present_flag: bool,
    chroma_resampling_explicit_filter_flag: bool,
    coefficient_data_type: u8,
    coefficient_log2_denom: u64,
    vdr_rpu_normalized_idc: u8,
    bl_video_full_range_flag: bool,
    bl_bit_depth_minus8: u64,
    el_bit_depth_minus8: u64,
    vdr_bit_depth_minus8: u64,
    spatial_resampling_filter_flag: bool,
    reserved_zero_3bits: u8,
    el_spatial_resampling_filter_flag: bool,
    disable_residual_flag: bool,
    vdr_dm_metadata_present_flag: bool,
    use_prev_vdr_rpu_flag: bool,
    prev_vdr_rpu_id: u64,
}

#[repr(C)]
struct CPoly { poly_order_minus1: CU64Data, linear_interp_flag: CData, poly_coef_int: CI64Data2D, poly_coef: CU64Data2D }
#[repr(C)]
struct CMmr { mmr_order_minus1: CData, mmr_constant_int: CI64Data, mmr_constant: CU64Data, mmr_coef_int: CI64Data3D, mmr_coef: CU64Data3D }
#[repr(C)]
struct CCurve { num_pivots_minus2: u64, pivots: CU16Data, mapping_idc: u8, polynomial: *const CPoly, mmr: *const CMmr }
#[repr(C)]
struct CNlq {
    nlq_offset: [u16; 3],
    vdr_in_max_int: [u64; 3],
    vdr_in_max: [u64; 3],
    linear_deadzone_slope_int: [u64; 3],
    linear_deadzone_slope: [u64; 3],
    linear_deadzone_threshold_int: [u64; 3],
    linear_deadzone_threshold: [u64; 3],
}
#[repr(C)]
struct CMapping {
    vdr_rpu_id: u64,
    mapping_color_space: u64,
    mapping_chroma_format_idc: u64,
    num_x_partitions_minus1: u64,
    num_y_partitions_minus1: u64,
    curves: [CCurve; 3],
    nlq_method_idc: i32,
    nlq_num_pivots_minus2: i32,
    nlq_pred_pivot_value: CU16Data,
    nlq: *const CNlq,
}

#[repr(C)]
struct CList<T> { list: *const *const T, len: usize }
#[repr(C)]
struct CDmData {
    num_ext_blocks: u64,
    level1: *const ExtMetadataBlockLevel1,
    level2: CList<ExtMetadataBlockLevel2>,
    level3: *const ExtMetadataBlockLevel3,
    level4: *const ExtMetadataBlockLevel4,
    level5: *const ExtMetadataBlockLevel5,
    level6: *const ExtMetadataBlockLevel6,
    level8: CList<ExtMetadataBlockLevel8>,
    level9: *const ExtMetadataBlockLevel9,
    level10: CList<ExtMetadataBlockLevel10>,
    level11: *const ExtMetadataBlockLevel11,
    level254: *const ExtMetadataBlockLevel254,
    level255: *const ExtMetadataBlockLevel255,
}
#[repr(C)]
struct CVdrDmData {
    compressed: bool,
    affected_dm_metadata_id: u64,
    current_dm_metadata_id: u64,
    scene_refresh_flag: u64,
    ycc_to_rgb_coef: [i16; 9],
    ycc_to_rgb_offset: [u32; 3],
    rgb_to_lms_coef: [i16; 9],
    signal_eotf: u16,
    signal_eotf_param0: u16,
    signal_eotf_param1: u16,
    signal_eotf_param2: u32,
    signal_bit_depth: u8,
    signal_color_space: u8,
    signal_chroma_format: u8,
    signal_full_range_flag: u8,
    source_min_pq: u16,
    source_max_pq: u16,
    source_diagonal: u16,
    dm_data: CDmData,
}

unsafe fn sl<'a, T>(p: *const T, n: usize) -> &'a [T] {
    if n == 0 || p.is_null() { &[] } else { std::slice::from_raw_parts(p, n) }
}
unsafe fn u64s(d: &CU64Data) -> Value { json!(sl(d.data, d.len)) }
unsafe fn i64s(d: &CI64Data) -> Value { json!(sl(d.data, d.len)) }
unsafe fn u16s(d: &CU16Data) -> Value { json!(sl(d.data, d.len)) }
unsafe fn u8s(d: &CData) -> Value { json!(sl(d.data, d.len)) }
unsafe fn u64s2(d: &CU64Data2D) -> Value { Value::Array(sl(d.list, d.len).iter().map(|p| u64s(&**p)).collect()) }
unsafe fn i64s2(d: &CI64Data2D) -> Value { Value::Array(sl(d.list, d.len).iter().map(|p| i64s(&**p)).collect()) }
unsafe fn u64s3(d: &CU64Data3D) -> Value { Value::Array(sl(d.list, d.len).iter().map(|p| u64s2(&**p)).collect()) }
unsafe fn i64s3(d: &CI64Data3D) -> Value { Value::Array(sl(d.list, d.len).iter().map(|p| i64s2(&**p)).collect()) }

unsafe fn header_json(h: &CHeader) -> Value {
    json!({
        "guessed_profile": h.guessed_profile,
        "el_type": if h.el_type.is_null() { Value::Null } else { json!(CStr::from_ptr(h.el_type).to_string_lossy()) },
        "rpu_nal_prefix": h.rpu_nal_prefix, "rpu_type": h.rpu_type, "rpu_format": h.rpu_format,
        "vdr_rpu_profile": h.vdr_rpu_profile, "vdr_rpu_level": h.vdr_rpu_level,
        "vdr_seq_info_present_flag": h.vdr_seq_info_present_flag,
        "chroma_resampling_explicit_filter_flag": h.chroma_resampling_explicit_filter_flag,
        "coefficient_data_type": h.coefficient_data_type, "coefficient_log2_denom": h.coefficient_log2_denom,
        "vdr_rpu_normalized_idc": h.vdr_rpu_normalized_idc, "bl_video_full_range_flag": h.bl_video_full_range_flag,
        "bl_bit_depth_minus8": h.bl_bit_depth_minus8, "el_bit_depth_minus8": h.el_bit_depth_minus8,
        "vdr_bit_depth_minus8": h.vdr_bit_depth_minus8, "spatial_resampling_filter_flag": h.spatial_resampling_filter_flag,
        "reserved_zero_3bits": h.reserved_zero_3bits, "el_spatial_resampling_filter_flag": h.el_spatial_resampling_filter_flag,
        "disable_residual_flag": h.disable_residual_flag, "vdr_dm_metadata_present_flag": h.vdr_dm_metadata_present_flag,
        "use_prev_vdr_rpu_flag": h.use_prev_vdr_rpu_flag, "prev_vdr_rpu_id": h.prev_vdr_rpu_id,
    })
}

unsafe fn mapping_json(m: &CMapping) -> Value {
    let curves: Vec<Value> = m.curves.iter().map(|c| {
        json!({
            "num_pivots_minus2": c.num_pivots_minus2, "pivots": u16s(&c.pivots), "mapping_idc": c.mapping_idc,
            "polynomial": if c.polynomial.is_null() { Value::Null } else { let p = &*c.polynomial; json!({
                "poly_order_minus1": u64s(&p.poly_order_minus1), "linear_interp_flag": u8s(&p.linear_interp_flag),
                "poly_coef_int": i64s2(&p.poly_coef_int), "poly_coef": u64s2(&p.poly_coef) }) },
            "mmr": if c.mmr.is_null() { Value::Null } else { let p = &*c.mmr; json!({
                "mmr_order_minus1": u8s(&p.mmr_order_minus1), "mmr_constant_int": i64s(&p.mmr_constant_int),
                "mmr_constant": u64s(&p.mmr_constant), "mmr_coef_int": i64s3(&p.mmr_coef_int), "mmr_coef": u64s3(&p.mmr_coef) }) },
        })
    }).collect();
    json!({
        "vdr_rpu_id": m.vdr_rpu_id, "mapping_color_space": m.mapping_color_space,
        "mapping_chroma_format_idc": m.mapping_chroma_format_idc,
        "num_x_partitions_minus1": m.num_x_partitions_minus1, "num_y_partitions_minus1": m.num_y_partitions_minus1,
        "curves": curves,
        "nlq_method_idc": m.nlq_method_idc, "nlq_num_pivots_minus2": m.nlq_num_pivots_minus2,
        "nlq_pred_pivot_value": u16s(&m.nlq_pred_pivot_value),
        "nlq": if m.nlq.is_null() { Value::Null } else { let n = &*m.nlq; json!({
            "nlq_offset": n.nlq_offset, "vdr_in_max_int": n.vdr_in_max_int, "vdr_in_max": n.vdr_in_max,
            "linear_deadzone_slope_int": n.linear_deadzone_slope_int, "linear_deadzone_slope": n.linear_deadzone_slope,
            "linear_deadzone_threshold_int": n.linear_deadzone_threshold_int, "linear_deadzone_threshold": n.linear_deadzone_threshold }) },
    })
}

unsafe fn opt<T: serde::Serialize>(p: *const T) -> Value {
    if p.is_null() { Value::Null } else { serde_json::to_value(&*p).unwrap() }
}
unsafe fn list<T: serde::Serialize>(l: &CList<T>) -> Value {
    Value::Array(sl(l.list, l.len).iter().map(|p| serde_json::to_value(&**p).unwrap()).collect())
}

unsafe fn dm_json(d: &CVdrDmData) -> Value {
    let b = &d.dm_data;
    json!({
        "compressed": d.compressed, "affected_dm_metadata_id": d.affected_dm_metadata_id,
        "current_dm_metadata_id": d.current_dm_metadata_id, "scene_refresh_flag": d.scene_refresh_flag,
        "ycc_to_rgb_coef": d.ycc_to_rgb_coef, "ycc_to_rgb_offset": d.ycc_to_rgb_offset, "rgb_to_lms_coef": d.rgb_to_lms_coef,
        "signal_eotf": d.signal_eotf, "signal_eotf_param0": d.signal_eotf_param0, "signal_eotf_param1": d.signal_eotf_param1,
        "signal_eotf_param2": d.signal_eotf_param2, "signal_bit_depth": d.signal_bit_depth,
        "signal_color_space": d.signal_color_space, "signal_chroma_format": d.signal_chroma_format,
        "signal_full_range_flag": d.signal_full_range_flag, "source_min_pq": d.source_min_pq,
        "source_max_pq": d.source_max_pq, "source_diagonal": d.source_diagonal,
        "num_ext_blocks": b.num_ext_blocks,
        "level1": opt(b.level1), "level2": list(&b.level2), "level3": opt(b.level3), "level4": opt(b.level4),
        "level5": opt(b.level5), "level6": opt(b.level6), "level8": list(&b.level8), "level9": opt(b.level9),
        "level10": list(&b.level10), "level11": opt(b.level11), "level254": opt(b.level254), "level255": opt(b.level255),
    })
}

unsafe fn data_hex(p: *const dolby_vision::c_structs::Data) -> Value {
    if p.is_null() {
        return Value::Null;
    }
    let d = &*(p as *const CData);
    let v = json!(hex(sl(d.data, d.len)));
    dovi_data_free(p);
    v
}

unsafe fn views(ptr: *mut RpuOpaque, order: &str) -> Value {
    let mut out = serde_json::Map::new();
    for c in order.chars() {
        match c {
            'h' => {
                let h = dovi_rpu_get_header(ptr);
                out.insert("header".into(), if h.is_null() { Value::Null } else { header_json(&*(h as *const CHeader)) });
                dovi_rpu_free_header(h);
            }
            'm' => {
                let m = dovi_rpu_get_data_mapping(ptr);
                out.insert("mapping".into(), if m.is_null() { Value::Null } else { mapping_json(&*(m as *const CMapping)) });
                dovi_rpu_free_data_mapping(m);
            }
            'd' => {
                let d = dovi_rpu_get_vdr_dm_data(ptr);
                out.insert("dm".into(), if d.is_null() { Value::Null } else { dm_json(&*(d as *const CVdrDmData)) });
                dovi_rpu_free_vdr_dm_data(d);
            }
            _ => {}
        }
    }
    Value::Object(out)
}

/// capi <kind> <hex> <getter order e.g. hmd> [op ...]   ops: conv:<u8> | offsets:l,r,t,b | rmmap | view | write
pub fn capi(t: &[&str]) -> String {
    let data = unhex(t[2]);
    let buf = if data.is_empty() { vec![0u8] } else { data.clone() };
    let len = data.len();
    unsafe {
        let ptr = match t[1] {
            "rpu" => dovi_parse_rpu(buf.as_ptr(), len),
            "nal" => dovi_parse_unspec62_nalu(buf.as_ptr(), len),
            "av1" => dovi_parse_itu_t35_dovi_metadata_obu(buf.as_ptr(), len),
            _ => panic!("bad kind"),
        };
        let e = dovi_rpu_get_error(ptr);
        let err = if e.is_null() { Value::Null } else { json!(CStr::from_ptr(e).to_string_lossy()) };
        let mut res = serde_json::Map::new();
        res.insert("error".into(), err.clone());
        res.insert("first".into(), views(ptr, t[3]));
        let mut steps: Vec<Value> = Vec::new();
        for op in &t[4..] {
            let parts: Vec<&str> = op.split(':').collect();
            match parts[0] {
                "conv" => steps.push(json!({"conv": dovi_convert_rpu_with_mode(ptr, parts[1].parse().unwrap())})),
                "offsets" => {
                    let v: Vec<u16> = parts[1].split(',').map(|x| x.parse().unwrap()).collect();
                    steps.push(json!({"offsets": dovi_rpu_set_active_area_offsets(ptr, v[0], v[1], v[2], v[3])}));
                }
                "rmmap" => steps.push(json!({"rmmap": dovi_rpu_remove_mapping(ptr)})),
                "view" => steps.push(json!({"view": views(ptr, t[3])})),
                "write" => {
                    let w = json!({
                        "rpu": data_hex(dovi_write_rpu(ptr)),
                        "nal": data_hex(dovi_write_unspec62_nalu(ptr)),
                        "av1p": data_hex(dovi_write_av1_rpu_metadata_obu_t35_payload(ptr)),
                        "av1c": data_hex(dovi_write_av1_rpu_metadata_obu_t35_complete(ptr)),
                    });
                    let e2 = dovi_rpu_get_error(ptr);
                    steps.push(json!({"write": w, "error_after": if e2.is_null() { Value::Null } else { json!(CStr::from_ptr(e2).to_string_lossy()) }}));
                }
                _ => panic!("bad capi op"),
            }
        }
        res.insert("steps".into(), Value::Array(steps));
        dovi_rpu_free(ptr);
        format!("ok {}", serde_json::to_string(&Value::Object(res)).unwrap())
    }
}

/// capifile <hex | missing>: the bytes written to a file (or a path that does not exist) read through
/// dovi_parse_rpu_bin_file: error string, length, every element written back with dovi_write_rpu,
/// then the list freed exactly once with dovi_rpu_list_free
pub fn capifile(t: &[&str]) -> String {
    let path = std::env::temp_dir().join(format!("dvh_capifile_{}.bin", std::process::id()));
    if t[1] == "missing" {
        let _ = std::fs::remove_file(&path);
    } else {
        std::fs::write(&path, unhex(t[1])).unwrap();
    }
    std::env::remove_var("DOVI_TOOL_VERIF_CHUNK_SIZE");
    let cpath = std::ffi::CString::new(path.to_str().unwrap()).unwrap();
    unsafe {
        let lp = dovi_parse_rpu_bin_file(cpath.as_ptr());
        if lp.is_null() {
            let _ = std::fs::remove_file(&path);
            return "ok null".into();
        }
        let l = &*lp;
        let err = if l.error.is_null() { Value::Null } else { json!(CStr::from_ptr(l.error).to_string_lossy()) };
        let mut items: Vec<Value> = Vec::new();
        if !l.list.is_null() {
            for i in 0..l.len {
                let rp = *l.list.add(i);
                items.push(data_hex(dovi_write_rpu(rp)));
            }
        }
        // the Rust API on the same file
        let rust = if path.is_file() {
            match dolby_vision::rpu::utils::parse_rpu_file(&path) {
                Ok(rpus) => json!({"ok": true, "items": rpus.iter().map(|r| match r.write_rpu() { Ok(d) => json!(hex(&d)), Err(_) => Value::Null }).collect::<Vec<_>>()}),
                Err(_) => json!({"ok": false}),
            }
        } else {
            json!({"ok": false})
        };
        let res = json!({"error": err, "len": l.len, "list_null": l.list.is_null(), "items": items, "rust": rust});
        // progress marker before the free: a fault inside dovi_rpu_list_free is then attributable
        eprintln!("capifile: freeing");
        dovi_rpu_list_free(lp);
        let _ = std::fs::remove_file(&path);
        format!("ok {}", serde_json::to_string(&res).unwrap())
    }
}
