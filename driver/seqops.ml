(* operation sequences on a parsed RPU (same op syntax as the harness) *)
open Model
open Util
open Json

let split c s = Stdlib.String.split_on_char c s

let block_of_spec (parts : Stdlib.String.t list) : block =
  match parts with
  | lv :: len :: kvs :: _ ->
      let level = n_of_string lv in
      let kv =
        Stdlib.List.filter_map
          (fun x -> if x = "" then None else match split '=' x with [ k; v ] -> Some (k, v) | _ -> None)
          (split ',' kvs)
      in
      (match desc_of level with
       | None -> failwith "no desc"
       | Some d ->
           let vals =
             Stdlib.List.map
               (fun f ->
                 let nm = ocaml_string f.f_name in
                 match Stdlib.List.assoc_opt nm kv with Some v -> z_of_string v | None -> f.f_def)
               d.b_parse
           in
           let flag = match Stdlib.List.assoc_opt "reference_mode_flag" kv with Some "1" -> true | _ -> false in
           let blen =
             if d.b_var_len then n_of_string len
             else match d.b_lengths with (l, _) :: _ -> l | [] -> N0
           in
           { blevel = level; blen; bvals = vals; bflag = flag })
  | _ -> failwith "bad block spec"

let on_dm (x : rpu) (f : dmdata -> dmdata outcome) : rpu outcome =
  match x.rdm with
  | Some d -> (match f d with Ok d' -> Ok (with_dm x (Some d') true) | Err -> Err | Panic s -> Panic s)
  | None -> Ok (set_modified x)

let apply_op (p : profile) (x : rpu) (op : Stdlib.String.t) : rpu outcome =
  let parts = split ':' op in
  match parts with
  | "add" :: rest -> on_dm x (fun d -> dm_add_block d (block_of_spec rest))
  | "repl" :: rest -> on_dm x (fun d -> dm_replace_block d (block_of_spec rest))
  | "repllvl" :: rest -> on_dm x (fun d -> dm_replace_level d (block_of_spec rest))
  | [ "rm"; lv ] -> on_dm x (fun d -> Ok (dm_remove_level d (n_of_string lv)))
  | [ "crop" ] -> crop x
  | [ "offsets"; v ] -> (
      match Stdlib.List.map z_of_string (split ',' v) with
      | [ l; r; t; b ] -> set_offsets x l r t b
      | _ -> failwith "offsets")
  | [ "srclv"; v ] -> (
      let o s = if s = "-" then None else Some (z_of_string s) in
      match split ',' v with
      | [ a; b ] -> on_dm x (fun d -> Ok (change_source_levels (o a) (o b) d))
      | _ -> failwith "srclv")
  | [ "rmmap" ] -> Ok (remove_mapping x)
  | [ "rmcmv40" ] -> Ok (remove_cmv40 x)
  | [ "conv"; m ] -> convert_with_mode x (n_of_string m)
  | [ "convu8"; m ] -> convert_with_mode x (mode_of_u8 (n_of_string m))
  | [ "copy"; h; lv ] -> (
      match parse_rpu p src_sw (bytes_of_hex h) with
      | Ok src ->
          let levels = Stdlib.List.filter_map (fun s -> if s = "" then None else Some (n_of_string s)) (split ',' lv) in
          replace_levels_from_rpu x src levels
      | Err -> Err
      | Panic s -> Panic s)
  | _ -> failwith ("unknown seq op " ^ op)

let seq (p : profile) (t : Stdlib.String.t array) : Stdlib.String.t =
  let d = bytes_of_hex t.(2) in
  let r =
    match t.(1) with
    | "rpu" -> parse_rpu p src_sw d
    | "nal" -> parse_unspec62_nalu p src_sw d
    | "av1" -> parse_av1 p src_sw d
    | _ -> failwith "bad kind"
  in
  match r with
  | Err -> "err parse"
  | Panic s -> "panic " ^ string_of_n s
  | Ok x0 ->
      let rec go x i =
        if i >= Array.length t then `Done x
        else
          match apply_op p x t.(i) with
          | Ok x' -> go x' (i + 1)
          | Err -> `Err (i - 3)
          | Panic s -> `Panic s
      in
      (match go x0 3 with
       | `Err i -> "err " ^ string_of_int i
       | `Panic s -> "panic " ^ string_of_n s
       | `Done x -> (
           let js = json_rpu x in
           match write_rpu p src_sw x with
           | Ok o -> (
               let back =
                 match parse_rpu p src_sw (n_of_int 0 :: n_of_int 0 :: n_of_int 0 :: n_of_int 1 :: o) with
                 | Ok x2 -> json_rpu x2
                 | Err -> "\"reparse-error\""
                 | Panic s -> "\"reparse-panic\""
               in
               "ok " ^ js ^ " " ^ hex_of_bytes o ^ " " ^ back)
           | Err -> "ok " ^ js ^ " errw -"
           | Panic s -> "ok " ^ js ^ " panicw -"))
