(* generate: gen <config> <base rpu nal hex> *)
open Model
open Util

let split c s = Stdlib.String.split_on_char c s
let nonempty l = Stdlib.List.filter (fun x -> x <> "") l

let blocks_of (s : Stdlib.String.t) : block list =
  Stdlib.List.map (fun b -> Seqops.block_of_spec (split ':' b)) (nonempty (split '|' s))

let shot_of (s : Stdlib.String.t) : gshot =
  match split '~' s with
  | [ dur; blocks; edits ] ->
      { s_dur = n_of_string dur; s_blocks = blocks_of blocks;
        s_edits = Stdlib.List.map (fun e -> match split '#' e with
            | [ o; bs ] -> (n_of_string o, blocks_of bs)
            | [ o ] -> (n_of_string o, [])
            | _ -> failwith "edit") (nonempty (split '^' edits)) }
  | _ -> failwith ("bad shot " ^ s)

let gen_op (p : profile) (t : Stdlib.String.t array) : Stdlib.String.t =
  let items = Stdlib.List.map (fun it -> match split '@' it with [ k ] -> (k, "") | k :: v :: _ -> (k, v) | [] -> ("", "")) (nonempty (split '/' (if t.(1) = "-" then "" else t.(1)))) in
  let has k = Stdlib.List.mem_assoc k items in
  let get k = Stdlib.List.assoc k items in
  let opt k f = if has k then Some (f (get k)) else None in
  let l5 = match opt "l5" (fun v -> Stdlib.List.map z_of_string (split ':' v)) with
    | Some [ l; r; tp; b ] -> l5_block l r tp b
    | _ -> l5_block Z0 Z0 Z0 Z0 in
  let cfg = { g_cm40 = has "cm40"; g_long = has "long";
              g_length = (if has "length" then n_of_string (get "length") else N0);
              g_min = opt "min" z_of_string; g_max = opt "max" z_of_string;
              g_l1cm = opt "l1cm" (fun v -> v = "1");
              g_l5 = l5; g_l6 = opt "l6" (fun v -> Seqops.block_of_spec (split ':' v));
              g_defaults = (if has "defs" then blocks_of (get "defs") else []);
              g_shots = Stdlib.List.filter_map (fun (k, v) -> if k = "shot" then Some (shot_of v) else None) items } in
  let olong = opt "olong" (fun v -> v = "1") in
  match parse_unspec62_nalu p src_sw (bytes_of_hex t.(2)) with
  | Err -> "err base"
  | Panic s -> "panic " ^ string_of_n s
  | Ok base ->
      let r =
        if has "hdr" then
          match split '~' (get "hdr") with
          | [ fc; firsts; lens ] ->
              let fl = Stdlib.List.map (fun e -> match split ':' e with [ a; b ] -> (z_of_string a, z_of_string b) | _ -> failwith "first") (nonempty (split ',' firsts)) in
              generate_hdr10plus p cfg olong base (n_of_string fc) fl (Stdlib.List.map n_of_string (nonempty (split ',' lens)))
          | _ -> failwith "hdr"
        else if has "madvr" then
          (* madvr@<frame count>~<dur:max:avg[:t+t+..],...>~<maxcll:maxfall> *)
          match split '~' (get "madvr") with
          | [ fc; scenes; l6 ] ->
              let sc = Stdlib.List.map (fun e -> match split ':' e with
                  | [ d; a; b ] -> ((n_of_string d, (z_of_string a, z_of_string b)), [])
                  | [ d; a; b; ts ] -> ((n_of_string d, (z_of_string a, z_of_string b)), Stdlib.List.map z_of_string (nonempty (split '+' ts)))
                  | _ -> failwith "scene") (nonempty (split ',' scenes)) in
              let cll, fall = match split ':' l6 with [ a; b ] -> (z_of_string a, z_of_string b) | _ -> failwith "l6" in
              generate_madvr p cfg olong base (n_of_string fc) sc cll fall
          | _ -> failwith "madvr"
        else generate p cfg olong base in
      (match r with
       | Ok l -> "ok " ^ (if l = [] then "-" else Stdlib.String.concat "," (Stdlib.List.map hex_of_bytes l))
       | Err -> "err"
       | Panic s -> "panic " ^ string_of_n s)
