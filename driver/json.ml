(* JSON rendering of the model's RPU in the layout of the library's serde output *)
open Model
open Util

let ocaml_string (s : Model.string) : Stdlib.String.t =
  let b = Buffer.create 16 in
  let rec go s =
    match s with
    | EmptyString -> ()
    | String (Ascii (b0, b1, b2, b3, b4, b5, b6, b7), t) ->
        let bit x i = if x then 1 lsl i else 0 in
        Buffer.add_char b
          (Char.chr (bit b0 0 + bit b1 1 + bit b2 2 + bit b3 3 + bit b4 4 + bit b5 5 + bit b6 6 + bit b7 7));
        go t
  in
  go s;
  Buffer.contents b

let jn x = string_of_n x
let jz x = string_of_z x
let jb x = if x then "true" else "false"
let jlist f l = "[" ^ Stdlib.String.concat "," (List.map f l) ^ "]"
let jobj kv = "{" ^ Stdlib.String.concat "," (List.map (fun (k, v) -> "\"" ^ k ^ "\":" ^ v) kv) ^ "}"

let json_header (h : header) =
  jobj
    [ ("rpu_nal_prefix", "25"); ("rpu_type", jn h.rpu_type); ("rpu_format", jn h.rpu_format);
      ("vdr_rpu_profile", jn h.vdr_rpu_profile); ("vdr_rpu_level", jn h.vdr_rpu_level);
      ("vdr_seq_info_present_flag", jb h.vdr_seq_info_present_flag);
      ("chroma_resampling_explicit_filter_flag", jb h.chroma_resampling_explicit_filter_flag);
      ("coefficient_data_type", jn h.coefficient_data_type);
      ("coefficient_log2_denom", jn h.coefficient_log2_denom);
      ("coefficient_log2_denom_length", jn h.coefficient_log2_denom_length);
      ("vdr_rpu_normalized_idc", jn h.vdr_rpu_normalized_idc);
      ("bl_video_full_range_flag", jb h.bl_video_full_range_flag);
      ("bl_bit_depth_minus8", jn h.bl_bit_depth_minus8); ("el_bit_depth_minus8", jn h.el_bit_depth_minus8);
      ("ext_mapping_idc_0_4", jn h.ext_mapping_idc_0_4); ("ext_mapping_idc_5_7", jn h.ext_mapping_idc_5_7);
      ("vdr_bit_depth_minus8", jn h.vdr_bit_depth_minus8);
      ("spatial_resampling_filter_flag", jb h.spatial_resampling_filter_flag);
      ("reserved_zero_3bits", jn h.reserved_zero_3bits);
      ("el_spatial_resampling_filter_flag", jb h.el_spatial_resampling_filter_flag);
      ("disable_residual_flag", jb h.disable_residual_flag);
      ("vdr_dm_metadata_present_flag", jb h.vdr_dm_metadata_present_flag);
      ("use_prev_vdr_rpu_flag", jb h.use_prev_vdr_rpu_flag); ("prev_vdr_rpu_id", jn h.prev_vdr_rpu_id) ]

let json_curve (c : curve) =
  let idc = match int_of_n c.mapping_idc with 0 -> "\"Polynomial\"" | 1 -> "\"MMR\"" | _ -> "\"Invalid\"" in
  let base = [ ("num_pivots_minus2", jn c.num_pivots_minus2); ("pivots", jlist jn c.pivots); ("mapping_idc", idc) ] in
  let poly =
    match c.polynomial with
    | Some p ->
        [ ("poly_order_minus1", jlist jn p.poly_order_minus1); ("linear_interp_flag", jlist jb p.linear_interp_flag);
          ("poly_coef_int", jlist (jlist jz) p.poly_coef_int); ("poly_coef", jlist (jlist jn) p.poly_coef) ]
    | None -> []
  in
  let mmr =
    match c.mmr with
    | Some m ->
        [ ("mmr_order_minus1", jlist jn m.mmr_order_minus1); ("mmr_constant_int", jlist jz m.mmr_constant_int);
          ("mmr_constant", jlist jn m.mmr_constant); ("mmr_coef_int", jlist (jlist (jlist jz)) m.mmr_coef_int);
          ("mmr_coef", jlist (jlist (jlist jn)) m.mmr_coef) ]
    | None -> []
  in
  jobj (base @ poly @ mmr)

let json_nlq (q : nlq) =
  jobj
    [ ("nlq_offset", jlist jn q.nlq_offset); ("vdr_in_max_int", jlist jn q.vdr_in_max_int);
      ("vdr_in_max", jlist jn q.vdr_in_max); ("linear_deadzone_slope_int", jlist jn q.ld_slope_int);
      ("linear_deadzone_slope", jlist jn q.ld_slope); ("linear_deadzone_threshold_int", jlist jn q.ld_threshold_int);
      ("linear_deadzone_threshold", jlist jn q.ld_threshold) ]

let json_mapping (m : mapping) =
  let opt k f o = match o with Some v -> [ (k, f v) ] | None -> [] in
  jobj
    ([ ("vdr_rpu_id", jn m.vdr_rpu_id); ("mapping_color_space", jn m.mapping_color_space);
       ("mapping_chroma_format_idc", jn m.mapping_chroma_format_idc);
       ("num_x_partitions_minus1", jn m.num_x_partitions_minus1);
       ("num_y_partitions_minus1", jn m.num_y_partitions_minus1); ("curves", jlist json_curve m.curves) ]
    @ opt "nlq_method_idc" (fun _ -> "\"LinearDeadzone\"") m.nlq_method_idc
    @ opt "nlq_num_pivots_minus2" jn m.nlq_num_pivots_minus2
    @ opt "nlq_pred_pivot_value" (jlist jn) m.nlq_pred_pivot_value
    @ opt "nlq" json_nlq m.mnlq)

let rec nth_z (l : z list) (i : int) : z = match l with [] -> Z0 | x :: t -> if i = 0 then x else nth_z t (i - 1)

let json_block (b : block) =
  match desc_of b.blevel with
  | None -> "{\"Unknown\":" ^ jn b.blevel ^ "}"
  | Some d ->
      let prog = d.b_parse in
      let find_idx name =
        let rec go l i = match l with [] -> None | f :: t -> if ocaml_string f.f_name = name then Some (i, f) else go t (i + 1) in
        go prog 0
      in
      let fields =
        List.concat_map
          (fun (((name, _tb), _signed), _def) ->
            let nm = ocaml_string name in
            if nm = "length" then [ (nm, jn b.blen) ]
            else if nm = "reference_mode_flag" then [ (nm, jb b.bflag) ]
            else
              match find_idx nm with
              | Some (i, f) -> if present f b.blen then [ (nm, jz (nth_z b.bvals i)) ] else []
              | None -> [])
          d.b_fields
      in
      jobj [ ("Level" ^ jn b.blevel, jobj fields) ]

let json_container (c : container) =
  jobj [ ("num_ext_blocks", jn c.cnum); ("ext_metadata_blocks", jlist json_block c.cblocks) ]

let json_dm (d : dmdata) =
  let ids = match d.dm_ids with [ a; c; s ] -> [ a; c; s ] | _ -> [ N0; N0; N0 ] in
  let names = List.map (fun f -> ocaml_string f.f_name) dm_main_prog in
  let main = List.mapi (fun i nm -> (nm, jz (nth_z d.dm_main i))) names in
  let opt k o = match o with Some c -> [ (k, json_container c) ] | None -> [] in
  jobj
    ([ ("compressed", jb d.dm_compressed); ("affected_dm_metadata_id", jn (List.nth ids 0));
       ("current_dm_metadata_id", jn (List.nth ids 1)); ("scene_refresh_flag", jn (List.nth ids 2)) ]
    @ main @ opt "cmv29_metadata" d.cmv29 @ opt "cmv40_metadata" d.cmv40)

let json_rpu (x : rpu) =
  let opt k f o = match o with Some v -> [ (k, f v) ] | None -> [] in
  jobj
    ([ ("dovi_profile", jn x.dovi_profile) ]
    @ opt "el_type" (fun v -> if int_of_n v = 0 then "\"MEL\"" else "\"FEL\"") x.el_type
    @ [ ("header", json_header x.hdr) ]
    @ opt "rpu_data_mapping" json_mapping x.rmapping
    @ opt "vdr_dm_data" json_dm x.rdm
    @ opt "remaining" (jlist (fun b -> if b then "1" else "0")) x.remaining
    @ [ ("rpu_data_crc32", jn x.rpu_crc) ])
