(* generate --xml: genxml <doc> <base rpu nal hex> *)
open Model
open Util

let split c s = Stdlib.String.split_on_char c s
let nonempty l = Stdlib.List.filter (fun x -> x <> "") l
let rec nat_of_int i = if i <= 0 then O else S (nat_of_int (i - 1))

let dec_of (s : Stdlib.String.t) = match split ':' s with
  | [ m; e ] -> (z_of_string m, nat_of_int (int_of_string e))
  | _ -> failwith ("bad dec " ^ s)
let decs (s : Stdlib.String.t) = Stdlib.List.map dec_of (nonempty (split ',' s))

let trim_of (s : Stdlib.String.t) : xtrim =
  match split ';' s with
  | [ "1"; a; b; c ] -> XL1 (dec_of a, dec_of b, dec_of c)
  | [ "2"; tid; l; g; ga; ch; sa; ms ] -> XL2 (n_of_string tid, dec_of l, dec_of g, dec_of ga, dec_of ch, dec_of sa, dec_of ms)
  | [ "3"; a; b; c ] -> XL3 (dec_of a, dec_of b, dec_of c)
  | [ "5"; c; i ] -> XL5 (dec_of c, dec_of i)
  | [ "8"; tid; l; g; ga; ch; sa; ms; mid; clip; sv; hv ] ->
      XL8 (n_of_string tid, dec_of l, dec_of g, dec_of ga, dec_of ch, dec_of sa, dec_of ms, dec_of mid, dec_of clip, decs sv, decs hv)
  | [ "9"; p ] -> XL9 (decs p)
  | _ -> failwith ("bad trim " ^ s)
let trims (s : Stdlib.String.t) = Stdlib.List.map trim_of (nonempty (split '|' s))

let genxml_op (p : profile) (t : Stdlib.String.t array) : Stdlib.String.t =
  let items = Stdlib.List.map (fun it -> match split '@' it with [ k ] -> (k, "") | k :: v :: _ -> (k, v) | [] -> ("", "")) (nonempty (split '/' t.(1))) in
  let has k = Stdlib.List.mem_assoc k items in
  let get k = Stdlib.List.assoc k items in
  let opt k f = if has k then Some (f (get k)) else None in
  let pair f s = match split ':' s with [ a; b ] -> (f a, f b) | _ -> failwith "pair" in
  let doc = {
    x_version = n_of_string (get "ver");
    x_ars = opt "ars" (fun v -> match split '~' v with [ c; i ] -> (dec_of c, dec_of i) | _ -> failwith "ars");
    x_maxfall = opt "maxfall" dec_of; x_maxcll = opt "maxcll" dec_of;
    x_min_lum = opt "minlum" dec_of; x_max_lum = opt "maxlum" z_of_string;
    x_l254 = opt "l254" (pair z_of_string); x_l11 = opt "l11" (pair z_of_string);
    x_targets = Stdlib.List.filter_map (fun (k, v) -> if k <> "target" then None else
      match split '~' v with
      | [ id; peak; mn; prim; home ] -> Some { t_id = n_of_string id; t_peak = z_of_string peak; t_min = dec_of mn; t_prim = decs prim; t_home = (home = "1") }
      | _ -> failwith "target") items;
    x_shots = Stdlib.List.filter_map (fun (k, v) -> if k <> "shot" then None else
      match split '~' v with
      | [ st; du; tr; fr ] ->
          Some { x_start = n_of_string st; x_dur = n_of_string du; x_trims = trims tr;
                 x_frames = Stdlib.List.map (fun e -> match split '#' e with
                     | [ o; ts ] -> (n_of_string o, trims ts) | [ o ] -> (n_of_string o, []) | _ -> failwith "frame") (nonempty (split '^' fr)) }
      | _ -> failwith "shot") items } in
  let canvas = opt "canvas" (pair z_of_string) in
  let olong = opt "olong" (fun v -> v = "1") in
  match parse_unspec62_nalu p src_sw (bytes_of_hex t.(2)) with
  | Err -> "err base"
  | Panic s -> "panic " ^ string_of_n s
  | Ok base ->
      (match generate_xml p doc canvas olong base with
       | Ok l -> "ok " ^ (if l = [] then "-" else Stdlib.String.concat "," (Stdlib.List.map hex_of_bytes l))
       | Err -> "err"
       | Panic s -> "panic " ^ string_of_n s)
