let () =
  try
    while true do
      let line = input_line stdin in
      let toks = Array.of_list (List.filter (fun s -> s <> "") (Stdlib.String.split_on_char ' ' line)) in
      if Array.length toks = 0 then print_newline ()
      else begin
        (try print_string (Ops.dispatch toks) with
         | Stack_overflow -> print_string "modelfail stack"
         | Failure m -> print_string ("modelfail " ^ m)
         | Not_found -> print_string "modelfail notfound"
         | Invalid_argument m -> print_string ("modelfail " ^ m));
        print_newline ()
      end
    done
  with End_of_file -> ()
