open Model
open Util

let out_bytes (o : n list outcome) : string =
  match o with
  | Ok l -> "ok " ^ hex_of_bytes l
  | Err -> "err"
  | Panic s -> "panic " ^ string_of_n s

let profile_ref = ref Debug

let dispatch (t : string array) : string =
  match t.(0) with
  | "profile" ->
      profile_ref := (if t.(1) = "release" then Release else Debug);
      "ok"
  | "escape" -> "ok " ^ hex_of_bytes (escape (bytes_of_hex t.(1)))
  | "unescape" -> "ok " ^ hex_of_bytes (unescape (bytes_of_hex t.(1)))
  | "av1wrap" -> out_bytes (convert_regular_rpu_to_av1_payload (bytes_of_hex t.(1)))
  | "av1unwrap" -> (
      match av1_validated_trimmed_data (bytes_of_hex t.(1)) with
      | Ok d -> out_bytes (convert_av1_rpu_payload_to_regular !profile_ref d)
      | Err -> "err"
      | Panic s -> "panic " ^ string_of_n s)
  | _ -> failwith ("unknown op " ^ t.(0))

