open Model
open Util
open Json

let out_bytes (o : n list outcome) : Stdlib.String.t =
  match o with
  | Ok l -> "ok " ^ hex_of_bytes l
  | Err -> "err"
  | Panic s -> "panic " ^ string_of_n s

let profile_ref = ref Debug

let dispatch (t : Stdlib.String.t array) : Stdlib.String.t =
  match t.(0) with
  | "profile" ->
      profile_ref := (if t.(1) = "release" then Release else Debug);
      "ok"
  | "escape" -> "ok " ^ hex_of_bytes (escape (bytes_of_hex t.(1)))
  | "unescape" -> "ok " ^ hex_of_bytes (unescape (bytes_of_hex t.(1)))
  | "av1wrap" -> out_bytes (convert_regular_rpu_to_av1_payload (bytes_of_hex t.(1)))
  | "av1unwrap" -> (
      match av1_validated_trimmed_data (bytes_of_hex t.(1)) with
      | Ok d -> out_bytes (convert_av1_rpu_payload_to_regular !profile_ref d)
      | Err -> "err"
      | Panic s -> "panic " ^ string_of_n s)
  | "parse" | "parseclass" -> (
      let d = bytes_of_hex t.(2) in
      let r = match t.(1) with
        | "rpu" -> parse_rpu !profile_ref src_sw d
        | "nal" -> parse_unspec62_nalu !profile_ref src_sw d
        | "av1" -> parse_av1 !profile_ref src_sw d
        | _ -> failwith "bad kind" in
      match r with
      | Ok x -> if t.(0) = "parse" then "ok " ^ json_rpu x else "ok"
      | Err -> "err"
      | Panic s -> "panic " ^ string_of_n s)
  | "rt" -> (
      let d = bytes_of_hex t.(3) in
      let r = match t.(1) with
        | "rpu" -> parse_rpu !profile_ref src_sw d
        | "nal" -> parse_unspec62_nalu !profile_ref src_sw d
        | "av1" -> parse_av1 !profile_ref src_sw d
        | _ -> failwith "bad kind" in
      match r with
      | Ok x -> (
          let w = match t.(2) with
            | "rpu" -> write_rpu !profile_ref src_sw x
            | "nal" -> write_hevc_unspec62_nalu !profile_ref src_sw x
            | "av1" -> write_av1_payload !profile_ref src_sw x
            | "av1c" -> write_av1_complete !profile_ref src_sw x
            | _ -> failwith "bad kind" in
          match w with
          | Ok l -> "ok " ^ hex_of_bytes l
          | Err -> "err write"
          | Panic s -> "panic " ^ string_of_n s)
      | Err -> "err parse"
      | Panic s -> "panic " ^ string_of_n s)
  | "seq" -> Seqops.seq !profile_ref t
  | "route" -> Streamops.route !profile_ref t
  | "indices" -> Streamops.indices t
  | "frames" -> Streamops.frames t
  | "extract" -> Streamops.extract !profile_ref t
  | "inject" -> Streamops.inject !profile_ref t
  | "genxml" -> Xmlops.genxml_op !profile_ref t
  | "gen" -> Genops.gen_op !profile_ref t
  | "edit" -> Editops.edit_op !profile_ref t
  | "export" -> Editops.export_op !profile_ref t
  | "mux" -> Streamops.mux_op !profile_ref t
  | "muxspec" -> Streamops.muxspec_op !profile_ref t
  | "seidrop" -> Streamops.seidrop t
  | "rpufile" -> (
      let cs = int_of_string t.(1) in
      let cs = if cs = 0 then 100000 else cs in
      let rec nat_of_int i = if i = 0 then O else S (nat_of_int (i - 1)) in
      match parse_rpu_file (fun d -> parse_unspec62_nalu !profile_ref src_sw d) (nat_of_int cs) (bytes_of_hex t.(2)) with
      | Ok l -> "ok " ^ string_of_int (Stdlib.List.length l) ^ " " ^ (if l = [] then "-" else Stdlib.String.concat "," (Stdlib.List.map (fun x -> string_of_n x.rpu_crc) l))
      | Err -> "err"
      | Panic s -> "panic " ^ string_of_n s)
  | "uniqkeys" -> (
      (* the hypothesis of C10_precedence on the DM data of an RPU: every (level, target) key held at most once *)
      match parse_unspec62_nalu !profile_ref src_sw (bytes_of_hex t.(1)) with
      | Ok x -> (match x.rdm with Some d -> if uniq_check d then "ok true" else "ok false" | None -> "ok nodm")
      | Err -> "err"
      | Panic s -> "panic " ^ string_of_n s)
  | "split" ->
      (* the whole input split in one piece: NAL payloads as hex *)
      let l = split_whole (bytes_of_hex t.(1)) in
      "ok " ^ (if l = [] then "-" else Stdlib.String.concat "," (Stdlib.List.map (fun d -> if d = [] then "." else hex_of_bytes d) l))
  | "splitc" ->
      (* the chunked reader on a file read in full chunks: batches separated by | *)
      let cs = int_of_string t.(1) in
      let rec nat_of_int i acc = if i = 0 then acc else nat_of_int (i - 1) (S acc) in
      let cs = nat_of_int cs O in
      let bs = parse_nalus cs (read_file cs (bytes_of_hex t.(2))) in
      "ok " ^ (if bs = [] then "-" else Stdlib.String.concat "|" (Stdlib.List.map (fun b -> if b = [] then "-" else Stdlib.String.concat "," (Stdlib.List.map (fun d -> if d = [] then "." else hex_of_bytes d) b)) bs))
  | "splits" ->
      (* the chunked reader on piped stdin delivered in the given fragments *)
      let cs = int_of_string t.(1) in
      let rec nat_of_int i acc = if i = 0 then acc else nat_of_int (i - 1) (S acc) in
      let cs = nat_of_int cs O in
      let frags = if t.(2) = "-" then [] else Stdlib.List.map (fun x -> if x = "." then [] else bytes_of_hex x) (Stdlib.String.split_on_char ',' t.(2)) in
      let bs = parse_nalus cs (read_stdin cs frags) in
      "ok " ^ (if bs = [] then "-" else Stdlib.String.concat "|" (Stdlib.List.map (fun b -> if b = [] then "-" else Stdlib.String.concat "," (Stdlib.List.map (fun d -> if d = [] then "." else hex_of_bytes d) b)) bs))
  | _ -> failwith ("unknown op " ^ t.(0))

