(* the RPU editor: edit <config> <rpus> <source rpus | - | err> *)
open Model
open Util

let split c s = Stdlib.String.split_on_char c s
let nonempty l = Stdlib.List.filter (fun x -> x <> "") l

let coq_string_of_hex (h : Stdlib.String.t) : Model.string =
  let n = Stdlib.String.length h / 2 in
  let bit v k = (v lsr k) land 1 = 1 in
  let rec go i = if i >= n then EmptyString else
    let v = int_of_string ("0x" ^ Stdlib.String.sub h (2 * i) 2) in
    String (Ascii (bit v 0, bit v 1, bit v 2, bit v 3, bit v 4, bit v 5, bit v 6, bit v 7), go (i + 1)) in
  go 0

let parse_rpus (p : profile) (s : Stdlib.String.t) : rpu list outcome =
  let rec go l acc =
    match l with
    | [] -> Ok (Stdlib.List.rev acc)
    | h :: t -> (
        match parse_unspec62_nalu p src_sw (bytes_of_hex h) with
        | Ok x -> go t (x :: acc)
        | Err -> Err
        | Panic s -> Panic s)
  in
  go (nonempty (split ',' s)) []

let config_of_string (p : profile) (s : Stdlib.String.t) (src : Stdlib.String.t) : econfig =
  let items = Stdlib.List.map (fun it -> match split '@' it with [ k ] -> (k, "") | k :: v :: _ -> (k, v) | [] -> ("", "")) (nonempty (split '/' s)) in
  let has k = Stdlib.List.mem_assoc k items in
  let get k = Stdlib.List.assoc k items in
  let opt k f = if has k then Some (f (get k)) else None in
  let keyed f v = Stdlib.List.map (fun e -> match split ':' e with [ k; x ] -> (coq_string_of_hex k, f x) | _ -> failwith "keyed") (nonempty (split ',' v)) in
  { e_mode = (if has "mode" then n_of_string (get "mode") else N0);
    e_remove_cmv4 = has "rmcmv4"; e_remove_mapping = has "rmmap";
    e_min_pq = opt "minpq" z_of_string; e_max_pq = opt "maxpq" z_of_string;
    e_has_aa = has "aa"; e_crop = has "crop";
    e_drop_l5 = opt "dropl5" coq_string_of_hex;
    e_presets = opt "presets" (fun v -> Stdlib.List.map (fun e -> match split ':' e with
        | [ i; l; r; t; b ] -> { ps_id = n_of_string i; ps_l = z_of_string l; ps_r = z_of_string r; ps_t = z_of_string t; ps_b = z_of_string b }
        | _ -> failwith "preset") (nonempty (split ',' v)));
    e_edits = opt "edits" (keyed n_of_string);
    e_remove = opt "remove" (fun v -> Stdlib.List.map coq_string_of_hex (nonempty (split ',' v)));
    e_dups = opt "dups" (fun v -> Stdlib.List.map (fun e -> match split ':' e with
        | [ a; b; c ] -> ((n_of_string a, n_of_string b), n_of_string c) | _ -> failwith "dup") (nonempty (split ',' v)));
    e_cuts = opt "cuts" (keyed (fun x -> x = "1"));
    e_l6 = opt "l6" (fun v -> Seqops.block_of_spec (split ':' v));
    e_l9 = opt "l9" n_of_string;
    e_l11 = opt "l11" (fun v -> Seqops.block_of_spec (split ':' v));
    e_l255 = opt "l255" (fun v -> Seqops.block_of_spec (split ':' v));
    e_source = (if src = "-" then None else if src = "err" then Some Err else Some (parse_rpus p src));
    e_levels = opt "levels" (fun v -> Stdlib.List.map n_of_string (nonempty (split ',' v))) }

let edit_op (p : profile) (t : Stdlib.String.t array) : Stdlib.String.t =
  let cfg = config_of_string p (if t.(1) = "-" then "" else t.(1)) t.(3) in
  match parse_rpus p t.(2) with
  | Err -> "err parse"
  | Panic s -> "panic " ^ string_of_n s
  | Ok rpus -> (
      match edit p cfg rpus with
      | Ok l -> "ok " ^ (if l = [] then "-" else Stdlib.String.concat "," (Stdlib.List.map hex_of_bytes l))
      | Err -> "err"
      | Panic s -> "panic " ^ string_of_n s)

(* export <rpus> : scenes, level5 config, summary figures *)
let export_op (p : profile) (t : Stdlib.String.t array) : Stdlib.String.t =
  match parse_rpus p t.(1) with
  | Err -> "err parse"
  | Panic s -> "panic " ^ string_of_n s
  | Ok rpus ->
      let cat sep f l = if l = [] then "-" else Stdlib.String.concat sep (Stdlib.List.map f l) in
      let rec int_of_nat = function O -> 0 | S k -> 1 + int_of_nat k in
      let sc = scenes rpus in
      let ps, eds = l5_export rpus in
      let k4 (((a, b), c), d) = Stdlib.String.concat ":" (Stdlib.List.map string_of_z [ a; b; c; d ]) in
      let ver, counts = dm_version rpus in
      "ok scenes=" ^ cat "," string_of_n sc
      ^ " presets=" ^ cat ";" k4 ps
      ^ " edits=" ^ cat ";" (fun ((a, b), id) -> string_of_n a ^ "-" ^ string_of_n b ^ ":" ^ string_of_int (int_of_nat id)) eds
      ^ " count=" ^ string_of_int (Stdlib.List.length rpus)
      ^ " profiles=" ^ cat "," string_of_n (profiles rpus)
      ^ " dm=" ^ string_of_n ver ^ (match counts with Some (a, b) -> ":" ^ string_of_n a ^ ":" ^ string_of_n b | None -> "")
      ^ " scenecount=" ^ string_of_n (scene_count rpus)
      ^ " maxcll=" ^ string_of_z (maxcll_pq rpus) ^ " maxfall=" ^ string_of_z (maxfall_pq rpus)
      ^ " l2=" ^ cat "," string_of_z (l2_targets rpus)
      ^ " l6=" ^ cat ";" (fun l -> Stdlib.String.concat ":" (Stdlib.List.map string_of_z l)) (l6_list rpus)
      ^ " mastering=" ^ cat ";" (fun (a, b) -> string_of_z a ^ ":" ^ string_of_z b) (mastering rpus)
