(* Line-protocol driver around the extracted Coq model (driver/model.ml).
   Same protocol as the Rust harness `dvh`: one request per line, one response per line. *)
open Model

(* ---- conversions between OCaml ints/strings and the extracted inductive numbers ---- *)
let rec pos_of_int (i : int) : positive =
  if i = 1 then XH
  else if i land 1 = 0 then XO (pos_of_int (i lsr 1))
  else XI (pos_of_int (i lsr 1))

let n_of_int (i : int) : n = if i = 0 then N0 else Npos (pos_of_int i)

let rec int_of_pos (p : positive) : int =
  match p with XH -> 1 | XO q -> 2 * int_of_pos q | XI q -> (2 * int_of_pos q) + 1

let int_of_n (x : n) : int = match x with N0 -> 0 | Npos p -> int_of_pos p

(* decimal strings for arbitrary size N / Z, via a little-endian base-10^9 bignum *)
let rec pos_bits (p : positive) : bool list =
  (* LSB first *)
  match p with XH -> [ true ] | XO q -> false :: pos_bits q | XI q -> true :: pos_bits q

let dec_of_bits (bits_lsb_first : bool list) : Stdlib.String.t =
  (* digits little endian in base 10^9 *)
  let base = 1_000_000_000 in
  let digits = ref [| 0 |] in
  let mul2_add (c : int) =
    let d = !digits in
    let carry = ref c in
    for i = 0 to Array.length d - 1 do
      let v = (d.(i) * 2) + !carry in
      d.(i) <- v mod base;
      carry := v / base
    done;
    if !carry > 0 then digits := Array.append d [| !carry |]
  in
  List.iter (fun b -> mul2_add (if b then 1 else 0)) (List.rev bits_lsb_first);
  let d = !digits in
  let n = Array.length d in
  let buf = Buffer.create 32 in
  Buffer.add_string buf (string_of_int d.(n - 1));
  for i = n - 2 downto 0 do
    Buffer.add_string buf (Printf.sprintf "%09d" d.(i))
  done;
  Buffer.contents buf

let string_of_n (x : n) : Stdlib.String.t = match x with N0 -> "0" | Npos p -> dec_of_bits (pos_bits p)

let string_of_z (x : z) : Stdlib.String.t =
  match x with Z0 -> "0" | Zpos p -> dec_of_bits (pos_bits p) | Zneg p -> "-" ^ dec_of_bits (pos_bits p)

(* parse a decimal string into N using the extracted arithmetic *)
let n_of_string (s : Stdlib.String.t) : n =
  let ten = n_of_int 10 in
  let acc = ref N0 in
  Stdlib.String.iter
    (fun c ->
      if c >= '0' && c <= '9' then
        acc := N.add (N.mul !acc ten) (n_of_int (Char.code c - 48)))
    s;
  !acc

let z_of_string (s : Stdlib.String.t) : z =
  if Stdlib.String.length s > 0 && s.[0] = '-' then Z.opp (Z.of_N (n_of_string s)) else Z.of_N (n_of_string s)

let hexval c =
  match c with
  | '0' .. '9' -> Char.code c - 48
  | 'a' .. 'f' -> Char.code c - 87
  | 'A' .. 'F' -> Char.code c - 55
  | _ -> failwith "bad hex"

let bytes_of_hex (s : Stdlib.String.t) : n list =
  if s = "-" then []
  else
    let l = Stdlib.String.length s / 2 in
    List.init l (fun i -> n_of_int ((hexval s.[2 * i] * 16) + hexval s.[(2 * i) + 1]))

let hex_of_bytes (l : n list) : Stdlib.String.t =
  if l = [] then "-"
  else
    let b = Buffer.create (2 * List.length l) in
    List.iter (fun x -> Buffer.add_string b (Printf.sprintf "%02x" (int_of_n x land 255))) l;
    Buffer.contents b

