(* stream-level operations: route (convert / demux / remove / extract-rpu), indices, SEI *)
open Model
open Util

let split c s = Stdlib.String.split_on_char c s
let b01 s = s = "1"

let nal_of_string (s : Stdlib.String.t) : nal =
  match split '.' s with
  | [ t; l; f; poc; st; hex ] ->
      { ntype = n_of_string t; nlayer = n_of_string l; nfirst = b01 f; npoc = n_of_string poc; nstype = n_of_string st; ndata = bytes_of_hex hex }
  | _ -> failwith ("bad nal " ^ s)

let batches_of_string (s : Stdlib.String.t) : nal list list =
  Stdlib.List.map
    (fun b -> Stdlib.List.filter_map (fun x -> if x = "" then None else Some (nal_of_string x)) (split ';' b))
    (split '|' s)

let opts_of_string (s : Stdlib.String.t) : opts =
  let kv = Stdlib.List.filter_map (fun x -> match split '=' x with [ k; v ] -> Some (k, v) | _ -> None) (split ',' s) in
  let g k = try Stdlib.List.assoc k kv with Not_found -> "0" in
  { o_mode = (match Stdlib.List.assoc_opt "m" kv with None | Some "-" -> None | Some v -> Some (n_of_string v));
    o_crop = b01 (g "crop"); o_discard = b01 (g "discard"); o_drop_hdr10plus = b01 (g "drop"); o_annexb = b01 (g "annexb") }

let cfg_of_string s =
  match s with
  | "single" -> WSingle
  | "demux" -> WDemux true
  | "demuxel" -> WDemux false
  | "remove" -> WRemove
  | "extract" -> WExtract
  | _ -> failwith "bad cfg"

let wnals l = if l = [] then "-" else Stdlib.String.concat "," (Stdlib.List.map (fun (sc, d) -> string_of_n sc ^ ":" ^ hex_of_bytes d) l)

let route (p : profile) (t : Stdlib.String.t array) : Stdlib.String.t =
  let cfg = cfg_of_string t.(1) in
  let o = opts_of_string t.(2) in
  let bs = batches_of_string t.(3) in
  match run_stream p cfg o bs with
  | Ok out ->
      "ok main=" ^ wnals out.out_main ^ " el=" ^ wnals out.out_el ^ " rpu="
      ^ (if out.out_rpu = [] then "-" else Stdlib.String.concat "," (Stdlib.List.map hex_of_bytes out.out_rpu))
  | Err -> "err"
  | Panic s -> "panic " ^ string_of_n s

let indices (t : Stdlib.String.t array) : Stdlib.String.t =
  let bs = Stdlib.List.concat (batches_of_string t.(1)) in
  "ok " ^ Stdlib.String.concat "," (Stdlib.List.map (fun (n, i) -> string_of_n n.ntype ^ ":" ^ string_of_n i) (assign_indices ps0 bs))

let seidrop (t : Stdlib.String.t array) : Stdlib.String.t =
  match remove_hdr10plus (bytes_of_hex t.(1)) with
  | Ok (has, None) -> "ok " ^ (if has then "drop" else "keep")
  | Ok (_, Some d) -> "ok rewrite " ^ hex_of_bytes d
  | Err -> "err"
  | Panic s -> "panic " ^ string_of_n s

let frames (t : Stdlib.String.t array) : Stdlib.String.t =
  let bs = Stdlib.List.concat (batches_of_string t.(1)) in
  let fs = ordered_frames (assign_indices ps0 bs) in
  "ok " ^ (if fs = [] then "-" else Stdlib.String.concat "," (Stdlib.List.map (fun f -> string_of_n f.f_dec ^ ":" ^ string_of_n f.f_pres ^ ":" ^ string_of_n f.f_type) fs))

let extract (p : profile) (t : Stdlib.String.t array) : Stdlib.String.t =
  let o = opts_of_string t.(1) in
  let bs = Stdlib.List.concat (batches_of_string t.(2)) in
  match extract_rpus p o bs with
  | Ok l -> "ok " ^ (if l = [] then "-" else Stdlib.String.concat "," (Stdlib.List.map hex_of_bytes l))
  | Err -> "err"
  | Panic s -> "panic " ^ string_of_n s

let inject (p : profile) (t : Stdlib.String.t array) : Stdlib.String.t =
  let kv = Stdlib.List.filter_map (fun x -> match split '=' x with [ k; v ] -> Some (k, v) | _ -> None) (split ',' t.(1)) in
  let g k = try Stdlib.List.assoc k kv with Not_found -> "0" in
  let io = { io_no_add_aud = b01 (g "noaud"); io_annexb = b01 (g "annexb"); io_drop = b01 (g "drop") } in
  let bs = Stdlib.List.concat (batches_of_string t.(2)) in
  let rec parse_all l acc =
    match l with
    | [] -> Some (Stdlib.List.rev acc)
    | h :: tl -> (
        match parse_unspec62_nalu p src_sw (bytes_of_hex h) with
        | Ok x -> parse_all tl (x :: acc)
        | _ -> None)
  in
  match parse_all (Stdlib.List.filter (fun x -> x <> "" && x <> "-") (split ',' t.(3))) [] with
  | None -> "err rpufile"
  | Some rpus -> (
      match inject_rpus p io bs rpus with
      | Ok l -> "ok " ^ wnals l
      | Err -> "err"
      | Panic s -> "panic " ^ string_of_n s)

let mopts_of_string (s : Stdlib.String.t) : mopts =
  let kv = Stdlib.List.filter_map (fun x -> match split '=' x with [ k; v ] -> Some (k, v) | _ -> None) (split ',' s) in
  let g k = try Stdlib.List.assoc k kv with Not_found -> "0" in
  { mo_no_add_aud = b01 (g "noaud"); mo_eos_before_el = b01 (g "eosfirst"); mo_discard = b01 (g "discard");
    mo_annexb = b01 (g "annexb"); mo_drop = b01 (g "drop");
    mo_mode = (match Stdlib.List.assoc_opt "m" kv with None | Some "-" -> None | Some v -> Some (n_of_string v));
    mo_crop = b01 (g "crop") }

(* mux <opts> <bl nals> <el batches> *)
let mux_op (p : profile) (t : Stdlib.String.t array) : Stdlib.String.t =
  let o = mopts_of_string t.(1) in
  let bl = Stdlib.List.concat (batches_of_string t.(2)) in
  let el = batches_of_string t.(3) in
  match mux p o bl el with
  | Ok (l, e) -> "ok " ^ (if e then "mismatch " else "match ") ^ wnals l
  | Err -> "err"
  | Panic s -> "panic " ^ string_of_n s

let muxspec_op (p : profile) (t : Stdlib.String.t array) : Stdlib.String.t =
  let o = mopts_of_string t.(1) in
  let bl = Stdlib.List.concat (batches_of_string t.(2)) in
  let el = Stdlib.List.concat (batches_of_string t.(3)) in
  match mux_spec p o bl el with
  | Ok l -> "ok " ^ (if l = [] then "-" else Stdlib.String.concat "," (Stdlib.List.map hex_of_bytes l))
  | Err -> "err"
  | Panic s -> "panic " ^ string_of_n s
