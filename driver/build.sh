#!/bin/bash
# builds the model driver from the extracted model.ml(i) and the hand-written glue
set -e
cd "$(dirname "$0")"
mkdir -p ../.build/driver
cp model.ml model.mli util.ml json.ml seqops.ml streamops.ml editops.ml genops.ml xmlops.ml ops.ml main.ml ../.build/driver/
cd ../.build/driver
ocamlfind ocamlopt -O3 -unboxed-types 2>/dev/null >/dev/null || true
ocamlfind ocamlopt -w -a -package str -linkpkg model.mli model.ml util.ml json.ml seqops.ml streamops.ml editops.ml genops.ml xmlops.ml ops.ml main.ml -o model_driver
