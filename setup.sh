#!/bin/bash
# MANIFEST.setup_cmd: build the whole framework offline from files on disk.
set -e
cd "$(dirname "$0")"
export CARGO_NET_OFFLINE=true
export RUSTFLAGS="--cfg dovi_tool_verif"
mkdir -p .build/tmp evidence
cp /repo/Cargo.lock harness/Cargo.lock
(cd harness && CARGO_TARGET_DIR=../.build/target-dvh cargo build --offline 2>&1 | tail -3)
(cd harness && CARGO_TARGET_DIR=../.build/target-dvh cargo build --offline --release 2>&1 | tail -3)
(cd /repo && CARGO_TARGET_DIR=/verif/.build/target-dovi cargo build --offline --bin dovi_tool 2>&1 | tail -3)
python3 tools/translate.py
python3 -m tools.pqgen
(cd coq && coq_makefile -f _CoqProject -o Makefile >/dev/null 2>&1 && timeout 3000 make -j16 2>&1 | grep -v "^Warning" | tail -20)
bash driver/build.sh
echo "setup done"
