"""Byte-level helpers independent of the implementation: Annex-B splitting, (un)escaping, CRC."""
import os, re
from . import common as C


def crc32_mpeg2(data):
    crc = 0xFFFFFFFF
    for b in data:
        crc ^= b << 24
        for _ in range(8):
            crc = ((crc << 1) ^ 0x04C11DB7) & 0xFFFFFFFF if crc & 0x80000000 else (crc << 1) & 0xFFFFFFFF
    return crc


def unescape(b):
    out = bytearray()
    z = 0
    for x in b:
        if z >= 2 and x == 3:
            z = 0
            continue
        out.append(x)
        z = z + 1 if x == 0 else 0
    return bytes(out)


def escape(b):
    out = bytearray()
    z = 0
    for x in b:
        if z >= 2 and x <= 3:
            out.append(3)
            z = 0
        out.append(x)
        z = z + 1 if x == 0 else 0
    return bytes(out)


def split_annexb(data):
    """reference Annex-B splitter: list of NAL byte strings (start codes removed, trailing zero bytes
    of a NAL attributed to the following start code, as Annex B does)"""
    nals = []
    i = 0
    n = len(data)
    starts = []
    while i + 2 < n:
        if data[i] == 0 and data[i + 1] == 0 and data[i + 2] == 1:
            starts.append(i)
            i += 3
        else:
            i += 1
    for k, s in enumerate(starts):
        e = starts[k + 1] if k + 1 < len(starts) else n
        nal = data[s + 3 : e]
        if k + 1 < len(starts):
            nal = nal.rstrip(b"\x00")
        nals.append(nal)
    return nals


def read_rpu_file_raw(path):
    """raw (unescaped, 0x19-prefixed) RPUs of an RPU .bin file"""
    data = open(path, "rb").read()
    out = []
    for nal in split_annexb(data):
        if nal[:2] == b"\x7c\x01":
            nal = nal[2:]
        out.append(unescape(nal))
    return out


def fix_crc(raw):
    """recompute the CRC of a raw RPU 19 .. crc32 80 [00*]"""
    t = raw.rstrip(b"\x00")
    tz = len(raw) - len(t)
    body = t[:-5]
    crc = crc32_mpeg2(body[1:])
    return body + crc.to_bytes(4, "big") + b"\x80" + b"\x00" * tz


_assets = None


def asset_rpus():
    """first RPU (raw) of every parseable assets/tests/*.bin, name -> bytes"""
    global _assets
    if _assets is None:
        _assets = {}
        d = os.path.join(C.ASSETS, "tests")
        for f in sorted(os.listdir(d)):
            if f.endswith(".bin"):
                try:
                    r = read_rpu_file_raw(os.path.join(d, f))
                    if r and r[0][:1] == b"\x19" and len(r[0]) >= 25:
                        _assets[f] = r[0]
                except Exception:
                    pass
    return _assets
