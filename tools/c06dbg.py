import json,subprocess,os,sys
sys.path.insert(0,'/verif')
from tools import cli, common as C
from tools.props import c06
n=sys.argv[1]
dd=json.load(open('/verif/evidence/replay/C06-%s.json'%n)); d=dd["replay"]
print({k:v for k,v in dd.items() if k!="replay"})
w=cli.Work("c06dbg")
bl=w.write("BL.hevc",bytes.fromhex(d["bl_hex"])); el=w.write("EL.hevc",bytes.fromhex(d["el_hex"]))
print(d["opts"],d["chunk_size"],d["kind"])
ec,txt=cli.run(c06.mux_args(d["opts"],bl,el,w.path("o.hevc")),w.dir,chunk_size=d["chunk_size"])
print(ec,txt[:600])
import re
print([l for l in txt.split("\n") if "dovi_tool" in l or "panicked" in l][:12])
