#!/usr/bin/env python3
"""usage: manifest_add.py <Cxx> <text-file>  where the file holds three paragraphs: text / note / technique"""
import json, sys
pid, path = sys.argv[1], sys.argv[2]
text, note, tech = [x.strip() for x in open(path).read().strip().split("\n\n")][:3]
m = json.load(open("/verif/MANIFEST.json"))
m["not_applicable"] = [x for x in m["not_applicable"] if x["property_id"] != pid]
m["checks"] = [c for c in m["checks"] if c["property_id"] != pid]
m["checks"].append({"property_id": pid, "quick_cmd": "./check %s --tier quick" % pid, "thorough_cmd": "./check %s --tier thorough" % pid,
                    "evidence_file": "evidence/%s.json" % pid, "replay_cmd_template": "./check %s --replay {path}" % pid, "engine": "coq-model",
                    "level_claimed": {"category": "proof", "text": text, "design_ref": "DESIGN.md 5/%s" % pid}, "level_note": note, "technique": tech})
m["checks"].sort(key=lambda c: c["property_id"])
json.dump(m, open("/verif/MANIFEST.json", "w"), indent=1)
print("claimed:", [c["property_id"] for c in m["checks"]])
