#!/bin/bash
# run every claimed check (quick by default) and summarise
cd "$(dirname "$0")/.."
tier=${1:-quick}
for p in $(python3 -c "import json; print(' '.join(c['property_id'] for c in json.load(open('MANIFEST.json'))['checks']))"); do
  out=$(./check $p --tier $tier 2>&1 | grep -E "^(OK|VIOLATION|KNOWN-FINDING)" | cut -c1-150 | tr '\n' '|')
  echo "$p: $out"
done
