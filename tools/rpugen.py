"""Independent reference encoder for the RPU syntax + structured generator of RPU value trees.

A value tree is a dict with the key names of the library's JSON output.  `encode` turns it into
the raw RPU bytes following the published syntax (rpu_data_header, rpu_data_mapping, rpu_data_nlq,
vdr_dm_data_payload, ext_metadata_block) -- written from the syntax, not from the Rust writer or the
Coq model, so that it can serve as the reference of C02 and as an input generator elsewhere."""
from . import rpu as R

BLOCK_FIELDS = {
    1: [("min_pq", 12), ("max_pq", 12), ("avg_pq", 12)],
    2: [("target_max_pq", 12), ("trim_slope", 12), ("trim_offset", 12), ("trim_power", 12), ("trim_chroma_weight", 12), ("trim_saturation_gain", 12), ("ms_weight", -13)],
    3: [("min_pq_offset", 12), ("max_pq_offset", 12), ("avg_pq_offset", 12)],
    4: [("anchor_pq", 12), ("anchor_power", 12)],
    5: [("active_area_left_offset", 13), ("active_area_right_offset", 13), ("active_area_top_offset", 13), ("active_area_bottom_offset", 13)],
    6: [("max_display_mastering_luminance", 16), ("min_display_mastering_luminance", 16), ("max_content_light_level", 16), ("max_frame_average_light_level", 16)],
    8: [("target_display_index", 8), ("trim_slope", 12), ("trim_offset", 12), ("trim_power", 12), ("trim_chroma_weight", 12), ("trim_saturation_gain", 12), ("ms_weight", 12),
        ("target_mid_contrast", 12, 10), ("clip_trim", 12, 12)] + [("saturation_vector_field%d" % i, 8, 13) for i in range(6)] + [("hue_vector_field%d" % i, 8, 19) for i in range(6)],
    9: [("source_primary_index", 8)] + [("source_primary_%s_%s" % (c, a), 16, 1) for c in ("red", "green", "blue", "white") for a in "xy"],
    10: [("target_display_index", 8), ("target_max_pq", 12), ("target_min_pq", 12), ("target_primary_index", 8)] + [("target_primary_%s_%s" % (c, a), 16, 5) for c in ("red", "green", "blue", "white") for a in "xy"],
    11: [("content_type", 8), ("whitepoint", 8), ("reserved_byte2", 8), ("reserved_byte3", 8)],
    254: [("dm_mode", 8), ("dm_version_index", 8)],
    255: [("dm_run_mode", 8), ("dm_run_version", 8), ("dm_debug0", 8), ("dm_debug1", 8), ("dm_debug2", 8), ("dm_debug3", 8)],
}
BLOCK_BYTES = {1: [5], 2: [11], 3: [5], 4: [3], 5: [7], 6: [8], 8: [10, 12, 13, 19, 25], 9: [1, 17], 10: [5, 21], 11: [4], 254: [2], 255: [6]}
V29_LEVELS = [1, 2, 4, 5, 6, 255]
V40_LEVELS = [3, 8, 9, 10, 11, 254]
V29_LIMITS = {1: 1, 2: 8, 4: 1, 5: 1, 6: 1, 255: 1}
V40_LIMITS = {3: 1, 8: 5, 9: 1, 10: 4, 11: 1, 254: 1}

DM_FIELDS = [("ycc_to_rgb_coef%d" % i, -16) for i in range(9)] + [("ycc_to_rgb_offset%d" % i, 32) for i in range(3)] + [("rgb_to_lms_coef%d" % i, -16) for i in range(9)] + [
    ("signal_eotf", 16), ("signal_eotf_param0", 16), ("signal_eotf_param1", 16), ("signal_eotf_param2", 32), ("signal_bit_depth", 5), ("signal_color_space", 2),
    ("signal_chroma_format", 2), ("signal_full_range_flag", 2), ("source_min_pq", 12), ("source_max_pq", 12), ("source_diagonal", 10)]


class BitWriter:
    def __init__(self):
        self.bits = []

    def u(self, v, n):
        assert 0 <= v < (1 << n) or n == 0, (v, n)
        for i in range(n - 1, -1, -1):
            self.bits.append((v >> i) & 1)

    def i(self, v, n):  # two's complement
        self.u(v & ((1 << n) - 1), n)

    def ue(self, v):
        v1 = v + 1
        lz = v1.bit_length() - 1
        self.bits.extend([0] * lz)
        self.u(v1, lz + 1)

    def se(self, v):
        self.ue(2 * v - 1 if v > 0 else -2 * v)

    def align(self):
        while len(self.bits) % 8:
            self.bits.append(0)

    def bytes(self):
        assert len(self.bits) % 8 == 0
        out = bytearray()
        for i in range(0, len(self.bits), 8):
            b = 0
            for x in self.bits[i : i + 8]:
                b = (b << 1) | x
            out.append(b)
        return bytes(out)


def block_level(blk):
    (k, v), = blk.items()
    return int(k[5:]), v


def block_present_fields(level, length):
    return [(f[0], f[1]) for f in BLOCK_FIELDS[level] if len(f) == 2 or length > f[2]]


def required_bits(level, length):
    return sum(abs(w) for _, w in block_present_fields(level, length))


def encode_block(w, blk):
    level, v = block_level(blk)
    length = v.get("length", BLOCK_BYTES[level][0])
    w.ue(length)
    w.u(level, 8)
    for name, width in block_present_fields(level, length):
        x = v[name]
        if level == 11 and name == "whitepoint":
            x = x + (16 if v.get("reference_mode_flag") else 0)
        if width < 0:
            w.i(x, -width)
        else:
            w.u(x, width)
    pad = 8 * length - required_bits(level, length)
    w.bits.extend([0] * pad)


def encode_container(w, c):
    w.ue(c["num_ext_blocks"])
    w.align()
    for b in c["ext_metadata_blocks"]:
        encode_block(w, b)


def encode(tree, trailing_zeros=0, crc_override=None, final_byte=0x80):
    """raw RPU bytes (0x19 prefix .. 0x80 [00*]) of a value tree"""
    h = tree["header"]
    w = BitWriter()
    w.u(0x19, 8)
    w.u(h["rpu_type"], 6)
    w.u(h["rpu_format"], 11)
    w.u(h["vdr_rpu_profile"], 4)
    w.u(h["vdr_rpu_level"], 4)
    w.u(int(h["vdr_seq_info_present_flag"]), 1)
    t0 = h["coefficient_data_type"] == 0
    clen = h["coefficient_log2_denom"] if t0 else 32
    if h["vdr_seq_info_present_flag"]:
        w.u(int(h["chroma_resampling_explicit_filter_flag"]), 1)
        w.u(h["coefficient_data_type"], 2)
        if t0:
            w.ue(h["coefficient_log2_denom"])
        w.u(h["vdr_rpu_normalized_idc"], 2)
        w.u(int(h["bl_video_full_range_flag"]), 1)
        if h["rpu_format"] & 0x700 == 0:
            w.ue(h["bl_bit_depth_minus8"])
            w.ue(h["el_bit_depth_minus8"] | (h["ext_mapping_idc_0_4"] << 8) | (h["ext_mapping_idc_5_7"] << 13))
            w.ue(h["vdr_bit_depth_minus8"])
            w.u(int(h["spatial_resampling_filter_flag"]), 1)
            w.u(h["reserved_zero_3bits"], 3)
            w.u(int(h["el_spatial_resampling_filter_flag"]), 1)
            w.u(int(h["disable_residual_flag"]), 1)
    w.u(int(h["vdr_dm_metadata_present_flag"]), 1)
    w.u(int(h["use_prev_vdr_rpu_flag"]), 1)
    if h["use_prev_vdr_rpu_flag"]:
        w.ue(h["prev_vdr_rpu_id"])
    bl_bits = h["bl_bit_depth_minus8"] + 8
    el_bits = h["el_bit_depth_minus8"] + 8
    m = tree.get("rpu_data_mapping")
    if not h["use_prev_vdr_rpu_flag"]:
        w.ue(m["vdr_rpu_id"])
        w.ue(m["mapping_color_space"])
        w.ue(m["mapping_chroma_format_idc"])
        for c in m["curves"]:
            w.ue(c["num_pivots_minus2"])
            for p in c["pivots"]:
                w.u(p, bl_bits)
        has_nlq = h["rpu_format"] & 0x700 == 0 and not h["disable_residual_flag"]
        if has_nlq:
            w.u(0, 3)
            for p in m["nlq_pred_pivot_value"]:
                w.u(p, bl_bits)
        w.ue(m["num_x_partitions_minus1"])
        w.ue(m["num_y_partitions_minus1"])
        for c in m["curves"]:
            pieces = c["_pieces"]  # list of ('poly'|'mmr') per piece, generator bookkeeping
            pi = mi = 0
            for kind in pieces:
                if kind == "poly":
                    w.ue(0)
                    o = c["poly_order_minus1"][pi]
                    w.ue(o)
                    if o == 0:
                        w.u(int(c["linear_interp_flag"][pi]), 1)
                    for j in range(o + 2):
                        if t0:
                            w.se(c["poly_coef_int"][pi][j])
                        w.u(c["poly_coef"][pi][j], clen)
                    pi += 1
                else:
                    w.ue(1)
                    o = c["mmr_order_minus1"][mi]
                    w.u(o, 2)
                    if t0:
                        w.se(c["mmr_constant_int"][mi])
                    w.u(c["mmr_constant"][mi], clen)
                    for j in range(o + 1):
                        for k in range(7):
                            if t0:
                                w.se(c["mmr_coef_int"][mi][j][k])
                            w.u(c["mmr_coef"][mi][j][k], clen)
                    mi += 1
        if has_nlq:
            q = m["nlq"]
            for cmp_ in range(3):
                w.u(q["nlq_offset"][cmp_], el_bits)
                if t0:
                    w.ue(q["vdr_in_max_int"][cmp_])
                w.u(q["vdr_in_max"][cmp_], clen)
                if t0:
                    w.ue(q["linear_deadzone_slope_int"][cmp_])
                w.u(q["linear_deadzone_slope"][cmp_], clen)
                if t0:
                    w.ue(q["linear_deadzone_threshold_int"][cmp_])
                w.u(q["linear_deadzone_threshold"][cmp_], clen)
    if h["vdr_dm_metadata_present_flag"]:
        d = tree["vdr_dm_data"]
        w.ue(d["affected_dm_metadata_id"])
        w.ue(d["current_dm_metadata_id"])
        w.ue(d["scene_refresh_flag"])
        if not d["compressed"]:
            for name, width in DM_FIELDS:
                if width < 0:
                    w.i(d[name], -width)
                else:
                    w.u(d[name], width)
        encode_container(w, d["cmv29_metadata"])
        if "cmv40_metadata" in d:
            encode_container(w, d["cmv40_metadata"])
    w.align()
    for b in tree.get("remaining", []):
        w.bits.append(b)
    body = w.bytes()
    crc = R.crc32_mpeg2(body[1:]) if crc_override is None else crc_override
    return body + crc.to_bytes(4, "big") + bytes([final_byte]) + b"\x00" * trailing_zeros


# ------------------------------------------------------------------------------ generator
def pick(r, *choices):
    return r.choice(choices)


def edge(r, bits, signed=False):
    """boundary-heavy value of a bit width"""
    if signed:
        lo, hi = -(1 << (bits - 1)), (1 << (bits - 1)) - 1
        return r.choice([0, 1, -1, lo, hi, lo + 1, hi - 1, r.randint(lo, hi), r.randint(lo, hi)])
    hi = (1 << bits) - 1
    return r.choice([0, 1, hi, hi - 1, 1 << (bits - 1), (1 << (bits - 1)) - 1, r.randint(0, hi), r.randint(0, hi)]) if bits > 0 else 0


def gen_block(r, level, valid=True):
    length = r.choice(BLOCK_BYTES[level])
    v = {}
    if level in (8, 9, 10):
        v["length"] = length
    for name, width in block_present_fields(level, length):
        if width < 0:
            x = edge(r, -width, True)
        else:
            x = edge(r, width)
        v[name] = x
    if level == 11:
        wp = v["whitepoint"]
        v["reference_mode_flag"] = wp > 15
        v["whitepoint"] = wp - 16 if wp > 15 else wp
        v = {"content_type": v["content_type"], "whitepoint": v["whitepoint"], "reference_mode_flag": v["reference_mode_flag"], "reserved_byte2": v["reserved_byte2"], "reserved_byte3": v["reserved_byte3"]}
    if valid:
        make_block_valid(r, level, v)
    return {"Level%d" % level: v}


def make_block_valid(r, level, v):
    if level in (1, 3, 4):
        pass
    if level == 2:
        if not (-1 <= v["ms_weight"] <= 4095):
            v["ms_weight"] = r.choice([-1, 0, 4095, r.randint(0, 4095)])
    if level == 6:
        for k in v:
            v[k] = min(v[k], 10000)
    if level == 9:
        if v["length"] > 1:
            v["source_primary_index"] = 255
            for k in v:
                if k.startswith("source_primary_") and k != "source_primary_index" and v[k] == 0:
                    v[k] = 1
        elif v["source_primary_index"] == 255:
            v["source_primary_index"] = r.randint(0, 8)
    if level == 10:
        while v["target_display_index"] in (1, 16, 18, 21, 27, 28, 37, 38, 42, 48, 49):
            v["target_display_index"] = r.randint(0, 255)
        if v["length"] > 5:
            v["target_primary_index"] = 255
            for k in v:
                if k.startswith("target_primary_") and k != "target_primary_index" and v[k] == 0:
                    v[k] = 1
        elif v["target_primary_index"] == 255:
            v["target_primary_index"] = r.randint(0, 8)
    if level == 11:
        v["content_type"] = min(v["content_type"], 15)
        v["whitepoint"] = min(v["whitepoint"], 15)
        v["reserved_byte2"] = 0
        v["reserved_byte3"] = 0


def gen_container(r, levels, limits, valid=True, need=None, sort=False):
    blocks = []
    for lv in levels:
        k = 0
        if lv == need:
            k = 1
        elif r.random() < 0.6:
            k = 1 if limits[lv] == 1 else r.randint(1, limits[lv])
        if not valid and r.random() < 0.15:
            k = limits[lv] + 1
        for _ in range(k):
            blocks.append(gen_block(r, lv, valid=valid or r.random() < 0.5))
    if not sort:
        r.shuffle(blocks)
    return {"num_ext_blocks": len(blocks), "ext_metadata_blocks": blocks}


def gen_coef_int(r):
    return r.choice([0, 1, -1, 2, -2, 63, -64, r.randint(-1000, 1000), r.randint(-(1 << 20), 1 << 20)])


def gen_tree(r, profile=None, valid=True, **opt):
    """random value tree; returns (tree, meta) where meta records the chosen dimensions"""
    profile = profile if profile is not None else r.choice([4, 5, 7, 7, 8, 8, 8, 0])
    cdt = opt.get("cdt", r.choice([0, 0, 0, 1]))
    denom = opt.get("denom", r.choice([23, 23, 0, 1, 7, 14, 22, r.randint(0, 23)])) if cdt == 0 else 0
    h = {
        "rpu_nal_prefix": 25, "rpu_type": 2, "rpu_format": r.choice([18, 18, 0, 1, 0x0FF & r.randint(0, 255)]),
        "vdr_rpu_profile": 1, "vdr_rpu_level": 0, "vdr_seq_info_present_flag": True,
        "chroma_resampling_explicit_filter_flag": r.random() < 0.2,
        "coefficient_data_type": cdt, "coefficient_log2_denom": denom, "coefficient_log2_denom_length": denom if cdt == 0 else 32,
        "vdr_rpu_normalized_idc": r.randint(0, 3), "bl_video_full_range_flag": r.random() < 0.3,
        "bl_bit_depth_minus8": 2, "el_bit_depth_minus8": 2,
        "ext_mapping_idc_0_4": r.choice([0, 0, 0, 1, 31, r.randint(0, 31)]), "ext_mapping_idc_5_7": r.choice([0, 0, 0, 1, 7]),
        "vdr_bit_depth_minus8": r.choice([4, 4, 0, 6, 2]), "spatial_resampling_filter_flag": r.random() < 0.2,
        "reserved_zero_3bits": r.choice([0, 0, 0, 0, 1]), "el_spatial_resampling_filter_flag": False, "disable_residual_flag": True,
        "vdr_dm_metadata_present_flag": r.random() < 0.85, "use_prev_vdr_rpu_flag": r.random() < 0.12, "prev_vdr_rpu_id": 0,
    }
    if profile == 5:
        h["vdr_rpu_profile"] = 0
        h["bl_video_full_range_flag"] = True
        h["el_spatial_resampling_filter_flag"] = r.random() < 0.3
    elif profile == 0:
        h["vdr_rpu_profile"] = r.choice([0, 2, 3, 15])
        if h["vdr_rpu_profile"] == 0:
            h["bl_video_full_range_flag"] = False
        h["el_spatial_resampling_filter_flag"] = r.random() < 0.5
        h["disable_residual_flag"] = r.random() < 0.5
    elif profile in (7, 4):
        h["el_spatial_resampling_filter_flag"] = True
        h["disable_residual_flag"] = False
        h["vdr_bit_depth_minus8"] = 4 if profile == 7 else r.choice([0, 2, 6])
    else:
        h["el_spatial_resampling_filter_flag"] = r.random() < 0.3
    if h["use_prev_vdr_rpu_flag"]:
        h["prev_vdr_rpu_id"] = r.choice([0, 1, 15, r.randint(0, 300)])
    clen = h["coefficient_log2_denom_length"]
    has_nlq = h["rpu_format"] & 0x700 == 0 and not h["disable_residual_flag"]
    tree = {"dovi_profile": profile, "header": h}
    meta = {"profile": profile, "cdt": cdt, "denom": denom, "use_prev": h["use_prev_vdr_rpu_flag"], "dm": h["vdr_dm_metadata_present_flag"]}
    if not h["use_prev_vdr_rpu_flag"]:
        curves = []
        for cmp_ in range(3):
            npm2 = r.choice([0, 0, 0, 1, 3, 7, r.randint(0, 7)])
            pivots = sorted(r.randint(0, 1023) for _ in range(npm2 + 2))
            method = opt.get("method", r.choice(["poly", "poly", "mmr"] if cmp_ == 0 else ["mmr", "mmr", "poly"]))
            pieces = [method] * (npm2 + 1)
            c = {"num_pivots_minus2": npm2, "pivots": pivots, "mapping_idc": "Polynomial" if method == "poly" else "MMR", "_pieces": pieces}
            if method == "poly":
                orders = [r.randint(0, 1) for _ in pieces]
                c["poly_order_minus1"] = orders
                c["linear_interp_flag"] = [False] * len(pieces)
                c["poly_coef_int"] = [[gen_coef_int(r) for _ in range(o + 2)] if cdt == 0 else [] for o in orders]
                c["poly_coef"] = [[edge(r, clen) for _ in range(o + 2)] for o in orders]
            else:
                orders = [r.randint(0, 2) for _ in pieces]
                c["mmr_order_minus1"] = orders
                c["mmr_constant_int"] = [gen_coef_int(r) for _ in pieces] if cdt == 0 else []
                c["mmr_constant"] = [edge(r, clen) for _ in pieces]
                c["mmr_coef_int"] = [[[gen_coef_int(r) for _ in range(7)] if cdt == 0 else [] for _ in range(o + 1)] for o in orders]
                c["mmr_coef"] = [[[edge(r, clen) for _ in range(7)] for _ in range(o + 1)] for o in orders]
            curves.append(c)
        m = {"vdr_rpu_id": r.choice([0, 0, 1, 15, 200]), "mapping_color_space": 0, "mapping_chroma_format_idc": 0,
             "num_x_partitions_minus1": r.choice([0, 0, 1, 7]), "num_y_partitions_minus1": r.choice([0, 0, 1, 7]), "curves": curves}
        if has_nlq:
            m["nlq_method_idc"] = "LinearDeadzone"
            m["nlq_num_pivots_minus2"] = 0
            a = r.choice([0, 0, 100, 512, 1023])
            m["nlq_pred_pivot_value"] = [a, 1023 - a] if (profile == 7 or r.random() < 0.7) else [r.randint(0, 1023), r.randint(0, 1023)]
            mel = opt.get("mel", r.random() < 0.4)
            if mel:
                q = {"nlq_offset": [0] * 3, "vdr_in_max_int": [1 if cdt == 0 else 0] * 3, "vdr_in_max": [0] * 3, "linear_deadzone_slope_int": [0] * 3,
                     "linear_deadzone_slope": [0] * 3, "linear_deadzone_threshold_int": [0] * 3, "linear_deadzone_threshold": [0] * 3}
            else:
                q = {"nlq_offset": [edge(r, 10) for _ in range(3)],
                     "vdr_in_max_int": [r.choice([0, 1, 2, 100]) if cdt == 0 else 0 for _ in range(3)], "vdr_in_max": [edge(r, clen) for _ in range(3)],
                     "linear_deadzone_slope_int": [r.choice([0, 1, 5]) if cdt == 0 else 0 for _ in range(3)], "linear_deadzone_slope": [edge(r, clen) for _ in range(3)],
                     "linear_deadzone_threshold_int": [r.choice([0, 1, 9]) if cdt == 0 else 0 for _ in range(3)], "linear_deadzone_threshold": [edge(r, clen) for _ in range(3)]}
            if mel and "mel" not in opt and cdt == 0 and r.random() < 0.4:
                # MEL identity except ONE element of one component: every field takes part in the MEL / FEL decision
                fld = r.choice(["nlq_offset", "vdr_in_max_int", "vdr_in_max", "linear_deadzone_slope_int", "linear_deadzone_slope", "linear_deadzone_threshold_int", "linear_deadzone_threshold"])
                cur = q[fld][0]
                q[fld] = list(q[fld])
                frac = fld in ("vdr_in_max", "linear_deadzone_slope", "linear_deadzone_threshold")
                cand = [0, 1, (1 << clen) - 1] if frac else [0, 1, 2, 7]
                cand = [v for v in cand if v != cur and (not frac or v < (1 << clen))]
                if cand:
                    q[fld][r.randrange(3)] = r.choice(cand)
            m["nlq"] = q
            is_mel = (q["nlq_offset"] == [0] * 3 and q["vdr_in_max_int"] == [1] * 3 and q["vdr_in_max"] == [0] * 3 and q["linear_deadzone_slope_int"] == [0] * 3
                      and q["linear_deadzone_slope"] == [0] * 3 and q["linear_deadzone_threshold_int"] == [0] * 3 and q["linear_deadzone_threshold"] == [0] * 3)
            tree["el_type"] = "MEL" if is_mel else "FEL"
        tree["rpu_data_mapping"] = m
    if h["vdr_dm_metadata_present_flag"]:
        compressed = h["reserved_zero_3bits"] == 1
        d = {"compressed": compressed, "affected_dm_metadata_id": r.choice([0, 0, 1, 15]), "current_dm_metadata_id": r.choice([0, 0, 1, 15, 400]), "scene_refresh_flag": r.choice([0, 1, 1, 0, 7])}
        for name, width in DM_FIELDS:
            d[name] = 0 if compressed else (edge(r, -width, True) if width < 0 else edge(r, width))
        if not compressed:
            d["signal_bit_depth"] = r.choice([8, 10, 12, 16])
            if d["signal_eotf_param0"] == 0 and d["signal_eotf_param1"] == 0 and d["signal_eotf_param2"] == 0:
                d["signal_eotf"] = 65535
        d["cmv29_metadata"] = gen_container(r, V29_LEVELS, V29_LIMITS, valid=valid, sort=r.random() < 0.5)
        if opt.get("cmv40", r.random() < 0.55):
            d["cmv40_metadata"] = gen_container(r, V40_LEVELS, V40_LIMITS, valid=valid, need=254, sort=r.random() < 0.5)
        tree["vdr_dm_data"] = d
    return tree, meta


def remaining_for(r, tree):
    """optional data before the CRC; only unambiguous when a CM v4.0 payload cannot be inferred from it"""
    d = tree.get("vdr_dm_data")
    if d is not None and "cmv40_metadata" not in d:
        # <= 6 bytes keep `available < 56` false for CM v4.0 parsing... the parser would read them as CM v4.0 otherwise
        n = r.choice([0, 0, 0, 1])
    else:
        n = r.choice([0, 0, 0, 1, 3, 8, 17])
    return [r.randint(0, 1) for _ in range(8 * n)]


def clean(tree):
    """value tree -> what the library's JSON should show (drop generator bookkeeping)"""
    import copy
    t = copy.deepcopy(tree)
    t = {k: t[k] for k in ("dovi_profile", "el_type", "header", "rpu_data_mapping", "vdr_dm_data", "remaining") if k in t}
    m = t.get("rpu_data_mapping")
    if m:
        for c in m["curves"]:
            c.pop("_pieces", None)
    return t
