"""Case streams shared by the RPU-level checks (C01 C02 C03 C04 C08 C12 C20)."""
import json, os
from . import common as C
from . import rpu as R
from . import rpugen as G

SC4 = bytes([0, 0, 0, 1])

# corpus: minimised past failures and hand-built witnesses; always run first
CORPUS = {
    # C01: data before the CRC equal to G(x)*x^7 after 3 alignment bits (CRC cannot see the shift)
    "c01-align-remaining": bytes.fromhex("19080908406136505882608edb80000000000000000000000000af231a5480"),
    # C01: el_bit_depth_minus8 coded with bits above bit 15, CRC equal to the CRC of the re-encoded (shorter) payload
    "c01-el-bit-depth-high-bits": bytes.fromhex("1908090840613000000000000ff4a6a8b000194160943f537f80"),
    # C03/C01: luma curve with a polynomial piece then an MMR piece
    "c03-mixed-method": bytes.fromhex("19080908406136504e800801ff801ffc00fffd000000800000220000020000020000020000020000020000020000020000034000002000001a0000010000007225a86380"),
}


def valid_trees(seed, n, salt="trees", **opt):
    r = C.rng(seed, salt)
    out = []
    for _ in range(n):
        t, meta = G.gen_tree(r, **opt)
        rem = G.remaining_for(r, t)
        if rem:
            t["remaining"] = rem
        tz = r.choice([0, 0, 0, 1, 2, 5, 0, 0, 1, 2, 5, 255, 256, 300, 1000])
        raw = G.encode(t, trailing_zeros=tz)
        meta["tz"] = tz
        meta["remaining"] = len(rem)
        out.append((t, raw, meta))
    return out


def prefixed(r, raw):
    """one of the accepted start-code / NAL-header prefixes (18/19 formats allow all of them)"""
    fmt_ok = raw[1:3] == b"\x08\x09"
    if not fmt_ok:
        return SC4 + raw
    return r.choice([SC4 + raw, b"\x00\x00\x01" + raw, b"\x00\x01" + raw, b"\x7c\x01" + raw, b"\x01" + raw, raw, raw])


def mutate(r, raw, repair=True):
    """1..4 byte/bit mutations of a raw RPU, CRC repaired (keeps the parser past the CRC check)"""
    b = bytearray(raw.rstrip(b"\x00"))
    tz = len(raw) - len(b)
    n = r.choice([1, 1, 2, 3, 4])
    for _ in range(n):
        k = r.randrange(1, max(2, len(b) - 5))
        if r.random() < 0.6:
            b[k] ^= 1 << r.randrange(8)
        else:
            b[k] = r.choice([0, 0xFF, 0x80, 1, r.randrange(256)])
    out = bytes(b) + b"\x00" * tz
    return R.fix_crc(out) if repair else out


def asset_cases():
    return [(k, v) for k, v in R.asset_rpus().items()]


def signature(meta, tree):
    """(profile, coefficient type, block-level multiset, flags) -- used to count distinct non-trivial cases"""
    d = tree.get("vdr_dm_data") or {}
    lv = []
    for c in ("cmv29_metadata", "cmv40_metadata"):
        for b in (d.get(c) or {}).get("ext_metadata_blocks", []):
            (k, v), = b.items()
            lv.append(k + (":%d" % v["length"] if "length" in v else ""))
    return (meta["profile"], meta["cdt"], meta["use_prev"], meta["dm"], meta["remaining"] > 0, meta["tz"] > 0, tuple(sorted(lv)))


def json_equal(a, b):
    """compare two `ok <json>` / `err` responses by parsed value"""
    if a.split(" ", 1)[0] != b.split(" ", 1)[0]:
        return False
    if a.startswith("ok ") and b.startswith("ok "):
        try:
            return json.loads(a[3:]) == json.loads(b[3:])
        except Exception:
            return a == b
    return a.split()[0] == b.split()[0]


def klass(x):
    """outcome class: ok | err | panic | abort | timeout"""
    return x.split(" ", 1)[0] if x else "empty"
