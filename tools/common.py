"""Shared machinery for ./check: builds, Coq obligations, line-protocol processes, evidence."""
import fcntl, hashlib, json, os, random, re, subprocess, sys, time

VERIF = os.path.dirname(os.path.dirname(os.path.abspath(__file__)))
REPO = os.environ.get("DOVI_REPO", "/repo")
BUILD = os.path.join(VERIF, ".build")
COQ = os.path.join(VERIF, "coq")
EVID = os.path.join(VERIF, "evidence")
REPLAY = os.path.join(EVID, "replay")
TMP = os.path.join(BUILD, "tmp")
DVH = os.path.join(BUILD, "target-dvh", "debug", "dvh")
DVH_REL = os.path.join(BUILD, "target-dvh", "release", "dvh")
DOVI = os.path.join(BUILD, "target-dovi", "debug", "dovi_tool")
DOVI_REL = os.path.join(BUILD, "target-dovi", "release", "dovi_tool")
MODEL = os.path.join(BUILD, "driver", "model_driver")
ASSETS = os.path.join(REPO, "assets")

ENV = dict(os.environ)
ENV.update({"CARGO_NET_OFFLINE": "true", "RUSTFLAGS": "--cfg dovi_tool_verif"})

FORBIDDEN = re.compile(r"\b(Admitted|admit|Axiom|Parameter|Conjecture|Hypothesis|Variable)\b|Unset Guard|bypass_check|type-in-type|impredicative-set|Admit Obligations")

# axioms of the standard library allowed per DESIGN.md section 7 (only reals / Interval files)
AXIOM_ALLOW = {
    "ClassicalDedekindReals.sig_not_dec",
    "ClassicalDedekindReals.sig_forall_dec",
    "FunctionalExtensionality.functional_extensionality_dep",
    "Classical_Prop.classic",
}
PRIM_PREFIXES = ("PrimInt63.", "PrimFloat.", "Uint63.", "FloatAxioms.", "Sint63.", "FloatOps.", "PrimArray.", "Float64", "Uint63Axioms.", "CarryType", "SpecFloat")


class Lock:
    def __init__(self, name):
        os.makedirs(BUILD, exist_ok=True)
        self.path = os.path.join(BUILD, name + ".lock")

    def __enter__(self):
        self.f = open(self.path, "w")
        fcntl.flock(self.f, fcntl.LOCK_EX)

    def __exit__(self, *a):
        fcntl.flock(self.f, fcntl.LOCK_UN)
        self.f.close()


def sh(cmd, cwd=None, env=None, timeout=None, check=False):
    p = subprocess.run(cmd, cwd=cwd, env=env or ENV, shell=isinstance(cmd, str), stdout=subprocess.PIPE, stderr=subprocess.STDOUT, timeout=timeout)
    out = p.stdout.decode(errors="replace")
    if check and p.returncode != 0:
        raise RuntimeError("command failed: %s\n%s" % (cmd, out[-4000:]))
    return p.returncode, out


# ------------------------------------------------------------------------------- builds
def build_harness(release=False):
    with Lock("cargo-dvh"):
        lock = os.path.join(VERIF, "harness", "Cargo.lock")
        if not os.path.exists(lock):
            sh(["cp", os.path.join(REPO, "Cargo.lock"), lock])
        env = dict(ENV)
        env["CARGO_TARGET_DIR"] = os.path.join(BUILD, "target-dvh")
        cmd = ["cargo", "build", "--offline"] + (["--release"] if release else [])
        rc, out = sh(cmd, cwd=os.path.join(VERIF, "harness"), env=env, timeout=1500)
        if rc != 0:
            # the lock file may be stale relative to /repo/Cargo.lock
            sh(["cp", os.path.join(REPO, "Cargo.lock"), lock])
            rc, out = sh(cmd, cwd=os.path.join(VERIF, "harness"), env=env, timeout=1500)
        return rc, out


def build_dovi(release=False):
    with Lock("cargo-dovi"):
        env = dict(ENV)
        env["CARGO_TARGET_DIR"] = os.path.join(BUILD, "target-dovi")
        cmd = ["cargo", "build", "--offline", "--bin", "dovi_tool"] + (["--release"] if release else [])
        return sh(cmd, cwd=REPO, env=env, timeout=2400)


def run_translator():
    with Lock("coq"):
        rc, out = sh([sys.executable, os.path.join(VERIF, "tools", "translate.py")], timeout=120)
    st = {"issues": {}}
    try:
        st = json.load(open(os.path.join(COQ, "gen", "translator_status.json")))
    except Exception as e:
        st = {"issues": {"translator": ["crashed: %s %s" % (e, out[-500:])]}}
    if rc != 0:
        st["issues"].setdefault("translator", []).append("exit %d: %s" % (rc, out[-500:]))
    return st


def coq_makefile():
    if not os.path.exists(os.path.join(COQ, "Makefile")) or os.path.getmtime(os.path.join(COQ, "Makefile")) < os.path.getmtime(os.path.join(COQ, "_CoqProject")):
        sh("coq_makefile -f _CoqProject -o Makefile", cwd=COQ, check=True)


def coq_make(target, timeout=1500, force=False):
    """make a .vo target; returns (ok, log)"""
    with Lock("coq"):
        coq_makefile()
        if force:
            try:
                os.remove(os.path.join(COQ, target))
            except FileNotFoundError:
                pass
        rc, out = sh(["make", "-j16", target], cwd=COQ, timeout=timeout)
        return rc == 0, out


def build_model():
    """extract (if needed) and build the OCaml driver; rebuilt only when model.ml changed"""
    ok, log = coq_make("extract/Extract.vo", timeout=1500)
    if not ok:
        return False, log
    with Lock("driver"):
        src = [os.path.join(VERIF, "driver", f) for f in ("model.ml", "model.mli", "util.ml", "json.ml", "seqops.ml", "streamops.ml", "editops.ml", "genops.ml", "xmlops.ml", "ops.ml", "main.ml")]
        h = hashlib.sha256()
        for f in src:
            h.update(open(f, "rb").read())
        stamp = os.path.join(BUILD, "driver", "stamp")
        cur = h.hexdigest()
        if os.path.exists(stamp) and open(stamp).read() == cur and os.path.exists(MODEL):
            return True, ""
        rc, out = sh(["bash", os.path.join(VERIF, "driver", "build.sh")], timeout=900)
        if rc == 0:
            open(stamp, "w").write(cur)
        return rc == 0, out


# ------------------------------------------------------------------------ Coq obligations
def cone_files(vfile):
    """transitive .v dependencies of a props file inside /verif/coq, via coqdep"""
    rc, out = sh("coqdep -f _CoqProject 2>/dev/null", cwd=COQ)
    deps = {}
    for line in out.splitlines():
        if ":" not in line:
            continue
        lhs, rhs = line.split(":", 1)
        tg = [t for t in lhs.split() if t.endswith(".vo")]
        if not tg:
            continue
        t = tg[0][:-1]  # .v
        deps[t] = [d[:-1] for d in rhs.split() if d.endswith(".vo")]
    seen, todo = set(), [vfile]
    while todo:
        f = todo.pop()
        if f in seen:
            continue
        seen.add(f)
        todo.extend(deps.get(f, []))
    return sorted(seen)


def count_obligations(files):
    n = 0
    names = []
    for f in files:
        try:
            src = open(os.path.join(COQ, f)).read()
        except FileNotFoundError:
            continue
        for m in re.finditer(r"^\s*(?:Local |Global )?(Lemma|Theorem|Corollary|Example|Fact|Remark|Proposition)\s+([A-Za-z0-9_']+)", src, flags=re.M):
            n += 1
            names.append(m.group(2))
    return n, names


def grep_forbidden(files):
    bad = []
    for f in files:
        try:
            src = open(os.path.join(COQ, f)).read()
        except FileNotFoundError:
            continue
        src_nc = re.sub(r"\(\*.*?\*\)", "", src, flags=re.S)
        for i, line in enumerate(src_nc.splitlines(), 1):
            m = FORBIDDEN.search(line)
            if m:
                # `Variable`/`Hypothesis` are allowed inside sections only; we use none at all
                bad.append("%s:%d: %s" % (f, i, line.strip()[:100]))
    return bad


def parse_assumptions(log):
    """returns list of axiom names printed by Print Assumptions in a coqc log"""
    ax = []
    in_ax = False
    for line in log.splitlines():
        if line.startswith("Axioms:"):
            in_ax = True
            continue
        if in_ax:
            m = re.match(r"^([A-Za-z0-9_.']+)\s*:", line)
            if m:
                ax.append(m.group(1))
            elif line.startswith("  ") or line.strip() == "":
                continue
            else:
                in_ax = False
    return ax


def coq_obligations(prop, timeout=1500):
    """compile props/<prop>.vo from the current gen files; returns a dict for the evidence and
    a list of broken-obligation descriptions (empty = all theorems re-checked)"""
    vfile = "props/%s.v" % prop
    res = {"checker_cmd": "make -C coq props/%s.vo (coqc 8.16.1, full .vo build) + Print Assumptions allow-list + grep Admitted/Axiom/..." % prop}
    broken = []
    t0 = time.time()
    ok, log = coq_make("props/%s.vo" % prop, timeout=timeout, force=True)
    files = cone_files(vfile)
    n, names = count_obligations(files)
    res["obligations"] = n
    res["cone_files"] = files
    if not ok:
        m = re.search(r'File "\./([^"]+)", line (\d+)', log)
        where = "%s:%s" % (m.group(1), m.group(2)) if m else "?"
        lemma = None
        if m:
            try:
                src = open(os.path.join(COQ, m.group(1))).read().splitlines()[: int(m.group(2))]
                for l in reversed(src):
                    mm = re.match(r"^\s*(?:Lemma|Theorem|Corollary|Example|Fact|Definition|Check)\s+([A-Za-z0-9_']+)", l)
                    if mm:
                        lemma = mm.group(1)
                        break
            except Exception:
                pass
        broken.append({"kind": "proof", "where": where, "lemma": lemma, "log": log[-1500:]})
        res["discharged"] = 0
    else:
        res["discharged"] = n
    bad = grep_forbidden(files)
    for b in bad:
        broken.append({"kind": "forbidden", "where": b})
    ax = parse_assumptions(log)
    extra = [a for a in ax if a not in AXIOM_ALLOW and not a.startswith(PRIM_PREFIXES)]
    res["axioms"] = sorted(set(ax))
    for a in extra:
        broken.append({"kind": "axiom", "where": a})
    res["coq_wall_s"] = round(time.time() - t0, 1)
    res["theorems"] = [x for x in names if x.startswith(prop)]
    return res, broken


# coqchk has no VM: a few modules whose proofs are large vm_compute evaluations take it more than
# 40 minutes (measured: the 32 Interval certificate files of C19, the whole-sample examples of
# C01 / C03).  For the properties listed here coqchk is run with -norec over every module of the
# property's cone except the named ones (which stay checked by coqc); library modules outside
# the project are then not re-checked by coqchk either.  All other properties get the default
# recursive re-check (project cone + every library it depends on).
COQCHK_SKIP = {
    "C01": ["DV.RpuRTExample"],
    "C03": ["DV.RpuRTExample", "DV.DmWSExample", "DV.RpuWSExample"],
    "C19": ["DVgen.PqCertAll"] + ["DVgen.PqCert_%02d" % i for i in range(64)],
}


def module_of(f):
    d, b = f.split("/")
    return {"theories": "DV", "gen": "DVgen", "props": "DVprops"}[d] + "." + b[:-2]


def coqchk(prop, timeout=3000):
    skip = COQCHK_SKIP.get(prop)
    if skip:
        mods = [module_of(f) for f in cone_files("props/%s.v" % prop)]
        args = " ".join("-norec %s" % m for m in mods if m not in skip)
        note = "\n(coqchk -norec over the %d project modules of the cone, not re-checked there: %s; see COQCHK_SKIP in tools/common.py)" % (len(mods), ", ".join(m for m in mods if m in skip))
    else:
        args = "DVprops.%s" % prop
        note = ""
    rc, out = sh("coqchk -o -silent %s -Q theories DV -Q gen DVgen -Q props DVprops" % args, cwd=COQ, timeout=timeout)
    return rc == 0, (out + note)[-3000:]


# ------------------------------------------------------------------ line-protocol process
class Proc:
    """batch interface to dvh / model_driver: send lines, get one response line per request.
    Survives a crash of the child (abort / kill): the request that killed it gets `abort`."""

    def __init__(self, argv, env=None, per_line_timeout=None):
        self.argv = argv
        self.env = env

    def run(self, lines, timeout=600):
        res = []
        i = 0
        n = len(lines)
        while i < n:
            data = ("\n".join(lines[i:]) + "\n").encode()
            try:
                p = subprocess.run(self.argv, input=data, stdout=subprocess.PIPE, stderr=subprocess.DEVNULL, env=self.env, timeout=timeout)
                out = p.stdout.decode(errors="replace").split("\n")
                rc = p.returncode
            except subprocess.TimeoutExpired as e:
                out = (e.stdout or b"").decode(errors="replace").split("\n")
                rc = "timeout"
            if out and out[-1] == "":
                out = out[:-1]
            got = out[: n - i]
            # a partial last line from a killed process is dropped
            res.extend(got)
            i += len(got)
            if i < n:
                # the child died while handling request i
                res.append("timeout" if rc == "timeout" else "abort")
                i += 1
        return res


def dvh(release=False, limit_as=None):
    argv = [DVH_REL if release else DVH]
    if limit_as:
        argv += ["--limits", str(limit_as)]
    return Proc(argv)


def model():
    # deep non-tail recursion on long bit lists needs a large stack
    return Proc(["bash", "-c", "ulimit -s unlimited 2>/dev/null || ulimit -s 1000000; exec %s" % MODEL])


def run_sharded(proc_factory, lines, shards=16, timeout=900):
    """run a batch across several processes in parallel, preserving order"""
    if len(lines) < 64:
        return proc_factory().run(lines, timeout)
    import concurrent.futures as cf

    k = (len(lines) + shards - 1) // shards
    parts = [lines[i : i + k] for i in range(0, len(lines), k)]
    with cf.ThreadPoolExecutor(max_workers=shards) as ex:
        outs = list(ex.map(lambda part: proc_factory().run(part, timeout), parts))
    res = []
    for o in outs:
        res.extend(o)
    return res


def hexs(b):
    return b.hex() if len(b) else "-"


def unhexs(s):
    return b"" if s == "-" else bytes.fromhex(s)


# ------------------------------------------------------------------------ known findings
def load_known(prop):
    path = os.path.join(VERIF, "known_findings.json")
    try:
        data = json.load(open(path))
    except FileNotFoundError:
        return []
    return [e for e in data.get("findings", []) if e.get("property") == prop and e.get("kind") == "known"]


# -------------------------------------------------------------------------------- result
class Result:
    def __init__(self, prop, tier, seed):
        self.prop, self.tier, self.seed = prop, tier, seed
        self.t0 = time.time()
        self.violations = []  # dicts: {what, replay(dict)}
        self.known_hits = []
        self.coverage = {}
        self.assumptions = []
        self.known = load_known(prop)

    def violation(self, what, replay, key=None):
        """record a violation unless it matches a known finding (by key)"""
        for k in self.known:
            if key is not None and key == k.get("match"):
                if k["match"] not in [h["match"] for h in self.known_hits]:
                    self.known_hits.append(k)
                return
        self.violations.append({"what": what, "replay": replay})

    def finish(self, level="proof"):
        os.makedirs(REPLAY, exist_ok=True)
        wall = round(time.time() - self.t0, 2)
        for k in self.known_hits:
            print("KNOWN-FINDING: property=%s %s" % (self.prop, k.get("what", k.get("match"))))
        paths = []
        for i, v in enumerate(self.violations[:20]):
            p = os.path.join(REPLAY, "%s-%d.json" % (self.prop, i))
            json.dump({"property": self.prop, "what": v["what"], "seed": self.seed, "tier": self.tier, "replay": v["replay"]}, open(p, "w"), indent=1)
            paths.append((p, v))
        ev = {
            "property_id": self.prop,
            "tier": self.tier,
            "seed": self.seed,
            "level": level,
            "coverage": self.coverage,
            "assumptions": self.assumptions,
            "wall_s": wall,
            "violations": len(self.violations),
        }
        os.makedirs(EVID, exist_ok=True)
        json.dump(ev, open(os.path.join(EVID, "%s.json" % self.prop), "w"), indent=1, default=str)
        for p, v in paths:
            tail = " no-failing-input-found" if v["replay"].get("no_failing_input") else ""
            print("VIOLATION property=%s replay=%s%s" % (self.prop, p, tail))
        if paths:
            for p, v in paths[:5]:
                print("  -> %s" % v["what"][:300])
            return 1
        print("OK property=%s tier=%s wall=%.1fs" % (self.prop, self.tier, wall))
        return 0


def rng(seed, salt=""):
    return random.Random("%s/%s" % (seed, salt))


def panic_class(x):
    """model `panic <site>` and implementation `panic <file:line>` agree as a class; which site it is, is C08's subject"""
    return "panic" if x.startswith("panic") else x


def third_party_key(o):
    """known-finding key of a panic inside a third-party crate (cargo registry path)"""
    return ("third-party:" + o.split("/src/")[-1]) if "/.cargo/registry/" in o else None


def diff_streams(res, name, cases, a, b, canon=panic_class, max_report=3, keyfn=None):
    """compare model and implementation answers case by case"""
    nd = 0
    for c, x, y in zip(cases, a, b):
        if canon(x) != canon(y):
            nd += 1
            if nd <= max_report:
                res.violation("correspondence %s: model and implementation disagree on `%s`: model=%s impl=%s" % (name, c[:200], x[:200], y[:200]),
                              {"stream": name, "case": c, "model": x, "impl": y}, key=keyfn(c, x, y) if keyfn else None)
    return nd


# --------------------------------------------------------------------- standard prelude
TRUSTED_BASE = [
    "Coq 8.16.1 kernel (coqc); vm_compute used for table/witness lemmas; no native_compute",
    "translator tools/translate.py (what it claims the Rust source says)",
    "extraction: ExtrOcamlBasic only, no Extract Constant; OCaml 4.13.1 compiler; driver/util.ml ops.ml main.ml glue",
    "correspondence harness: harness/ (dvh), tools/*.py generators and canonicalisation",
    "modelled, not verified: bitstream-io / bitvec_helpers primitives, crc crate, hevc_parser, serde rendering",
]


PQ_TABLE_USERS = ("C10", "C11", "C19")


def prelude(res, need_dovi=False, need_model=True, tables=(), release=False):
    """rebuild everything the check needs from /repo's working tree; returns broken obligations"""
    broken = []
    rc, out = build_harness()
    if rc != 0:
        raise RuntimeError("harness build failed:\n" + out[-3000:])
    if release or res.tier == "thorough":
        rc, out = build_harness(release=True)
        if rc != 0:
            raise RuntimeError("harness release build failed:\n" + out[-3000:])
    if need_dovi:
        rc, out = build_dovi()
        if rc != 0:
            raise RuntimeError("dovi_tool build failed:\n" + out[-3000:])
    st = run_translator()
    if res.prop in PQ_TABLE_USERS:
        # the PQ tables are generated from a run of the implementation: regenerate them from the current tree
        from . import pqgen
        with Lock("pqgen"):
            pqgen.write_gen(*pqgen.tables())
    for t, msgs in st.get("issues", {}).items():
        if not tables or t in tables or t == "translator":
            for m in msgs:
                broken.append({"kind": "translator", "where": t, "lemma": None, "log": m})
    ob, br = coq_obligations(res.prop)
    broken.extend(br)
    res.coverage.update({
        "obligations": ob["obligations"],
        "discharged": ob["discharged"] if not broken else min(ob["discharged"], max(0, ob["obligations"] - len(broken))),
        "checker_cmd": ob["checker_cmd"],
        "trusted_base": TRUSTED_BASE + ["axioms reported by Print Assumptions: %s" % (", ".join(ob["axioms"]) or "none (Closed under the global context)")],
        "theorems": ob["theorems"],
        "cone_files": ob["cone_files"],
        "coq_wall_s": ob["coq_wall_s"],
    })
    if need_model:
        ok, log = build_model()
        if not ok:
            broken.append({"kind": "model-build", "where": "extract/Extract.v or driver", "lemma": None, "log": log[-1500:]})
    if res.tier == "thorough" and not broken:
        ok, log = coqchk(res.prop)
        res.coverage["coqchk"] = log[-1200:]
        if not ok:
            broken.append({"kind": "coqchk", "where": res.prop, "lemma": None, "log": log})
    return broken


def conclude(res, broken):
    """a broken proof obligation with no concrete failing input is still a violation"""
    if broken and not res.violations:
        for b in broken[:3]:
            res.violation("obligation no longer checks (%s at %s, lemma %s): %s" % (b["kind"], b.get("where"), b.get("lemma"), (b.get("log") or "")[-400:]),
                          {"no_failing_input": True, "obligation": b})
    elif broken:
        res.coverage["broken_obligations"] = broken[:5]
