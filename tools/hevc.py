"""Annex-B HEVC stream builder for the command-level checks.  Parameter sets come from the repo's
own test stream (so that hevc_parser accepts the slices); slice headers are synthesised."""
import os
from . import common as C
from . import rpu as R

_ps = None


def param_sets():
    """(vps, sps, pps) NAL byte strings of assets/hevc_tests/regular_start_code_4.hevc"""
    global _ps
    if _ps is None:
        d = open(os.path.join(C.ASSETS, "hevc_tests", "regular_start_code_4.hevc"), "rb").read()
        n = R.split_annexb(d[:4000])
        _ps = tuple(next(x for x in n if (x[0] >> 1) & 0x3F == t) for t in (32, 33, 34))
    return _ps


def nal_header(ntype, layer=0, tid=0):
    v = (ntype << 9) | (layer << 3) | (tid + 1)
    return bytes([v >> 8, v & 0xFF])


def nal_type(nal):
    return (nal[0] >> 1) & 0x3F


AUD = nal_header(35) + b"\x10"          # pic_type 0, rbsp stop bit
EOS = nal_header(36)
EOB = nal_header(37)


def aud(pic_type=0):
    return nal_header(35) + bytes([(pic_type << 5) | 0x10])


def filler(r, n):
    """payload bytes that contain no zero byte (no emulation prevention needed, no start code)"""
    return bytes(r.randrange(0x21, 0xFF) for _ in range(n))


def slice_nal(r, ntype, first, poc_lsb, slice_type=1, size=40, layer=0):
    """slice NAL hevc_parser accepts with the asset SPS/PPS (log2_max_poc_lsb = 8, pps 0)"""
    bits = "1" if first else "0"
    if 16 <= ntype <= 23:
        bits += "0"                      # no_output_of_prior_pics_flag
    bits += "1"                          # ue(pps_id = 0)
    if not first:
        # asset PPS/SPS: 4 bits between pps_id and slice_type for a non-first slice (dependent flag +
        # 3 address bits, or 4 address bits; determined empirically against hevc_parser); all zero
        bits += "0" * 4
    st = slice_type + 1
    lz = st.bit_length() - 1
    bits += "0" * lz + format(st, "b")   # ue(slice_type)
    if ntype not in (19, 20):
        bits += format(poc_lsb & 0xFF, "08b")
    bits += "1"                          # keep the last header byte non-zero
    bits += "0" * (-len(bits) % 8)
    hdr = bytes(int(bits[i : i + 8], 2) for i in range(0, len(bits), 8))
    hdr = bytes(b if b != 0 else 0x80 for b in hdr[:-1]) + hdr[-1:] if False else hdr
    body = hdr + filler(r, max(0, size - 2 - len(hdr)))
    return nal_header(ntype, layer) + R.escape(body)


def sei_nal(messages, suffix=False):
    """SEI NAL from (payload_type, payload bytes) messages (FF-extension coding of type and size)"""
    out = bytearray()
    for pt, pl in messages:
        while pt >= 255:
            out.append(0xFF)
            pt -= 255
        out.append(pt)
        sz = len(pl)
        while sz >= 255:
            out.append(0xFF)
            sz -= 255
        out.append(sz)
        out += pl
    out.append(0x80)
    return nal_header(40 if suffix else 39) + R.escape(bytes(out))


def hdr10plus_payload(r, n=20):
    # itu_t_t35: country 0xB5, provider 0x003C, provider oriented 0x0001, application id 4, version 1
    return bytes([0xB5, 0x00, 0x3C, 0x00, 0x01, 0x04, 0x01]) + filler(r, n)


def el_wrap(inner_nal):
    """EL NAL carried in the dual-layer stream as UNSPEC63"""
    return nal_header(63) + inner_nal


def rpu_nal(raw):
    return b"\x7c\x01" + R.escape(raw)


def join(nals, sc_choice):
    """Annex-B byte stream; sc_choice(i, nal) -> 3 or 4, optional trailing zero bytes via tuple"""
    out = bytearray()
    for i, n in enumerate(nals):
        c = sc_choice(i, n)
        tz = 0
        if isinstance(c, tuple):
            c, tz = c
        out += (b"\x00\x00\x00\x01" if c == 4 else b"\x00\x00\x01") + n + b"\x00" * tz
    return bytes(out)


def seen_payloads(data):
    """NAL payloads as an Annex-B reader that attributes trailing zero bytes to the preceding NAL sees
    them: from after each 00 00 01 to the next one, minus the zero that makes the next start code
    4 bytes long (so `NAL 00 00 00 01` keeps one zero after a 3-byte... none: the zero belongs to
    the start code; `NAL 00 | 00 00 01` likewise gives the zero to the start code)"""
    offs = []
    i = data.find(b"\x00\x00\x01")
    while i >= 0:
        offs.append(i)
        i = data.find(b"\x00\x00\x01", i + 3)
    out = []
    for k, o in enumerate(offs):
        if k + 1 < len(offs):
            e = offs[k + 1]
            if data[e - 1] == 0:
                e -= 1
        else:
            e = len(data)
        out.append(bytes(data[o + 3 : e]))
    return out


def split(data):
    return R.split_annexb(data)
