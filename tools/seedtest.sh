#!/bin/bash
# usage: seedtest.sh <seeded-id> <property> [tier]  -- apply seeded/<id>/patch.diff to /repo, run the check, undo
id=$1; prop=$2; tier=${3:-quick}
cd /repo || exit 2
if ! git diff --quiet; then echo "repo dirty"; exit 2; fi
git apply /verif/seeded/$id/patch.diff || { echo "patch does not apply"; exit 2; }
cd /verif && ./check $prop --tier $tier > /tmp/seedtest_$id.out 2>&1; rc=$?
cd /repo && git checkout -- . 
echo "exit=$rc"; grep -c "^VIOLATION" /tmp/seedtest_$id.out; grep "^  ->" /tmp/seedtest_$id.out | cut -c1-220 | head -4
