"""C09 - the RPU editor applies exactly the configured edits to exactly the configured frames."""
import json, os
from .. import common as C
from .. import rpu as R
from .. import cli
from .. import rpucases as RC
from .. import opgen as OG

PRIMARIES = ["DCIP3D65", "BT709", "BT2020", "SMPTEC", "BT601", "DCIP3", "ACES", "SGamut", "SGamut3Cine"]
PRIM_ALIAS = {"DCI-P3 D65": 0, "BT.709": 1, "BT.2020": 2, "SMPTE-C": 3, "BT.601": 4, "DCI-P3": 5, "S-Gamut": 7, "S-Gamut-3.Cine": 8}


def usize(s):
    """str::parse::<usize>()"""
    t = s[1:] if s[:1] == "+" else s
    if t and t.isdigit() and t.isascii() and int(t) < 1 << 64:
        return int(t)
    return None


def hx(s):
    return s.encode().hex()


def gen_range(r, n, clean=False):
    """a range key: mostly valid, with every boundary shape"""
    k = r.random() * (0.70 if clean else 1.0)
    if k < 0.55:
        a = r.randrange(n)
        b = r.randrange(a, n)
        return "%d-%d" % (a, b)
    if k < 0.63:
        a = r.randrange(n)
        return "%d-%d" % (a, a)
    if k < 0.70:
        return "%d-%d" % (r.randrange(n), n - 1)
    if k < 0.76:
        return "%d-%d" % (r.randrange(n + 1), n)              # end = N
    if k < 0.82:
        b = r.randrange(n)
        return "%d-%d" % (b + r.choice([1, 1, 2, 5]), b)      # start > end
    if k < 0.86:
        return "%d-%d" % (r.randrange(n), n + r.choice([1, 7, 1000]))
    return r.choice(["%d-" % r.randrange(n + 2), "-%d" % r.randrange(n + 2), "x-y", "+0-+%d" % (n - 1), "0-%d-99" % (n - 1), "1", "all-1", " 0-0", "0-0 ", "99999999999999999999-0", "0-18446744073709551616"])


def block_kv(level, vals):
    return "%d:%d:%s" % (level, {6: 8, 11: 4, 255: 6}[level], ",".join("%s=%d" % kv for kv in vals))


def focused_config(r, n, levels_only=False):
    """valid configs that combine sections whose interplay is index arithmetic: frames removed in front of / inside
    ranged scene cuts and active-area edits (ranges are positions in the ORIGINAL list), presets whose ids are not
    their positions, duplicates whose source lies behind their offset with length >= 2"""
    cfg, mp = {}, []
    if levels_only:
        # source levels alone, at and beyond the 12-bit bound: a value that cannot be written is an error of the command
        for nm, key, vals in (("min_pq", "minpq", [0, 7, 4095, 4096]), ("max_pq", "maxpq", [4095, 4096, 5000, 65535, 3079])):
            if r.random() < 0.8:
                cfg[nm] = r.choice(vals)
                mp.append("%s@%d" % (key, cfg[nm]))
        return cfg, "/".join(mp) or "-", "-", True
    a = r.randrange(0, max(1, n - 2))
    if r.random() < 0.8:
        rm = [str(a)] if r.random() < 0.5 else ["%d-%d" % (a, min(n - 1, a + r.choice([0, 1, 2])))]
        if r.random() < 0.3:
            rm.append(str(r.randrange(n)))
        cfg["remove"] = rm
        mp.append("remove@" + ",".join(hx(x) for x in rm))
    if r.random() < 0.7:
        ids = r.sample(range(0, 6), r.choice([2, 3]))
        ps = [{"id": i, "left": r.choice([0, 10, 20]), "right": r.choice([0, 10]), "top": r.choice([0, 138, 276]) + k, "bottom": r.choice([0, 138, 276])} for k, i in enumerate(ids)]
        ed = {}
        for _ in range(r.choice([1, 2, 3])):
            s0 = r.randrange(n)
            ed["%d-%d" % (s0, r.randrange(s0, n))] = r.choice(ids)
        cfg["active_area"] = {"presets": ps, "edits": ed}
        mp += ["aa", "presets@" + ",".join("%d:%d:%d:%d:%d" % (p["id"], p["left"], p["right"], p["top"], p["bottom"]) for p in ps), "edits@" + ",".join("%s:%d" % (hx(k), ed[k]) for k in ed)]
    if r.random() < 0.8:
        sc = {}
        for _ in range(r.choice([1, 2, 3])):
            s0 = r.randrange(n)
            sc["%d-%d" % (s0, r.randrange(s0, n))] = r.random() < 0.6
        cfg["scene_cuts"] = sc
        mp.append("cuts@" + ",".join("%s:%d" % (hx(k), 1 if sc[k] else 0) for k in sc))
    if r.random() < 0.5 and n >= 3:
        off = r.randrange(0, n - 1)
        ds = [{"source": r.randrange(off + 1, n), "offset": off, "length": r.choice([2, 3])}]
        cfg["duplicate"] = ds
        mp.append("dups@" + ",".join("%d:%d:%d" % (d["source"], d["offset"], d["length"]) for d in ds))
    return cfg, "/".join(mp) or "-", "-", False


def gen_config(r, n, pool, w, clean=False):
    if r.random() < 0.06:
        return focused_config(r, n, levels_only=True)
    if n >= 3 and r.random() < 0.25:
        return focused_config(r, n)
    cfg, mp = {}, []
    src = "-"
    heavy = r.random() < 0.55          # per-frame operations present
    if heavy and r.random() < 0.4:
        cfg["mode"] = r.choice([0, 1, 2, 3, 4, 5, 5, 2, 6, 255]) if not clean else r.choice([0, 2, 2, 3, 5])
        mp.append("mode@%d" % cfg["mode"])
    if heavy and r.random() < 0.25:
        cfg["remove_cmv4"] = r.choice([True, True, False])
        if cfg["remove_cmv4"]:
            mp.append("rmcmv4")
    if heavy and r.random() < 0.2:
        cfg["remove_mapping"] = True
        mp.append("rmmap")
    if heavy and r.random() < 0.3:
        for nm, key in (("min_pq", "minpq"), ("max_pq", "maxpq")):
            if r.random() < 0.7:
                cfg[nm] = r.choice([0, 7, 62, 3079, 4095, 4096, 65535, r.randrange(4096)])
                mp.append("%s@%d" % (key, cfg[nm]))
    if r.random() < 0.6:
        aa = {}
        mp.append("aa")
        if heavy and r.random() < 0.25:
            aa["crop"] = True
            mp.append("crop")
        if heavy and r.random() < 0.25:
            aa["drop_l5"] = r.choice(["all", "zeroes", "ALL", "Zeroes", "none", ""])
            mp.append("dropl5@" + hx(aa["drop_l5"]))
        if r.random() < 0.85:
            ps = []
            for i in range(r.choice([0, 1, 2, 3]) if not clean else r.choice([1, 2, 3])):
                ps.append({"id": r.choice([i, i, 1, 7]) if not clean else i, "left": r.choice([0, 0, 10, 8191, 8192, 65535]) if not clean else r.choice([0, 10, 8191]), "right": r.choice([0, 0, 10, 276]),
                           "top": r.choice([0, 138, 276, 4000]), "bottom": r.choice([0, 138, 276])})
            aa["presets"] = ps
            mp.append("presets@" + ",".join("%d:%d:%d:%d:%d" % (p["id"], p["left"], p["right"], p["top"], p["bottom"]) for p in ps))
        if r.random() < 0.85:
            ed = {}
            for _ in range(r.choice([0, 1, 1, 2, 3, 5])):
                key = gen_range(r, n, clean) if (not heavy or r.random() < 0.75) else r.choice(["all", "ALL", "All"])
                ed[key] = r.choice([0, 1, 1, 2, 7, 9]) if not (clean and aa.get("presets")) else r.choice(aa["presets"])["id"]
            aa["edits"] = ed
            mp.append("edits@" + ",".join("%s:%d" % (hx(k), ed[k]) for k in ed))
        cfg["active_area"] = aa
    if r.random() < 0.35:
        rm = []
        for _ in range(r.choice([1, 1, 2, 3])):
            k = r.random()
            rm.append(gen_range(r, n, clean) if k < 0.5 else str(r.choice([0, n - 1, n, r.randrange(n), n + 5]) if not clean else r.randrange(n)) if k < 0.9 else r.choice(["x", "", "+1", "1.5"]))
        if r.random() < 0.05:
            rm = ["0-%d" % (n - 1)]          # remove everything
        cfg["remove"] = rm
        mp.append("remove@" + ",".join(hx(x) for x in rm))
    if r.random() < 0.3:
        ds = []
        for _ in range(r.choice([1, 1, 2, 3])):
            ds.append({"source": r.choice([0, n - 1, n, r.randrange(n)]) if not clean else r.randrange(n), "offset": r.choice([0, n, n + 1, n + 2, r.randrange(n + 1)]) if not clean else r.choice([0, 0, 1, r.randrange(n + 1)]), "length": r.choice([0, 1, 1, 2, 3])})
        if len(ds) > 1 and r.random() < 0.4:
            # several entries inserted at one offset (from different sources): their relative order is the config's
            for d in ds[1:]:
                d["offset"] = ds[0]["offset"]
        cfg["duplicate"] = ds
        mp.append("dups@" + ",".join("%d:%d:%d" % (d["source"], d["offset"], d["length"]) for d in ds))
    if r.random() < 0.45:
        sc = {}
        for _ in range(r.choice([1, 1, 2, 3, 5])):
            key = gen_range(r, n, clean) if (not heavy or r.random() < 0.7) else r.choice(["all", "ALL", "aLl"])
            sc[key] = r.random() < 0.5
        cfg["scene_cuts"] = sc
        mp.append("cuts@" + ",".join("%s:%d" % (hx(k), 1 if sc[k] else 0) for k in sc))
    if heavy and r.random() < 0.25:
        v = {"max_display_mastering_luminance": r.choice([1000, 4000, 10000, 10001, 20000, 600]), "min_display_mastering_luminance": r.choice([1, 50, 10, 10001, 0]),
             "max_content_light_level": r.choice([0, 1000, 10000, 10001]), "max_frame_average_light_level": r.choice([0, 400, 10001])}
        if clean:
            v = {"max_display_mastering_luminance": r.choice([1000, 4000, 600]), "min_display_mastering_luminance": r.choice([1, 50, 10]),
                 "max_content_light_level": r.choice([0, 1000]), "max_frame_average_light_level": r.choice([0, 400])}
        cfg["level6"] = v
        mp.append("l6@" + block_kv(6, v.items()))
    if heavy and r.random() < 0.2:
        nm = r.choice(PRIMARIES + list(PRIM_ALIAS))
        cfg["level9"] = nm
        mp.append("l9@%d" % (PRIMARIES.index(nm) if nm in PRIMARIES else PRIM_ALIAS[nm]))
    if heavy and r.random() < 0.2:
        v = {"content_type": r.choice([0, 1, 2, 4, 15, 16]) if not clean else r.choice([1, 2, 4]), "whitepoint": r.choice([0, 5, 15, 16]) if not clean else r.choice([0, 5]), "reference_mode_flag": r.random() < 0.5}
        cfg["level11"] = v
        mp.append("l11@" + block_kv(11, [("content_type", v["content_type"]), ("whitepoint", v["whitepoint"]), ("reference_mode_flag", 1 if v["reference_mode_flag"] else 0)]))
    if heavy and r.random() < 0.15:
        v = {"dm_run_mode": r.choice([0, 1, 255]), "dm_run_version": r.choice([0, 3]), "dm_debug0": r.randrange(256)}
        cfg["level255"] = v
        mp.append("l255@" + block_kv(255, v.items()))
    src_rpus = None
    if r.random() < 0.3:
        ns = r.choice([n, n, n, n - 1, n + 1]) if not clean else n
        src_rpus = [r.choice(pool) for _ in range(max(0, ns))]
        p = w.write("src.bin", b"".join(b"\x00\x00\x00\x01" + R.escape(x) for x in src_rpus))
        if r.random() < 0.06 and not clean:
            p = w.path("missing.bin")
            src_rpus = "err"
        cfg["source_rpu"] = p
        if r.random() < 0.9 or clean:
            lv = r.sample(OG.ALL_LEVELS, r.randint(0 if not clean else 1, 3)) if r.random() < 0.9 or clean else []
            # levels that other configured operations also write: the pass order decides who wins
            for key, level in (("active_area", 5), ("level6", 6), ("level9", 9), ("level11", 11), ("level255", 255)):
                if key in cfg and level not in lv and r.random() < 0.7:
                    lv.append(level)
            cfg["rpu_levels"] = lv
            mp.append("levels@" + ",".join(map(str, lv)))
        src = "err" if src_rpus == "err" else (",".join((b"\x7c\x01" + R.escape(x)).hex() for x in src_rpus) or "err")
        if src_rpus == []:
            src = "err"          # an empty file does not parse
    return cfg, "/".join(mp) or "-", src, heavy


def ranges_of(cfg, n):
    """frames possibly covered by a range key of a list-wide pass, read the way the editor reads a key
    (range_string_to_tuple: the two parts before / after the first '-', a part that is not a number counts as 0),
    clamped to the list: a superset is fine, the oracle only looks at frames outside every range"""
    def num(x):
        x = x.strip()
        if x.startswith("+"):
            x = x[1:]
        return int(x) if x.isdigit() else 0
    cov = set()
    for m in ((cfg.get("scene_cuts") or {}), ((cfg.get("active_area") or {}).get("edits") or {})):
        for k in m:
            if "-" not in k:
                continue
            parts = k.split("-")
            a, b = num(parts[0]), num(parts[1])
            cov.update(range(max(0, min(a, n)), min(b, n - 1) + 1))
    return cov


def run(res):
    broken = C.prelude(res, need_dovi=True, tables=("Blocks_gen", "Switches_gen", "Modes_gen", "DmData_gen", "PqUsers_gen"))
    r = C.rng(res.seed, "c09")
    w = cli.Work("c09")
    trees = RC.valid_trees(res.seed, 120, "c09")
    okl = C.dvh().run(["parseclass rpu " + (RC.SC4 + raw).hex() for t, raw, m in trees])
    pool = [raw.rstrip(b"\x00") for (t, raw, m), ok in zip(trees, okl) if ok == "ok" and raw[:3] == bytes([0x19, 8, 9])]
    pool += [v.rstrip(b"\x00") for k, v in RC.asset_cases() if v[:3] == bytes([0x19, 8, 9])]
    # frames whose L5 has exactly one non-zero offset, a zero L5, or none (drop_l5 "zeroes" looks at all four fields)
    from . import c16 as C16
    from .. import rpugen as G
    extra = []
    for (t, raw, m), ok in list(zip(trees, okl))[:40]:
        if ok != "ok" or raw[:3] != bytes([0x19, 8, 9]) or t.get("vdr_dm_data") is None or not t["vdr_dm_data"].get("cmv29_metadata"):
            continue
        key = r.choice([(0, 0, 0, 0), (7, 0, 0, 0), (0, 9, 0, 0), (0, 0, 11, 0), (0, 0, 0, 13), (0, 0, 0, 140), None])
        C16.set_l5(t, key)
        extra.append(G.encode(t).rstrip(b"\x00"))
    l5_pool = []
    if extra:
        oke = C.dvh().run(["parseclass rpu " + (RC.SC4 + x).hex() for x in extra])
        l5_pool = [x for x, o in zip(extra, oke) if o == "ok"]
        pool += l5_pool
    ncase = 150 if res.tier == "quick" else 2500
    nrun = 0
    stats = {"ok": 0, "err": 0, "removed": 0, "dups": 0, "source": 0, "untouched_checked": 0}
    for k in range(ncase):
        n = r.choice([1, 1, 2, 3, 4, 6, 9, 15])
        rpus = [r.choice(pool) for _ in range(n)]
        if r.random() < 0.3:
            rpus = [rpus[0]] * n if r.random() < 0.5 else rpus
        cfg, mcfg, src, heavy = gen_config(r, n, pool, w, clean=r.random() < 0.7)
        if l5_pool and r.random() < 0.12:
            # drop_l5 on frames whose L5 has one non-zero field / is zero / is absent, alone or with an `all` preset
            rpus = [r.choice(l5_pool) for _ in range(n)]
            mode = r.choice(["zeroes", "zeroes", "all", "Zeroes"])
            aa = {"drop_l5": mode}
            parts = ["aa", "dropl5@" + hx(mode)]
            if r.random() < 0.3:
                aa["presets"] = [{"id": 3, "left": 1, "right": 2, "top": 3, "bottom": 4}]
                aa["edits"] = {"all": 3}
                parts += ["presets@3:1:2:3:4", "edits@%s:3" % hx("all")]
            cfg, mcfg, src, heavy = {"active_area": aa}, "/".join(parts), "-", True
        inp = w.write("in.bin", b"".join(b"\x00\x00\x00\x01" + R.escape(x) for x in rpus))
        cj = w.write("cfg.json", json.dumps(cfg).encode())
        outp = w.path("out.bin")
        if os.path.exists(outp):
            os.remove(outp)
        ec, txt = cli.run(["editor", "-i", inp, "-j", cj, "-o", outp], w.dir)
        nrun += 1
        rp = {"config": cfg, "model_config": mcfg, "rpus": [x.hex() for x in rpus], "source": src if len(src) < 100000 else "(large)"}
        if ec not in ("0", "1"):
            res.violation("editor crashed (%s): %s" % (ec, next((l for l in txt.split("\n") if "panicked" in l), "")[:160]), rp)
            continue
        m = C.model().run(["edit %s %s %s" % (mcfg, ",".join((b"\x7c\x01" + R.escape(x)).hex() for x in rpus), src)])[0]
        if m.startswith("modelfail"):
            raise RuntimeError("model failure: " + m)
        if not m.startswith("ok"):
            stats["err"] += 1
            if ec == "0":
                res.violation("editor exits 0 where the model reports an error (%s) for config %s" % (m[:20], json.dumps(cfg)[:200]), rp)
            continue
        stats["ok"] += 1
        if ec != "0":
            res.violation("editor exits 1 (%s) where the model succeeds, config %s" % (txt.split("Stack backtrace")[0][-160:].replace("\n", " "), json.dumps(cfg)[:200]), rp)
            continue
        got = [x.rstrip(b"\x00") for x in R.read_rpu_file_raw(outp)] if os.path.exists(outp) and os.path.getsize(outp) else []
        exp = [R.unescape(C.unhexs(x))[2:].rstrip(b"\x00") for x in m[3:].split(",")] if m != "ok -" else []
        if got != exp:
            kk = next((i for i, (a, b) in enumerate(zip(got, exp)) if a != b), min(len(got), len(exp)))
            res.violation("editor output differs from the model at frame %d (%d written, %d expected), config %s" % (kk, len(got), len(exp), json.dumps(cfg)[:240]), rp)
            continue
        # ---- direct accounting: length = input - removed + duplicated
        removed = set()
        for e in cfg.get("remove", []):
            if "-" in e:
                a, b = (usize(x) or 0 for x in e.split("-")[:2])
                removed.update(range(a, b + 1))
            elif usize(e) is not None:
                removed.add(usize(e))
        dup = sum(d["length"] for d in cfg.get("duplicate", []))
        stats["removed"] += len(removed)
        stats["dups"] += dup
        stats["source"] += 1 if "source_rpu" in cfg else 0
        if len(got) != n - len(removed) + dup:
            res.violation("editor wrote %d frames for %d input - %d removed + %d duplicated" % (len(got), n, len(removed), dup), rp)
            continue
        # ---- frames outside every range are byte-identical when there is no per-frame operation
        if not heavy and "duplicate" not in cfg and "source_rpu" not in cfg:
            cov = ranges_of(cfg, n)
            remaining = [i for i in range(n) if i not in removed]
            for pos, i in enumerate(remaining):
                if i not in cov:
                    stats["untouched_checked"] += 1
                    if got[pos] != rpus[i]:
                        res.violation("frame %d lies outside every configured range but was changed" % i, rp)
                        break
    res.coverage.update({
        "evaluations": nrun * 2,
        "distinct_nontrivial": ncase,
        "rule": "RPU lists of 1..15 frames drawn from generated valid RPUs (mixed profiles, with/without CM v4.0, with/without L5, MMR/polynomial/NLQ) and the repository's sample RPUs x editor configs generated field by field: mode 0..6/255, remove_cmv4, remove_mapping, min/max PQ, active_area {crop, drop_l5, presets with duplicate / unknown ids, edits with `all` and range keys}, remove (ranges, indices, junk), duplicate (source/offset at and past the bounds, several entries incl. entries sharing one offset with different sources, length 0..3), scene_cuts (all / ranges, overlapping), level6/9/11/255, source_rpu of equal / different length / missing file with and without rpu_levels; frames whose L5 has exactly one non-zero offset under drop_l5; a quarter of the configs focused on index arithmetic (frames removed in front of / inside ranged scene cuts and edits, preset ids different from their positions, duplicates with the source behind the offset and length >= 2); range keys at every shape: start=end, end=N-1, end=N, start>end, far past the end, half-empty, non-numeric, `+`-prefixed, three-part; exit status and output bytes compared with the Coq editor model; length accounting and byte-identity of frames outside every range checked directly",
        "cli_runs": nrun, "outcomes": stats,
    })
    res.assumptions += ["JSON deserialisation of the config (serde) is not modelled: the model receives the typed configuration the generator built",
                        "docs/editor.md is ambiguous about source_rpu after remove; the model follows the code (source list as long as the original list, i-th remaining frame paired with source frame i)"]
    C.conclude(res, broken)


def replay(rp):
    r = rp["replay"]
    print(json.dumps(r["config"]))
    print(C.model().run(["edit %s %s %s" % (r["model_config"], ",".join((b"\x7c\x01" + R.escape(bytes.fromhex(x))).hex() for x in r["rpus"]), r["source"])])[0][:300])
    return 0
