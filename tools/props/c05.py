"""C05 - HEVC pass-through commands neither lose, alter nor reorder NAL units."""
import json, os
from .. import common as C
from .. import rpu as R
from .. import hevc as H
from .. import cli
from .. import streamgen as S
from .. import rpucases as RC

CLI_MODE = {None: None, 0: 0, 1: 1, 2: 2, 3: 2, 4: 3, 5: 4}   # `-m n` -> ConversionMode discriminant


def split_with_sc(data):
    """[(start code length, nal bytes)] of an Annex-B file (trailing zero bytes of a NAL dropped)"""
    out = []
    nals = R.split_annexb(data)
    # recover start-code lengths
    i = 0
    pos = 0
    n = len(data)
    starts = []
    while i + 2 < n:
        if data[i] == 0 and data[i + 1] == 0 and data[i + 2] == 1:
            starts.append(i)
            i += 3
        else:
            i += 1
    for s, nal in zip(starts, nals):
        out.append((4 if s > 0 and data[s - 1] == 0 else 3, nal))
    if starts and starts[0] == 0:
        out[0] = (3, out[0][1])
    return out


def model_line(cfg, opts, nals, data=None):
    """`data` = the stream bytes: RPU NALs are given to the model with the trailing zero bytes the
    implementation's NAL splitter attributes to them (they count toward the 25-byte minimum)"""
    o = "m=%s,crop=%d,discard=%d,drop=%d,annexb=%d" % ("-" if opts.get("mode") is None else CLI_MODE[opts["mode"]], opts.get("crop", 0), opts.get("discard", 0), opts.get("drop", 0), opts.get("annexb", 0))
    seen = H.seen_payloads(data) if data is not None else None
    if seen is not None and len(seen) != len(nals):
        seen = None
    parts = []
    for i, n in enumerate(nals):
        if seen is not None and n.type == 62 and seen[i].rstrip(b"\x00") == n.data.rstrip(b"\x00"):
            parts.append(n.model(seen[i]))
        else:
            parts.append(n.model())
    return "route %s %s %s" % (cfg, o, ";".join(parts))


def parse_model(out):
    """ok main=.. el=.. rpu=.. -> dict of lists"""
    if not out.startswith("ok "):
        return None
    d = {}
    for part in out[3:].split(" "):
        k, v = part.split("=", 1)
        if v == "-":
            d[k] = []
        elif k == "rpu":
            d[k] = [bytes.fromhex(x) for x in v.split(",")]
        else:
            d[k] = [(int(x.split(":")[0]), C.unhexs(x.split(":")[1])) for x in v.split(",")]
    return d


def cli_args(cmd, opts, inp, w):
    g = []
    if opts.get("mode") is not None:
        g += ["-m", str(opts["mode"])]
    if opts.get("crop"):
        g += ["--crop"]
    if opts.get("drop"):
        g += ["--drop-hdr10plus"]
    if opts.get("annexb"):
        g += ["--start-code", "annex-b"]
    if cmd == "convert":
        a = g + ["convert", inp, "-o", w.path("out.hevc")] + (["--discard"] if opts.get("discard") else [])
        outs = {"main": "out.hevc"}
    elif cmd == "demux":
        a = g + ["demux", inp, "--bl-out", w.path("BL.hevc"), "--el-out", w.path("EL.hevc")]
        outs = {"main": "BL.hevc", "el": "EL.hevc"}
    elif cmd == "demuxel":
        a = g + ["demux", inp, "--el-only", "--el-out", w.path("EL.hevc"), "--bl-out", w.path("BL.hevc")]
        outs = {"el": "EL.hevc"}
    elif cmd == "remove":
        a = g + ["remove", inp, "-o", w.path("BL.hevc")]
        outs = {"main": "BL.hevc"}
    else:
        raise ValueError(cmd)
    return a, outs


CFG = {"convert": "single", "demux": "demux", "demuxel": "demuxel", "remove": "remove"}


OUTCOMES = {}


def compare(res, label, cmd, opts, nals, data, ec, files, mo, replay_extra):
    """compare CLI outputs with the model's prediction at the (type, payload) level"""
    OUTCOMES[ec] = OUTCOMES.get(ec, 0) + 1
    rp = dict({"cmd": cmd, "opts": opts, "stream_hex": data.hex() if len(data) < 400000 else "(large)", "nals": [n.model() for n in nals] if len(data) < 400000 else []}, **replay_extra)
    if mo is None:
        if ec == "0":
            res.violation("%s: the model predicts an error, the command exits 0 (%s)" % (cmd, label), rp)
        elif ec != "1":
            res.violation("%s crashed (%s) on %s" % (cmd, ec, label), rp)
        return
    if ec != "0":
        res.violation("%s exits %s, the model predicts success (%s)" % (cmd, ec, label), rp)
        return
    for key, fdata in files.items():
        got = split_with_sc(fdata or b"")
        exp = mo.get(key, [])
        # trailing zero bytes are not attributed to a NAL by Annex B
        gp = [x[1].rstrip(b"\x00") for x in got]
        ep = [x[1].rstrip(b"\x00") for x in exp]
        if gp != ep:
            k = next((i for i, (a, b) in enumerate(zip(gp, ep)) if a != b), min(len(gp), len(ep)))
            res.violation("%s %s: output `%s` differs from the routing spec at NAL %d (%d written, %d expected) (%s)" % (cmd, json.dumps(opts), key, k, len(gp), len(ep), label), rp)
            return
        if not opts.get("annexb"):
            if any(sc != 4 for sc, _ in got[1:]) or (got and got[0][0] not in (3, 4)):
                res.violation("%s: a start code is not 4 bytes with --start-code four (%s)" % (cmd, label), rp)
        else:
            for (sc, nalb), (esc, _) in list(zip(got, exp))[1:]:
                t = (nalb[0] >> 1) & 0x3F
                if t in (32, 33, 34, 35, 62) and sc != 4:
                    res.violation("%s: annex-b preset wrote a 3-byte start code for NAL type %d (%s)" % (cmd, t, label), rp)
                    break


def run(res):
    broken = C.prelude(res, need_dovi=True, tables=("Blocks_gen", "Switches_gen", "Modes_gen"))
    r = C.rng(res.seed, "c05")
    w = cli.Work("c05")
    trees = RC.valid_trees(res.seed, 60, "c05", profile=7)
    okl = C.dvh().run(["parseclass rpu " + (RC.SC4 + raw).hex() for t, raw, m in trees])
    pool = [raw.rstrip(b"\x00") for (t, raw, m), o in zip(trees, okl) if o == "ok" and raw[:3] == bytes([0x19, 8, 9])] + [v for k, v in RC.asset_cases() if k.startswith(("fel", "mel", "profile8", "profile5"))]
    # (the NAL form accepted by the HEVC commands requires the 19 08 09 prefix; other formats only make every conversion fail)
    ncase = 150 if res.tier == "quick" else 1500
    cases = []
    for k in range(ncase):
        nfr = r.choice([1, 2, 3, 5, 9, 14, 14])
        el = r.random() < 0.75
        frames = S.gen_frames(r, nfr, el=el, rpu_pool=pool if r.random() < 0.7 else None, big=r.choice([0, 0, 4000]))
        nals = S.flatten(frames)
        data = S.stream_bytes(r, nals, sc=r.choice(["mixed", "four", "three"]))
        cmd = r.choice(["convert", "convert", "demux", "demuxel", "remove"])
        opts = {}
        if r.random() < 0.5:
            opts["mode"] = r.choice([0, 1, 2, 3, 4, 5])
        if cmd == "convert" and r.random() < 0.5:
            opts["discard"] = 1
        if r.random() < 0.2:
            opts["crop"] = 1
            if opts.get("mode") is None:
                opts["mode"] = 0
        if r.random() < 0.3:
            opts["annexb"] = 1
        cs = r.choice([None, 1000, 2000, 5000, 10000]) if len(data) > 3000 else r.choice([None, 100, 200, 500, 1000])
        cases.append((k, cmd, opts, nals, data, cs))
    # chunk-boundary sweep: a start code at every offset -4..+4 around a multiple of the chunk size
    base_frames = S.gen_frames(r, 6, el=True, rpu_pool=pool)
    base = S.flatten(base_frames)
    for cs in (1000, 2000):
        for d in range(-4, 5):
            # pad the first SEI so that some NAL boundary lands on cs*k + d
            nals = list(base)
            databytes = S.stream_bytes(C.rng(res.seed, "c05b"), nals, sc="four", tz_prob=0)
            offs = [i for i in range(len(databytes) - 3) if databytes[i : i + 4] == b"\x00\x00\x00\x01"]
            tgt = next((o for o in offs if o > cs + 50), None)
            if tgt is None:
                continue
            pad = (cs * ((tgt // cs) + 1) + d) - tgt
            filler_nal = S.SNal(H.sei_nal([(200, H.filler(r, max(1, pad - 4 - 2 - 3)))]))
            idx = offs.index(tgt)
            nals2 = nals[:idx] + [filler_nal] + nals[idx:]
            data2 = S.stream_bytes(C.rng(res.seed, "c05b"), nals2, sc="four", tz_prob=0)
            cases.append(("boundary cs=%d d=%d" % (cs, d), r.choice(["convert", "demux", "remove"]), {}, nals2, data2, cs))
    # enhancement-layer NALs of the smallest sizes (a 3-byte `7e 01 xx`, a wrapped EOS of 4 bytes, a wrapped AUD
    # of 5): demux must unwrap them to 1, 2 and 3 bytes, nothing may drop them (own PRNG stream: the cases above
    # stay what they were)
    r2 = C.rng(res.seed, "c05small")
    for k in range(30 if res.tier == "quick" else 300):
        frames = S.gen_frames(r2, r2.choice([1, 2, 3, 5, 9]), el=True, rpu_pool=pool if r2.random() < 0.7 else None)
        for f in frames:
            if r2.random() < 0.6:
                at = next(i for i, n in enumerate(f) if n.type == 62)
                small = [S.SNal(H.el_wrap(x)) for x in r2.choice([[bytes([r2.choice([0x80, 0x02, 0x26, 0x4A, 0xFF])])], [H.EOS], [H.aud(1)], [b"\x80", H.EOS, H.aud(0)], [H.EOB]])]
                pos = r2.randrange(at + 1) if r2.random() < 0.3 else at
                f[pos:pos] = small
        nals = S.flatten(frames)
        data = S.stream_bytes(r2, nals, sc=r2.choice(["mixed", "four", "three"]))
        cmd = r2.choice(["demux", "demuxel", "demux", "convert", "remove"])
        opts = {}
        if cmd == "convert" and r2.random() < 0.5:
            opts["discard"] = 1
        if r2.random() < 0.3:
            opts["annexb"] = 1
        cases.append(("small-el %d" % k, cmd, opts, nals, data, r2.choice([None, 100, 500, 1000])))
    lines = [model_line(CFG[cmd], opts, nals, data) for (k, cmd, opts, nals, data, cs) in cases]
    mo = C.run_sharded(C.model, lines)
    nrun = 0
    for (k, cmd, opts, nals, data, cs), m in zip(cases, mo):
        inp = w.write("in.hevc", data)
        args, outs = cli_args(cmd, opts, inp, w)
        for f in outs.values():
            if os.path.exists(w.path(f)):
                os.remove(w.path(f))
        ec, txt = cli.run(args, w.dir, chunk_size=cs)
        nrun += 1
        files = {key: w.read(f) for key, f in outs.items()}
        compare(res, "case %s chunk %s file" % (k, cs), cmd, opts, nals, data, ec, files, parse_model(m), {"chunk_size": cs, "input": "file"})
        # piped stdin with a write fragmentation (convert / demux / remove accept `-`)
        small_pipe = isinstance(k, str) and k.startswith("small-el") and int(k.split()[1]) % 3 == 0
        if (isinstance(k, int) and k % 3 == 0) or small_pipe:
            args2, outs2 = cli_args(cmd, opts, "-", w)
            for f in outs2.values():
                if os.path.exists(w.path(f)):
                    os.remove(w.path(f))
            frag = [(r2 if small_pipe else r).choice([1, 7, 100, 999, 4096, 50000]) for _ in range(5)]
            ec2, txt2 = cli.run(args2, w.dir, chunk_size=cs, stdin_data=data, fragments=frag)
            nrun += 1
            files2 = {key: w.read(f) for key, f in outs2.items()}
            compare(res, "case %s chunk %s stdin fragments %s" % (k, cs, frag), cmd, opts, nals, data, ec2, files2, parse_model(m), {"chunk_size": cs, "input": "stdin", "fragments": frag})
    # the real 100 kB read size (no hook override) with a large NAL ending next to the boundary: the
    # hook chunk sizes cannot see a change of the constant itself or of its relation to the reader's
    # own buffer (quick: three offsets, convert and demux; thorough: every offset -4..+4)
    for d in (range(-4, 5) if res.tier == "thorough" else (-3, 1, 40)):
        frames = S.gen_frames(r, 4, el=True, rpu_pool=pool)
        nals = S.flatten(frames)
        big = S.SNal(H.sei_nal([(200, H.filler(r, 99000 + d))]))
        nals2 = nals[:4] + [big] + nals[4:]
        data = S.stream_bytes(r, nals2, sc="four", tz_prob=0)
        for cmd in (("convert", "demux") if d == 1 or res.tier == "thorough" else ("convert",)):
            m = C.model().run([model_line(CFG[cmd], {}, nals2, data)])[0]
            inp = w.write("in.hevc", data)
            args, outs = cli_args(cmd, {}, inp, w)
            for f in outs.values():
                if os.path.exists(w.path(f)):
                    os.remove(w.path(f))
            ec, txt = cli.run(args, w.dir)
            nrun += 1
            compare(res, "real chunk size d=%d %s" % (d, cmd), cmd, {}, nals2, data, ec, {key: w.read(f) for key, f in outs.items()}, parse_model(m), {"chunk_size": None, "input": "file"})
    # ---- bytes -> NAL batches: hevc_parser's chunked reader against Splitter.v, the model the chunk-invariance
    # theorem (C05_reader_chunk_invariant) is about: arbitrary byte strings over a start-code-heavy alphabet with
    # every small chunk size, the streams of this run, and streams above 100 kB through process_file at the real size
    sp = []
    alpha = [0, 0, 0, 0, 1, 1, 2, 3, 0x42, 0x80, 0xFF]
    for k in range(400 if res.tier == "quick" else 6000):
        n = r.choice([0, 1, 2, 3, 4, 5, 7, 12, 20, 60, 150, 400])
        b = bytearray(r.choice(alpha) for _ in range(n))
        for _ in range(r.choice([0, 1, 2, 5])):
            if n >= 4:
                pp = r.randrange(0, n - 3)
                b[pp : pp + 3] = b"\x00\x00\x01"
        sp.append((bytes(b), r.choice([1, 2, 3, 4, 5, 7, 8, 16, 33, 100, 1000]), False))
    for c in cases[: (30 if res.tier == "quick" else 300)]:
        sp.append((c[4], r.choice([64, 1000, 4096]), False))
    for d in ((-3, 0, 2) if res.tier == "quick" else range(-5, 6)):
        frames = S.gen_frames(r, 3, el=True, rpu_pool=pool)
        nn = S.flatten(frames)
        big = [S.SNal(H.sei_nal([(200, H.filler(r, sz))])) for sz in (99900 + d, 100010 - d, 60000)]
        sp.append((S.stream_bytes(r, nn[:3] + [big[0]] + nn[3:6] + [big[1], big[2]] + nn[6:], sc=r.choice(["four", "mixed"]), tz_prob=0.3), 100000, True))
    impl = C.run_sharded(C.dvh, ["hsplit %d %s%s" % (cs, b.hex() or "-", " file" if f else "") for b, cs, f in sp])
    mod = C.run_sharded(C.model, ["splitc %d %s" % (cs, b.hex() or "-") for b, cs, f in sp])
    whole = C.run_sharded(C.model, ["split %s" % (b.hex() or "-") for b, cs, f in sp])
    sp_stats = {"cases": len(sp), "agree": 0, "empty_nal": 0, "nals": 0, "batches": 0}
    for (b, cs, f), oi, om, ow in zip(sp, impl, mod, whole):
        rp = {"op": "hsplit", "chunk_size": cs, "through_file": f, "stream_hex": b.hex() if len(b) < 4000 else b[:2000].hex() + "...", "impl": oi[:300], "model": om[:300]}
        flat = lambda o: [x for bt in o[3:].split("|") for x in bt.split(",") if x not in ("-", "")] if o.startswith("ok ") and o != "ok -" else []
        if not om.startswith("ok") or not ow.startswith("ok"):
            raise RuntimeError("splitter model failure: %s / %s" % (om[:80], ow[:80]))
        if flat(om) != flat(ow):
            res.violation("model: chunked split differs from the whole split (chunk size %d) - the theorem's statement fails on this input" % cs, rp)
            continue
        if "." in flat(ow) and not oi.startswith("ok"):
            sp_stats["empty_nal"] += 1          # an empty NAL: hevc_parser reads its first byte (out of the model: the commands report an error)
            continue
        if oi != om:
            res.violation("bytes -> NAL batches: hevc_parser with chunk size %d %s and the model disagree: impl %s model %s" % (cs, "through process_file" if f else "through a cursor", oi[:120], om[:120]), rp)
            continue
        sp_stats["agree"] += 1
        sp_stats["nals"] += len(flat(om))
        sp_stats["batches"] += om.count("|") + 1
    # ---- the same through the piped-stdin mode: the input delivered in arbitrary fragments (each at most the
    # chunk size, so that one fragment is one read() result), against read_stdin of Splitter.v
    sps = []
    for k in range(200 if res.tier == "quick" else 3000):
        b, cs0, _ = sp[r.randrange(0, min(len(sp), 400))]
        cs = r.choice([4, 5, 8, 16, 33, 100])
        b = b[:600]
        frs, pos = [], 0
        while pos < len(b):
            ln = r.randint(1, cs)
            frs.append(b[pos : pos + ln])
            pos += ln
        sps.append((b, cs, frs))
    enc = lambda frs: ",".join(f.hex() for f in frs) or "-"
    impl2 = C.run_sharded(C.dvh, ["hsplits %d %s" % (cs, enc(frs)) for b, cs, frs in sps])
    mod2 = C.run_sharded(C.model, ["splits %d %s" % (cs, enc(frs)) for b, cs, frs in sps])
    whole2 = C.run_sharded(C.model, ["split %s" % (b.hex() or "-") for b, cs, frs in sps])
    sp_stats["stdin_cases"] = len(sps)
    sp_stats["stdin_agree"] = 0
    for (b, cs, frs), oi, om, ow in zip(sps, impl2, mod2, whole2):
        rp = {"op": "hsplits", "chunk_size": cs, "fragments": [f.hex() for f in frs], "impl": oi[:300], "model": om[:300]}
        flat = lambda o: [x for bt in o[3:].split("|") for x in bt.split(",") if x not in ("-", "")] if o.startswith("ok ") and o != "ok -" else []
        if not om.startswith("ok") or not ow.startswith("ok"):
            raise RuntimeError("splitter model failure: %s / %s" % (om[:80], ow[:80]))
        if flat(om) != flat(ow):
            res.violation("model: piped split differs from the whole split (chunk size %d) - the theorem's statement fails on this input" % cs, rp)
            continue
        if "." in flat(ow) and not oi.startswith("ok"):
            sp_stats["empty_nal"] += 1
            continue
        if oi != om:
            res.violation("bytes -> NAL batches on piped stdin: hevc_parser with chunk size %d and the model disagree: impl %s model %s" % (cs, oi[:120], om[:120]), rp)
            continue
        sp_stats["stdin_agree"] += 1
    res.coverage.update({
        "splitter_correspondence": sp_stats,
        "evaluations": nrun + len(lines),
        "distinct_nontrivial": len(cases),
        "rule": "streams from access-unit templates ([AUD] [VPS SPS PPS] [prefix SEI]* slice+ [EL NALs]* [suffix SEI] RPU [EOS/EOB]; 1..14 frames; NAL sizes 3 B..4 kB; mixed 3/4-byte start codes; trailing zeros) x {convert, demux, demux --el-only, remove} x {-m 0..5, --crop, --discard, --start-code annex-b} x hook chunk sizes (divisors of 100000) x {file, piped stdin with random write fragmentation}; a sweep placing a start code at every offset -4..+4 around a chunk-size multiple; outputs re-split by an independent Annex-B splitter and compared as (type, payload) sequences with the Coq routing model (RPU payloads under -m through the model's conversion); distinct (stream, command, options) cases counted; bytes -> NAL batches: hevc_parser's reader (parse_nals off) against the extracted Splitter.v on random byte strings over {00,01,02,03,..} with planted start codes and chunk sizes 1..1000, on the run's streams, and on streams above 100 kB through process_file at the real chunk size, batch by batch; the piped-stdin mode with a reader returning arbitrary fragments against read_stdin",
        "cli_runs": nrun, "exit_codes": dict(OUTCOMES),
        "samples": [{"cmd": c[1], "opts": c[2], "nals": len(c[3]), "bytes": len(c[4]), "chunk": c[5]} for c in cases[:4]],
    })
    res.assumptions += ["the reader returns full requests until the end of the input (schedule_ok in Splitter.v): true of File behind a BufReader whose capacity equals the request (100000), of a cursor, and of the stdin accumulation loop; a short read in the middle breaks the reader (C05_short_read_breaks_it)", "slice-header / POC parsing by hevc_parser is an input of the model (frame attributes supplied by the generator, frame indexing validated against hevc_parser in the C07 check)", "start-code length of the very first NAL under --start-code annex-b is not compared (depends on chunking, see DESIGN.md)"]
    C.conclude(res, broken)


def replay(rp):
    r = rp["replay"]
    print(json.dumps({k: (v if k not in ("stream_hex", "nals") else "...") for k, v in r.items()}))
    return 0
