"""C14 - reading an RPU file returns exactly the RPUs written, or an error."""
import json, os, subprocess
from .. import common as C
from .. import rpu as R
from .. import rpucases as RC

TINY = bytes.fromhex("190809084061365058")  # header with use_prev_vdr_rpu_flag, no DM: extra bytes are `remaining`


def sized_rpu(r, size):
    """valid raw RPU whose escaped size is exactly `size` bytes (25 <= size)"""
    for _ in range(50):
        extra = size - len(TINY) - 5
        body = TINY + bytes(r.randrange(1, 256) for _ in range(extra))
        crc = R.crc32_mpeg2(body[1:])
        raw = body + crc.to_bytes(4, "big") + b"\x80"
        if len(R.escape(raw)) == size:
            return raw
    raise RuntimeError("cannot build an RPU of size %d" % size)


def build_file(r, pool, total, cs, deltas, exact_multiple=False, tz_prob=0.1):
    """concatenate start code + escaped RPUs; start codes are steered to boundary + delta"""
    data = bytearray()
    rpus = []
    targets = []
    k = 1
    for d in deltas:
        targets.append(k * cs + d)
        k += 1
    ti = 0
    while len(data) < total:
        nxt = targets[ti] if ti < len(targets) else None
        if nxt is not None and 40 <= nxt - len(data) <= 2500:
            raw = sized_rpu(r, nxt - len(data) - 4)
            ti += 1
        elif nxt is not None and nxt - len(data) < 40:
            ti += 1
            continue
        else:
            raw = r.choice(pool)
            if nxt is not None and len(data) + 4 + len(raw) + 40 > nxt:
                raw = sized_rpu(r, max(25, nxt - len(data) - 4 - 60)) if nxt - len(data) - 64 >= 25 else raw
        data += b"\x00\x00\x00\x01" + R.escape(raw)
        rpus.append(raw)
        if r.random() < tz_prob:
            data += b"\x00" * r.randrange(1, 3)
    if exact_multiple:
        need = (-len(data)) % cs
        if need < 29:
            need += cs
        raw = sized_rpu(r, need - 4) if need - 4 <= 60000 else None
        if raw is not None:
            data += b"\x00\x00\x00\x01" + R.escape(raw)
            rpus.append(raw)
    return bytes(data), rpus


def crc_of(raw):
    t = raw.rstrip(b"\x00")
    return int.from_bytes(t[-5:-1], "big")


def run(res):
    broken = C.prelude(res, need_dovi=True, tables=("Blocks_gen", "DmData_gen", "Switches_gen"))
    r = C.rng(res.seed, "c14")
    trees = RC.valid_trees(res.seed, 150, "c14")
    ok = C.dvh().run(["parseclass rpu " + (RC.SC4 + raw).hex() for t, raw, m in trees])
    pool = [raw.rstrip(b"\x00") for (t, raw, m), o in zip(trees, ok) if o == "ok"] + [v for k, v in RC.asset_cases() if k not in ("st2094_10_level3.bin",)]
    okp = C.run_sharded(C.dvh, ["parseclass rpu " + (RC.SC4 + p).hex() for p in pool])
    pool = [p for p, o in zip(pool, okp) if o == "ok"]
    if res.tier == "quick":
        pool = pool[:120]
    sizes = [10000, 12500, 20000] if res.tier == "quick" else [10000, 12500, 20000, 25000, 50000]
    files = []  # (label, cs, bytes, expected list of crcs or None for error)
    for cs in sizes:
        for rep in range(3 if res.tier == "quick" else 10):
            deltas = [r.randrange(-4, 5) for _ in range(4)]
            data, rpus = build_file(r, pool, int(cs * r.choice([2.3, 3.6, 4.2])), cs, deltas, exact_multiple=(rep == 1))
            files.append(("steered cs=%d deltas=%s%s" % (cs, deltas, " exact-multiple" if rep == 1 else ""), cs, data, [crc_of(x) for x in rpus]))
        for d in range(-4, 5):
            data, rpus = build_file(r, pool, int(cs * 1.5), cs, [d])
            files.append(("boundary delta=%d cs=%d" % (d, cs), cs, data, [crc_of(x) for x in rpus]))
    # real chunk size, several chunks
    for rep in range(1 if res.tier == "quick" else 4):
        deltas = [r.randrange(-4, 5) for _ in range(2)]
        data, rpus = build_file(r, pool, 250000, 100000, deltas, exact_multiple=(rep == 1))
        files.append(("real chunk size deltas=%s" % deltas, 0, data, [crc_of(x) for x in rpus]))
    # small files, single RPU, empty, no start code
    for k in (1, 2, 3, 10):
        data, rpus = build_file(r, pool, 1, 10000, [])
        data = b"".join(b"\x00\x00\x00\x01" + R.escape(x) for x in pool[:k])
        files.append(("small %d" % k, 10000, data, [crc_of(x) for x in pool[:k]]))
    files.append(("empty", 10000, b"", None))
    files.append(("no start code", 10000, bytes(r.randrange(2, 256) for _ in range(300)), None))
    # one corrupted RPU: first / middle / last / later chunk
    base = [f for f in files if f[3] and len(f[3]) > 20][:6]
    for lbl, cs, data, exp in base:
        offs = [i for i in range(len(data) - 4) if data[i : i + 4] == b"\x00\x00\x00\x01"]
        for pos in (0, len(offs) // 2, len(offs) - 1, min(len(offs) - 1, max(1, len(offs) * 3 // 4))):
            b = bytearray(data)
            k = offs[pos] + 12
            b[k] ^= 0x55
            if b[k] in (0, 1, 2, 3):
                b[k] = 0x77
            files.append(("corrupt #%d of %s" % (pos, lbl), cs, bytes(b), None))
    # entries too short to be an RPU (4..24 bytes with the start code): a truncated file, a doubled start code, a short
    # garbage entry first / between valid ones / last / in a later chunk: an error, never a shorter list
    for lbl, cs, data, exp in base[:3]:
        offs = [i for i in range(len(data) - 4) if data[i : i + 4] == b"\x00\x00\x00\x01"]
        last = offs[-1]
        for cut in (0, 1, 7, 20):
            files.append(("truncated %d bytes after the last start code of %s" % (cut, lbl), cs, data[: last + 4 + cut], None))
        for pos in (0, len(offs) // 2, len(offs) - 1):
            for junk in (b"", b"\x19", b"\x19\x08\x09" + bytes(r.randrange(4, 256) for _ in range(r.choice([2, 10, 17])))):
                o = offs[pos]
                files.append(("short entry (%d bytes) before entry %d of %s" % (len(junk), pos, lbl), cs, data[:o] + b"\x00\x00\x00\x01" + junk + data[o:], None))
    # an entry introduced by a 3-byte start code stays glued to the one before it (the reader splits on 00 00 00 01
    # only): the combined entry is no valid RPU, the read must fail, never return the list without that entry
    for lbl, cs, data, exp in base[:3]:
        offs = [i for i in range(len(data) - 4) if data[i : i + 4] == b"\x00\x00\x00\x01"]
        for pos in (1, len(offs) // 2, len(offs) - 1):
            o = offs[pos]
            if o > 0 and data[o - 1] != 0:
                files.append(("3-byte start code before entry %d of %s" % (pos, lbl), cs, data[:o] + data[o + 1:], None))
    short1 = b"\x00\x00\x00\x01" + R.escape(pool[0])
    files.append(("valid entry then a bare start code", 10000, short1 + b"\x00\x00\x00\x01", None))
    files.append(("short entry then a valid one", 10000, b"\x00\x00\x00\x01\x19\x08\x09\x44" + short1, None))
    lines = ["rpufile %d %s" % (cs, C.hexs(data)) for lbl, cs, data, exp in files]
    i = C.run_sharded(C.dvh, lines, shards=8)
    m = C.run_sharded(C.model, lines, shards=8, timeout=1500)
    nd = 0
    for (lbl, cs, data, exp), a, b in zip(files, m, i):
        if a != b:
            nd += 1
            if nd <= 3:
                res.violation("correspondence parse_rpu_file: model=%s impl=%s on %s" % (a[:80], b[:80], lbl), {"stream": "rpufile", "label": lbl, "chunk_size": cs, "file_hex": C.hexs(data), "model": a[:300], "impl": b[:300]})
        want = "err" if exp is None else "ok %d %s" % (len(exp), ",".join(map(str, exp)) if exp else "-")
        if b != want:
            res.violation("parse_rpu_file returned %s, the file holds %s (%s)" % (b[:100], want[:100], lbl), {"op": "rpufile", "label": lbl, "chunk_size": cs, "file_hex": C.hexs(data), "impl": b[:400], "expected": want[:400]})
    # CLI readers on two files: info -s frame count, identity editor
    tmp = os.path.join(C.TMP, "c14")
    os.makedirs(tmp, exist_ok=True)
    ncli = 0
    for lbl, cs, data, exp in [f for f in files if f[3] and len(f[3]) > 20][:3]:
        path = os.path.join(tmp, "f.bin")
        open(path, "wb").write(data)
        env = dict(os.environ)
        if cs:
            env["DOVI_TOOL_VERIF_CHUNK_SIZE"] = str(cs)
        p = subprocess.run([C.DOVI, "info", "-i", path, "-s"], stdout=subprocess.PIPE, stderr=subprocess.STDOUT, env=env, timeout=300)
        txt = p.stdout.decode(errors="replace")
        ncli += 1
        import re
        mm = re.search(r"Frames: (\d+)", txt)
        if p.returncode != 0 or not mm or int(mm.group(1)) != len(exp):
            res.violation("info -s reports %s frames, the file holds %d (%s)" % (mm.group(1) if mm else "?", len(exp), lbl), {"cmd": "info -s", "label": lbl, "chunk_size": cs, "file_hex": C.hexs(data)})
        cfg = os.path.join(tmp, "e.json")
        open(cfg, "w").write("{}")
        out = os.path.join(tmp, "o.bin")
        p = subprocess.run([C.DOVI, "editor", "-i", path, "-j", cfg, "-o", out], stdout=subprocess.PIPE, stderr=subprocess.STDOUT, env=env, timeout=300)
        ncli += 1
        if p.returncode == 0:
            got = [crc_of(x) for x in R.read_rpu_file_raw(out)]
            if got != exp:
                res.violation("identity editor pass returned %d RPUs, the file holds %d (%s)" % (len(got), len(exp), lbl), {"cmd": "editor {}", "label": lbl, "chunk_size": cs, "file_hex": C.hexs(data)})
        # export -d all: one JSON object per entry, in order (CRC of each)
        ej = os.path.join(tmp, "all.json")
        p = subprocess.run([C.DOVI, "export", "-i", path, "-d", "all=" + ej], stdout=subprocess.PIPE, stderr=subprocess.STDOUT, env=env, timeout=300)
        ncli += 1
        if p.returncode == 0:
            try:
                crcs = [x["rpu_data_crc32"] for x in json.load(open(ej))]
            except Exception:
                crcs = None
            if crcs != exp:
                res.violation("export -d all wrote %s entries, the file holds %d, or their CRCs differ (%s)" % (None if crcs is None else len(crcs), len(exp), lbl), {"cmd": "export", "label": lbl, "chunk_size": cs, "file_hex": C.hexs(data)})
        else:
            res.violation("export fails on a valid RPU file (%s)" % lbl, {"cmd": "export", "label": lbl, "chunk_size": cs, "file_hex": C.hexs(data)})
    # the commands on a file with an invalid last entry and on one with a short entry: an error status, no output list
    for lbl, cs, data, exp in [f for f in files if f[3] is None and (f[0].startswith("corrupt #") or f[0].startswith("short entry") or f[0].startswith("truncated"))][:6] + [f for f in files if f[3] is None and f[0].startswith("3-byte")][:2]:
        path = os.path.join(tmp, "bad.bin")
        open(path, "wb").write(data)
        env = dict(os.environ)
        env["DOVI_TOOL_VERIF_CHUNK_SIZE"] = str(cs) if cs else ""
        if not cs:
            env.pop("DOVI_TOOL_VERIF_CHUNK_SIZE")
        for args in (["info", "-i", path, "-s"], ["export", "-i", path, "-d", "all=" + os.path.join(tmp, "bad.json")]):
            p = subprocess.run([C.DOVI] + args, stdout=subprocess.PIPE, stderr=subprocess.STDOUT, env=env, timeout=300)
            ncli += 1
            if p.returncode == 0:
                res.violation("%s succeeds on an RPU file with an invalid entry (%s)" % (args[0], lbl), {"cmd": args[0], "label": lbl, "chunk_size": cs, "file_hex": C.hexs(data)})
    res.coverage.update({
        "evaluations": 2 * len(lines) + ncli,
        "distinct_nontrivial": len(files),
        "rule": "RPU files of 1..N entries (sizes 25..2500 bytes, some followed by zero bytes) whose start codes are steered to every offset -4..+4 around multiples of the read chunk size, several chunks per file, files that are an exact multiple of the chunk size, one corrupted entry first / middle / last / in a later chunk, entries too short to be an RPU (truncated file, doubled start code, short garbage entry at any position), an entry behind a 3-byte start code (glued to its predecessor), empty file, file without start code; read through the library reader with the hook chunk sizes (>= 8192 so that reads bypass the 8 KiB BufReader) and with the real 100000; expected list = what was written; Coq model of the loop compared; `info -s`, `editor {}` and `export -d all` on valid files, `info` / `export` must fail on files with an invalid or short entry; distinct files counted",
        "chunk_sizes": sizes + [100000], "disagreements": nd,
        "samples": [f[0] for f in files[:3]] + [files[-1][0]],
    })
    res.assumptions += ["regular-file reads return full chunks until end of file (hypothesis of the chunk-loop model); I/O errors are outside the model"]
    C.conclude(res, broken)


def replay(rp):
    r = rp["replay"]
    if "file_hex" in r:
        l = "rpufile %d %s" % (r["chunk_size"], r["file_hex"])
        print("model:", C.model().run([l])[0][:300])
        print("impl :", C.dvh().run([l])[0][:300])
    else:
        print(json.dumps(r)[:2000])
    return 0
