"""C06 - mux and demux are inverse; layers stay frame-aligned."""
import json, os
from .. import common as C
from .. import rpu as R
from .. import hevc as H
from .. import cli
from .. import streamgen as S
from . import c05


def gen_el(r, gop, n, rich=True, pool=None):
    """EL frames (unwrapped NALs as they stand in a demuxed EL file): [AUD] [param sets] [SEI] slice* RPU [EOS]"""
    vps, sps, pps = H.param_sets()
    frames = []
    for fi in range(n):
        ntype, poc = gop[fi % len(gop)] if fi < len(gop) else (1, fi)
        f = []
        if rich and r.random() < 0.1:
            f.append(S.SNal(H.aud(1)))
        if fi == 0 or (rich and 16 <= ntype <= 23 and r.random() < 0.5):
            f += [S.SNal(vps), S.SNal(sps), S.SNal(pps)]
        if rich and r.random() < 0.2:
            f.append(S.SNal(H.sei_nal([(5, H.filler(r, r.choice([4, 60, 700])))])))
        nsl = r.choice([1, 1, 1, 2, 3])
        st = 2 if 16 <= ntype <= 23 else 1
        for s in range(nsl):
            f.append(S.SNal(H.slice_nal(r, ntype, s == 0, poc, st, r.choice([8, 40, 900, 2500])), first=(s == 0), poc=poc, stype=st))
        if rich and r.random() < 0.15:
            f.append(S.SNal(H.sei_nal([(132, H.filler(r, 16))], suffix=True)))
        f.append(S.SNal(H.rpu_nal(r.choice(pool) if pool else S.tagged_rpu(r, fi))))
        if rich and fi == n - 1 and r.random() < 0.2:
            f.append(S.SNal(H.EOS))
        frames.append(f)
    return frames


def gen_pair(r, nbl, nel, pool=None):
    bl_frames = S.gen_frames(r, nbl, el=False, eos_mid=True)
    gop = []
    for f in bl_frames:
        sl = next(n for n in f if n.first)
        gop.append((sl.type, sl.poc))
    if r.random() < 0.7:
        bl_frames = [[n for n in f if n.type != 62] for f in bl_frames]      # a BL normally has no RPU
    el_frames = gen_el(r, gop, nel, rich=r.random() < 0.7, pool=pool)
    return bl_frames, el_frames


def oracle_aus(bl_frames, el_frames, o):
    """reference interleave, independent of the Coq model: list of access units, each a list of
    ('aud'|'bl'|'el'|'rpu'|'eos', payload)"""
    aus = []
    for k, bf in enumerate(bl_frames):
        au = []
        if not o["noaud"]:
            au.append(("aud", None))
        body = [n for n in bf if n.type not in (62, 63) and not (n.type == 35 and not o["noaud"])]
        eos = [n for n in body if n.type in (36, 37)]
        if not o["eosfirst"]:
            body = [n for n in body if n.type not in (36, 37)]
        au += [("bl", n.data) for n in body]
        if k < len(el_frames):
            for n in el_frames[k]:
                if n.type == 62:
                    au.append(("rpu", n.data))
                elif not o["discard"]:
                    au.append(("el", b"\x7e\x01" + n.data))
        if not o["eosfirst"]:
            au += [("bl", n.data) for n in eos]
        aus.append(au)
    return aus


def opt_string(o):
    return "noaud=%d,eosfirst=%d,discard=%d,annexb=%d,drop=0,m=%s" % (o["noaud"], o["eosfirst"], o["discard"], o["annexb"], "-" if o["mode"] is None else c05.CLI_MODE[o["mode"]])


def mux_args(o, bl, el, out):
    g = []
    if o["mode"] is not None:
        g += ["-m", str(o["mode"])]
    if o["annexb"]:
        g += ["--start-code", "annex-b"]
    a = g + ["mux", "--bl", bl, "--el", el, "-o", out]
    if o["noaud"]:
        a.append("--no-add-aud")
    if o["eosfirst"]:
        a.append("--eos-before-el")
    if o["discard"]:
        a.append("--discard")
    return a


def rebatch(r, nals):
    """random split of a NAL list into batches (for the model's batching independence)"""
    out = []
    i = 0
    while i < len(nals):
        k = r.choice([1, 1, 2, 3, 5, 9, 40])
        out.append(nals[i : i + k])
        i += k
    return out


def strip(l):
    return [x.rstrip(b"\x00") for x in l]


def run(res):
    broken = C.prelude(res, need_dovi=True, tables=("Switches_gen", "Modes_gen"))
    r = C.rng(res.seed, "c06")
    r2 = C.rng(res.seed, "c06tid")
    w = cli.Work("c06")
    ncase = 60 if res.tier == "quick" else 700
    from .. import rpucases as RC
    trees = RC.valid_trees(res.seed, 40, "c06", profile=7)
    okl = C.dvh().run(["parseclass rpu " + (RC.SC4 + raw).hex() for t, raw, m in trees])
    pool = [raw.rstrip(b"\x00") for (t, raw, m), ok in zip(trees, okl) if ok == "ok" and raw[:3] == bytes([0x19, 8, 9])]
    pool += [v for k, v in RC.asset_cases() if k.startswith(("fel", "mel", "profile8"))]
    nrun = 0
    kinds = {"equal": 0, "el_longer": 0, "el_shorter": 0}
    nmodel = 0
    for k in range(ncase):
        nbl = r.choice([1, 2, 3, 4, 7, 12, 20])
        kind = r.choice(["equal"] * 6 + ["el_longer", "el_shorter"])
        nel = nbl if kind == "equal" else nbl + r.choice([1, 2, 5]) if kind == "el_longer" else max(0, nbl - r.choice([1, 2]))
        if nel == 0:
            nel, kind = nbl, "equal"
        kinds[kind] += 1
        use_pool = r.random() < 0.5
        bl_frames, el_frames = gen_pair(r, nbl, nel, pool=pool if use_pool else None)
        if r2.random() < 0.3:
            # EL slices on a temporal sub-layer (nuh_temporal_id_plus1 = 2, 3): the wrapper stays 7E 01 (own PRNG
            # stream, byte change in place: the other draws of the case are unaffected)
            for f in el_frames:
                for i, n in enumerate(f):
                    if n.type < 10 and r2.random() < 0.6:
                        f[i] = S.SNal(bytes([n.data[0], (n.data[1] & 0xF8) | r2.choice([2, 3])]) + n.data[2:], first=n.first, poc=n.poc, stype=n.stype)
        bl, el = S.flatten(bl_frames), S.flatten(el_frames)
        o = {"noaud": int(r.random() < 0.3), "eosfirst": int(r.random() < 0.3), "discard": int(r.random() < 0.25), "annexb": int(r.random() < 0.3),
             "mode": r.choice([None, None, None, 0, 1, 2, 3]) if use_pool else None}
        tz = r.choice([0, 0.05])
        real_chunk = k < (2 if res.tier == "quick" else 12)
        if real_chunk:
            # streams larger than the real 100 kB read size (no hook override): a large prefix SEI NAL inside
            # two access units of each layer (after the first NAL of the frame, i.e. after the AUD when present)
            for frs in (bl_frames, el_frames):
                for fi in sorted({0, len(frs) // 2}):
                    f = frs[fi]
                    pos = 1 if f and f[0].type == 35 else 0
                    f.insert(pos, S.SNal(H.sei_nal([(200, H.filler(r, r.choice([60000, 99990, 100003])))])))
            bl, el = S.flatten(bl_frames), S.flatten(el_frames)
        bld = S.stream_bytes(r, bl, sc=r.choice(["four", "mixed"]), tz_prob=tz)
        eld = S.stream_bytes(r, el, sc=r.choice(["four", "mixed"]), tz_prob=tz)
        cs = None if real_chunk else r.choice([None, 1000, 2000, 5000, 10000, 500])
        blp, elp, outp = w.write("BL.hevc", bld), w.write("EL.hevc", eld), w.path("mux.hevc")
        if os.path.exists(outp):
            os.remove(outp)
        ec, txt = cli.run(mux_args(o, blp, elp, outp), w.dir, chunk_size=cs)
        nrun += 1
        rp = {"cmd": "mux", "opts": o, "chunk_size": cs, "kind": kind, "bl_hex": bld.hex(), "el_hex": eld.hex(),
              "bl": [x.model() for x in bl], "el": [x.model() for x in el]}
        if ec not in ("0", "1") and not (ec == "panic" and o["mode"] is not None and "muxer.rs" in txt and "unwrap" in txt):
            res.violation("mux crashed (%s) with %d BL / %d EL frames" % (ec, nbl, nel), rp)
            continue
        outd = w.read("mux.hevc") or b""
        got = c05.split_with_sc(outd)
        gp = strip([x[1] for x in got])
        if ec == "panic":
            # the documented `.unwrap()` on an EL RPU that cannot be converted under -m (outside the property's
            # quantifier): the model must predict it, nothing else is compared on a run that did not finish
            mp_ = C.model().run(["mux %s %s %s" % (opt_string(o), ";".join(x.model() for x in bl), ";".join(x.model() for x in el))])[0]
            nmodel += 1
            if not mp_.startswith("panic"):
                res.violation("mux panics (-m %s) where the model predicts %s" % (o["mode"], mp_[:30]), rp)
            continue
        if kind == "el_shorter":
            # unspecified: base-layer conservation only
            keep = strip([n.data for n in bl if n.type not in (62, 63) and not (n.type == 35 and not o["noaud"])])
            outbl = [x for x in gp if (x[0] >> 1) & 0x3F not in (62, 63) and not ((x[0] >> 1) & 0x3F == 35 and not o["noaud"])]
            if outbl != keep:
                res.violation("mux with a shorter EL lost or changed base-layer NALs", rp)
            continue
        # ---- model: implementation model on one EL batch and on a random batching, and the spec
        ell = ";".join(x.model() for x in el)
        elb = "|".join(";".join(x.model() for x in b) for b in rebatch(r, el))
        bll = ";".join(x.model() for x in bl)
        m1, m2, ms = C.model().run(["mux %s %s %s" % (opt_string(o), bll, ell), "mux %s %s %s" % (opt_string(o), bll, elb), "muxspec %s %s %s" % (opt_string(o), bll, ell)])
        nmodel += 3
        if m1 != m2:
            res.violation("model: mux output depends on the EL batching", dict(rp, el_batches=elb), key=None)
            continue
        if m1.startswith("panic"):
            # an EL RPU that cannot be converted under -m: the model converts every EL RPU up front, the muxer only
            # when it reaches it (with a longer EL it may stop on the length mismatch first): outside the property's
            # quantifier, only "does not succeed" is compared
            if ec == "0":
                res.violation("mux exits 0, the model predicts the conversion .unwrap() panic", rp)
            continue
        if kind == "el_longer":
            if ec != "1":
                res.violation("mux with %d BL frames and %d EL frames exits %s (an error status is required)" % (nbl, nel, ec), rp)
            if not m1.startswith("ok mismatch"):
                res.violation("model: EL longer than BL is not flagged (%s)" % m1[:30], rp)
                continue
        else:
            if m1.startswith("ok match") and ec != "0":
                res.violation("mux of equal-length layers exits %s: %s" % (ec, txt.split("Stack backtrace")[0][-200:].replace("\n", " ")), rp)
                continue
            if m1.startswith("panic"):
                if ec != "panic":
                    res.violation("mux exits %s, the model predicts the conversion .unwrap() panic" % ec, rp)
                continue
            if not m1.startswith("ok"):
                if ec == "0":
                    res.violation("mux exits 0, the model predicts %s" % m1[:30], rp)
                continue
        exp = [(int(x.split(":")[0]), C.unhexs(x.split(":")[1])) for x in m1.split(" ")[2].split(",")] if m1.split(" ")[2] != "-" else []
        ep = strip([x[1] for x in exp])
        if gp != ep:
            kk = next((i for i, (a, b) in enumerate(zip(gp, ep)) if a != b), min(len(gp), len(ep)))
            res.violation("mux output differs from the model at NAL %d (%d written, %d expected), chunk size %s" % (kk, len(gp), len(ep), cs), rp)
            continue
        if kind == "equal" and ms.startswith("ok"):
            sp = strip([C.unhexs(x) for x in ms[3:].split(",")]) if ms != "ok -" else []
            if sp != ep:
                res.violation("model: mux differs from interleave_spec", rp)
                continue
        # start codes
        for i, ((sc, nalb), (esc, _)) in enumerate(zip(got, exp)):
            if i == 0:
                continue
            # a trailing zero byte of the previous NAL reads as a longer start code (Annex B)
            if sc != esc and (tz == 0 or sc < esc):
                res.violation("mux wrote a %d-byte start code at NAL %d, the model says %d" % (sc, i, esc), rp)
                break
        # ---- independent reference interleave (payloads; RPUs compared only without a mode)
        aus = oracle_aus(bl_frames, el_frames, o)
        flat = [x for au in aus for x in au]
        ok = len(flat) == len(gp)
        if ok:
            for (kind_, pay), g in zip(flat, gp):
                t = (g[0] >> 1) & 0x3F
                if kind_ == "aud":
                    ok = ok and t == 35
                elif kind_ == "rpu":
                    ok = ok and t == 62 and (o["mode"] is not None or g == pay.rstrip(b"\x00"))
                else:
                    ok = ok and g == pay.rstrip(b"\x00")
        if not ok:
            res.violation("muxed access units differ from the reference interleave (frame alignment)", rp)
            continue
        if kind != "equal" or o["mode"] is not None:
            continue
        # ---- demux(mux(BL, EL)) returns both layers' payloads
        for f in ("BL2.hevc", "EL2.hevc"):
            if os.path.exists(w.path(f)):
                os.remove(w.path(f))
        ec2, txt2 = cli.run(["demux", outp, "--bl-out", w.path("BL2.hevc"), "--el-out", w.path("EL2.hevc")], w.dir, chunk_size=cs)
        nrun += 1
        if ec2 != "0":
            res.violation("demux of the muxed file exits %s" % ec2, rp)
            continue
        bl2 = strip(R.split_annexb(w.read("BL2.hevc") or b""))
        el2 = strip(R.split_annexb(w.read("EL2.hevc") or b""))
        want_bl = strip([n.data for n in bl if n.type not in (62, 63)])
        if o["noaud"]:
            if bl2 != want_bl:
                res.violation("demux(mux(BL, EL)) does not return the base layer", rp)
        else:
            nz = lambda l: [x for x in l if (x[0] >> 1) & 0x3F != 35]
            if nz(bl2) != nz(want_bl) or sum(1 for x in bl2 if (x[0] >> 1) & 0x3F == 35) != nbl:
                res.violation("demux(mux(BL, EL)) does not return the base layer (AUDs aside)", rp)
        want_el = strip([n.data for n in el if (n.type == 62 or not o["discard"])])
        if el2 != want_el:
            res.violation("demux(mux(BL, EL)) does not return the enhancement layer's NAL payloads", rp)
            continue
        # ---- mux(demux(s)) = s, byte-identical in canonical form (AUD per frame, 4-byte start codes)
        if not o["noaud"] and not o["annexb"] and not o["discard"]:
            out3 = w.path("mux3.hevc")
            if os.path.exists(out3):
                os.remove(out3)
            a3 = ["mux", "--bl", w.path("BL2.hevc"), "--el", w.path("EL2.hevc"), "-o", out3] + (["--eos-before-el"] if o["eosfirst"] else [])
            ec3, txt3 = cli.run(a3, w.dir, chunk_size=r.choice([None, 1000, 2500, 10000]))
            nrun += 1
            if ec3 != "0" or (w.read("mux3.hevc") or b"").rstrip(b"\x00") != outd.rstrip(b"\x00"):
                res.violation("mux(demux(s)) is not byte-identical to s for a canonical stream s", rp)
    res.coverage.update({
        "evaluations": nrun + nmodel,
        "distinct_nontrivial": ncase,
        "rule": "pairs (BL, EL) of 1..20 frames from access-unit templates (BL: [AUD] [VPS SPS PPS] [SEI]* slice+ [suffix SEI] [RPU] [EOS/EOB mid-stream or at the end]; EL: [AUD] [param sets] [SEI] slice{1..3} [suffix SEI] RPU(tagged with the frame number) [EOS]), equal counts (75%), EL longer, EL shorter; x {--no-add-aud, --eos-before-el, --discard, --start-code annex-b, -m 0/2/3} x hook chunk sizes for both readers; muxed file re-split independently and compared with (a) the Coq muxer model evaluated on one EL batch and on a random EL batching, (b) the Coq interleave_spec, (c) a reference interleave written in Python; demux(mux) and mux(demux(mux)) round trips through the CLI",
        "cli_runs": nrun, "kinds": kinds,
    })
    res.assumptions += ["frame attributes of both layers (first-slice flags, slice types) are supplied by the generator as inputs of the model (validated against hevc_parser in C07)",
                        "EL shorter than BL: only base-layer conservation and absence of a crash are checked (unspecified by the property)"]
    C.conclude(res, broken)


def replay(rp):
    r = rp["replay"]
    print(json.dumps({k: (v if k not in ("bl_hex", "el_hex", "bl", "el") else "...") for k, v in r.items()}))
    if "bl" in r:
        print(C.model().run(["mux %s %s %s" % (opt_string(r["opts"]), ";".join(r["bl"]), ";".join(r["el"]))])[0][:300])
    return 0
