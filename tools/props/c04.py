"""C04 - conversion modes do what is documented, preserve the DM payload, are idempotent, and a
mode number means the same conversion on every surface."""
import json, os, subprocess
from .. import common as C
from .. import rpu as R
from .. import rpucases as RC
from .. import opgen
from .c02 import first_diff
from .c03 import strip_for_compare

# CLI mode number -> ConversionMode discriminant, as documented (README / `-m` help)
DOC_CLI = {0: 0, 1: 1, 2: 2, 3: 2, 4: 3, 5: 4}
# documented support: mode discriminant -> source profiles accepted
SUPPORT = {0: None, 1: (7, 8), 2: (5, 7, 8), 3: None, 4: (7, 8)}


def dm_payload(st):
    d = st.get("vdr_dm_data")
    if not d:
        return None
    return {k: d.get(k) for k in ("cmv29_metadata", "cmv40_metadata", "source_min_pq", "source_max_pq", "scene_refresh_flag", "affected_dm_metadata_id", "current_dm_metadata_id")}


def identity_mapping(st):
    m = st.get("rpu_data_mapping")
    if not m:
        return True
    for c in m["curves"]:
        if c.get("num_pivots_minus2") != 0 or c.get("pivots") != [0, 1023] or c.get("mapping_idc") != "Polynomial" or c.get("poly_order_minus1") != [0] or c.get("poly_coef") != [[0, 0]]:
            return False
        if st["header"]["coefficient_data_type"] == 0 and c.get("poly_coef_int") != [[0, 1]]:
            return False
    return True


def run(res):
    broken = C.prelude(res, need_dovi=True, tables=("Modes_gen", "Blocks_gen", "DmData_gen", "Switches_gen"))
    r = C.rng(res.seed, "c04")
    n = 250 if res.tier == "quick" else 5000
    trees = RC.valid_trees(res.seed, n, "c04")
    raws = [RC.SC4 + raw for t, raw, m in trees] + [RC.SC4 + v for k, v in RC.asset_cases()]
    lines, info = [], []
    for raw in raws:
        lines.append("seq rpu %s" % raw.hex())
        info.append((raw, "src", None))
        for md in range(5):
            lines.append("seq rpu %s conv:%d" % (raw.hex(), md))
            info.append((raw, "enum", md))
            lines.append("seq rpu %s conv:%d conv:%d" % (raw.hex(), md, md))
            info.append((raw, "twice", md))
        for n8 in (0, 1, 2, 3, 4, 5, 6, 200):
            lines.append("seq rpu %s convu8:%d" % (raw.hex(), n8))
            info.append((raw, "u8", n8))
    m = C.run_sharded(C.model, lines)
    i = C.run_sharded(C.dvh, lines)
    nd = 0
    for l, a, b in zip(lines, m, i):
        if opgen.canon_seq(a) != opgen.canon_seq(b):
            nd += 1
            if nd <= 3:
                res.violation("correspondence convert: model and implementation disagree on `%s`" % " ".join(l.split()[3:]), {"stream": "seq", "case": l, "model": a[:3000], "impl": b[:3000]})
    by = {}
    for l, (raw, kind, md), o in zip(lines, info, i):
        by[(raw, kind, md)] = (l, o)
    checked = 0
    for raw in raws:
        l0, o0 = by[(raw, "src", None)]
        if not o0.startswith("ok "):
            continue
        src = opgen.canon_seq(o0)[1]
        sp = src["dovi_profile"]
        sel = src.get("el_type")
        cdt = src["header"]["coefficient_data_type"]
        for md in range(5):
            l, o = by[(raw, "enum", md)]
            checked += 1
            if o.startswith("panic") or o in ("abort", "timeout"):
                res.violation("conversion crashed: %s on mode %d" % (o, md), {"op": "seq", "case": l, "impl": o})
                continue
            sup = SUPPORT[md]
            if o.startswith("err"):
                if sup is None or sp in sup:
                    # ToMel on profile 7/8 may only fail for a profile-7 RPU without NLQ, which cannot parse
                    res.violation("mode %d failed on a supported source profile %d" % (md, sp), {"op": "seq", "case": l, "impl": o})
                continue
            if sup is not None and sp not in sup:
                res.violation("mode %d accepted source profile %d, documented as unsupported" % (md, sp), {"op": "seq", "case": l, "impl": o[:2000]})
                continue
            c = opgen.canon_seq(o)
            st = c[1]
            if c[2] == "errw":
                res.violation("mode %d result cannot be encoded (source profile %d)" % (md, sp), {"op": "seq", "case": l, "impl": o[:2000]})
                continue
            if c[3] == "reparse-error":
                res.violation("mode %d result does not re-parse (source profile %d)" % (md, sp), {"op": "seq", "case": l, "impl": o[:2000]})
                continue
            d = first_diff(strip_for_compare(st), strip_for_compare(c[3]))
            if d:
                res.violation("mode %d result re-parses to different metadata at %s" % (md, d[0]), {"op": "seq", "case": l, "field": d[0], "impl": o[:2000]})
            # DM payload untouched
            if dm_payload(st) != dm_payload(src):
                dd = first_diff(dm_payload(src), dm_payload(st))
                res.violation("mode %d changed the display-management payload at %s" % (md, dd[0] if dd else "?"), {"op": "seq", "case": l, "impl": o[:2000]})
            # target form
            vdr12 = src["header"]["vdr_bit_depth_minus8"] == 4
            if md == 0:
                if st != src or C.unhexs(c[2]) != raw[4:]:
                    res.violation("mode 0 changed the RPU", {"op": "seq", "case": l, "impl": o[:2000]})
            elif md == 1 and vdr12 and cdt == 0:
                # without a mapping (use_prev_vdr_rpu_flag) there is no NLQ to make MEL: flags only
                if st["dovi_profile"] != 7 or (src.get("rpu_data_mapping") and st.get("el_type") != "MEL"):
                    res.violation("mode 1 result is profile %s %s, expected 7 MEL" % (st["dovi_profile"], st.get("el_type")), {"op": "seq", "case": l, "impl": o[:2000]})
            elif md in (2, 4):
                if st["dovi_profile"] != 8 or st.get("el_type") is not None:
                    res.violation("mode %d result is profile %s %s, expected 8" % (md, st["dovi_profile"], st.get("el_type")), {"op": "seq", "case": l, "impl": o[:2000]})
                if src.get("rpu_data_mapping"):
                    want_identity = md == 2 and (sp == 5 or sel == "FEL")
                    keeps = json.dumps([{k: v for k, v in cu.items()} for cu in st["rpu_data_mapping"]["curves"]]) == json.dumps([{k: v for k, v in cu.items()} for cu in src["rpu_data_mapping"]["curves"]])
                    if want_identity and not identity_mapping(st):
                        res.violation("mode 2 on profile %d %s did not install the identity mapping" % (sp, sel), {"op": "seq", "case": l, "impl": o[:2000]})
                    if not want_identity and not keeps:
                        res.violation("mode %d changed the mapping curves of a profile %d %s source" % (md, sp, sel), {"op": "seq", "case": l, "impl": o[:2000]})
            elif md == 3:
                mp = st.get("rpu_data_mapping") or {}
                if st["dovi_profile"] != 8 or [cu.get("num_pivots_minus2") for cu in mp.get("curves", [])] != [7, 0, 0]:
                    res.violation("mode 4 (8.4) result is not the static HLG reshaping", {"op": "seq", "case": l, "impl": o[:2000]})
            # idempotence (mode 1 on a non 12-bit VDR source yields a profile the mode no longer accepts)
            if md == 1 and not vdr12:
                continue
            l2, o2 = by[(raw, "twice", md)]
            if o2.startswith("ok "):
                c2 = opgen.canon_seq(o2)
                if c2[1] != st or c2[2] != c[2]:
                    res.violation("mode %d applied twice differs from applied once" % md, {"op": "seq", "case": l2, "impl": o2[:2000]})
            else:
                res.violation("mode %d applied twice fails: %s" % (md, o2[:80]), {"op": "seq", "case": l2, "impl": o2[:300]})
        # surfaces: a raw integer n means the documented mode of n (what `-m n` does)
        for n8 in range(6):
            l8, o8 = by[(raw, "u8", n8)]
            le, oe = by[(raw, "enum", DOC_CLI[n8])]
            if opgen.canon_seq(o8) != opgen.canon_seq(oe):
                res.violation("mode number %d through the integer surface (editor / library u8) is not the conversion `-m %d` performs" % (n8, n8), {"op": "seq", "case": l8, "impl": o8[:1500], "enum_result": oe[:1500]}, key="u8-mode-%d" % n8)
    # CLI surfaces on an RPU file: editor {"mode": n} vs the library enum conversion of every RPU
    tmp = os.path.join(C.TMP, "c04")
    os.makedirs(tmp, exist_ok=True)
    ncli = 0
    sample = [raw[4:] for raw in raws if by[(raw, "src", None)][1].startswith("ok ")][:25]
    inp = os.path.join(tmp, "in.bin")
    with open(inp, "wb") as f:
        for raw in sample:
            f.write(b"\x00\x00\x00\x01" + R.escape(raw))
    for n8 in range(0, 6):
        cfg = os.path.join(tmp, "m%d.json" % n8)
        open(cfg, "w").write(json.dumps({"mode": n8}))
        out = os.path.join(tmp, "out%d.bin" % n8)
        if os.path.exists(out):
            os.remove(out)
        p = subprocess.run([C.DOVI, "editor", "-i", inp, "-j", cfg, "-o", out], stdout=subprocess.PIPE, stderr=subprocess.STDOUT, timeout=300)
        ncli += 1
        exp = []
        fails = False
        for raw in sample:
            le, oe = by[(RC.SC4 + raw, "enum", DOC_CLI[n8])]
            if oe.startswith("ok ") and opgen.canon_seq(oe)[2] != "errw":
                exp.append(C.unhexs(opgen.canon_seq(oe)[2]).rstrip(b"\x00"))
            else:
                fails = True
        if fails:
            if p.returncode == 0:
                res.violation("editor {\"mode\": %d} exits 0 although a frame cannot be converted" % n8, {"cmd": "editor mode", "mode": n8, "input_rpus": [x.hex() for x in sample]})
            continue
        got = [g.rstrip(b"\x00") for g in R.read_rpu_file_raw(out)] if p.returncode == 0 and os.path.exists(out) else None
        if got != exp:
            res.violation("editor {\"mode\": %d} output differs from the `-m %d` conversion of the same RPUs (exit %d)" % (n8, n8, p.returncode), {"cmd": "editor mode", "mode": n8, "input_rpus": [x.hex() for x in sample]}, key="u8-mode-%d" % n8)
    # per mode, the RPUs that mode converts: editor {"mode": n} on a file of them, and the same number through the
    # global `-m n` flag and through `--edit-config {"mode": n}` on extract-rpu of a stream carrying them: all three
    # must give the library's conversion of every RPU (the mixed file above fails in most modes: outcome only)
    from .. import streamgen as S
    from .. import hevc as H
    rs = C.rng(res.seed, "c04surf")
    allok = [raw[4:] for raw in raws if by[(raw, "src", None)][1].startswith("ok ")]
    for n8 in range(0, 6):
        conv = []
        for raw in allok:
            le, oe = by[(RC.SC4 + raw, "enum", DOC_CLI[n8])]
            if oe.startswith("ok ") and opgen.canon_seq(oe)[2] != "errw":
                conv.append((raw, C.unhexs(opgen.canon_seq(oe)[2]).rstrip(b"\x00")))
        rs.shuffle(conv)
        conv = conv[:40]
        if not conv:
            continue
        with open(inp, "wb") as f:
            for raw, _ in conv:
                f.write(b"\x00\x00\x00\x01" + R.escape(raw))
        cfg = os.path.join(tmp, "m%d.json" % n8)
        out = os.path.join(tmp, "outc%d.bin" % n8)
        if os.path.exists(out):
            os.remove(out)
        p = subprocess.run([C.DOVI, "editor", "-i", inp, "-j", cfg, "-o", out], stdout=subprocess.PIPE, stderr=subprocess.STDOUT, timeout=300)
        ncli += 1
        got = [g.rstrip(b"\x00") for g in R.read_rpu_file_raw(out)] if p.returncode == 0 and os.path.exists(out) else None
        if got != [e for _, e in conv]:
            res.violation("editor {\"mode\": %d} on RPUs the mode converts differs from the `-m %d` conversion (exit %d)" % (n8, n8, p.returncode), {"cmd": "editor mode", "mode": n8, "input_rpus": [x.hex() for x, _ in conv]}, key="u8-mode-%d" % n8)
        nalok = [(raw, e) for raw, e in conv if raw[:3] == bytes([0x19, 8, 9])][:12]
        if not nalok:
            continue
        frames = S.gen_frames(rs, len(nalok), el=False, eos_mid=False)
        for f, (raw, _) in zip(frames, nalok):
            for i, n in enumerate(f):
                if n.type == 62:
                    f[i] = S.SNal(H.rpu_nal(raw))
        hv = os.path.join(tmp, "in.hevc")
        open(hv, "wb").write(S.stream_bytes(rs, S.flatten(frames), sc="four", tz_prob=0))
        for label, pre in (("-m %d" % n8, ["-m", str(n8)]), ("--edit-config {\"mode\": %d}" % n8, ["--edit-config", cfg])):
            out = os.path.join(tmp, "outx%d.bin" % n8)
            if os.path.exists(out):
                os.remove(out)
            p = subprocess.run([C.DOVI] + pre + ["extract-rpu", hv, "-o", out], stdout=subprocess.PIPE, stderr=subprocess.STDOUT, timeout=300)
            ncli += 1
            got = [g.rstrip(b"\x00") for g in R.read_rpu_file_raw(out)] if p.returncode == 0 and os.path.exists(out) else None
            if got != [e for _, e in nalok]:
                res.violation("%s extract-rpu differs from the library's mode %d conversion of the stream's RPUs (exit %d)" % (label, n8, p.returncode), {"cmd": "extract-rpu surface", "surface": label, "mode": n8, "input_rpus": [x.hex() for x, _ in nalok]}, key="u8-mode-%d" % n8)
    res.coverage.update({
        "evaluations": 2 * len(lines) + ncli,
        "distinct_nontrivial": checked,
        "rule": "every generated / asset RPU x the five conversion modes through the enum, applied once and twice, and the integers 0..6, 200 through the u8 surface; target form, DM payload preservation, re-parse, idempotence and equality of the integer surface with the documented CLI numbering are checked on the implementation's results; `editor {mode: n}` on an RPU file compared with the per-RPU library conversion (a mixed file, and per mode a file of the RPUs that mode converts); `-m n` and `--edit-config {mode: n}` on extract-rpu of a stream carrying those RPUs; non-trivial = (RPU, mode) pairs whose source RPU parses",
        "disagreements": nd,
        "samples": [" ".join(lines[k].split()[3:]) for k in (1, 3, 12)],
    })
    res.assumptions += ["mode 1 target form (profile 7 MEL) is checked for sources with a 12-bit VDR signal and integer coefficients; other sources are only required to encode and re-parse", "`-m` on HEVC streams is covered by C05's RPU rewrite check"]
    C.conclude(res, broken)


def replay(rp):
    r = rp["replay"]
    if "case" in r:
        print("model:", C.model().run([r["case"]])[0][:1500])
        print("impl :", C.dvh().run([r["case"]])[0][:1500])
    else:
        print(json.dumps(r)[:2000])
    return 0
