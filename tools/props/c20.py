"""C20 - the C API presents the same data as the Rust API and reports failures as errors."""
import json
from .. import common as C
from .. import rpu as R
from .. import rpucases as RC
from .. import opgen as OG


def expected_view(j):
    """the C view (as dumped by the harness mirrors) computed from the serde JSON of the same RPU"""
    h = dict(j["header"])
    hv = dict(h)
    hv["guessed_profile"] = j["dovi_profile"]
    hv["el_type"] = j.get("el_type")
    # coefficient_log2_denom_length is not exposed through the C header
    hv.pop("coefficient_log2_denom_length", None)
    hv.pop("ext_mapping_idc_0_4", None)
    hv.pop("ext_mapping_idc_5_7", None)
    m = j.get("rpu_data_mapping")
    if m is None:
        mv = None
    else:
        curves = []
        for c in m["curves"]:
            cv = {"num_pivots_minus2": c["num_pivots_minus2"], "pivots": c["pivots"], "mapping_idc": {"Polynomial": 0, "MMR": 1}[c["mapping_idc"]]}
            cv["polynomial"] = ({"poly_order_minus1": c["poly_order_minus1"], "linear_interp_flag": [1 if x else 0 for x in c["linear_interp_flag"]],
                                 "poly_coef_int": c["poly_coef_int"], "poly_coef": c["poly_coef"]} if "poly_order_minus1" in c else None)
            cv["mmr"] = ({"mmr_order_minus1": c["mmr_order_minus1"], "mmr_constant_int": c["mmr_constant_int"], "mmr_constant": c["mmr_constant"],
                          "mmr_coef_int": c["mmr_coef_int"], "mmr_coef": c["mmr_coef"]} if "mmr_order_minus1" in c else None)
            curves.append(cv)
        mv = {k: m[k] for k in ("vdr_rpu_id", "mapping_color_space", "mapping_chroma_format_idc", "num_x_partitions_minus1", "num_y_partitions_minus1")}
        mv["curves"] = curves
        mv["nlq_method_idc"] = -1 if m.get("nlq_method_idc") is None else {"LinearDeadzone": 0}[m["nlq_method_idc"]]
        mv["nlq_num_pivots_minus2"] = -1 if m.get("nlq_num_pivots_minus2") is None else m["nlq_num_pivots_minus2"]
        mv["nlq_pred_pivot_value"] = list(m.get("nlq_pred_pivot_value") or [])
        mv["nlq"] = m.get("nlq")
    d = j.get("vdr_dm_data")
    if d is None:
        dv = None
    else:
        dv = {k: d[k] for k in ("compressed", "affected_dm_metadata_id", "current_dm_metadata_id", "scene_refresh_flag", "signal_eotf", "signal_eotf_param0",
                                "signal_eotf_param1", "signal_eotf_param2", "signal_bit_depth", "signal_color_space", "signal_chroma_format",
                                "signal_full_range_flag", "source_min_pq", "source_max_pq", "source_diagonal")}
        dv["ycc_to_rgb_coef"] = [d["ycc_to_rgb_coef%d" % i] for i in range(9)]
        dv["ycc_to_rgb_offset"] = [d["ycc_to_rgb_offset%d" % i] for i in range(3)]
        dv["rgb_to_lms_coef"] = [d["rgb_to_lms_coef%d" % i] for i in range(9)]
        blocks = []
        n = 0
        for c in ("cmv29_metadata", "cmv40_metadata"):
            if d.get(c):
                n += d[c]["num_ext_blocks"]
                blocks += d[c]["ext_metadata_blocks"]
        dv["num_ext_blocks"] = n
        for lv in (1, 3, 4, 5, 6, 9, 11, 254, 255):
            hits = [b["Level%d" % lv] for b in blocks if "Level%d" % lv in b]
            dv["level%d" % lv] = hits[-1] if hits else None
        for lv in (2, 8, 10):
            dv["level%d" % lv] = [b["Level%d" % lv] for b in blocks if "Level%d" % lv in b]
    return {"header": hv, "mapping": mv, "dm": dv}


def cmp_view(got, exp, order):
    """compare the parts requested by the getter order; returns a description of the first difference"""
    for k, name in (("h", "header"), ("m", "mapping"), ("d", "dm")):
        if k not in order:
            continue
        g, e = got.get(name), exp[name]
        if g != e:
            if isinstance(g, dict) and isinstance(e, dict):
                for f in e:
                    if g.get(f) != e[f]:
                        return "%s.%s: C API %s, Rust %s" % (name, f, json.dumps(g.get(f))[:120], json.dumps(e[f])[:120])
                extra = [f for f in g if f not in e]
                return "%s: extra fields %s" % (name, extra)
            return "%s: C API %s, Rust %s" % (name, json.dumps(g)[:100], json.dumps(e)[:100])
    return None


def run(res):
    broken = C.prelude(res, need_dovi=False, tables=("CStructs_gen", "Blocks_gen", "Switches_gen", "Modes_gen"))
    r = C.rng(res.seed, "c20")
    nvalid = 120 if res.tier == "quick" else 1500
    trees = RC.valid_trees(res.seed, nvalid, "c20")
    cases = []
    for t, raw, m in trees:
        x = raw.rstrip(b"\x00")
        kind = r.choice(["rpu", "rpu", "nal"])
        if kind == "nal" and x[:3] == bytes([0x19, 8, 9]):
            cases.append(("nal", b"\x7c\x01" + R.escape(x), "valid"))
        else:
            cases.append(("rpu", RC.SC4 + x, "valid"))
    for k, v in RC.asset_cases():
        cases.append(("rpu", RC.SC4 + v.rstrip(b"\x00"), "asset " + k))
    # AV1 payloads of valid RPUs
    av = C.dvh().run(["rt rpu av1c " + c[1].hex() for c in cases[:40] if c[0] == "rpu"])
    for o in av:
        if o.startswith("ok "):
            cases.append(("av1", C.unhexs(o[3:]), "valid av1"))
    # invalid buffers through EVERY entry point (the error state is per entry point): mutated / truncated AV1
    # payloads, an HEVC NAL or a raw RPU handed to the AV1 function, mutated NALs
    for c in [c for c in cases if c[0] == "av1"][:25]:
        w = bytearray(c[1])
        for _ in range(2):
            w2 = bytearray(w)
            w2[r.randrange(len(w2))] ^= 1 << r.randrange(8)
            cases.append(("av1", bytes(w2), "mutated av1"))
        cases.append(("av1", bytes(w[: r.randrange(1, len(w))]), "truncated av1"))
    for c in [c for c in cases if c[2] == "valid"][:10]:
        cases.append(("av1", c[1], "%s buffer given to the AV1 entry point" % c[0]))
    for t, raw, m in trees[: nvalid // 4]:
        x = raw.rstrip(b"\x00")
        if x[:3] == bytes([0x19, 8, 9]):
            cases.append(("nal", b"\x7c\x01" + R.escape(RC.mutate(r, x, repair=r.random() < 0.5)), "mutated nal"))
    # invalid buffers: mutations of valid ones and corpus witnesses
    for t, raw, m in trees[: nvalid // 2]:
        cases.append(("rpu", RC.SC4 + RC.mutate(r, raw.rstrip(b"\x00"), repair=r.random() < 0.7), "mutated"))
    for name, data in list(RC.CORPUS.items())[:40] if isinstance(RC.CORPUS, dict) else []:
        cases.append(("rpu", data, "corpus " + name))
    cases.append(("rpu", b"", "empty"))
    cases.append(("rpu", b"\x19", "one byte"))
    lines, lines_rs, metas = [], [], []
    for kind, data, label in cases:
        order = "".join(r.sample("hmd", 3))
        ops = []
        for _ in range(r.choice([0, 1, 2, 3])):
            k = r.random()
            if k < 0.4:
                ops.append("conv:%d" % r.choice([0, 1, 2, 3, 4, 5, 6, 255]))
            elif k < 0.6:
                ops.append("offsets:%d,%d,%d,%d" % tuple(r.choice([0, 10, 276, 8191, 65535]) for _ in range(4)))
            elif k < 0.75:
                ops.append("rmmap")
        capi_ops = []
        for o in ops:
            capi_ops += [o, "view"] if r.random() < 0.5 else [o]
        capi_ops.append("write")
        lines.append("capi %s %s %s %s" % (kind, data.hex() or "-", order, " ".join(capi_ops)))
        metas.append((kind, data, label, order, ops, capi_ops))
    # ---- dovi_parse_rpu_bin_file / dovi_rpu_list_free: files of valid RPUs, empty, corrupted, without start code, missing
    fl = []
    valid_raws = [raw.rstrip(b"\x00") for t, raw, m in trees[:12]]
    for k in (1, 3, 8):
        fl.append(("%d valid RPUs" % k, b"".join(b"\x00\x00\x00\x01" + R.escape(x) for x in valid_raws[:k])))
    if len(valid_raws) >= 3:
        bad = bytearray(valid_raws[1]); bad[len(bad) // 2] ^= 0x5A
        fl.append(("corrupted entry in the middle", b"".join(b"\x00\x00\x00\x01" + R.escape(bytes(x)) for x in (valid_raws[0], bad, valid_raws[2]))))
    fl += [("empty file", b""), ("no start code", bytes(range(1, 60))), ("start code only", b"\x00\x00\x00\x01"), ("missing file", None)]
    fo = C.dvh().run(["capifile " + ("missing" if d is None else (d.hex() or "-")) for _, d in fl])
    nfile = 0
    for (label, d), o in zip(fl, fo):
        rp = {"kind": "file", "label": label, "input": None if d is None else d.hex()}
        key = "list-free-null" if not o.startswith("ok ") else None
        if not o.startswith("ok "):
            res.violation("dovi_parse_rpu_bin_file + dovi_rpu_list_free does not return (%s) on: %s" % (o[:40], label), rp, key=key)
            continue
        if o == "ok null":
            res.violation("dovi_parse_rpu_bin_file returns a null list for: %s" % label, rp)
            continue
        c = json.loads(o[3:])
        nfile += 1
        if (c["error"] is None) != c["rust"]["ok"]:
            res.violation("dovi_parse_rpu_bin_file: error string %r where the Rust reader %s (%s)" % (c["error"], "succeeds" if c["rust"]["ok"] else "fails", label), rp)
        elif c["rust"]["ok"] and (c["len"] != len(c["rust"]["items"]) or c["items"] != c["rust"]["items"]):
            res.violation("dovi_parse_rpu_bin_file: %d entries, the Rust reader returns %d, or their bytes differ (%s)" % (c["len"], len(c["rust"]["items"]), label), rp)
        elif not c["rust"]["ok"] and (c["len"] != 0 or not c["list_null"]):
            res.violation("dovi_parse_rpu_bin_file: failed list with len %d / non-null list (%s)" % (c["len"], label), rp)
    out = C.run_sharded(C.dvh, lines)
    nok = nerr = 0
    # Rust-side references: the state after every prefix of the op list, and the four writes at the end
    for (kind, data, label, order, ops, capi_ops), o in zip(metas, out):
        rp = {"kind": kind, "input": data.hex(), "label": label, "order": order, "ops": capi_ops}
        if not o.startswith("ok "):
            res.violation("C API call sequence does not return (%s) on %s input: %s" % (o[:60], label, " ".join(capi_ops)), rp)
            continue
        c = json.loads(o[3:])
        pr = C.dvh().run(["parse %s %s" % (kind, data.hex() or "-")])[0]
        parsed_ok = pr.startswith("ok ")
        if (c["error"] is None) != parsed_ok:
            res.violation("C parse: error string %s while the Rust parse %s (%s)" % ("unset" if c["error"] is None else "set", "succeeds" if parsed_ok else "fails", label), rp)
            continue
        if not parsed_ok:
            nerr += 1
            # every getter returns null, every operation -1, every write null
            bad = [k for k, v in c["first"].items() if v is not None]
            for st in c["steps"]:
                for k, v in st.items():
                    if k in ("conv", "offsets", "rmmap") and v != -1:
                        bad.append(k)
                    if k == "write" and any(x is not None for x in v.values()):
                        bad.append("write")
            if bad:
                res.violation("C API on a failed parse returns data for %s" % bad, rp)
            continue
        nok += 1
        d = cmp_view(c["first"], expected_view(json.loads(pr[3:])), order)
        if d:
            res.violation("C getters differ from the Rust structures (%s): %s" % (label, d), rp)
            continue
        # replay the ops through the Rust API
        done = []
        failed = False
        for st in c["steps"]:
            (k, v), = [(k, v) for k, v in st.items() if k != "error_after"][:1]
            if k in ("conv", "offsets", "rmmap"):
                done.append(ops[len(done)])
                op = done[-1].replace("conv:", "convu8:")
                ref = C.dvh().run(["seqw %s %s %s" % (kind, data.hex(), " ".join(x.replace("conv:", "convu8:") for x in done))])[0].split(" ")
                code = int(ref[1].split(",")[-1])
                if v != code:
                    res.violation("C %s returns %d, the Rust call %s (%s)" % (done[-1], v, "succeeds" if code == 0 else "fails", label), rp)
                    failed = True
                    break
            elif k == "view":
                ref = C.dvh().run(["seqw %s %s %s" % (kind, data.hex(), " ".join(x.replace("conv:", "convu8:") for x in done))])[0].split(" ")
                d = cmp_view(v, expected_view(json.loads(ref[2])), order)
                if d:
                    res.violation("C getters after %s differ from the Rust structures: %s" % (done, d), rp)
                    failed = True
                    break
            elif k == "write":
                ref = C.dvh().run(["seqw %s %s %s" % (kind, data.hex() or "-", " ".join(x.replace("conv:", "convu8:") for x in done))])[0].split(" ")
                exp = {"rpu": ref[3], "nal": ref[4], "av1p": ref[5], "av1c": ref[6]}
                for name, e in exp.items():
                    g = v[name]
                    if (g is None) != (e == "errw") or (g is not None and g != e):
                        res.violation("C write (%s) %s, the Rust call %s (%s, after %s)" % (name, "returns null" if g is None else "returns other bytes", "fails" if e == "errw" else "succeeds", label, done), rp)
                        failed = True
                        break
        if failed:
            continue
    res.coverage.update({
        "evaluations": len(lines) * 3,
        "distinct_nontrivial": len(lines),
        "rule": "valid RPUs of every profile / coefficient type / block mix from the reference generator (as RPU buffers, HEVC NALs and AV1 T.35 payloads), the repository samples, invalid buffers (mutated valid RPUs with and without CRC repair, empty, one byte); for each: parse through the extern \"C\" entry point, error string vs the Rust parse result, header / mapping / DM getters in a random order read through hand-declared repr(C) mirrors and compared field by field (sentinels, null pointers, list lengths and order) with the serde JSON of the Rust structures, then 0..3 operations (convert with modes 0..6/255, set active area offsets, remove mapping) with intermediate views, and the four write calls compared with the Rust calls; every returned object freed once through its matching free function (process survival)",
        "parsed_ok": nok, "parse_failed": nerr,
    })
    res.assumptions += ["memory safety of the free functions is runtime behaviour: observed as process survival in a build with debug assertions (which abort on a null Box), not proved",
                        "dovi_parse_rpu_bin_file / dovi_rpu_list_free are exercised on a handful of files (valid, empty, corrupted, no start code, missing); the reader behind them is C14's subject"]
    C.conclude(res, broken)


def replay(rp):
    r = rp["replay"]
    print(C.dvh().run(["capi %s %s %s %s" % (r["kind"], r["input"] or "-", r["order"], " ".join(r["ops"]))])[0][:2000])
    return 0
