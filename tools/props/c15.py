"""C15 - AV1 T.35 / EMDF wrapping round-trips every RPU of every size."""
from .. import common as C
from .. import rpu as R

# minimal valid RPU: header with use_prev_vdr_rpu_flag, no mapping, no DM data (13 payload bytes)
BASE = R.fix_crc(bytes.fromhex("190809084061365058") + b"\x00\x00\x00\x00\x80")
LIMIT = 65791


def sizes_for(res):
    if res.tier == "thorough":
        return list(range(24, LIMIT + 10))
    s = set(range(24, 1101))
    for k in range(256, LIMIT + 300, 256):
        s.update(range(k - 2, k + 3))
    s.update(range(LIMIT - 40, LIMIT + 10))
    r = C.rng(res.seed, "c15")
    s.update(r.randrange(1100, LIMIT) for _ in range(300))
    return sorted(x for x in s if x >= 24)


def ranges(sizes):
    out = []
    a = b = sizes[0]
    for x in sizes[1:]:
        if x == b + 1:
            b = x
        else:
            out.append((a, b))
            a = b = x
    out.append((a, b))
    return out


def run(res):
    broken = C.prelude(res, tables=("Consts_gen",))
    sizes = sizes_for(res)
    # ---- direct oracle on the implementation over every chosen size (with and without 0xB5)
    lines = []
    # split long ranges so that 16 workers share the work
    for a, b in ranges(sizes):
        step = 512
        for lo in range(a, b + 1, step):
            hi = min(b, lo + step - 1)
            lines.append("av1size %s %d %d %d" % (BASE.hex(), lo, hi, res.seed))
            lines.append("av1size %s %d %d %d b5" % (BASE.hex(), lo, hi, res.seed))
    out = C.run_sharded(lambda: C.dvh(release=(res.tier == "thorough")), lines, timeout=3000)
    okc = 0
    failing = {}
    for l, o in zip(lines, out):
        t = o.split()
        if t[0] != "ok":
            res.violation("av1size crashed: %s -> %s" % (l[:80], o), {"op": l, "impl": o})
            continue
        okc += int(t[1])
        if t[2] != "-":
            for f in t[2].split(","):
                sz, why = f.split(":", 1)
                sz = int(sz)
                if sz > LIMIT and why.startswith("wrap:"):
                    continue  # sizes above the two-group limit may be rejected
                failing.setdefault(sz, why)
    for sz in sorted(failing)[:6]:
        res.violation("valid RPU with payload size %d does not round-trip through the AV1 wrapper: %s" % (sz, failing[sz]),
                      {"op": "av1size", "base": BASE.hex(), "size": sz, "seed": res.seed, "why": failing[sz]}, key="size=%d" % sz)
    # ---- correspondence: model wrap/unwrap vs implementation on a subset of sizes
    r = C.rng(res.seed, "c15m")
    msizes = sorted(set(list(range(24, 300)) + [510, 511, 512, 513, 514, 767, 768, 769, 1023, 1024, 1025, 4095, 4096, 32767, 32768, LIMIT - 1, LIMIT, LIMIT + 1, LIMIT + 2] + [r.randrange(300, 8000) for _ in range(40 if res.tier == "quick" else 400)]))
    gen = C.dvh().run(["rpusize %s %d %d" % (BASE.hex(), s, res.seed) for s in msizes])
    rpus = [g.split()[1] for g in gen]
    # trailing zeros must be stripped by the wrapper
    rpus += [x + "00" * (1 + i % 3) for i, x in enumerate(rpus[:40])]
    wl = ["av1wrap " + x for x in rpus]
    mw = C.run_sharded(C.model, wl)
    iw = C.run_sharded(C.dvh, wl)
    nd = C.diff_streams(res, "av1wrap", wl, mw, iw)
    # model unwrap of the implementation's wrapped bytes gives the RPU back (minus trailing zeros)
    ul, exp = [], []
    for x, o in zip(rpus, iw):
        if o.startswith("ok "):
            ul.append("av1unwrap " + o.split()[1])
            exp.append("ok " + bytes.fromhex(x).rstrip(b"\x00").hex())
            ul.append("av1unwrap b5" + o.split()[1])
            exp.append("ok " + bytes.fromhex(x).rstrip(b"\x00").hex())
    mu = C.run_sharded(C.model, ul)
    for l, a, b in zip(ul, mu, exp):
        if a != b:
            nd += 1
            res.violation("model unwrap of implementation output differs from the RPU: %s" % l[:100], {"stream": "av1unwrap", "case": l, "model": a[:200], "expected": b[:200]})
    # malformed: truncated / mutated wrapped payloads, class only where the model is decisive (unwrap error => parse error)
    ml = []
    for o in iw[:60]:
        if o.startswith("ok "):
            w = bytearray.fromhex(o.split()[1])
            for _ in range(6):
                w2 = bytearray(w)
                k = r.randrange(0, min(len(w2), 14))
                w2[k] ^= 1 << r.randrange(8)
                ml.append(w2.hex())
            ml.append(w[: r.randrange(9, len(w))].hex())
    mm = C.run_sharded(C.model, ["av1unwrap " + x for x in ml])
    im = C.run_sharded(C.dvh, ["parseclass av1 " + x for x in ml])
    nmal = 0
    for x, a, b in zip(ml, mm, im):
        nmal += 1
        if a.startswith("err") and not b.startswith("err"):
            nd += 1
            res.violation("model rejects a wrapped payload the implementation accepts: %s" % x[:80], {"stream": "av1unwrap-malformed", "case": x, "model": a, "impl": b})
        if b.startswith("panic") or b in ("abort", "timeout"):
            pass  # C08's business
    res.coverage.update({
        "evaluations": 2 * len(sizes) + len(wl) + len(ul) + nmal,
        "distinct_nontrivial": len(set(sizes)),
        "rule": "every payload size in the tier's size set, each with pseudo-random content before the CRC (every third size with planted 00 00 03 0k / 00 00 0k / 00 00 00 runs: plain payload in the AV1 container), with and without 0xB5: wrap, header check, parse back, JSON and bytes compared; distinct sizes counted. quick: 24..1100, +-2 around every multiple of 256, the last 40 sizes below the limit, 300 random; thorough: every size 24..65800",
        "exhaustive": res.tier == "thorough",
        "sizes_checked": len(sizes),
        "sizes_ok_impl_runs": okc,
        "model_correspondence_cases": len(wl) + len(ul) + nmal,
        "disagreements": nd,
        "samples": [{"size": s, "rpu": x[:80] + "..."} for s, x in list(zip(msizes, rpus))[:3]] + [{"malformed": ml[0][:80], "model": mm[0], "impl": im[0]}],
    })
    res.assumptions += ["sizes above 65791 may be rejected (property text)", "RPU parse itself is C01/C02's model; here the unwrapped bytes are compared"]
    C.conclude(res, broken)


def replay(rp):
    r = rp["replay"]
    if r.get("op") == "av1size":
        l = "av1size %s %d %d %d" % (r["base"], r["size"], r["size"], r["seed"])
        print("impl :", C.dvh().run([l]))
        g = C.dvh().run(["rpusize %s %d %d" % (r["base"], r["size"], r["seed"])])[0].split()[1]
        print("model wrap:", C.model().run(["av1wrap " + g])[0][:120])
        print("impl  wrap:", C.dvh().run(["av1wrap " + g])[0][:120])
    else:
        print(r)
    return 0
