"""C02 - reported RPU values are exactly the values encoded in the bitstream."""
import json, os, subprocess
from .. import common as C
from .. import rpu as R
from .. import rpugen as G
from .. import rpucases as RC


def first_diff(a, b, path=""):
    if type(a) != type(b):
        return path, a, b
    if isinstance(a, dict):
        for k in list(a) + [k for k in b if k not in a]:
            if k not in a or k not in b:
                return path + "/" + k, a.get(k), b.get(k)
            d = first_diff(a[k], b[k], path + "/" + k)
            if d:
                return d
        if list(a) != list(b):
            return path + " (key order)", list(a), list(b)
        return None
    if isinstance(a, list):
        if len(a) != len(b):
            return path + " (length)", len(a), len(b)
        for i, (x, y) in enumerate(zip(a, b)):
            d = first_diff(x, y, "%s[%d]" % (path, i))
            if d:
                return d
        return None
    return None if a == b else (path, a, b)


def run(res):
    broken = C.prelude(res, need_dovi=True, tables=("Blocks_gen", "DmData_gen"))
    n = 1500 if res.tier == "quick" else 40000
    trees = RC.valid_trees(res.seed, n, "c02")
    lines = ["parse rpu " + (RC.SC4 + raw).hex() for t, raw, meta in trees]
    i = C.run_sharded(C.dvh, lines)
    m = C.run_sharded(C.model, lines)
    nd = 0
    for l, a, b in zip(lines, m, i):
        if not RC.json_equal(a, b):
            nd += 1
            if nd <= 3:
                res.violation("correspondence parse: model and implementation report different values for %s" % l[:120], {"stream": "parse", "case": l, "model": a[:3000], "impl": b[:3000]})
    acc = 0
    rejected = 0
    for (t, raw, meta), o in zip(trees, i):
        if not o.startswith("ok "):
            rejected += 1
            continue
        acc += 1
        j = json.loads(o[3:])
        exp = G.clean(t)
        exp["rpu_data_crc32"] = R.crc32_mpeg2(raw.rstrip(b"\x00")[1:-5])
        d = first_diff(exp, j)
        if d:
            res.violation("reported value differs from the encoded value at %s: encoded %s, reported %s" % (d[0], json.dumps(d[1])[:200], json.dumps(d[2])[:200]),
                          {"op": "parse rpu", "input": (RC.SC4 + raw).hex(), "field": d[0], "encoded": d[1], "reported": d[2]})
    if rejected > n * 0.2:
        res.violation("the parser rejects %d of %d reference-encoded valid RPUs" % (rejected, n), {"what": "rejections", "sample": next((RC.SC4 + raw).hex() for (t, raw, meta), o in zip(trees, i) if not o.startswith("ok "))})
    # CLI: info -f prints the same JSON; export -d all
    tmp = os.path.join(C.TMP, "c02")
    os.makedirs(tmp, exist_ok=True)
    sample = [(t, raw) for (t, raw, meta), o in zip(trees, i) if o.startswith("ok ")][:12]
    inp = os.path.join(tmp, "in.bin")
    with open(inp, "wb") as f:
        for t, raw in sample:
            f.write(b"\x00\x00\x00\x01" + R.escape(raw))
    ncli = 0
    for k, (t, raw) in enumerate(sample):
        p = subprocess.run([C.DOVI, "info", "-i", inp, "-f", str(k)], stdout=subprocess.PIPE, stderr=subprocess.STDOUT, timeout=120)
        txt = p.stdout.decode(errors="replace")
        ncli += 1
        try:
            j = json.loads(txt[txt.index("{"):])
        except Exception:
            res.violation("info -f %d printed no JSON (exit %d)" % (k, p.returncode), {"cmd": "info -f", "frame": k, "input_rpus": [x.hex() for _, x in sample], "stdout": txt[-500:]})
            continue
        exp = G.clean(t)
        exp["rpu_data_crc32"] = j.get("rpu_data_crc32")
        d = first_diff(exp, j)
        if d:
            res.violation("info -f %d reports %s = %s, encoded %s" % (k, d[0], json.dumps(d[2])[:100], json.dumps(d[1])[:100]), {"cmd": "info -f", "frame": k, "input_rpus": [x.hex() for _, x in sample], "field": d[0]})
    sigs = set(RC.signature(meta, t) for t, raw, meta in trees)
    res.coverage.update({
        "evaluations": 2 * len(lines) + ncli,
        "distinct_nontrivial": len(sigs),
        "rule": "value trees chosen by the structured generator (every field at 0 / max / sign boundary / random) are encoded by the independent reference encoder tools/rpugen.py (written from the syntax, not from the Rust writer or the Coq model); the library's serde JSON (and `info -f` stdout on a sample) must equal the tree field for field incl. key order; the Coq model's parse is compared on the same inputs; distinct = (profile, coefficient type, flags, block multiset) signatures",
        "accepted": acc, "rejected_by_parser": rejected, "disagreements": nd,
        "samples": [{"input": (RC.SC4 + trees[k][1]).hex()[:200], "profile": trees[k][2]["profile"]} for k in range(3)],
    })
    res.assumptions += ["reference encoder tools/rpugen.py and coq/theories/Grammar.v are the meaning of 'the RPU syntax' here", "docs/profiles.md says bl_video_full_range_flag = 0 for profile 5; code, assets and the grammar use 1 (documentation inconsistency, not a finding)"]
    C.conclude(res, broken)


def replay(rp):
    r = rp["replay"]
    if "input" in r:
        l = "parse rpu " + r["input"]
        print("model:", C.model().run([l])[0][:600])
        print("impl :", C.dvh().run([l])[0][:600])
    else:
        print(json.dumps(r)[:2000])
    return 0
