"""C11 - CM XML metadata is converted to RPU values by the documented formulas."""
import json, os
from .. import common as C
from .. import rpu as R
from .. import cli
from .. import rpucases as RC

VERSIONS = {"2.0.5": 0x205, "4.0.2": 0x402, "5.0.0": 0x500, "5.1.0": 0x510}
COLORSPACES = [[(68, 2), (32, 2), (265, 3), (69, 2), (15, 2), (6, 2), (3127, 4), (329, 3)],
               [(64, 2), (33, 2), (3, 1), (6, 1), (15, 2), (6, 2), (3127, 4), (329, 3)],
               [(708, 3), (292, 3), (17, 2), (797, 3), (131, 3), (46, 3), (3127, 4), (329, 3)]]
REALDEVICE = [[(693, 3), (304, 3), (208, 3), (761, 3), (1467, 4), (527, 4), (3127, 4), (329, 3)]]


def dtext(r, d):
    """a decimal (m, e) as document text; sometimes in exponent notation"""
    m, e = d
    s = "-" if m < 0 else ""
    a = str(abs(m))
    if e == 0:
        return s + a
    if r.random() < 0.1 and abs(m) > 0:
        return "%s%se-%02d" % (s, a, e)
    a = a.rjust(e + 1, "0")
    return s + a[:-e] + "." + a[-e:]


def dm(d):
    return "%d:%d" % d


def gen_dec(r, kind="trim"):
    k = r.random()
    if kind == "trim":
        if k < 0.15:
            return (0, 0)
        if k < 0.25:
            return r.choice([(1, 0), (-1, 0), (5, 1), (-5, 1)])
        if k < 0.35:
            return r.choice([(15, 1), (-15, 1), (2, 0), (-2, 0), (3, 0), (-25, 1), (99999, 5), (-99999, 5)])      # beyond the clamp
        if k < 0.5:
            # near a rounding boundary of v*2048: (k + 0.5) / 2048
            kk = r.randrange(-2048, 2048)
            num = (2 * kk + 1) * 10 ** 7 // 4096
            return (num + r.choice([-1, 0, 1]), 7)
        e = r.choice([1, 2, 3, 4, 5, 6])
        return (r.randrange(-10 ** e, 10 ** e + 1), e)
    if kind == "unit":            # L1 image character in 0..1
        if k < 0.2:
            return r.choice([(0, 0), (1, 0), (5, 1)])
        if k < 0.4:
            kk = r.randrange(0, 4095)
            return ((2 * kk + 1) * 10 ** 7 // 8190 + r.choice([-1, 0, 1]), 7)
        e = r.choice([2, 4, 6])
        return (r.randrange(0, 10 ** e + 1), e)
    raise ValueError(kind)


def gen_prim(r):
    k = r.random()
    if k < 0.45:
        return list(r.choice(COLORSPACES))
    if k < 0.6:
        return list(r.choice(REALDEVICE))
    p = list(r.choice(COLORSPACES))
    i = r.randrange(8)
    m = r.randrange(1, 9999)
    while m == 5000:
        m = r.randrange(1, 9999)
    p[i] = (m, 4)
    return p


def gen_trims(r, doc, cmv4, home_ids, allow_l9=True):
    out = []
    if r.random() < 0.8:
        out.append(("1", [gen_dec(r, "unit") for _ in range(3)]))
    for tid in r.sample(home_ids, r.randint(0, min(3, len(home_ids)))) if home_ids else []:
        out.append(("2", tid, [gen_dec(r) for _ in range(6)]))
    if r.random() < 0.3:
        out.append(("3", [gen_dec(r) for _ in range(3)]))
    if r.random() < 0.3:
        out.append(("5", [r.choice([(177778, 5), (16, 1), (2, 0)]), r.choice([(177778, 5), (238806, 5), (133333, 5), (185, 2), (1, 0), (239, 2)])]))
    if cmv4:
        for tid in r.sample(home_ids, r.randint(0, min(2, len(home_ids)))) if home_ids else []:
            zero6 = [(0, 0)] * 6
            sv = [gen_dec(r) for _ in range(6)] if r.random() < 0.4 else zero6
            hv = [gen_dec(r) for _ in range(6)] if r.random() < 0.3 else zero6
            mid = gen_dec(r) if r.random() < 0.5 else (0, 0)
            clip = gen_dec(r) if r.random() < 0.5 else (0, 0)
            out.append(("8", tid, [gen_dec(r) for _ in range(6)], mid, clip, sv, hv))
        if allow_l9 and r.random() < 0.4:
            out.append(("9", gen_prim(r)))
    r.shuffle(out)
    return out


def trim_xml(r, t, cmv4, sep):
    j = lambda ds: sep.join(dtext(r, d) for d in ds)
    lv = t[0]
    if lv == "1":
        body = "<ImageCharacter>%s</ImageCharacter>" % j(t[1])
    elif lv == "2":
        body = "<TID>%d</TID><Trim>%s</Trim>" % (t[1], j([(0, 0)] * 3 + t[2]))
    elif lv == "3":
        body = "<L1Offset>%s</L1Offset>" % j(t[1])
    elif lv == "5":
        body = "<AspectRatios>%s</AspectRatios>" % j(t[1])
    elif lv == "8":
        body = "<TID>%d</TID><L8Trim>%s</L8Trim><MidContrastBias>%s</MidContrastBias><HighlightClipping>%s</HighlightClipping><SaturationVectorField>%s</SaturationVectorField><HueVectorField>%s</HueVectorField>" % (
            t[1], j(t[2]), dtext(r, t[3]), dtext(r, t[4]), j(t[5]), j(t[6]))
    else:
        body = "<SourceColorModel>255</SourceColorModel><SourceColorPrimary>%s</SourceColorPrimary>" % j(t[1])
    if cmv4:
        return '<Level%s level="%s">%s</Level%s>' % (lv, lv, body, lv)
    return '<DolbyEDR level="%s">%s</DolbyEDR>' % (lv, body)


def trim_model(t):
    lv = t[0]
    if lv in ("1", "3"):
        return ";".join([lv] + [dm(d) for d in t[1]])
    if lv == "5":
        return ";".join([lv] + [dm(d) for d in t[1]])
    if lv == "2":
        return ";".join([lv, str(t[1])] + [dm(d) for d in t[2]])
    if lv == "8":
        return ";".join([lv, str(t[1])] + [dm(d) for d in t[2]] + [dm(t[3]), dm(t[4]), ",".join(dm(d) for d in t[5]), ",".join(dm(d) for d in t[6])])
    return "9;" + ",".join(dm(d) for d in t[1])


def trims_xml(r, trims, cmv4, sep):
    inner = "".join(trim_xml(r, t, cmv4, sep) for t in trims)
    return "<PluginNode><DVDynamicData>%s</DVDynamicData></PluginNode>" % inner if cmv4 else "<PluginNode>%s</PluginNode>" % inner


def gen_doc(r):
    vname = r.choice(list(VERSIONS))
    ver = VERSIONS[vname]
    cmv4 = ver >= 0x402
    sep = " " if cmv4 else ","
    doc = {"ver": ver}
    mp = ["ver@%d" % ver]
    # targets
    targets = []
    ids = r.sample([1, 27, 48, 37, 16, 49, 2, 20, 100, 254, 255, 77], r.randint(0, 5))
    for tid in ids:
        home = r.random() < 0.7
        t = {"id": tid, "peak": r.choice([100, 600, 1000, 2000, 4000, 108, 48, 10000, 350]), "min": r.choice([(0, 0), (5, 3), (1, 4), (1, 2), (5, 4), (1, 1), (r.randrange(0, 10001), 4), (r.randrange(0, 300), 4),
                                                                                                       (r.choice([3, 6, 7, 12, 24, 29, 58, 93, 113, 116, 232, 255, 5015, 7636]), 4)]),
             "prim": gen_prim(r), "home": home}
        targets.append(t)
        mp.append("target@%d~%d~%s~%s~%d" % (tid, t["peak"], dm(t["min"]), ",".join(dm(d) for d in t["prim"]), 1 if home else 0))
    usable = [t["id"] for t in targets if (t["home"] or ver < 0x500)]
    gx = []
    for t in targets:
        p = t["prim"]
        gx.append("<TargetDisplay><ID>%d</ID>%s<Name>t</Name><Primaries><Red>%s</Red><Green>%s</Green><Blue>%s</Blue></Primaries><WhitePoint>%s</WhitePoint><PeakBrightness>%d</PeakBrightness><MinimumBrightness>%s</MinimumBrightness></TargetDisplay>" % (
            t["id"], ("<ApplicationType>%s</ApplicationType>" % ("HOME" if t["home"] else r.choice(["CINEMA", "ALL"]))) if ver >= 0x500 else "",
            sep.join(dtext(r, d) for d in p[0:2]), sep.join(dtext(r, d) for d in p[2:4]), sep.join(dtext(r, d) for d in p[4:6]), sep.join(dtext(r, d) for d in p[6:8]),
            t["peak"], dtext(r, t["min"])))
    # global values
    ars = None
    if r.random() < 0.8:
        ars = (r.choice([(177778, 5), (16, 1), (185, 2)]), r.choice([(177778, 5), (238806, 5), (133333, 5), (239, 2), (185, 2), (2, 0), (1, 0)]))
        mp.append("ars@%s~%s" % (dm(ars[0]), dm(ars[1])))
    l6 = None
    if r.random() < 0.8:
        l6 = (r.choice([(0, 0), (756, 0), (10005, 1), (9995, 1), (4000, 0), (12345, 2)]), r.choice([(0, 0), (97, 0), (4005, 1), (3994, 1), (400, 0)]))     # MaxCLL, MaxFALL
        mp.append("maxcll@%s" % dm(l6[0]))
        mp.append("maxfall@%s" % dm(l6[1]))
    mast = None
    if r.random() < 0.85:
        # the minimum is truncated (not rounded) after x10000 in binary32: four-decimal values exercise the float width
        mast = (r.choice([(1, 4), (5, 3), (0, 0), (1, 2), (50, 4), (49999, 8), (5, 2)]) if r.random() < 0.3 else (r.randrange(0, 2001), 4),
                r.choice([1000, 2000, 4000, 10000, 600, 0, 3600, 745, 995, 79]))
        mp.append("minlum@%s" % dm(mast[0]))
        mp.append("maxlum@%d" % mast[1])
    l254 = None
    if cmv4 and r.random() < 0.6:
        l254 = (r.choice([0, 1]), r.choice([2, 2, 0, 1]))
        mp.append("l254@%d:%d" % l254)
    l11 = None
    if cmv4 and r.random() < 0.5:
        l11 = (r.choice([0, 1, 2, 4]), r.choice([0, 5, 15]))
        mp.append("l11@%d:%d" % l11)
    # shots, in any document order
    shots = []
    pos = r.choice([0, 86400])
    for _ in range(r.choice([1, 1, 2, 3, 4])):
        dur = r.choice([1, 2, 3, 6])
        frames = []
        for _ in range(r.choice([0, 0, 1, 2])):
            frames.append((r.choice([0, dur - 1, r.randrange(dur)]), gen_trims(r, doc, cmv4, usable, allow_l9=False)))
        shots.append({"start": pos, "dur": dur, "trims": gen_trims(r, doc, cmv4, usable), "frames": frames})
        pos += dur
    r.shuffle(shots)
    sx = []
    for s in shots:
        fx = "".join("<Frame><EditOffset>%d</EditOffset>%s</Frame>" % (o, trims_xml(r, ts, cmv4, sep)) for o, ts in s["frames"])
        sx.append("<Shot><UniqueID>u</UniqueID><Record><In>%d</In><Duration>%d</Duration></Record>%s%s</Shot>" % (s["start"], s["dur"], trims_xml(r, s["trims"], cmv4, sep), fx))
        mp.append("shot@%d~%d~%s~%s" % (s["start"], s["dur"], "|".join(trim_model(t) for t in s["trims"]), "^".join("%d#%s" % (o, "|".join(trim_model(t) for t in ts)) for o, ts in s["frames"])))
    head = '<DolbyLabsMDF version="%s">' % vname if (not cmv4 or r.random() < 0.5) else "<DolbyLabsMDF><Version>%s</Version>" % vname
    video = ""
    if l6:
        video += "<Level6><MaxCLL>%s</MaxCLL><MaxFALL>%s</MaxFALL></Level6>" % (dtext(r, l6[0]), dtext(r, l6[1]))
    glob = ""
    if mast:
        glob += "<MasteringDisplay><ID>20</ID><PeakBrightness>%d</PeakBrightness><MinimumBrightness>%s</MinimumBrightness></MasteringDisplay>" % (mast[1], dtext(r, mast[0]))
    glob += "".join(gx)
    plug = "<PluginNode><DVGlobalData>%s</DVGlobalData>" % glob if cmv4 else "<PluginNode><DolbyEDR><Characteristics>%s</Characteristics></DolbyEDR>" % glob
    if l11:
        plug += '<Level11 level="11"><ContentType>%d</ContentType><IntendedWhitePoint>%d</IntendedWhitePoint></Level11>' % l11
    if l254:
        plug += '<Level254 level="254"><DMMode>%d</DMMode><DMVersion>%d</DMVersion></Level254>' % l254
    plug += "</PluginNode>"
    out = '<?xml version="1.0" encoding="UTF-8"?>%s<Outputs><Output><UniqueID>o</UniqueID>%s<Video><Track><UniqueID>t</UniqueID>%s%s%s</Track></Video></Output></Outputs></DolbyLabsMDF>' % (
        head, ("<CanvasAspectRatio>%s</CanvasAspectRatio><ImageAspectRatio>%s</ImageAspectRatio>" % (dtext(r, ars[0]), dtext(r, ars[1]))) if ars else "", video, plug, "".join(sx))
    return out, mp, cmv4, sum(s["dur"] for s in shots)


def run(res):
    broken = C.prelude(res, need_dovi=True, tables=("Blocks_gen", "DmData_gen", "Switches_gen", "Consts_gen", "Prims_gen", "PqUsers_gen"))
    r = C.rng(res.seed, "c11")
    w = cli.Work("c11")
    ncase = 120 if res.tier == "quick" else 1500
    bases = {}
    nrun = 0
    stats = {"ok": 0, "err": 0, "panic": 0, "frames": 0}
    # the sample documents of the repository first
    for k in range(ncase):
        xml, mp, cmv4, total = gen_doc(r)
        args = ["generate", "--xml", w.path("in.xml"), "-o", w.path("out.bin")]
        if r.random() < 0.7:
            cw, ch = r.choice([(3840, 2160), (1920, 1080), (4096, 2160), (1921, 1081)])
            args += ["--canvas-width", str(cw), "--canvas-height", str(ch)]
            mp.append("canvas@%d:%d" % (cw, ch))
        prof = 1
        if r.random() < 0.15:
            prof = r.choice([0, 2])
            args += ["-p", {0: "5", 2: "8.4"}[prof]]
        if r.random() < 0.1:
            b = r.random() < 0.5
            args += ["--long-play-mode", "true" if b else "false"]
            mp.append("olong@%d" % (1 if b else 0))
        w.write("in.xml", xml.encode())
        if os.path.exists(w.path("out.bin")):
            os.remove(w.path("out.bin"))
        ec, txt = cli.run(args, w.dir)
        nrun += 1
        rp = {"xml": xml, "args": args[1:], "model_doc": "/".join(mp)}
        key = (prof, cmv4)
        if key not in bases:
            o = C.dvh().run(["genbase %d %d" % (prof, 1 if cmv4 else 0)])[0]
            if not o.startswith("ok "):
                raise RuntimeError("genbase failed: " + o)
            bases[key] = o[3:]
        m = C.model().run(["genxml %s %s" % ("/".join(mp), bases[key])])[0]
        if m.startswith("modelfail"):
            raise RuntimeError("model failure: " + m + " on " + "/".join(mp)[:300])
        if m.startswith("panic"):
            stats["panic"] += 1
            if ec != "panic":
                res.violation("generate --xml exits %s where the model predicts a panic (trim for an unknown target display)" % ec, rp)
            continue
        if ec not in ("0", "1"):
            res.violation("generate --xml crashed (%s): %s" % (ec, next((l for l in txt.split("\n") if "panicked" in l), "")[:200]), rp)
            continue
        if not m.startswith("ok"):
            stats["err"] += 1
            if ec == "0":
                res.violation("generate --xml exits 0 where the model reports an error", rp)
            continue
        if ec != "0":
            res.violation("generate --xml exits 1 (%s) where the model succeeds" % txt.split("Stack backtrace")[0][-200:].replace("\n", " "), rp)
            continue
        stats["ok"] += 1
        got = [x.rstrip(b"\x00") for x in R.read_rpu_file_raw(w.path("out.bin"))] if os.path.getsize(w.path("out.bin")) else []
        exp = [R.unescape(C.unhexs(x))[2:].rstrip(b"\x00") for x in m[3:].split(",")] if m != "ok -" else []
        stats["frames"] += len(got)
        if len(got) != total:
            res.violation("generate --xml wrote %d RPUs for shots totalling %d frames" % (len(got), total), rp)
            continue
        if got != exp:
            kk = next((i for i, (a, b) in enumerate(zip(got, exp)) if a != b), min(len(got), len(exp)))
            ja = C.dvh().run(["parse rpu " + (RC.SC4 + got[kk]).hex(), "parse rpu " + (RC.SC4 + exp[kk]).hex()]) if kk < min(len(got), len(exp)) else ["", ""]
            diff = ""
            try:
                a, b = json.loads(ja[0][3:]), json.loads(ja[1][3:])
                da, db = json.dumps(a["vdr_dm_data"], sort_keys=True), json.dumps(b["vdr_dm_data"], sort_keys=True)
                i = next((i for i in range(min(len(da), len(db))) if da[i] != db[i]), 0)
                diff = " impl ...%s... model ...%s..." % (da[max(0, i - 60): i + 40], db[max(0, i - 60): i + 40])
            except Exception:
                pass
            res.violation("RPU %d generated from the XML differs from the formulas of the model (%d written, %d expected)%s" % (kk, len(got), len(exp), diff[:500]), rp)
    res.coverage.update({
        "evaluations": nrun * 2,
        "distinct_nontrivial": ncase,
        "rule": "XML documents generated from a value tree: versions 2.0.5 / 4.0.2 / 5.0.0 / 5.1.0 (version as attribute or element, separator by version), 1..4 shots in shuffled document order with 0..2 frame edits, trims of levels 1/2/3/5/8/9 in shuffled order with decimals at 0, +-1, +-0.5, beyond the clamp, next to the rounding boundaries (k+0.5)/2048 and (k+0.5)/4095, random 1..6-digit decimals, some in exponent notation; 0..5 target displays with preset / custom ids, preset / real-device / custom primaries, HOME and other application types; aspect ratios equal / wider / narrower than the canvas; canvas given or absent (odd sizes included); MaxCLL / MaxFALL / mastering luminance decimals next to .5; Level254 / Level11 present or absent; CLI -p and --long-play-mode; the written RPUs compared byte for byte with the Coq evaluation of the binary32 formulas (Flocq) followed by the generator model",
        "cli_runs": nrun, "outcomes": stats,
    })
    res.assumptions += ["XML tokenisation (roxmltree) is not modelled: the generator emits the document and the typed value tree together",
                        "decimals have at most 7 significant digits and 10 decimals (one correctly rounded division reproduces a correctly rounded parse); custom primaries are never exactly 0.5 (the code divides by an inexact 1/32767)",
                        "the per-profile base RPU is an input of the model (as in C10)"]
    C.conclude(res, broken)


def replay(rp):
    r = rp["replay"]
    print(r["model_doc"][:1500])
    return 0
