"""C08 - parsing untrusted bytes always returns: no panic, abort, hang or huge allocation."""
import json, os
from .. import common as C
from .. import rpu as R
from .. import rpugen as G
from .. import rpucases as RC

AS_LIMIT = 1 << 30  # 1 GiB address space for the worker: attacker-sized allocations abort it


def ue_bits(v):
    v1 = v + 1
    lz = v1.bit_length() - 1
    return "0" * lz + format(v1, "b")


def targeted(r, raw):
    """field-targeted extremes: splice huge exp-Golomb codes / counts at random bit offsets"""
    bits = "".join(format(b, "08b") for b in raw.rstrip(b"\x00")[:-5])
    k = r.randrange(8, max(9, len(bits)))
    ins = r.choice([ue_bits(r.choice([2, 3, 7, 255, 1 << 16, (1 << 32) - 1, 1 << 40, (1 << 63) - 1, (1 << 64) - 2])), "0" * 64 + "1" + "1" * 64, "0" * 70, "1" * 40])
    nb = bits[:k] + ins + bits[k + r.choice([0, len(ins)]):]
    nb += "0" * (-len(nb) % 8)
    body = bytes(int(nb[i : i + 8], 2) for i in range(0, len(nb), 8))
    crc = R.crc32_mpeg2(body[1:])
    return body + crc.to_bytes(4, "big") + b"\x80"


def run(res):
    broken = C.prelude(res, tables=("Blocks_gen", "DmData_gen", "Switches_gen", "Consts_gen"))
    r = C.rng(res.seed, "c08")
    n = 200 if res.tier == "quick" else 6000
    trees = RC.valid_trees(res.seed, n, "c08")
    bases = [raw for _, raw, _ in trees] + [v for _, v in RC.asset_cases()] + list(RC.CORPUS.values())
    cases = []  # (entry, bytes)
    for raw in bases:
        for _ in range(4):
            cases.append(("rpu", RC.SC4 + RC.mutate(r, raw, repair=r.random() < 0.75)))
        cases.append(("rpu", RC.SC4 + targeted(r, raw)))
        cases.append(("rpu", RC.SC4 + targeted(r, raw)))
        k = r.randrange(0, len(raw))
        cases.append(("rpu", RC.SC4 + raw[:k]))
        cases.append(("nal", b"\x7c\x01" + R.escape(RC.mutate(r, raw))))
    # truncation at every byte of a few RPUs
    for raw in bases[:6]:
        for k in range(len(raw) + 1):
            cases.append(("rpu", raw[:k]))
            cases.append(("nal", b"\x7c\x01" + raw[:k]))
    # damage done on the ESCAPED bytes (what the un-escaper sees first): a NAL cut right after one of its emulation
    # prevention bytes or at any byte, with a tail from a small dictionary (inputs ending in 00 00 03, 00 00, 03 ...)
    tails = [b"", b"\x00\x00\x03", b"\x00\x00", b"\x03", b"\x00\x00\x03\x00", b"\x00\x00\x03\x03", b"\x00\x00\x00\x03", b"\x00\x03", b"\x00\x00\x03\x00\x00\x03"]
    for raw in bases[: (40 if res.tier == "quick" else 400)]:
        esc = b"\x7c\x01" + R.escape(raw)
        eps = [i + 3 for i in range(len(esc) - 2) if esc[i : i + 3] == b"\x00\x00\x03"]
        cuts = eps + [r.randrange(2, len(esc) + 1) for _ in range(3)] + [len(esc)]
        for k in cuts:
            cases.append(("nal", esc[:k] + (b"" if k in eps else r.choice(tails))))
            cases.append(("nal", esc[:k] + r.choice(tails)))
    for k in range(20, 40):
        for t in tails:
            cases.append(("nal", b"\x7c\x01\x19\x08\x09" + bytes(r.randrange(1, 256) for _ in range(k)) + t))
    # random bytes behind each accepted prefix, short buffers, zero tails
    for _ in range(250 if res.tier == "quick" else 6000):
        body = bytes(r.randrange(256) for _ in range(r.choice([0, 1, 3, 5, 21, 24, 30, 60])))
        for pre in (b"\x19\x08\x09", b"\x00\x00\x00\x01\x19", b"\x7c\x01\x19\x08\x09", b""):
            cases.append((r.choice(["rpu", "nal"]), pre + body + r.choice([b"", b"\x80", b"\x00" * 25])))
    # every number of significant bytes 0..9 in front of a zero tail, behind every prefix and in an EMDF container
    for k in range(0, 10):
        for _ in range(3):
            sig = bytes([0x19, 0x08, 0x09][:k]) + bytes(r.randrange(1, 256) for _ in range(max(0, k - 3)))
            if k >= 4 and r.random() < 0.7:
                sig = sig[:-1] + b"\x80"
            for pre in (b"", b"\x00\x00\x00\x01", b"\x7c\x01", b"\x00\x00\x01", b"\x01"):
                cases.append((r.choice(["rpu", "nal"]), pre + sig + b"\x00" * r.choice([20, 25, 40])))
        for _ in range(2):
            # AV1: header + emdf container announcing k payload bytes
            body = bytes(r.randrange(1, 256) for _ in range(max(0, k - 1))) + (b"\x80" if k else b"")
            bits = "00" + "110" + "11111" + "00110" + "1" + "00001" + "0" + "0000" + "1" + format(k, "08b") + "0" + "".join(format(x, "08b") for x in body)
            bits += "0" * (-len(bits) % 8)
            cont = bytes(int(bits[j : j + 8], 2) for j in range(0, len(bits), 8))
            cases.append(("av1", bytes.fromhex("003b00000800") + cont + b"\x00" * 30))
    # AV1: mutated wrapped payloads, long read_more chains
    wl = C.dvh().run(["av1wrap " + raw.hex() for raw in bases[:150]])
    for o in wl:
        if o.startswith("ok "):
            w = bytearray.fromhex(o.split()[1])
            for _ in range(4):
                w2 = bytearray(w)
                for _ in range(r.choice([1, 2, 3])):
                    w2[r.randrange(len(w2))] ^= 1 << r.randrange(8)
                cases.append(("av1", bytes(w2)))
            cases.append(("av1", bytes(w[: r.randrange(0, len(w))])))
    hdr = bytes.fromhex("003b0000080037cd08")
    for _ in range(200):
        cases.append(("av1", hdr + bytes(r.choice([0xFF, 0xFE, 0xFF, r.randrange(256)]) for _ in range(r.choice([25, 40, 80])))))
        cases.append(("av1", b"\xb5" + hdr + bytes(r.randrange(256) for _ in range(30))))
    lines = ["parseclass %s %s" % (e, C.hexs(b)) for e, b in cases]
    # implementation in an isolated worker: debug build always, release too in thorough
    impl = C.run_sharded(lambda: C.dvh(limit_as=AS_LIMIT), lines, timeout=600)
    mdl = C.run_sharded(C.model, lines)
    classes = {}
    nd = 0
    for (e, b), l, a, o in zip(cases, lines, mdl, impl):
        ci, cm = RC.klass(o), RC.klass(a)
        classes[ci] = classes.get(ci, 0) + 1
        if ci in ("panic", "abort", "timeout"):
            # key = <crate file>:<line> for panics inside third-party crates (cargo registry)
            key = None
            if "/.cargo/registry/" in o:
                key = "third-party:" + o.split("/src/")[-1]
            res.violation("parsing entry point %s did not return: %s on %s" % (e, o, C.hexs(b)[:160]), {"op": "parseclass " + e, "input": C.hexs(b), "impl": o}, key=key)
        elif ci != cm and cm != "modelfail":
            nd += 1
            if nd <= 3:
                res.violation("correspondence (outcome class): model=%s impl=%s on %s" % (a, o, l[:160]), {"stream": "parseclass", "case": l, "model": a, "impl": o})
    if res.tier == "thorough":
        rel = C.run_sharded(lambda: C.dvh(release=True, limit_as=AS_LIMIT), lines, timeout=600)
        for (e, b), o in zip(cases, rel):
            if RC.klass(o) in ("panic", "abort", "timeout"):
                res.violation("release build: parsing entry point %s did not return: %s on %s" % (e, o, C.hexs(b)[:160]), {"op": "parseclass " + e, "input": C.hexs(b), "impl": o, "profile": "release"})
    # ST 2094-10 and the RPU file reader have no model: outcome class only
    st = []
    st_asset = os.path.join(C.ASSETS, "tests", "st2094_10_level3.bin")
    sb = open(st_asset, "rb").read() if os.path.exists(st_asset) else b""
    st_lines = []
    for _ in range(300 if res.tier == "quick" else 5000):
        x = bytearray(sb[4:] if sb[:4] == b"\x00\x00\x00\x01" else sb)
        if r.random() < 0.3:
            x = x[: r.randrange(0, len(x) + 1)]
        else:
            for _ in range(r.choice([1, 2, 4])):
                if len(x):
                    x[r.randrange(len(x))] = r.choice([0, 0xFF, r.randrange(256)])
        st_lines.append("parseclass st2094 " + C.hexs(bytes(x)))
    for k in range(0, 12):
        st_lines.append("parseclass st2094 " + C.hexs(bytes(r.randrange(256) for _ in range(k))))
    # behind the two accepted forms: the bare T.35 message (B5 00 31 'GA94' type ...) and the SEI NAL form
    # (4E 01 04 <payload_size> B5 00 31 ...) with honest and lying payload sizes, every truncation of a few
    bare_pre = bytes([0xB5, 0x00, 0x31, 0x47, 0x41, 0x39, 0x34])
    st_forms = []
    for _ in range(400 if res.tier == "quick" else 6000):
        body = bytes([r.choice([8, 9, 8, 9, r.randrange(256)])]) + bytes(r.choice([0, 0, 0xFF, 0x80, 1, r.randrange(256)]) for _ in range(r.choice([0, 1, 2, 5, 9, 20, 40])))
        bare = bare_pre + body
        st_forms.append(bare)
        ss = r.choice([len(bare), len(bare), len(bare) + 1, len(bare) + r.randrange(1, 200), max(0, len(bare) - r.randrange(1, 8)), 0, 3, 4, 255])
        st_forms.append(bytes([0x4E, 0x01, 0x04, ss & 0xFF]) + bare + r.choice([b"", b"\x80", b"\x00\x00"]))
    for f in st_forms[:12]:
        for k in range(len(f) + 1):
            st_forms.append(f[:k])
    st_forms += [bytes([0x4E, 0x01, 0x04, ss, 0xB5, 0x00, 0x31]) for ss in (0, 1, 2, 3, 4, 5, 100, 255)]
    st_lines += ["parseclass st2094 " + C.hexs(f) for f in st_forms]
    so = C.run_sharded(lambda: C.dvh(limit_as=AS_LIMIT), st_lines, timeout=600)
    st_classes = {}
    for l, o in zip(st_lines, so):
        st_classes[RC.klass(o)] = st_classes.get(RC.klass(o), 0) + 1
        if RC.klass(o) in ("panic", "abort", "timeout"):
            res.violation("ST 2094-10 parser did not return: %s on %s" % (o, l[:160]), {"op": "parseclass st2094", "input": l.split()[2], "impl": o})
    res.coverage.update({
        "evaluations": len(lines) + len(st_lines),
        "distinct_nontrivial": len(set(lines)),
        "rule": "valid value trees / assets / witnesses with 1..4 byte or bit mutations (75% CRC-repaired), exp-Golomb extremes up to 2^64 spliced at random bit offsets, truncation at every byte, NALs cut on their escaped bytes (after each emulation prevention byte, at random bytes) with tails such as 00 00 03 / 00 00 / 03, random bytes behind each accepted prefix, short and zero-tailed buffers, mutated / truncated AV1 payloads and long read_more chains, ST 2094-10 messages behind both accepted forms (bare T.35 and SEI NAL with honest / lying payload sizes), truncated at every byte; each call in a worker with a 1 GiB address-space limit; outcome class compared with the model (RPU, NAL, AV1 entry points); distinct inputs counted",
        "impl_outcome_classes": classes, "st2094_outcome_classes": st_classes, "disagreements": nd,
        "samples": [lines[0][:160], lines[len(lines) // 2][:160], st_lines[0][:120]],
    })
    res.assumptions += ["stack depth, allocator behaviour and third-party internals beyond the mirrored functions are observed, not proved", "C API wrappers are exercised by C20"]
    C.conclude(res, broken)


def replay(rp):
    r = rp["replay"]
    if "input" in r:
        l = r.get("op", "parseclass rpu") + " " + r["input"]
        print("model:", C.model().run([l]))
        print("impl :", C.dvh(limit_as=AS_LIMIT).run([l]))
    else:
        print(json.dumps(r)[:2000])
    return 0
