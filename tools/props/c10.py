"""C10 - generator output matches its config: frame count, scene cuts, block precedence."""
import json, os
from .. import common as C
from .. import rpu as R
from .. import cli
from .. import rpugen as G
from .. import rpucases as RC

PROF_JSON = {0: ["5", "Profile5"], 1: ["8.1", "Profile81"], 2: ["8.4", "Profile84"]}
PROF_CLI = {0: "5", 1: "8.1", 2: "8.4"}
SOURCES = ["histogram", "histogram99", "max-scl", "max-scl-luminance"]


def spec_of(b):
    """{"LevelN": {...}} -> N:len:k=v,..."""
    (k, v), = b.items()
    level = int(k[5:])
    length = v.get("length", G.BLOCK_BYTES[level][0])
    kv = []
    for name, val in v.items():
        if name == "length":
            continue
        if isinstance(val, bool):
            val = 1 if val else 0
        kv.append("%s=%d" % (name, val))
    return "%d:%d:%s" % (level, length, ",".join(kv))


def gen_block(r, cm40, clean):
    levels = [1, 1, 2, 2, 3, 4, 5, 6] + ([8, 8, 9, 10, 11, 254] if cm40 or not clean else []) + ([255] if not clean else [])
    lv = r.choice(levels)
    b = G.gen_block(r, lv, valid=clean or r.random() < 0.8)
    if lv == 1 and r.random() < 0.6:
        # L1 values outside the legal ranges (they are clamped by the generator)
        b = {"Level1": {"min_pq": r.choice([0, 5, 12, 13, 300, 4095]), "max_pq": r.choice([0, 100, 2080, 2081, 3000, 4095]), "avg_pq": r.choice([0, 818, 819, 1228, 1229, 2000, 4095])}}
    return b


def gen_blocks(r, cm40, clean, kmax=3):
    return [gen_block(r, cm40, clean) for _ in range(r.choice(list(range(kmax + 1))))]


def gen_config(r, clean):
    cfg, mp = {}, []
    cm40 = r.random() < 0.6
    if cm40 or r.random() < 0.5:
        cfg["cm_version"] = "V40" if cm40 else "V29"
    if "cm_version" not in cfg:
        cm40 = True            # serde default
    if cm40:
        mp.append("cm40")
    prof = r.choice([0, 1, 1, 2])
    if prof != 1 or r.random() < 0.5:
        cfg["profile"] = r.choice(PROF_JSON[prof])
    if r.random() < 0.3:
        cfg["long_play_mode"] = r.random() < 0.6
        if cfg["long_play_mode"]:
            mp.append("long")
    for nm, key in (("source_min_pq", "min"), ("source_max_pq", "max")):
        if r.random() < 0.3:
            cfg[nm] = r.choice([0, 7, 62, 3079, 4095, r.randrange(4096)] + ([] if clean else [4096, 65535]))
            mp.append("%s@%d" % (key, cfg[nm]))
    if r.random() < 0.25:
        v = r.random() < 0.5
        cfg["l1_avg_pq_cm_version"] = "V40" if v else "V29"
        mp.append("l1cm@%d" % (1 if v else 0))
    if r.random() < 0.5:
        o = [r.choice([0, 0, 40, 276, 8191] + ([] if clean else [8192, 65535])) for _ in range(4)]
        cfg["level5"] = {"active_area_left_offset": o[0], "active_area_right_offset": o[1], "active_area_top_offset": o[2], "active_area_bottom_offset": o[3]}
        mp.append("l5@%d:%d:%d:%d" % tuple(o))
    if r.random() < 0.7:
        l6 = {"max_display_mastering_luminance": r.choice([1000, 2000, 4000, 10000, 600] + ([] if clean else [10001])), "min_display_mastering_luminance": r.choice([1, 10, 50, 11]),
              "max_content_light_level": r.choice([0, 1000, 4000]), "max_frame_average_light_level": r.choice([0, 400])}
        cfg["level6"] = l6
        mp.append("l6@" + spec_of({"Level6": l6}))
    defs = gen_blocks(r, cm40, clean)
    if defs or r.random() < 0.2:
        cfg["default_metadata_blocks"] = defs
        if defs:
            mp.append("defs@" + "|".join(spec_of(b) for b in defs))
    shots = []
    nshots = r.choice([0, 0, 1, 1, 2, 3, 5])
    start = 0
    for _ in range(nshots):
        dur = r.choice([0, 1, 1, 2, 3, 5, 9]) if not clean else r.choice([1, 2, 3, 5, 9])
        sh = {"start": start, "duration": dur}
        bl = gen_blocks(r, cm40, clean)
        if bl or r.random() < 0.5:
            sh["metadata_blocks"] = bl
        eds = []
        for _ in range(r.choice([0, 0, 1, 2, 3])):
            eds.append({"edit_offset": r.choice([0, max(0, dur - 1), dur, dur + 3, r.randrange(dur + 1)]), "metadata_blocks": gen_blocks(r, cm40, clean, 2)})
        if eds or r.random() < 0.3:
            sh["frame_edits"] = eds
        shots.append(sh)
        start += dur
        mp.append("shot@%d~%s~%s" % (dur, "|".join(spec_of(b) for b in bl), "^".join("%d#%s" % (e["edit_offset"], "|".join(spec_of(b) for b in e["metadata_blocks"])) for e in eds)))
    if r.random() < 0.15:
        r.shuffle(shots)      # `start` is not used by the generator: list order is what counts
        mp = [x for x in mp if not x.startswith("shot@")] + ["shot@%d~%s~%s" % (s["duration"], "|".join(spec_of(b) for b in s.get("metadata_blocks", [])), "^".join("%d#%s" % (e["edit_offset"], "|".join(spec_of(b) for b in e["metadata_blocks"])) for e in s.get("frame_edits", []))) for s in shots]
    if shots or r.random() < 0.3:
        cfg["shots"] = shots
    total = sum(s["duration"] for s in shots)
    k = r.random()
    if not shots:
        length = r.choice([1, 2, 5, 12]) if clean or k < 0.8 else 0
        cfg["length"] = length
    elif k < 0.4:
        length = None                       # omitted: derived from the shots
    elif (k < 0.6 and not clean) or clean:
        length = total
        cfg["length"] = length
    else:
        length = total + r.choice([1, -1, 5])   # inconsistent
        cfg["length"] = max(0, length)
        length = max(0, length)
    if length is not None:
        mp.append("length@%d" % length)
    return cfg, mp, prof, cm40


def hdr10plus_json(r, nframes, nscenes, clean):
    firsts = sorted(r.sample(range(1, nframes), nscenes - 1)) if nscenes > 1 else []
    firsts = [0] + firsts
    lens = [b - a for a, b in zip(firsts, firsts[1:] + [nframes])]
    base = r.choice([0, 0, 7])
    scenes = []
    for i in range(nframes):
        dv = [r.randrange(0, 100000) for _ in range(9)]
        # dark scenes (averages between the CM v2.9 and v4.0 floors of avg_pq: 1 .. 10 nits) as often as bright ones
        avg_rgb = r.choice([r.randrange(0, 100000), r.randrange(0, 300), r.choice([0, 4, 5, 14, 15, 50, 94, 95, 104, 105])])
        scenes.append({"LuminanceParameters": {"AverageRGB": avg_rgb, "LuminanceDistributions": {"DistributionIndex": [1, 5, 10, 25, 50, 75, 90, 95, 99], "DistributionValues": dv},
                                               "MaxScl": [r.randrange(0, 100001) for _ in range(3)]},
                       "NumberOfWindows": 1, "TargetedSystemDisplayMaximumLuminance": 0, "SceneFrameIndex": 0, "SceneId": 0, "SequenceFrameIndex": i})
    if not clean and r.random() < 0.5:
        lens = lens[:-1] if r.random() < 0.5 and len(lens) > 1 else lens + [3]
    root = {"JSONInfo": {"HDR10plusProfile": "A", "Version": "1.0"}, "SceneInfo": scenes,
            "SceneInfoSummary": {"SceneFirstFrameIndex": [f + base for f in firsts], "SceneFrameNumbers": lens}, "ToolInfo": {"Tool": "hdr10plus_tool", "Version": "1.2.1"}}
    return root, firsts, lens


def madvr_file(r, nframes, nscenes, clean):
    """a madVR measurement file (format of the madvr_parse crate, little endian): version 5 or 6, flags 2 or 3
    (3 = per-frame custom target nits follow), scenes tiling the frames, per-frame peak and 256 + 31 bin histograms"""
    import struct
    ver = r.choice([5, 6])
    flags = r.choice([2, 3, 3])
    cuts = sorted(r.sample(range(1, nframes), nscenes - 1)) if nscenes > 1 else []
    starts = [0] + cuts
    ends = cuts + [nframes]                     # stored as end + 1
    peaks = [r.choice([0, 1, 50, 99, 100, 101, 400, 1000, 4000, 10000, r.randrange(0, 10001)]) for _ in starts]
    maxcll, maxfall = r.choice([0, 1000, 4000, 65535, 70000]), r.choice([0, 400, 1000])
    out = bytearray(b"mvr+")
    out += struct.pack("<6I", ver, 0, len(starts), nframes, flags, maxcll)
    out += struct.pack("<2I", maxfall, r.randrange(0, 400))
    if ver >= 6:
        out += struct.pack("<I", r.choice([0, 1000]))
    for v in starts:
        out += struct.pack("<I", v)
    for v in ends:
        out += struct.pack("<I", v)
    for v in peaks:
        out += struct.pack("<I", v)
    for i in range(nframes):
        out += struct.pack("<H", r.randrange(0, 64001))
        if ver >= 6:
            out += struct.pack("<2H", r.randrange(0, 64001), r.randrange(0, 64001))
        # luminance histogram in percent * 640: dark, mid or bright frames (the scene average is the max of its frames' averages)
        kind = r.choice(["dark", "dark", "mid", "bright"])
        lo, hi = {"dark": (0, 40), "mid": (30, 120), "bright": (100, 256)}[kind]
        bins = [0] * 256
        for _ in range(r.choice([1, 3, 8])):
            bins[r.randrange(lo, hi)] += r.randrange(1, 20000)
        if r.random() < 0.3:
            bins[0] = r.choice([640 * 3, 640 * 10, 640 * 29, 640 * 40])     # black bars: bin 0 between 2 % and 30 % is ignored
        tot = sum(bins)
        bins = [min(65535, b * 64000 // tot) for b in bins]
        out += struct.pack("<256H", *bins)
        out += struct.pack("<31H", *[r.randrange(0, 3000) for _ in range(31)])
    if flags == 3:
        for i in range(nframes):
            out += struct.pack("<H", r.choice([0, 50, 100, 400, 1000, 4000, 10000, r.randrange(0, 10001)]))
    if not clean and r.random() < 0.3:
        out = out[: r.randrange(4, len(out))]          # truncated file
    return bytes(out)


def rnd_half_away(x):
    import math
    return int(math.floor(x + 0.5)) if x >= 0 else -int(math.floor(-x + 0.5))


def peak_nits(scene, source):
    lp = scene["LuminanceParameters"]
    if source == "histogram":
        return max(lp["LuminanceDistributions"]["DistributionValues"]) / 10.0
    if source == "histogram99":
        return lp["LuminanceDistributions"]["DistributionValues"][-1] / 10.0
    if source == "max-scl":
        return max(lp["MaxScl"]) / 10.0
    rr, gg, bb = (float(x) for x in lp["MaxScl"])
    return ((0.2627 * rr) + (0.678 * gg) + (0.0593 * bb)) / 10.0


def run(res):
    broken = C.prelude(res, need_dovi=True, tables=("Blocks_gen", "DmData_gen", "Switches_gen", "Consts_gen", "PqUsers_gen"))
    r = C.rng(res.seed, "c10")
    w = cli.Work("c10")
    ncase = 120 if res.tier == "quick" else 1500
    bases = {}
    nrun = 0
    stats = {"ok": 0, "err": 0, "frames": 0, "hdr10plus": 0, "overrides": 0}
    for k in range(ncase):
        clean = r.random() < 0.7
        cfg, mp, prof, cm40 = gen_config(r, clean)
        args = ["generate", "-j", w.path("cfg.json"), "-o", w.path("out.bin")]
        if r.random() < 0.2:
            prof = r.choice([0, 1, 2])
            args += ["-p", PROF_CLI[prof]]
            stats["overrides"] += 1
        if r.random() < 0.15:
            b = r.random() < 0.5
            args += ["--long-play-mode", "true" if b else "false"]
            mp.append("olong@%d" % (1 if b else 0))
            stats["overrides"] += 1
        use_hdr = r.random() < 0.3
        if use_hdr:
            nfr = r.choice([1, 2, 5, 9, 14])
            nsc = r.randint(1, min(4, nfr))
            root, firsts, lens = hdr10plus_json(r, nfr, nsc, clean)
            if "l1_avg_pq_cm_version" not in cfg and r.random() < 0.6:
                v = r.random() < 0.4
                cfg["l1_avg_pq_cm_version"] = "V40" if v else "V29"
                mp.append("l1cm@%d" % (1 if v else 0))
            src = r.choice(SOURCES)
            w.write("hdr.json", json.dumps(root).encode())
            args += ["--hdr10plus-json", w.path("hdr.json"), "--hdr10plus-peak-source", src]
            fl = []
            for f in firsts:
                sc = root["SceneInfo"][f]
                fl.append((rnd_half_away(peak_nits(sc, src)), rnd_half_away(sc["LuminanceParameters"]["AverageRGB"] / 10.0)))
            mp.append("hdr@%d~%s~%s" % (nfr, ",".join("%d:%d" % x for x in fl), ",".join(map(str, lens))))
            stats["hdr10plus"] += 1
        use_madvr = (not use_hdr) and r.random() < 0.15
        if use_madvr:
            nfr = r.choice([1, 2, 5, 9, 14])
            nsc = r.randint(1, min(4, nfr))
            mfile = madvr_file(r, nfr, nsc, clean)
            w.write("madvr.bin", mfile)
            custom = r.random() < 0.6
            args += ["--madvr-file", w.path("madvr.bin")] + (["--use-custom-targets"] if custom else [])
            if "l1_avg_pq_cm_version" not in cfg and r.random() < 0.6:
                v = r.random() < 0.4
                cfg["l1_avg_pq_cm_version"] = "V40" if v else "V29"
                mp.append("l1cm@%d" % (1 if v else 0))
            mi = C.dvh().run(["madvrinfo " + mfile.hex()])[0]
            stats["madvr"] = stats.get("madvr", 0) + 1
            if mi.startswith("ok "):
                t = mi.split(" ")
                mflags, mcll, mfall, mfc = int(t[1]), int(t[2]), int(t[3]), int(t[4])
                sc = [tuple(int(v) for v in x.split(":")) for x in t[5].split(",")] if t[5] != "-" else []
                tg = [int(v) for v in t[6].split(",")] if t[6] != "-" else []
                parts = []
                for (st, ln, mx, av) in sc:
                    e = "%d:%d:%d" % (ln, mx, av)
                    if custom and mflags == 3:
                        e += ":" + "+".join(str(v) for v in tg[st : st + ln])
                    parts.append(e)
                mp.append("madvr@%d~%s~%d:%d" % (mfc, ",".join(parts), mcll, mfall))
                lens, firsts = [x[1] for x in sc], [x[0] for x in sc]
            else:
                mp.append("madvrerr")
        w.write("cfg.json", json.dumps(cfg).encode())
        if os.path.exists(w.path("out.bin")):
            os.remove(w.path("out.bin"))
        ec, txt = cli.run(args, w.dir)
        nrun += 1
        rp = {"config": cfg, "args": args[1:], "model_config": "/".join(mp)}
        if use_hdr:
            rp["hdr10plus"] = root
        if use_madvr:
            rp["madvr_hex"] = mfile.hex()
        key = (prof, cm40)
        if key not in bases:
            o = C.dvh().run(["genbase %d %d" % (prof, 1 if cm40 else 0)])[0]
            if not o.startswith("ok "):
                raise RuntimeError("genbase failed: " + o)
            bases[key] = o[3:]
            # the hypothesis of C10_precedence / C10_last_writer on this base: every (level, target) key at most once
            u = C.model().run(["uniqkeys " + o[3:]])[0]
            if u != "ok true":
                res.violation("the base RPU of profile %s (CM v4.0 %s) does not hold every block key once (%s): the precedence theorem does not apply to it" % (PROF_CLI[prof], cm40, u), {"base": o[3:], "profile": prof, "cm40": cm40})
        m = "err" if "madvrerr" in mp else C.model().run(["gen %s %s" % ("/".join(mp) or "-", bases[key])])[0]
        if m.startswith("modelfail"):
            raise RuntimeError("model failure: " + m + " on " + "/".join(mp)[:300])
        if ec not in ("0", "1"):
            if m.startswith("panic") and ec == "panic":
                stats["err"] += 1
                continue
            res.violation("generate crashed (%s): %s" % (ec, next((l for l in txt.split("\n") if "panicked" in l), "")[:160]), rp)
            continue
        if not m.startswith("ok"):
            stats["err"] += 1
            if ec == "0":
                res.violation("generate exits 0 where the model reports %s, config %s" % (m[:20], json.dumps(cfg)[:300]), rp)
            continue
        if ec != "0":
            res.violation("generate exits 1 (%s) where the model succeeds, config %s" % (txt.split("Stack backtrace")[0][-200:].replace("\n", " "), json.dumps(cfg)[:300]), rp)
            continue
        stats["ok"] += 1
        if use_madvr:
            stats["madvr_ok"] = stats.get("madvr_ok", 0) + 1
        got = [x.rstrip(b"\x00") for x in R.read_rpu_file_raw(w.path("out.bin"))] if os.path.getsize(w.path("out.bin")) else []
        exp = [R.unescape(C.unhexs(x))[2:].rstrip(b"\x00") for x in m[3:].split(",")] if m != "ok -" else []
        stats["frames"] += len(got)
        if got != exp:
            kk = next((i for i, (a, b) in enumerate(zip(got, exp)) if a != b), min(len(got), len(exp)))
            res.violation("generated RPU %d differs from the model (%d written, %d expected), config %s" % (kk, len(got), len(exp), json.dumps(cfg)[:300]), rp)
            continue
        # ---- direct checks: count, parseable, profile, scene cuts
        shots = cfg.get("shots") or []
        if use_hdr or use_madvr:
            durs = lens[: len(firsts)]
            n_exp = nfr
        else:
            durs = [s["duration"] for s in shots] if shots else [cfg.get("length", 0)]
            n_exp = sum(durs)
        if len(got) != n_exp:
            res.violation("generate wrote %d RPUs, the config asks for %d" % (len(got), n_exp), rp)
            continue
        pj = C.dvh().run(["parse rpu " + (RC.SC4 + x).hex() for x in got])
        long_mode = ("long" in mp and "olong@0" not in mp) or "olong@1" in mp
        pos = 0
        firsts_exp = set()
        for d in durs:
            if d > 0:
                firsts_exp.add(pos)
            pos += d
        for i, o in enumerate(pj):
            if not o.startswith("ok "):
                res.violation("generated RPU %d does not parse" % i, rp)
                break
            j = json.loads(o[3:])
            want_prof = 5 if prof == 0 else 8
            if j["dovi_profile"] != want_prof:
                res.violation("generated RPU %d has profile %s, requested %s" % (i, j["dovi_profile"], PROF_CLI[prof]), rp)
                break
            flag = j["vdr_dm_data"]["scene_refresh_flag"]
            if flag != (1 if (long_mode or i in firsts_exp) else 0):
                res.violation("scene cut flag of frame %d is %d (shots %s, long play %s)" % (i, flag, durs, long_mode), rp)
                break
            if (j["vdr_dm_data"].get("cmv40_metadata") is not None) != cm40:
                res.violation("generated RPU %d: CM v4.0 metadata presence does not match cm_version" % i, rp)
                break
    res.coverage.update({
        "evaluations": nrun * 2,
        "distinct_nontrivial": ncase,
        "rule": "generator configs built field by field: cm_version given/omitted, profile 5 / 8.1 / 8.4 by both spellings, long_play_mode, source min/max PQ, l1_avg_pq_cm_version, level5, level6 (incl. values deriving source levels), default blocks of every level, 0..5 shots with durations 0..9 in any order, frame edits at offset 0 / last / beyond the shot / duplicated, L1 values inside and outside the legal ranges, length given / omitted / inconsistent; CLI overrides -p and --long-play-mode; 30% with an HDR10+ JSON of 1..14 frames and 1..4 scenes (first-frame offsets, all four peak sources, inconsistent summary arrays, scene averages between the CM v2.9 and v4.0 avg_pq floors, l1_avg_pq_cm_version differing from cm_version); 15% with a madVR measurement file (versions 5 / 6, flags 2 / 3, 1..4 scenes, dark / mid / bright histograms, black bars, --use-custom-targets, header MaxCLL / MaxFALL filling the config's L6; scene and frame statistics as the madvr_parse crate derives them are inputs of the model); output compared RPU by RPU with the Coq model (base RPU of the profile taken from the implementation's empty config), and directly: count = requested length, every RPU parses, profile, CM version, scene-cut flag on the first frame of each shot or on every frame in long-play mode",
        "cli_runs": nrun, "outcomes": stats,
    })
    res.assumptions += ["the per-profile base RPU (header / mapping / DM presets of profiles/*.rs) is an input of the model taken from the implementation for the empty config",
                        "HDR10+ peak brightness per scene (third-party hdr10plus crate, a max / last / weighted sum of JSON integers) is recomputed by the harness glue; nits -> PQ code uses the table certified in C19",
                        "madVR measurement files are not generated (binary third-party format)"]
    C.conclude(res, broken)


def replay(rp):
    r = rp["replay"]
    print(json.dumps(r["config"])[:1000])
    print(r["model_config"][:600])
    return 0
