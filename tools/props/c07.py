"""C07 - RPU k belongs to displayed frame k, for both extract-rpu and inject-rpu."""
import json, os
from .. import common as C
from .. import rpu as R
from .. import hevc as H
from .. import cli
from .. import streamgen as S
from . import c05


def gen_gop(r, n, wrap=False, neg_leading=False):
    """decode-order list of (nal_type, poc) with reordering, CRA leading pictures, IDR resets"""
    gop = []
    base = r.choice([0, 0, 200]) if wrap else 0       # POC values past 256 exercise the LSB wrap
    pocs = []
    k = 0
    cur = 0
    first = True
    while len(gop) < n:
        kind = r.random()
        if first or kind < 0.12:
            t = 19 if first or r.random() < 0.5 else 20
            gop.append((t, 0))
            cur = 0
            first = False
            if neg_leading and len(gop) == 1:
                gop.append((7, -2))
                gop.append((7, -1))
        elif kind < 0.2 and cur > 0:
            # CRA with two leading pictures that precede it in display order
            cra = cur + 4
            gop.append((21, cra))
            gop.append((9, cra - 2))
            gop.append((9, cra - 1))
            cur = cra
        else:
            size = r.choice([1, 2, 4])
            anchor = cur + size
            gop.append((1, anchor))
            inner = list(range(cur + 1, anchor))
            r.shuffle(inner)
            for p in inner:
                gop.append((0, p))
            cur = anchor
    return gop[:n] if not neg_leading else gop[: max(n, 3)]


def display_order(gop):
    """reference: frames ordered by POC within each random-access period (periods in stream order)"""
    periods = []
    for i, (t, poc) in enumerate(gop):
        if 16 <= t <= 23 or not periods:
            periods.append([])
        periods[-1].append((poc, i))
    out = []
    for p in periods:
        out += [i for poc, i in sorted(p, key=lambda x: x[0])]
    return out


def build(r, gop, el=False, with_rpu=True, aud=True):
    """frames with distinguishable RPUs; POC LSB only goes into the slice header"""
    frames = S.gen_frames(r, len(gop), el=el, gop=[(t, p) for t, p in gop], aud_prob=1.0 if aud else 0.0)
    # model POC: what hevc_parser computes (u64); negative values wrap
    for f, (t, p) in zip(frames, gop):
        for n in f:
            if n.type <= 21 and n.layer == 0:
                n.poc = p if p >= 0 else (1 << 64) + p
    if not with_rpu:
        frames = [[n for n in f if n.type != 62] for f in frames]
    return frames


def run(res):
    broken = C.prelude(res, need_dovi=True, tables=("Switches_gen",))
    r = C.rng(res.seed, "c07")
    w = cli.Work("c07")
    ncase = 40 if res.tier == "quick" else 500
    from .. import rpucases as RC
    trees = RC.valid_trees(res.seed, 90, "c07", profile=8)
    okl = C.dvh().run(["parseclass rpu " + (RC.SC4 + raw).hex() for t, raw, m in trees])
    pool = []
    for (t, raw, m), ok in zip(trees, okl):
        x = raw.rstrip(b"\x00")
        if ok == "ok" and x[:3] == bytes([0x19, 8, 9]) and x not in pool:
            pool.append(x)
    nrun = 0
    kinds = {}
    for k in range(ncase + 1):
        neg = (k == ncase)                       # the last case: RADL pictures with negative POC
        n = r.choice([1, 2, 3, 6, 10, 16, 24])
        gop = gen_gop(r, n, wrap=r.random() < 0.3, neg_leading=neg)
        frames = build(r, gop, el=r.random() < 0.4, aud=r.random() < 0.8)
        real_chunk = k < (2 if res.tier == "quick" else 10)
        if real_chunk:
            # larger than the real 100 kB read size, no hook override: a large prefix SEI NAL in two access units
            for fi in sorted({0, len(frames) // 2}):
                f = frames[fi]
                pos = 1 if f and f[0].type == 35 else 0
                f.insert(pos, S.SNal(H.sei_nal([(200, H.filler(r, r.choice([60000, 99990, 100003])))])))
        nals = S.flatten(frames)
        data = S.stream_bytes(r, nals, sc=r.choice(["four", "mixed"]))
        cs = None if real_chunk else r.choice([None, 1000, 2000, 10000])
        key = "negative-leading-poc" if neg else None
        tags = [S.tagged_rpu(r, i) for i in range(len(gop))]
        # frames carry tagged_rpu(fi) by construction (gen_frames without pool): recover them
        in_rpus = [R.unescape(nn.data[2:]) for nn in nals if nn.type == 62]
        # ---------------- extract-rpu
        inp = w.write("in.hevc", data)
        outp = w.path("RPU.bin")
        if os.path.exists(outp):
            os.remove(outp)
        mode = r.choice([None, None, 0]) if not neg else None
        if mode is not None and len(pool) >= len(frames):
            # conversions need parseable RPUs: give every frame a distinct valid one
            sel = r.sample(pool, len(frames))
            for f, x in zip(frames, sel):
                for i, nn in enumerate(f):
                    if nn.type == 62:
                        f[i] = S.SNal(H.rpu_nal(x))
            nals = S.flatten(frames)
            data = S.stream_bytes(r, nals, sc=r.choice(["four", "mixed"]))
            in_rpus = [R.unescape(nn.data[2:]) for nn in nals if nn.type == 62]
            inp = w.write("in.hevc", data)
        args = (["-m", str(mode)] if mode is not None else []) + ["extract-rpu", inp, "-o", outp]
        ec, txt = cli.run(args, w.dir, chunk_size=cs)
        nrun += 1
        kinds["extract"] = kinds.get("extract", 0) + 1
        kinds["extract_ok"] = kinds.get("extract_ok", 0) + (1 if ec == "0" else 0)
        m = C.model().run(["extract m=%s %s" % ("-" if mode is None else mode, ";".join(x.model() for x in nals))])[0]
        got = [x.rstrip(b"\x00") for x in R.read_rpu_file_raw(outp)] if ec == "0" and os.path.exists(outp) else None
        rp = {"cmd": "extract-rpu", "gop": gop, "chunk_size": cs, "stream_hex": data.hex(), "nals": [x.model() for x in nals]}
        if ec not in ("0", "1"):
            res.violation("extract-rpu crashed (%s) on GOP %s" % (ec, gop[:8]), rp, key=key)
        else:
            if m.startswith("ok "):
                exp = [R.unescape(C.unhexs(x)) for x in m[3:].split(",")] if m != "ok -" else []
                if got != exp:
                    res.violation("extract-rpu order differs from the model for GOP %s" % (gop[:10],), rp, key=key)
            elif ec == "0":
                res.violation("extract-rpu exits 0, the model predicts %s" % m[:20], rp, key=key)
            # direct oracle: k-th RPU is the RPU of the frame displayed k-th
            if got is not None and not neg:
                order = display_order(gop)
                exp2 = [in_rpus[i] for i in order]
                if got != exp2:
                    res.violation("extract-rpu: RPU order is not display order for GOP %s" % (gop[:10],), rp)
            elif got is not None and neg:
                order = display_order(gop)
                if got != [in_rpus[i] for i in order]:
                    res.violation("extract-rpu misorders leading pictures with negative POC (hevc_parser computes POC as u64)", rp, key=key)
        if neg:
            continue
        # ---------------- inject-rpu
        nfr = len(gop)
        # shorter lists end anywhere inside the stream (also in the middle of a reordered group), not only two before the end
        nr = r.choice([nfr, nfr, r.randint(1, max(1, nfr - 1)), r.randint(1, max(1, nfr - 1)), nfr + 3])
        rpus = r.sample(pool, nr) if nr <= len(pool) else [r.choice(pool) for _ in range(nr)]      # valid, pairwise distinct RPUs
        rpuf = w.write("new.bin", b"".join(b"\x00\x00\x00\x01" + R.escape(x) for x in rpus))
        src_frames = frames if r.random() < 0.5 else [[nn for nn in f if nn.type != 62] for f in frames]
        src = S.flatten(src_frames)
        sdata = S.stream_bytes(r, src, sc="four")
        inp2 = w.write("bl.hevc", sdata)
        outh = w.path("inj.hevc")
        if os.path.exists(outh):
            os.remove(outh)
        noaud = r.random() < 0.4
        annexb = r.random() < 0.3
        args = (["--start-code", "annex-b"] if annexb else []) + ["inject-rpu", "-i", inp2, "--rpu-in", rpuf, "-o", outh] + (["--no-add-aud"] if noaud else [])
        # the hook also drives the RPU file reader, whose BufReader needs requests >= 8192 bytes
        cs = None if real_chunk else r.choice([None, 10000, 12500, 20000, 50000])
        ec, txt = cli.run(args, w.dir, chunk_size=cs)
        nrun += 1
        kinds["inject"] = kinds.get("inject", 0) + 1
        kinds["inject_ok"] = kinds.get("inject_ok", 0) + (1 if ec == "0" else 0)
        m = C.model().run(["inject noaud=%d,annexb=%d %s %s" % (1 if noaud else 0, 1 if annexb else 0, ";".join(x.model() for x in src), ",".join((b"\x7c\x01" + R.escape(x)).hex() for x in rpus))])[0]
        rp = {"cmd": "inject-rpu", "gop": gop, "chunk_size": cs, "no_add_aud": noaud, "stream_hex": sdata.hex(), "rpus": [x.hex() for x in rpus], "nals": [x.model() for x in src]}
        if ec not in ("0", "1"):
            res.violation("inject-rpu crashed (%s)" % ec, rp)
            continue
        if ec == "1" or not m.startswith("ok"):
            if (ec == "0") != m.startswith("ok"):
                res.violation("inject-rpu exit %s, model %s" % (ec, m[:30]), rp)
            continue
        outd = w.read("inj.hevc") or b""
        got = [x.rstrip(b"\x00") for x in R.split_annexb(outd)]
        exp = [C.unhexs(x.split(":")[1]).rstrip(b"\x00") for x in m[3:].split(",")] if m != "ok -" else []
        if got != exp:
            kk = next((i for i, (a, b) in enumerate(zip(got, exp)) if a != b), min(len(got), len(exp)))
            res.violation("inject-rpu output differs from the model at NAL %d (%d vs %d NALs)" % (kk, len(got), len(exp)), rp)
            continue
        # direct oracle: per frame exactly one RPU = rpus[display rank], after all NALs but EOS/EOB; others unchanged
        order = display_order(gop)
        rank = {fi: kpos for kpos, fi in enumerate(order)}
        o = C.dvh().run(["hevc 100000 " + outd.hex()])[0].split(" ")
        if o[0] == "ok":
            per = {}
            seq = []
            for ent, nalb in zip(o[2].split(","), R.split_annexb(outd)):
                t, idx = ent.split(":")[:2]
                per.setdefault(int(idx), []).append((int(t), nalb.rstrip(b"\x00")))
            for fi in range(nfr):
                fn = per.get(fi, [])
                rl = [x for x in fn if x[0] == 62]
                want = rpus[rank[fi]] if rank[fi] < nr else rpus[-1] if False else None
                if len(rl) != 1:
                    res.violation("injected stream: frame %d carries %d RPUs" % (fi, len(rl)), rp)
                    break
                if want is not None and R.unescape(rl[0][1][2:]) != want:
                    res.violation("injected stream: frame %d (display rank %d) carries the wrong RPU" % (fi, rank[fi]), rp)
                    break
                tail = [x[0] for x in fn[[x[0] for x in fn].index(62) + 1:]]
                if any(t not in (36, 37) for t in tail):
                    res.violation("injected stream: NALs other than EOS/EOB follow the RPU of frame %d" % fi, rp)
                    break
            other_in = [nn.data.rstrip(b"\x00") for nn in src if nn.type not in (62, 35)]
            other_out = [x for x in got if (x[0] >> 1) & 0x3F not in (62, 35)]
            if other_in != other_out:
                res.violation("inject-rpu changed, dropped or reordered a NAL of the video", rp)
            if not noaud:
                auds = sum(1 for x in got if (x[0] >> 1) & 0x3F == 35)
                if auds != nfr:
                    res.violation("inject-rpu wrote %d AUDs for %d frames" % (auds, nfr), rp)
        # ---------------- extract(inject(s, rpus)) = rpus for equal lengths
        if nr == nfr:
            outb = w.path("back.bin")
            if os.path.exists(outb):
                os.remove(outb)
            ec, txt = cli.run(["extract-rpu", outh, "-o", outb], w.dir, chunk_size=cs)
            nrun += 1
            back = [x.rstrip(b"\x00") for x in R.read_rpu_file_raw(outb)] if ec == "0" and os.path.exists(outb) else None
            if back != rpus:
                res.violation("extract-rpu(inject-rpu(s, rpus)) differs from rpus", rp)
    res.coverage.update({
        "evaluations": nrun,
        "distinct_nontrivial": ncase,
        "rule": "streams of 1..24 frames whose decode order is generated from GOP structures (IDR resets, P anchors with shuffled B pictures in between, CRA with leading pictures, POC beyond 256 for LSB wrap-around, 1..4 slices per frame, EL present or not, AUD present or not), each frame tagged with a distinguishable RPU; extract-rpu (with and without -m 0) and inject-rpu (RPU list equal / shorter (ending at any position, also inside a reordered group) / longer, --no-add-aud, --start-code annex-b, existing RPUs or none) under hook chunk sizes; outputs compared with the Coq model and with a reference display order computed from the generator's POCs; extract(inject) round trip; one stream with negative-POC leading pictures (known finding); distinct GOPs counted",
        "cli_runs": nrun, "kinds": kinds,
        "samples": [{"gop": gen_gop(C.rng(res.seed, "c07s"), 8)}],
    })
    res.assumptions += ["POC derivation from slice headers (hevc_parser) is an input of the model; the generator supplies the POC the parser computes", "RPU list shorter than the frame count duplicates the last written RPU (documented behaviour), checked through the model"]
    C.conclude(res, broken)


def replay(rp):
    r = rp["replay"]
    print(json.dumps({k: (v if k not in ("stream_hex", "nals", "rpus") else "...") for k, v in r.items()}))
    if "nals" in r and r.get("cmd") == "extract-rpu":
        print(C.model().run(["extract m=- " + ";".join(r["nals"])])[0][:400])
    return 0
