"""C19 - PQ <-> nits conversions match ST 2084 and are exact inverses on code values."""
from decimal import Decimal, getcontext
from .. import common as C
from .. import pqgen

getcontext().prec = 60
M1 = Decimal(2610) / Decimal(16384)
M2 = Decimal(2523) / Decimal(4096) * 128
C1 = Decimal(3424) / Decimal(4096)
C2 = Decimal(2413) / Decimal(4096) * 32
C3 = Decimal(2392) / Decimal(4096) * 32


def dpow(x, p):
    return (p * x.ln()).exp() if x > 0 else Decimal(0)


def ref_pq(nits):
    y = Decimal(nits) / Decimal(10000)
    yp = dpow(y, M1)
    return dpow((C1 + C2 * yp) / (1 + C3 * yp), M2)


def ref_eotf(x):
    if x <= 0:
        return Decimal(0)
    xp = dpow(Decimal(x), 1 / M2)
    num = max(xp - C1, Decimal(0))
    den = C2 - C3 * xp
    return dpow(num / den, 1 / M1) * 10000


def summary_sweep(res):
    """every 12-bit code as source_min_pq and source_max_pq of one RPU each: `info --summary` prints the
    luminance of every distinct pair, i.e. one line covers the whole code domain; compared with the
    60-digit reference (minimum with 4 decimals, peak snapped to the nearest multiple of 1000 nits)"""
    import re
    from .. import rpugen as G, rpu as R, cli, rpucases as RC
    r = C.rng(1, "c19-summary")
    base = None
    for _ in range(200):
        t, meta = G.gen_tree(r, profile=8)
        if t.get("vdr_dm_data") is None:
            continue
        x = G.encode(t).rstrip(b"\x00")
        if x[:3] == bytes([0x19, 8, 9]) and C.dvh().run(["parseclass rpu " + (RC.SC4 + x).hex()])[0] == "ok":
            base = t
            break
    if base is None:
        raise RuntimeError("no valid base RPU for the summary sweep")
    raws = []
    for c in range(4096):
        base["vdr_dm_data"]["source_min_pq"] = c
        base["vdr_dm_data"]["source_max_pq"] = c
        raws.append(G.encode(base).rstrip(b"\x00"))
    w = cli.Work("c19")
    inp = w.write("codes.bin", b"".join(b"\x00\x00\x00\x01" + R.escape(x) for x in raws))
    ec, txt = cli.run(["info", "-i", inp, "-s"], w.dir)
    m = re.search(r"RPU mastering display: ([^\n]*)", txt)
    if ec != "0" or not m:
        res.violation("info --summary on the 4096-code list exits %s" % ec, {"fn": "summary", "what": "no mastering display line", "output": txt[-300:]})
        return 0
    items = m.group(1).split(", ")
    if len(items) != 4096:
        res.violation("info --summary prints %d mastering display pairs for 4096 distinct ones" % len(items), {"fn": "summary", "what": "pair count", "printed": len(items)})
        return 0
    nbad = 0
    for c, it in enumerate(items):
        mm = re.fullmatch(r"([0-9.]+)/([0-9.]+) nits", it)
        v = ref_eotf(Decimal(c) / 4095)
        peak = int((v / 1000 + Decimal("0.5")).to_integral_value(rounding="ROUND_FLOOR")) * 1000
        ok = mm is not None and abs(Decimal(mm.group(1)) - v) <= Decimal("0.00005") + Decimal("0.000001") and Decimal(mm.group(2)) == peak
        if not ok:
            nbad += 1
            if nbad <= 3:
                res.violation("info --summary prints `%s` for source PQ code %d: ST 2084 gives %.6f nits (minimum, 4 decimals) and a peak of %d nits (nearest multiple of 1000)" % (it, c, v, peak),
                              {"fn": "summary", "code": c, "printed": it, "reference_nits": str(v), "reference_peak": peak})
    return 4096


def xml_target_sweep(res, nits, minl):
    """custom target displays of CM v4.0 XML documents (three per document beside the sample's own): L10 target_min_pq / target_max_pq of the
    generated RPU against the certified tables, over minimum luminances k/10000 (quick: the values whose double
    product k/10000*10000 falls below k - the natural victims of a truncating re-quantisation - and a random
    sample; thorough: every k) and a spread of peaks"""
    import os, re, json
    from .. import cli
    src = open(os.path.join(C.ASSETS, "tests", "cmv4_0_2_custom_displays.xml")).read()
    m = re.search(r"<TargetDisplay>\s*<ID>255</ID>.*?</TargetDisplay>", src, flags=re.S)
    if not m:
        raise RuntimeError("custom target display not found in the sample XML")
    r = C.rng(res.seed, "c19-xml")
    suspects = [k for k in range(10001) if (k / 10000) * 10000.0 < k]
    if res.tier == "quick":
        ks = sorted(set(r.sample(suspects, 60) + [3, 6, 12, 24, 29, 58, 93, 5015, 7636] + [r.randrange(0, 10001) for _ in range(30)] + [0, 1, 50, 10000]))
    else:
        ks = list(range(10001))
    w = cli.Work("c19x")
    nchk = 0
    nbad = 0
    for i in range(0, len(ks), 3):
        grp = ks[i : i + 3]
        peaks = [r.choice([48, 100, 108, 350, 600, 1000, 2000, 4000, 10000, r.randrange(1, 10001)]) for _ in grp]
        clones = ""
        for j, (k, pk) in enumerate(zip(grp, peaks)):
            c = re.sub(r"<ID>\d+</ID>", "<ID>%d</ID>" % (200 + j), m.group(0))
            c = re.sub(r"<PeakBrightness>[^<]*</PeakBrightness>", "<PeakBrightness>%d</PeakBrightness>" % pk, c)
            c = re.sub(r"<MinimumBrightness>[^<]*</MinimumBrightness>", "<MinimumBrightness>%s</MinimumBrightness>" % (("%.4f" % (k / 10000.0)) if k % 7 else ("%.4f" % (k / 10000.0)).rstrip("0").rstrip(".") or "0"), c)
            clones += c
        doc = src[: m.end()] + clones + src[m.end():]
        xp = w.write("t.xml", doc.encode())
        ec, txt = cli.run(["generate", "--xml", xp, "-o", w.path("o.bin")], w.dir)
        if ec != "0":
            res.violation("generate --xml fails on a document with custom target displays (minima %s)" % grp, {"fn": "xml-targets", "minima": grp, "peaks": peaks, "output": txt.split("Stack backtrace")[0][-300:]})
            continue
        ec, txt = cli.run(["info", "-i", w.path("o.bin"), "-f", "0"], w.dir)
        try:
            js = json.loads(txt[txt.index("{"):])
            l10 = {b["Level10"]["target_display_index"]: b["Level10"] for b in js["vdr_dm_data"]["cmv40_metadata"]["ext_metadata_blocks"] if "Level10" in b}
        except Exception:
            res.violation("info -f 0 unreadable after generate --xml with custom targets", {"fn": "xml-targets", "minima": grp, "output": txt[-300:]})
            continue
        for j, (k, pk) in enumerate(zip(grp, peaks)):
            b = l10.get(200 + j)
            nchk += 1
            if b is None or b["target_min_pq"] != minl[k] or b["target_max_pq"] != nits[pk]:
                nbad += 1
                if nbad <= 3:
                    res.violation("L10 of a custom target display (peak %d nits, minimum %d/10000 nits): generated %s, ST 2084 gives max %d min %d" % (pk, k, None if b is None else (b["target_max_pq"], b["target_min_pq"]), nits[pk], minl[k]),
                                  {"fn": "xml-targets", "peak": pk, "min_k": k, "generated": b, "reference": [nits[pk], minl[k]]})
    return nchk


def l6_source_sweep(res, nits, minl):
    """source min / max PQ derived from L6 (generate -j with level6 and no source levels) over L6 minima 0..60 and a
    spread, maxima around the preset peaks: the preset rule restated from the certified tables - a minimum up to
    0.001 nits (<= 10) gives the code of 0.0001 nits, 0.005 nits (50) its own code, anything else 0; a peak of
    1000 / 2000 / 4000 / 10000 nits gives its code, anything else the code of 1000 nits"""
    import json
    from .. import cli
    w = cli.Work("c19l6")
    nchk = nbad = 0
    cases = [(k, 1000) for k in list(range(0, 61)) + [99, 100, 500, 1000, 5000, 10000]] + [(1, mx) for mx in (0, 1, 999, 1000, 1001, 1999, 2000, 2001, 3999, 4000, 4001, 9999, 10000)]
    for cm in ("V40", "V29"):
        for mn, mx in cases:
            cfg = {"cm_version": cm, "length": 1, "level6": {"max_display_mastering_luminance": mx, "min_display_mastering_luminance": mn, "max_content_light_level": 0, "max_frame_average_light_level": 0}}
            cj = w.write("c.json", json.dumps(cfg).encode())
            ec, txt = cli.run(["generate", "-j", cj, "-o", w.path("o.bin")], w.dir)
            if ec != "0":
                res.violation("generate -j fails on a config with level6 %d / %d" % (mn, mx), {"fn": "l6-source", "min": mn, "max": mx, "output": txt.split("Stack backtrace")[0][-200:]})
                continue
            ec, txt = cli.run(["info", "-i", w.path("o.bin"), "-f", "0"], w.dir)
            try:
                d = json.loads(txt[txt.index("{"):])["vdr_dm_data"]
                got = (d["source_min_pq"], d["source_max_pq"])
            except Exception:
                res.violation("info -f 0 unreadable after generate -j with level6", {"fn": "l6-source", "min": mn, "max": mx})
                continue
            want = (minl[1] if mn <= 10 else minl[50] if mn == 50 else 0, nits[mx] if mx in (1000, 2000, 4000, 10000) else nits[1000])
            nchk += 1
            if got != want:
                nbad += 1
                if nbad <= 3:
                    res.violation("source levels derived from L6 (min %d/10000 nits, max %d nits, %s): generated %s, the preset rule on the ST 2084 codes gives %s" % (mn, mx, cm, got, want),
                                  {"fn": "l6-source", "min": mn, "max": mx, "cm": cm, "generated": list(got), "reference": list(want)})
    return nchk


def run(res):
    # the implementation's outputs over the whole finite domain become the tables Coq certifies
    rc, out = C.build_harness()
    if rc != 0:
        raise RuntimeError(out[-2000:])
    nits, minl, rt, cn = pqgen.tables()
    pqgen.write_gen(nits, minl, rt, cn)
    broken = C.prelude(res, need_model=False, need_dovi=True, tables=("Consts_gen", "PqUsers_gen"))
    if res.tier == "thorough":
        n2, m2, r2, c2 = pqgen.tables(release=True)
        if (n2, m2, r2, c2) != (nits, minl, rt, cn):
            res.violation("release and debug builds disagree on the PQ tables", {"no_failing_input": False, "what": "profile tables differ"})
    # search for concrete failing entries with an independent 60-digit evaluation (also run when nothing is broken)
    nbad = 0
    for L, c in enumerate(nits):
        v = ref_pq(L) * 4095
        if abs(v - c) > Decimal("0.5"):
            nbad += 1
            if nbad <= 3:
                res.violation("nits_to_pq(%d)*4095 rounds to %d but ST 2084 gives %.6f" % (L, c, v), {"fn": "nits_to_pq", "nits": L, "impl_code": c, "reference": str(v)})
    for k, c in enumerate(minl):
        v = ref_pq(Decimal(k) / 10000) * 4095
        if abs(v - c) > Decimal("0.5"):
            nbad += 1
            if nbad <= 3:
                res.violation("nits_to_pq(%d/10000)*4095 rounds to %d but ST 2084 gives %.6f" % (k, c, v), {"fn": "nits_to_pq", "nits": "%d/10000" % k, "impl_code": c, "reference": str(v)})
    for c, (n, d) in enumerate(cn):
        v = ref_eotf(Decimal(c) / 4095)
        iv = Decimal(n) / Decimal(d)
        if abs(v - iv) > iv * Decimal("1e-9") + Decimal("1e-12"):
            nbad += 1
            if nbad <= 3:
                res.violation("pq_to_nits(%d/4095) = %s but ST 2084 gives %s" % (c, iv, v), {"fn": "pq_to_nits", "code": c, "impl": str(iv), "reference": str(v)})
        if rt[c] != c:
            nbad += 1
            if nbad <= 6:
                res.violation("code %d -> nits -> code gives %d" % (c, rt[c]), {"fn": "roundtrip", "code": c, "impl": rt[c]})
    for a, b in ((100, 2081), (600, 2851), (1000, 3079), (4000, 3696)):
        if nits[a] != b:
            res.violation("anchor %d nits -> %d, expected %d" % (a, nits[a], b), {"fn": "nits_to_pq", "nits": a, "impl_code": nits[a]})
    if any(nits[i] > nits[i + 1] for i in range(10000)) or any(minl[i] > minl[i + 1] for i in range(10000)):
        res.violation("nits_to_pq table is not monotonic", {"fn": "nits_to_pq", "what": "monotonicity"})
    nsum = summary_sweep(res)
    nxml = xml_target_sweep(res, nits, minl)
    nl6 = l6_source_sweep(res, nits, minl)
    res.coverage.update({
        "summary_codes_checked": nsum, "xml_target_values_checked": nxml, "l6_source_cases_checked": nl6,
        "evaluations": len(nits) + len(minl) + 2 * len(cn) + nsum,
        "distinct_nontrivial": len(set(nits)) + len(set(minl)) + len(cn),
        "rule": "the implementation evaluated on the whole domain of the property: integer nits 0..10000, k/10000 nits for k=0..10000, all 4096 codes (code->nits as exact f64 value, and code->nits->code); every entry certified in Coq by Interval (24194 obligations inside 32 shard lemmas) and re-checked with a 60-digit decimal evaluation for the replay; `info --summary` on a list holding every 12-bit code as source min / max PQ (one mastering display pair per code, minimum and snapped peak compared with the reference); `generate --xml` on documents with custom target displays (L10 target min / max PQ against the certified tables over minimum luminances k/10000: the values whose double product falls below k and a sample in quick, every k in thorough); `generate -j` with level6 and no source levels over L6 minima 0..60 and peaks around the presets (derived source min / max PQ against the preset rule on the certified codes); non-trivial = distinct table values",
        "exhaustive": True,
        "samples": [{"nits": 100, "code": nits[100]}, {"min_nits": "50/10000", "code": minl[50]}, {"code": 2081, "nits_f64": "%d/%d" % cn[2081], "roundtrip": rt[2081]}],
        "interval_entries": len(nits) + len(minl) + len(cn),
    })
    res.assumptions += ["libm powf is not modelled: its outputs on the whole domain are certified instead", "plots (image outputs) excluded"]
    C.conclude(res, broken)


def replay(rp):
    print(rp["replay"])
    r = rp["replay"]
    if r.get("fn") == "nits_to_pq" and isinstance(r.get("nits"), int):
        print(C.dvh().run(["nits2pq %d" % r["nits"]]))
    return 0
