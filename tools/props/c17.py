"""C17 - same inputs, same outputs: every command is deterministic."""
import hashlib, json, os, shutil
from .. import common as C
from .. import rpu as R
from .. import cli
from .. import streamgen as S
from .. import rpucases as RC
from .. import rpugen as G
from . import c09

ASSETS = os.path.join(C.REPO, "assets")


def digest(paths):
    h = []
    for p in paths:
        if os.path.exists(p):
            with open(p, "rb") as f:
                h.append(hashlib.sha256(f.read()).hexdigest()[:16])
        else:
            h.append("absent")
    return tuple(h)


def overlapping(r, n, k):
    """k pairwise-overlapping range keys over a list of n frames (distinct keys)"""
    keys = set()
    mid = r.randrange(n)
    while len(keys) < k:
        a = r.randrange(0, mid + 1)
        b = r.randrange(mid, n)
        keys.add("%d-%d" % (a, b))
    return sorted(keys, key=lambda _: r.random())


def run(res):
    broken = C.prelude(res, need_dovi=True, tables=("Iter_gen", "Blocks_gen", "Switches_gen", "Modes_gen"))
    r = C.rng(res.seed, "c17")
    w = cli.Work("c17")
    nproc = 8 if res.tier == "quick" else 24
    rpu_bin = os.path.join(ASSETS, "hevc_tests", "regular_rpu.bin")
    rpus = [x.rstrip(b"\x00") for x in R.read_rpu_file_raw(rpu_bin)]
    n = len(rpus)
    hevc = os.path.join(ASSETS, "hevc_tests", "regular.hevc")
    bl = os.path.join(ASSETS, "hevc_tests", "regular_bl_start_code_4.hevc")
    jobs = []        # (label, args builder(outdir) -> (args, [outputs]), input config writer)
    # ---- editor configs with 2..5 overlapping ranges in both maps, entries written in random order
    ncfg = 6 if res.tier == "quick" else 40
    for k in range(ncfg):
        cuts = overlapping(r, n, r.choice([2, 3, 4, 5]))
        eds = overlapping(r, n, r.choice([2, 3, 4, 5]))
        presets = [{"id": i, "left": 0, "right": 0, "top": 10 * (i + 1), "bottom": 10 * (i + 1)} for i in range(len(eds))]
        cfg = {"scene_cuts": {kk: (i % 2 == 0) for i, kk in enumerate(cuts)},
               "active_area": {"presets": presets, "edits": {kk: i for i, kk in enumerate(eds)}}}
        if r.random() < 0.5:
            cfg["scene_cuts"]["all"] = False
        jobs.append(("editor overlapping #%d" % k, "editor", cfg))
    # ---- editor configs whose list sections hold several entries that tie: duplicates inserted at the same
    # offset from different sources, several removal ranges (the order of arrays is part of the content: written as is)
    for k in range(3 if res.tier == "quick" else 12):
        off = r.randrange(n)
        dup = [{"source": sidx, "offset": off, "length": r.choice([1, 2])} for sidx in r.sample(range(n), r.choice([3, 4, 5]))]
        dup.insert(r.randrange(len(dup) + 1), {"source": r.randrange(n), "offset": r.randrange(n), "length": 1})
        cfg = {"duplicate": dup}
        if r.random() < 0.6:
            a = r.randrange(n - 12)
            cfg["remove"] = ["%d-%d" % (a, a + 3), str(a + 7), "%d-%d" % (a + 9, a + 10)]
        jobs.append(("editor duplicate entries sharing an offset #%d" % k, "editor-lists", cfg))
    xmls = [f for f in sorted(os.listdir(os.path.join(ASSETS, "tests"))) if f.endswith(".xml")]
    gens = [f for f in sorted(os.listdir(os.path.join(ASSETS, "generator_examples"))) if f.endswith(".json")]
    for f in xmls:
        jobs.append(("generate --xml " + f, "xml", f))
    # several custom target displays sharing every value but their id: whatever order the parser's
    # HashMap yields them in, the written L10 blocks must come out in one order
    import re
    src = open(os.path.join(ASSETS, "tests", "cmv4_0_2_custom_displays.xml")).read()
    m = re.search(r"<TargetDisplay>.*?</TargetDisplay>", src, flags=re.S)
    if m:
        for variant, ids in (("a", [250, 251, 252]), ("b", [70, 200, 130]), ("c", [90, 60])):
            clones = "".join(re.sub(r"<ID>\d+</ID>", "<ID>%d</ID>" % i, m.group(0)) for i in ids)
            doc = src[: m.end()] + clones + src[m.end():]
            pth = w.write("targets_%s.xml" % variant, doc.encode())
            jobs.append(("generate --xml (custom targets sharing values, %s)" % variant, "xmlpath", pth))
    # two custom target displays whose IDs are different strings for the same number ("100", "0100") and whose values
    # differ: both give an L10 block for index 100, one replaces the other - the same one in every process
    if m:
        c1 = re.sub(r"<ID>\d+</ID>", "<ID>100</ID>", m.group(0))
        c1 = re.sub(r"<MinimumBrightness>[^<]*<", "<MinimumBrightness>0.01<", c1)
        c2 = re.sub(r"<ID>\d+</ID>", "<ID>0100</ID>", m.group(0))
        c2 = re.sub(r"<MinimumBrightness>[^<]*<", "<MinimumBrightness>0.1<", c2)
        for variant, order in (("a", c1 + c2), ("b", c2 + c1)):
            pth = w.write("same_index_%s.xml" % variant, (src[: m.end()] + order + src[m.end():]).encode())
            jobs.append(("generate --xml (target IDs 100 and 0100, %s)" % variant, "xmlpath", pth))
    # two target displays with the same peak brightness (L2 blocks are keyed by target_max_pq): a shot carrying an L2
    # trim for each of them has two candidates for one block - the later one in the document wins, in every process
    src2 = open(os.path.join(ASSETS, "tests", "cmv4_0_2.xml")).read()
    m2 = re.search(r"<TargetDisplay>\s*<ID>1</ID>.*?</TargetDisplay>", src2, flags=re.S)
    if m2:
        clone = re.sub(r"<ID>1</ID>", "<ID>255</ID>", m2.group(0), count=1)
        base2 = src2[: m2.end()] + clone + src2[m2.end():]
        l2s = [mm for mm in re.finditer(r"<Level2 level=\"2\">\s*<TID>1</TID>.*?</Level2>", base2, flags=re.S)]
        for variant, after in (("after", True), ("before", False)):
            doc, shift = base2, 0
            for k, mm in enumerate(l2s):
                extra = "<Level2 level=\"2\"><TID>255</TID><Trim>0 0 0 %s %s %s 0 0 0</Trim></Level2>" % (0.05 * (k + 1), -0.02 * (k + 1), 0.11 * (k + 1))
                pos = (mm.end() if after else mm.start()) + shift
                doc = doc[:pos] + extra + doc[pos:]
                shift += len(extra)
            pth = w.write("shared_peak_%s.xml" % variant, doc.encode())
            jobs.append(("generate --xml (two targets sharing a peak, trims for both, TID 255 %s)" % variant, "xmlpath", pth))
    for f in gens[: (3 if res.tier == "quick" else len(gens))]:
        jobs.append(("generate -j " + f, "genjson", f))
    for cmd in ("convert", "demux", "extract-rpu", "remove", "mux", "inject-rpu", "info", "export"):
        jobs.append((cmd, cmd, None))
    # several `-d` entries naming one output file: the last entry in command-line order wins, in every process
    jobs.append(("export (two entries sharing an output file)", "export-shared", ["-d", "scenes={X}", "-d", "level5={X}"]))
    jobs.append(("export (three comma-separated entries sharing an output file)", "export-shared", ["-d", "level5={X},all={X},scenes={X}"]))
    # a list with several distinct L5 / L6 / L2 values: every "distinct values" collection of export
    # and of the summary has more than one element to order
    from . import c16 as C16
    vr = C.rng(res.seed, "c17-varied")
    vraws = []
    keys = [(0, 0, 276, 276), (0, 0, 0, 0), (240, 240, 0, 0), (10, 20, 30, 40), (7, 7, 7, 7)]
    for t, raw, m in RC.valid_trees(res.seed, 60, "c17v", profile=8):
        if t.get("vdr_dm_data") is None:
            continue
        C16.set_l5(t, keys[len(vraws) % len(keys)])
        x = G.encode(t).rstrip(b"\x00")
        if x[:3] == bytes([0x19, 8, 9]) and C.dvh().run(["parseclass rpu " + (RC.SC4 + x).hex()])[0] == "ok":
            vraws.append(x)
        if len(vraws) >= 15:
            break
    varied = w.write("varied.bin", b"".join(b"\x00\x00\x00\x01" + R.escape(x) for x in vraws))
    jobs.append(("export (list with %d distinct L5 presets)" % len(keys), "export-varied", varied))
    jobs.append(("info --summary (varied list)", "summary-varied", varied))
    nrun = 0
    distinct = {}
    model_checked = 0
    for label, kind, arg in jobs:
        outs = set()
        first = None
        for i in range(nproc):
            d = os.path.join(w.dir, "run%d" % i)
            shutil.rmtree(d, ignore_errors=True)
            os.makedirs(d)
            env = {"HOME": d, "TZ": r.choice(["UTC", "Asia/Tokyo", "America/New_York"]), "LANG": r.choice(["C", "en_US.UTF-8", "de_DE.UTF-8"]),
                   "RUST_BACKTRACE": r.choice(["0", "1"]), "VERIF_NOISE_%d" % i: "x" * r.randrange(1, 200)}
            cwd = d if i % 2 else w.dir
            o = lambda name: os.path.join(d, name)
            if kind == "editor":
                cj = o("cfg.json")
                # the same map content, entries written in a different order each time
                cfg2 = dict(arg)
                for key in ("scene_cuts",):
                    items = list(arg[key].items())
                    r.shuffle(items)
                    cfg2[key] = dict(items)
                aa = dict(arg["active_area"])
                items = list(aa["edits"].items())
                r.shuffle(items)
                aa["edits"] = dict(items)
                cfg2["active_area"] = aa
                open(cj, "w").write(json.dumps(cfg2))
                args, files = ["editor", "-i", rpu_bin, "-j", cj, "-o", o("out.bin")], [o("out.bin")]
            elif kind == "editor-lists":
                cj = o("cfg.json")
                open(cj, "w").write(json.dumps(arg))
                args, files = ["editor", "-i", rpu_bin, "-j", cj, "-o", o("out.bin")], [o("out.bin")]
            elif kind == "xml":
                args, files = ["generate", "--xml", os.path.join(ASSETS, "tests", arg), "-o", o("out.bin")], [o("out.bin")]
            elif kind == "xmlpath":
                args, files = ["generate", "--xml", arg, "-o", o("out.bin")], [o("out.bin")]
            elif kind == "genjson":
                args, files = ["generate", "-j", os.path.join(ASSETS, "generator_examples", arg), "-o", o("out.bin")], [o("out.bin")]
            elif kind == "convert":
                args, files = ["-m", "2", "convert", hevc, "-o", o("out.hevc")], [o("out.hevc")]
            elif kind == "demux":
                args, files = ["demux", hevc, "--bl-out", o("BL.hevc"), "--el-out", o("EL.hevc")], [o("BL.hevc"), o("EL.hevc")]
            elif kind == "extract-rpu":
                args, files = ["extract-rpu", hevc, "-o", o("RPU.bin")], [o("RPU.bin")]
            elif kind == "remove":
                args, files = ["remove", hevc, "-o", o("BL.hevc")], [o("BL.hevc")]
            elif kind == "mux":
                args, files = ["mux", "--bl", bl, "--el", os.path.join(ASSETS, "hevc_tests", "regular.hevc"), "--discard", "-o", o("mux.hevc")], [o("mux.hevc")]
            elif kind == "inject-rpu":
                args, files = ["inject-rpu", "-i", bl, "--rpu-in", rpu_bin, "-o", o("inj.hevc")], [o("inj.hevc")]
            elif kind == "info":
                args, files = ["info", "-i", rpu_bin, "-f", "3"], []
            elif kind == "export":
                args, files = ["export", "-i", rpu_bin, "-d", "all=%s" % o("all.json"), "-d", "scenes=%s" % o("scenes.txt"), "-d", "level5=%s" % o("l5.json")], [o("all.json"), o("scenes.txt"), o("l5.json")]
            elif kind == "export-shared":
                args, files = ["export", "-i", rpu_bin] + [a.replace("{X}", o("shared.out")) for a in arg], [o("shared.out")]
            elif kind == "export-varied":
                args, files = ["export", "-i", arg, "-d", "all=%s" % o("all.json"), "-d", "scenes=%s" % o("scenes.txt"), "-d", "level5=%s" % o("l5.json")], [o("all.json"), o("scenes.txt"), o("l5.json")]
            elif kind == "summary-varied":
                args, files = ["info", "-i", arg, "-s"], []
            if i % 4 == 1:
                # the output paths already hold (longer) files in this run: the result must not depend on them
                for f in files:
                    with open(f, "wb") as fh:
                        fh.write(b"\xAA" * 6000000)
            ec, txt = cli.run(args, cwd, env_extra=env)
            nrun += 1
            sig = (ec, digest(files)) + ((hashlib.sha256(txt.split("Stack backtrace")[0].encode()).hexdigest()[:16],) if kind in ("info", "summary-varied") else ())
            outs.add(sig)
            if first is None:
                first = (args, files, ec)
                if kind == "editor" and ec == "0":
                    # the model, fed with the entries in file order and in key order, agrees with the command
                    mcfg = []
                    mcfg.append("aa")
                    mcfg.append("presets@" + ",".join("%d:%d:%d:%d:%d" % (p["id"], p["left"], p["right"], p["top"], p["bottom"]) for p in arg["active_area"]["presets"]))
                    lines = []
                    for srt in (False, True):
                        eo = sorted(cfg2["active_area"]["edits"]) if srt else list(cfg2["active_area"]["edits"])
                        co = sorted(cfg2["scene_cuts"]) if srt else list(cfg2["scene_cuts"])
                        e = "edits@" + ",".join("%s:%d" % (c09.hx(k), arg["active_area"]["edits"][k]) for k in eo)
                        cu = "cuts@" + ",".join("%s:%d" % (c09.hx(k), 1 if arg["scene_cuts"][k] else 0) for k in co)
                        lines.append("edit %s %s -" % ("/".join(mcfg + [e, cu]), ",".join((b"\x7c\x01" + R.escape(x)).hex() for x in rpus)))
                    m = C.model().run(lines)
                    model_checked += 1
                    got = [x.rstrip(b"\x00") for x in R.read_rpu_file_raw(files[0])]
                    if m[0] != m[1]:
                        res.violation("model: editor result depends on the listing order of the map entries", {"config": arg})
                    elif m[0].startswith("ok"):
                        exp = [R.unescape(C.unhexs(x))[2:].rstrip(b"\x00") for x in m[0][3:].split(",")]
                        if exp != got:
                            res.violation("editor output with overlapping ranges differs from the model (key-order application)", {"config": arg})
                    else:
                        res.violation("model rejects an overlapping-range config the command accepts", {"config": arg})
        distinct[label] = len(outs)
        if len(outs) > 1:
            res.violation("%s: %d distinct results in %d runs of the same command on the same inputs" % (label, len(outs), nproc),
                          {"label": label, "args": first[0], "config": arg if kind in ("editor", "editor-lists") else None, "results": [list(map(str, x)) for x in sorted(outs, key=str)][:6]})
        elif kind == "editor-lists" and first[2] != "0":
            res.violation("%s: the editor rejects the config (exit %s)" % (label, first[2]), {"label": label, "config": arg})
        elif kind != "editor" and first[2] not in ("0",):
            res.assumptions.append("%s exits %s on the sample input (still deterministic)" % (label, first[2]))
    res.coverage.update({
        "evaluations": nrun,
        "distinct_nontrivial": len(jobs),
        "rule": "each job run in %d fresh processes (per-process hash seeds by construction; different cwd, HOME, TZ, LANG, RUST_BACKTRACE and extra environment noise; in every fourth run the output paths already hold longer files); hashes of every output file and the exit code compared across runs; editor configs with 2..5 pairwise-overlapping scene-cut and active-area ranges on the 259-frame sample, the same map content written in a different entry order for every run, compared with the Coq model fed in file order and in key order; editor configs with 3..5 `duplicate` entries inserted at one offset from different sources and several `remove` ranges; generate from every sample XML (several target displays; custom targets sharing every value but their id; two targets sharing a peak with an L2 trim for each in the same shots) and generator JSON; convert, demux, extract-rpu, remove, mux, inject-rpu, info, export (also with several `-d` entries naming one output file) on the sample streams" % nproc,
        "cli_runs": nrun, "distinct_results_per_job": distinct, "model_checked": model_checked,
    })
    res.assumptions += ["independence from environment, working directory and fonts is observed by the repeated runs, not proved",
                        "plot (image output) is outside the property's scope"]
    C.conclude(res, broken)


def replay(rp):
    print(json.dumps(rp["replay"])[:2000])
    return 0
