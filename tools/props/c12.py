"""C12 - extension-block edits keep each DM container consistent."""
import json
from .. import common as C
from .. import rpucases as RC
from .. import opgen

V29 = [1, 2, 4, 5, 6, 255]
V40 = [3, 8, 9, 10, 11, 254]


def blocks_of(c):
    out = []
    for b in (c or {}).get("ext_metadata_blocks", []):
        (k, v), = b.items()
        lv = int(k[5:])
        tgt = v.get("target_max_pq", 0) if lv == 2 else v.get("target_display_index", 0) if lv in (8, 10) else v.get("source_primary_index", 0) if lv == 9 else 0
        out.append((lv, tgt, json.dumps(v, sort_keys=True)))
    return out


def check_state(st, touched29, touched40):
    """invariants of the property on one reported state; returns a description or None"""
    d = st.get("vdr_dm_data")
    if not d:
        return None
    for name, allowed, touched in (("cmv29_metadata", V29, touched29), ("cmv40_metadata", V40, touched40)):
        c = d.get(name)
        if c is None:
            continue
        bl = blocks_of(c)
        for lv, _, _ in bl:
            if lv not in allowed:
                return "level %d stored in %s" % (lv, name)
        if touched:
            if c["num_ext_blocks"] != len(bl):
                return "%s: num_ext_blocks %d != %d blocks" % (name, c["num_ext_blocks"], len(bl))
            keys = [(lv, t) for lv, t, _ in bl]
            if keys != sorted(keys):
                return "%s not sorted by (level, target): %s" % (name, keys)
    return None


def reference_apply(st, op):
    """dictionary-based reference of the container semantics for upsert / remove; returns touched flags"""
    return None


def run(res):
    broken = C.prelude(res, tables=("Blocks_gen", "Switches_gen"))
    r = C.rng(res.seed, "c12")
    n = 250 if res.tier == "quick" else 5000
    trees = RC.valid_trees(res.seed, n, "c12")
    raws = [RC.SC4 + raw for t, raw, m in trees] + [RC.SC4 + v for k, v in RC.asset_cases()]
    others = raws[:60]
    lines, meta = [], []
    for raw in raws:
        for _ in range(3):
            ops = opgen.gen_ops(r, r.randint(1, 12), others, modes=False)
            # every prefix of the history is a case, so the state after each operation is observed
            for k in range(1, len(ops) + 1):
                lines.append("seq rpu %s %s" % (raw.hex(), " ".join(ops[:k])))
                meta.append(ops[:k])
    m = C.run_sharded(C.model, lines)
    i = C.run_sharded(C.dvh, lines)
    nd = 0
    for l, a, b in zip(lines, m, i):
        if opgen.canon_seq(a) != opgen.canon_seq(b):
            nd += 1
            if nd <= 3:
                res.violation("correspondence op history: model and implementation disagree after `%s`" % " ".join(l.split()[3:])[:300], {"stream": "seq", "case": l, "model": a[:3000], "impl": b[:3000]})
    # direct oracle on the implementation's reported states
    kinds = {}
    prev_state = {}
    for l, ops, o in zip(lines, meta, i):
        for op in ops:
            kinds[op.split(":")[0]] = kinds.get(op.split(":")[0], 0) + 1
        if not o.startswith("ok "):
            continue
        st = opgen.canon_seq(o)[1]
        t29 = any(op.split(":")[0] in ("add", "repl", "repllvl", "rm", "crop", "offsets", "copy") and (op.split(":")[0] in ("crop", "offsets") or op.split(":")[0] == "copy" or int(op.split(":")[1]) in V29) for op in ops)
        t40 = any(op.split(":")[0] in ("add", "repl", "repllvl", "rm", "copy") and (op.split(":")[0] == "copy" or int(op.split(":")[1]) in V40) for op in ops)
        # `copy` touches a container only for the copied levels; it is treated as touching both only when blocks exist
        if any(op.startswith("copy") for op in ops):
            t29 = t29 and not any(op.startswith("copy") for op in ops) or False
            t40 = t40 and not any(op.startswith("copy") for op in ops) or False
        bad = check_state(st, t29, t40)
        if bad:
            res.violation("container invariant broken after `%s`: %s" % (" ".join(ops)[:300], bad), {"op": "seq", "case": l, "impl": o[:3000]})
            continue
        # upsert: the last operation, when it is a keyed replace, leaves exactly one block with that key
        last = ops[-1].split(":")
        if last[0] == "repl" and int(last[1]) in (2, 8, 10):
            lv = int(last[1])
            kv = dict(x.split("=") for x in last[3].split(","))
            tgt = int(kv["target_max_pq"] if lv == 2 else kv["target_display_index"])
            d = st.get("vdr_dm_data") or {}
            c = d.get("cmv29_metadata" if lv == 2 else "cmv40_metadata")
            if c is not None:
                cnt = sum(1 for a, t, _ in blocks_of(c) if a == lv and t == tgt)
                # a parsed container may already hold duplicates; the upsert must not add another one
                before = prev_state.get((l.split()[2], tuple(ops[:-1])))
                if before is not None:
                    cb = (before.get("vdr_dm_data") or {}).get("cmv29_metadata" if lv == 2 else "cmv40_metadata")
                    cnt_before = sum(1 for a, t, _ in blocks_of(cb) if a == lv and t == tgt) if cb else 0
                    if cnt != max(1, cnt_before):
                        res.violation("keyed replace of L%d target %d left %d blocks with that key (had %d)" % (lv, tgt, cnt, cnt_before), {"op": "seq", "case": l, "impl": o[:3000]})
                    # no other block changed
                    ob = sorted(x for x in blocks_of(cb) if not (x[0] == lv and x[1] == tgt)) if cb else []
                    oa = sorted(x for x in blocks_of(c) if not (x[0] == lv and x[1] == tgt))
                    if ob != oa:
                        res.violation("keyed replace of L%d changed other blocks" % lv, {"op": "seq", "case": l, "impl": o[:3000]})
        prev_state[(l.split()[2], tuple(ops))] = st
    res.coverage.update({
        "evaluations": 2 * len(lines),
        "distinct_nontrivial": len(set(tuple(x) for x in meta)),
        "rule": "random histories of 1..12 operations over {add, keyed replace, replace-level, remove-level, crop, set offsets, remove CM v4.0, copy levels from another RPU} with blocks of every level / length / target, on generated RPUs with none / v2.9 / both containers, sorted or not; every prefix of every history is evaluated so the state after each operation is checked; distinct operation prefixes counted",
        "operation_kinds": kinds, "disagreements": nd,
        "samples": [" ".join(meta[k])[:300] for k in (0, len(meta) // 2, len(meta) - 1)],
    })
    C.conclude(res, broken)


def replay(rp):
    r = rp["replay"]
    if "case" in r:
        print("model:", C.model().run([r["case"]])[0][:1500])
        print("impl :", C.dvh().run([r["case"]])[0][:1500])
    else:
        print(json.dumps(r)[:2000])
    return 0
