"""C03 - every emitted RPU is well-formed and decodes to exactly what was written."""
import json
from .. import common as C
from .. import rpu as R
from .. import rpucases as RC
from .. import opgen
from .c02 import first_diff


def ref_encode(st):
    """reference encoding of a reported state (serde JSON layout = rpugen value tree)"""
    from .. import rpugen as G
    t = json.loads(json.dumps(st))
    m = t.get("rpu_data_mapping")
    if m:
        for c in m["curves"]:
            n = c["num_pivots_minus2"] + 1
            has_p, has_m = "poly_order_minus1" in c, "mmr_order_minus1" in c
            if has_p == has_m:
                raise ValueError("mixed or missing mapping method")
            c["_pieces"] = ["poly" if has_p else "mmr"] * n
            if has_p and len(c.get("linear_interp_flag", [])) < n:
                c["linear_interp_flag"] = [False] * n
    if t["header"]["coefficient_data_type"] != 0:
        raise ValueError("integer parts not part of the bitstream")
    d = t.get("vdr_dm_data")
    if d:
        for name in ("cmv29_metadata", "cmv40_metadata"):
            for b in (d.get(name) or {}).get("ext_metadata_blocks", []):
                (k, v), = b.items()
                lv = int(k[5:])
                for fname, width, *rest in G.BLOCK_FIELDS.get(lv, []):
                    if fname in v and width > 0 and not (0 <= v[fname] < (1 << width)):
                        raise ValueError("unrepresentable")
    return G.encode(t)


def strip_for_compare(st):
    """in-memory state vs decoded output: what cannot differ legitimately is kept"""
    s = json.loads(json.dumps(st))
    s.pop("rpu_data_crc32", None)
    h = s.get("header", {})
    for c in (s.get("rpu_data_mapping") or {}).get("curves", []):
        # linear_interp_flag only exists in the bitstream for first-order pieces
        if "poly_order_minus1" in c:
            fl = c.get("linear_interp_flag", [])
            c["linear_interp_flag"] = [bool(fl[k]) if k < len(fl) else False for k, o in enumerate(c["poly_order_minus1"]) if o == 0]
    d = s.get("vdr_dm_data")
    if d and d.get("compressed"):
        # a compressed DM payload carries only the three ids and the blocks
        for k in list(d):
            if k not in ("compressed", "affected_dm_metadata_id", "current_dm_metadata_id", "scene_refresh_flag", "cmv29_metadata", "cmv40_metadata"):
                d.pop(k)
    if h.get("coefficient_data_type") == 1:
        # integer parts do not exist in the bitstream for coefficient_data_type 1
        s.pop("el_type", None)
        m = s.get("rpu_data_mapping") or {}
        for c in m.get("curves", []):
            for k in ("poly_coef_int", "mmr_constant_int", "mmr_coef_int"):
                c.pop(k, None)
        q = m.get("nlq")
        if q:
            for k in ("vdr_in_max_int", "linear_deadzone_slope_int", "linear_deadzone_threshold_int"):
                q.pop(k, None)
    return s


def run(res):
    broken = C.prelude(res, tables=("Blocks_gen", "DmData_gen", "Switches_gen", "Modes_gen"))
    r = C.rng(res.seed, "c03")
    n = 300 if res.tier == "quick" else 6000
    trees = RC.valid_trees(res.seed, n, "c03")
    raws = [RC.SC4 + raw for t, raw, m in trees] + [RC.SC4 + v for k, v in RC.asset_cases()] + [RC.SC4 + v for v in RC.CORPUS.values()]
    others = raws[:60]
    lines = []
    for raw in raws:
        lines.append("seq rpu %s" % raw.hex())
        for k in range(4):
            full = k >= 2
            ops = opgen.gen_ops(r, r.randint(1, 8), others, modes=True, full_range=full, valid=not full)
            if k == 3:
                # too many blocks of a level
                lv = r.choice([2, 8, 10, 1, 5])
                ops += ["add:" + opgen.block_spec(r, lv, valid=True) for _ in range(r.choice([2, 5, 9]))]
            lines.append("seq rpu %s %s" % (raw.hex(), " ".join(ops)))
    # search after a broken obligation: an unrecognised table entry names its level; exercise that
    # level's blocks with every field at and just past its bounds on top of the regular stream
    import re
    hot = set()
    for b in broken:
        for mm in re.finditer(r"level(\d+)", str(b.get("log") or "") + str(b.get("where") or ""), flags=re.I):
            hot.add(int(mm.group(1)))
    for lv in sorted(hot):
        if lv not in opgen.ALL_LEVELS:
            continue
        for _ in range(600):
            raw = r.choice(raws[:200])
            ops = [r.choice(["repl:", "add:", "repllvl:"]) + opgen.block_spec(r, lv, valid=False, full_range=True) for _ in range(r.choice([1, 1, 2]))]
            lines.append("seq rpu %s %s" % (raw.hex(), " ".join(ops)))
    m = C.run_sharded(C.model, lines)
    i = C.run_sharded(C.dvh, lines)
    nd = 0
    for l, a, b in zip(lines, m, i):
        if opgen.canon_seq(a) != opgen.canon_seq(b):
            nd += 1
            if nd <= 3:
                res.violation("correspondence write: model and implementation disagree after `%s`" % " ".join(l.split()[3:])[:300], {"stream": "seq", "case": l, "model": a[:3000], "impl": b[:3000]})
    # direct oracle: the implementation's own output decodes to what it held; CRC, terminator
    wrote = errw = 0
    written = []
    for l, o in zip(lines, i):
        if o.startswith("panic") or o in ("abort", "timeout"):
            res.violation("operation or write crashed: %s after `%s`" % (o, " ".join(l.split()[3:])[:300]), {"op": "seq", "case": l, "impl": o})
            continue
        if not o.startswith("ok "):
            continue
        c = opgen.canon_seq(o)
        if c[2] == "errw":
            errw += 1
            continue
        wrote += 1
        out = C.unhexs(c[2])
        body = out.rstrip(b"\x00")
        if body[-1] != 0x80 or int.from_bytes(body[-5:-1], "big") != R.crc32_mpeg2(body[1:-5]):
            res.violation("emitted RPU has a wrong CRC-32 or terminator after `%s`" % " ".join(l.split()[3:])[:200], {"op": "seq", "case": l, "impl": o[:3000]})
        if c[3] == "reparse-error":
            key = "rmcmv40-with-remaining" if ("rmcmv40" in l and c[1].get("remaining")) else None
            res.violation("emitted RPU does not re-parse after `%s`" % " ".join(l.split()[3:])[:300], {"op": "seq", "case": l, "impl": o[:3000]}, key=key)
            continue
        d = first_diff(strip_for_compare(c[1]), strip_for_compare(c[3]))
        if d:
            res.violation("emitted RPU decodes to different metadata at %s: held %s, decoded %s (after `%s`)" % (d[0], json.dumps(d[1])[:120], json.dumps(d[2])[:120], " ".join(l.split()[3:])[:200]),
                          {"op": "seq", "case": l, "field": d[0], "impl": o[:3000]})
        written.append((l, c))
        # independent reference encoder (tools/rpugen.py) applied to the in-memory state must give
        # the very bytes the tool wrote (length bytes, counts, zero padding, CRC included)
        try:
            exp = ref_encode(c[1])
        except Exception:
            exp = None
        if exp is not None and exp != out.rstrip(b"\x00"):
            k = next((j for j, (a, b) in enumerate(zip(exp, out)) if a != b), min(len(exp), len(out)))
            res.violation("emitted RPU differs from the reference encoding of the in-memory metadata at byte %d (after `%s`)" % (k, " ".join(l.split()[3:])[:200]),
                          {"op": "seq", "case": l, "impl": o[:3000], "reference": exp.hex()})
    # independent decoder: the Coq model parses what the implementation wrote
    pl = ["parse rpu " + (RC.SC4 + C.unhexs(c[2])).hex() for l, c in written]
    pm = C.run_sharded(C.model, pl)
    for (l, c), o in zip(written, pm):
        if not o.startswith("ok "):
            if c[3] != "reparse-error":
                res.violation("the model's decoder rejects an RPU the implementation emitted after `%s`" % " ".join(l.split()[3:])[:200], {"op": "model-decode", "case": l, "model": o[:300]})
            continue
        d = first_diff(strip_for_compare(c[1]), strip_for_compare(json.loads(o[3:])))
        if d and c[3] != "reparse-error":
            res.violation("independent decoder reads different metadata at %s after `%s`" % (d[0], " ".join(l.split()[3:])[:200]), {"op": "model-decode", "case": l, "field": d[0]})
    res.coverage.update({
        "evaluations": 2 * len(lines) + len(pl),
        "distinct_nontrivial": len(set(" ".join(l.split()[3:]) for l in lines)),
        "rule": "parsed RPUs (generated value trees, assets, witnesses) followed by random histories of conversions, crops, active-area edits, block add / keyed replace / replace-level / remove / level copy, with block field values over the full integer types of the fields and with too many blocks of a level; the final state is written, re-parsed by the tool and by the Coq model's decoder, and compared with the in-memory state (serde JSON); CRC-32 and 0x80 recomputed independently; distinct histories counted",
        "written": wrote, "write_errors": errw, "disagreements": nd,
        "samples": [" ".join(lines[k].split()[3:])[:300] for k in (1, 2, 3, 4)],
    })
    res.assumptions += ["for coefficient_data_type 1 the integer coefficient parts (not part of the bitstream) are excluded from the comparison", "Reserved blocks and DmData variants stored in the wrong field (only constructible through the Rust API) are outside the model"]
    C.conclude(res, broken)


def replay(rp):
    r = rp["replay"]
    if "case" in r:
        print("model:", C.model().run([r["case"]])[0][:1500])
        print("impl :", C.dvh().run([r["case"]])[0][:1500])
    else:
        print(json.dumps(r)[:2000])
    return 0
