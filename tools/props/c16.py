"""C16 - info/export are faithful views: frame JSON, scene list, L5 config, summary."""
import copy, json, math, os, re
from .. import common as C
from .. import rpu as R
from .. import cli
from .. import rpugen as G
from .. import rpucases as RC

M1, M2 = 2610.0 / 16384.0, 2523.0 / 4096.0 * 128.0
C1, C2, C3 = 3424.0 / 4096.0, 2413.0 / 4096.0 * 32.0, 2392.0 / 4096.0 * 32.0


def pq_to_nits(x):
    if x <= 0.0:
        return 0.0
    xp = x ** (1.0 / M2)
    num = max(xp - C1, 0.0)
    den = max(C2 - C3 * xp, float("-inf"))
    return (num / den) ** (1.0 / M1) * 10000.0


def boundary_codes():
    """12-bit PQ codes whose luminance lies within 1.5 % of a bucket boundary of the summary's
    rounding (x50 nits for the L2 line): a wrong scale (4096 for 4095), truncation for rounding or
    a neighbouring code all move such a value into the next bucket"""
    out = []
    for c in range(1, 4096):
        n = pq_to_nits(c / 4095.0)
        f = (n / 100.0) % 1.0
        if abs(f - 0.5) < 0.015 * max(1.0, n / 100.0) and n >= 40:
            out.append(c)
    return out


def boundary_codes_1000():
    """12-bit PQ codes next to a rounding boundary of the `RPU mastering display` line (peak snapped to
    a multiple of 1000 nits: boundaries at x500), plus the codes of the round peaks themselves (they
    convert back to just below or just above the multiple: 3388 -> 1998.6, 3079 -> 1000.6)"""
    out = []
    for c in range(1, 4096):
        n = pq_to_nits(c / 4095.0)
        f = (n / 1000.0) % 1.0
        if n >= 400 and (abs(f - 0.5) < 0.01 or f < 0.004 or f > 0.996):
            out.append(c)
    return out


def steer_l2(r, tree, codes, mcodes=None):
    """give some L2 blocks a target_max_pq next to a rounding boundary of the summary (and the source
    peak a code next to a boundary of the mastering display line)"""
    d = tree.get("vdr_dm_data")
    if d and mcodes and r.random() < 0.5:
        d["source_max_pq"] = r.choice(mcodes)
    if not d or not d.get("cmv29_metadata"):
        return
    for b in d["cmv29_metadata"]["ext_metadata_blocks"]:
        if "Level2" in b and r.random() < 0.5:
            b["Level2"]["target_max_pq"] = r.choice(codes)


def set_l1(tree, val):
    """val = None (no L1 block) or (min, max, avg)"""
    d = tree.get("vdr_dm_data")
    if not d or not d.get("cmv29_metadata"):
        return
    c = d["cmv29_metadata"]
    blocks = [b for b in c["ext_metadata_blocks"] if "Level1" not in b]
    if val is not None:
        blocks.insert(0, {"Level1": {"min_pq": val[0], "max_pq": val[1], "avg_pq": val[2]}})
    c["ext_metadata_blocks"] = blocks
    c["num_ext_blocks"] = len(blocks)


def set_l5(tree, key):
    """key = None (no L5 block) or (l, r, t, b)"""
    d = tree.get("vdr_dm_data")
    if not d or not d.get("cmv29_metadata"):
        return
    c = d["cmv29_metadata"]
    blocks = [b for b in c["ext_metadata_blocks"] if "Level5" not in b]
    if key is not None:
        nb = {"Level5": {"active_area_left_offset": key[0], "active_area_right_offset": key[1], "active_area_top_offset": key[2], "active_area_bottom_offset": key[3]}}
        lv = lambda b: int(list(b)[0][5:])
        pos = len([b for b in blocks if lv(b) <= 5])
        blocks.insert(pos, nb)
    c["ext_metadata_blocks"] = blocks
    c["num_ext_blocks"] = len(blocks)


def l5_of_json(j):
    d = j.get("vdr_dm_data")
    if d and d.get("cmv29_metadata"):
        for b in d["cmv29_metadata"]["ext_metadata_blocks"]:
            if "Level5" in b:
                v = b["Level5"]
                return (v["active_area_left_offset"], v["active_area_right_offset"], v["active_area_top_offset"], v["active_area_bottom_offset"])
    return (0, 0, 0, 0)


def blocks_of(j, level):
    d = j.get("vdr_dm_data")
    out = []
    if d:
        for c in ("cmv29_metadata", "cmv40_metadata"):
            for b in (d.get(c) or {}).get("ext_metadata_blocks", []):
                if "Level%d" % level in b:
                    out.append(b["Level%d" % level])
    return out


def uniq(l):
    out = []
    for x in l:
        if x not in out:
            out.append(x)
    return out


def expected_summary(js):
    """the summary text computed from the per-frame JSON"""
    n = len(js)
    profs = sorted(set(j["dovi_profile"] for j in js))
    ps = ", ".join(map(str, profs))
    head = "Profile" + ("s" if ", " in ps else "") + ": " + ps
    if "7" in ps:
        sub = ", ".join(sorted(set(j["el_type"] for j in js if j.get("el_type"))))
        i = head.index("7")
        head = head[: i + 1] + " (%s)" % sub + head[i + 1 :]
    c1 = sum(1 for j in js if (j.get("vdr_dm_data") or {}).get("cmv29_metadata"))
    c2 = sum(1 for j in js if (j.get("vdr_dm_data") or {}).get("cmv40_metadata"))
    if c2 == c1:
        dm, cnt = "2 (CM v4.0)", None
    elif c2 == 0:
        dm, cnt = "1 (CM v2.9)", None
    else:
        dm, cnt = "1 + 2 (CM 2.9 and 4.0)", (c1, c2)
    scenes = sum(1 for j in js if (j.get("vdr_dm_data") or {}).get("scene_refresh_flag") == 1)
    l1 = []
    for j in js:
        b = blocks_of(j, 1)
        # a frame without L1 counts as the clamped minimum block (2081, 819 / 1229 under CM v4.0)
        l1.append((b[0]["max_pq"], b[0]["avg_pq"]) if b else (2081, 1229 if c2 > 0 else 819))
    maxcll = pq_to_nits(max(x[0] for x in l1) / 4095.0)
    maxfall = pq_to_nits(max(x[1] for x in l1) / 4095.0)
    l6 = uniq([blocks_of(j, 6)[0] for j in js if blocks_of(j, 6)])
    l2 = uniq([b["target_max_pq"] for j in js for b in blocks_of(j, 2)])
    l2n = ["%d nits" % (int(round(pq_to_nits(v / 4095.0) / 100.0) * 100) & 0xFFFF) for v in l2]
    mast = sorted(set((j["vdr_dm_data"]["source_min_pq"], j["vdr_dm_data"]["source_max_pq"]) for j in js if j.get("vdr_dm_data")))
    return {"count": n, "profiles": head, "dm": dm, "counts": cnt, "scenes": scenes, "maxcll": maxcll, "maxfall": maxfall, "l6": l6, "l2": l2n, "mastering": mast,
            "pq": (max(x[0] for x in l1), max(x[1] for x in l1)), "l2raw": l2}


def parse_summary(txt):
    s = txt[txt.index("Summary:"):]
    g = lambda pat: (re.search(pat, s) or [None, None])[1]
    out = {"count": int(g(r"Frames: (\d+)")), "profiles": g(r"\n  (Profiles?: [^\n]*)"), "dm": g(r"DM version: ([^\n]*)"), "scenes": int(g(r"Scene/shot count: (\d+)"))}
    m = re.search(r"v2\.9 count: (\d+)\n\s+v4\.0 count: (\d+)", s)
    out["counts"] = (int(m.group(1)), int(m.group(2))) if m else None
    m = re.search(r"MaxCLL: ([\d.]+) nits, MaxFALL: ([\d.]+) nits", s[s.index("RPU content light level"):])
    out["maxcll"], out["maxfall"] = float(m.group(1)), float(m.group(2))
    out["l2"] = g(r"L2 trims: ([^\n]*)").split(", ") if "L2 trims:" in s else []
    l6 = re.findall(r"Mastering display: ([\d.]+)/(\d+) nits\. MaxCLL: (\d+) nits, MaxFALL: (\d+) nits", s)
    out["l6"] = [(a, int(b), int(c), int(d)) for a, b, c, d in l6]
    out["mastering_str"] = g(r"RPU mastering display: ([^\n]*)")
    return out


def run(res):
    broken = C.prelude(res, need_dovi=True, tables=("Blocks_gen", "DmData_gen", "Switches_gen"))
    r = C.rng(res.seed, "c16")
    w = cli.Work("c16")
    ncase = 25 if res.tier == "quick" else 300
    nrun = 0
    BCODES = boundary_codes()
    MCODES = boundary_codes_1000()
    stats = {"frames": 0, "l5_runs": 0, "info_frames": 0, "editor_roundtrips": 0}
    for k in range(ncase):
        n = r.choice([1, 2, 3, 5, 8, 12, 20])
        prof_mix = r.choice([[8], [8], [7], [5], [8, 7], [4, 5, 7, 8]])
        # L5 pattern: runs of equal offsets, alternating, missing
        pat = r.choice(["runs", "runs", "alternate", "missing-mix", "constant", "none"])
        dim = r.random() < 0.25
        keys_pool = [(0, 0, 276, 276), (0, 0, 0, 0), (240, 240, 0, 0), (10, 20, 30, 40)]
        trees, raws = [], []
        cur = r.choice(keys_pool)
        for i in range(n):
            for _ in range(40):
                t, meta = G.gen_tree(r, profile=r.choice(prof_mix))
                if t.get("vdr_dm_data") is not None or r.random() < 0.05:
                    break
            if pat == "runs":
                if r.random() < 0.3:
                    cur = r.choice(keys_pool + [None])
                key = cur
            elif pat == "alternate":
                key = keys_pool[i % 2]
            elif pat == "missing-mix":
                key = r.choice([None, None, (0, 0, 0, 0), (0, 0, 276, 276)])
            elif pat == "constant":
                key = keys_pool[0]
            else:
                key = None
            set_l5(t, key)
            steer_l2(r, t, BCODES, MCODES)
            if dim:
                # a dim list: L1 averages below the CM v4.0 floor 1229 or no L1 at all (the stand-in block of a frame
                # without L1 then decides MaxFALL: 819 for a pure CM v2.9 list, 1229 as soon as one frame is CM v4.0)
                set_l1(t, None if r.random() < 0.5 else (r.choice([0, 12]), r.choice([2081, 2500, 1300]), r.choice([0, 500, 819, 1000, 1228])))
            if t.get("vdr_dm_data"):
                t["vdr_dm_data"]["scene_refresh_flag"] = r.choice([0, 0, 0, 1])
            raw = G.encode(t).rstrip(b"\x00")
            trees.append(t)
            raws.append(raw)
        okl = C.dvh().run(["parse rpu " + (RC.SC4 + x).hex() for x in raws])
        keep = [i for i, o in enumerate(okl) if o.startswith("ok ") and raws[i][:3] == bytes([0x19, 8, 9])]
        raws = [raws[i] for i in keep]
        hj = [json.loads(okl[i][3:]) for i in keep]
        n = len(raws)
        if n == 0:
            continue
        stats["frames"] += n
        inp = w.write("in.bin", b"".join(b"\x00\x00\x00\x01" + R.escape(x) for x in raws))
        for f in ("all.json", "scenes.txt", "l5.json"):
            if os.path.exists(w.path(f)):
                os.remove(w.path(f))
        ec, txt = cli.run(["export", "-i", inp, "-d", "all=" + w.path("all.json"), "-d", "scenes=" + w.path("scenes.txt"), "-d", "level5=" + w.path("l5.json")], w.dir)
        nrun += 1
        rp = {"rpus": [x.hex() for x in raws], "pattern": pat}
        if ec != "0":
            res.violation("export exits %s on a valid RPU list" % ec, rp)
            continue
        allj = json.loads(w.read("all.json"))
        m = C.model().run(["export " + ",".join((b"\x7c\x01" + R.escape(x)).hex() for x in raws)])[0]
        if not m.startswith("ok "):
            raise RuntimeError("model export failed: " + m[:100])
        mv = dict(p.split("=", 1) for p in m[3:].split(" "))
        # ---- export all: one element per RPU in file order, equal to info -f i and to the library's own serialisation
        if len(allj) != n:
            res.violation("export -d all wrote %d elements for %d RPUs" % (len(allj), n), rp)
            continue
        for i in range(n):
            if allj[i] != hj[i]:
                res.violation("export -d all element %d differs from the parsed RPU %d" % (i, i), rp)
                break
        idxs = list(range(n)) if n <= 5 else sorted(r.sample(range(n), 4) + [0, n - 1])
        for i in idxs:
            ec2, t2 = cli.run(["info", "-i", inp, "-f", str(i)], w.dir)
            nrun += 1
            stats["info_frames"] += 1
            try:
                fj = json.loads(t2[t2.index("{"):])
            except Exception:
                fj = None
            if ec2 != "0" or fj != allj[i]:
                res.violation("info -f %d differs from element %d of export -d all" % (i, i), rp)
                break
        ec2, t2 = cli.run(["info", "-i", inp, "-f", str(n)], w.dir)
        nrun += 1
        if ec2 != "1":
            res.violation("info -f %d on a %d-frame file exits %s" % (n, n, ec2), rp)
        # ---- scenes
        sc = [int(x) for x in (w.read("scenes.txt") or b"").decode().split()]
        want = [i for i, j in enumerate(allj) if (j.get("vdr_dm_data") or {}).get("scene_refresh_flag") == 1]
        msc = [int(x) for x in mv["scenes"].split(",")] if mv["scenes"] != "-" else []
        if sc != want or sc != msc:
            res.violation("export -d scenes lists %s, frames with scene_refresh_flag = 1 are %s (model %s)" % (sc[:10], want[:10], msc[:10]), rp)
        # ---- level5 config
        l5 = json.loads(w.read("l5.json"))
        keys = [l5_of_json(j) for j in allj]
        mps = [tuple(int(v) for v in p.split(":")) for p in mv["presets"].split(";")] if mv["presets"] != "-" else []
        med = dict((e.split(":")[0], int(e.split(":")[1])) for e in mv["edits"].split(";")) if mv["edits"] != "-" else {}
        gps = [(p["left"], p["right"], p["top"], p["bottom"]) for p in l5["presets"]]
        if gps != mps or l5["edits"] != med or [p["id"] for p in l5["presets"]] != list(range(len(gps))) or l5.get("crop") is not True:
            res.violation("export -d level5 config differs from the model: %s vs presets %s edits %s" % (json.dumps(l5)[:200], mps, med), rp)
            continue
        stats["l5_runs"] += len(med)
        # applied by the editor to the same list and to another list of the same length
        for which in ("same", "other"):
            if which == "other":
                others = []
                while len(others) < n:
                    t, meta = G.gen_tree(r, profile=8)
                    if t.get("vdr_dm_data") is None:
                        continue
                    x = G.encode(t).rstrip(b"\x00")
                    if x[:3] == bytes([0x19, 8, 9]) and C.dvh().run(["parseclass rpu " + (RC.SC4 + x).hex()])[0] == "ok":
                        others.append(x)
                tgt = w.write("other.bin", b"".join(b"\x00\x00\x00\x01" + R.escape(x) for x in others))
            else:
                tgt = inp
            cj = w.write("aa.json", json.dumps({"active_area": l5}).encode())
            ec3, t3 = cli.run(["editor", "-i", tgt, "-j", cj, "-o", w.path("ed.bin")], w.dir)
            nrun += 1
            if ec3 != "0":
                res.violation("the editor rejects the exported level5 config (%s list): %s" % (which, t3.split("Stack backtrace")[0][-200:].replace("\n", " ")), rp)
                break
            ec4, t4 = cli.run(["export", "-i", w.path("ed.bin"), "-d", "all=" + w.path("ed.json")], w.dir)
            nrun += 1
            ej = json.loads(w.read("ed.json"))
            stats["editor_roundtrips"] += 1
            bad = [i for i in range(n) if ej[i].get("vdr_dm_data") and l5_of_json(ej[i]) != keys[i]]
            if len(ej) != n or bad:
                res.violation("exported level5 config applied by the editor (%s list) does not reproduce the L5 offsets of frame %s" % (which, bad[:5]), rp)
                break
        # ---- summary
        ec5, t5 = cli.run(["info", "-i", inp, "-s"], w.dir)
        nrun += 1
        if ec5 != "0":
            res.violation("info --summary exits %s" % ec5, rp)
            continue
        got = parse_summary(t5)
        exp = expected_summary(allj)
        problems = []
        for f in ("count", "profiles", "dm", "counts", "scenes"):
            if got[f] != exp[f]:
                problems.append("%s: printed %r, computed %r" % (f, got[f], exp[f]))
        for f in ("maxcll", "maxfall"):
            if abs(got[f] - exp[f]) > 0.0051 + 1e-9 * exp[f]:
                problems.append("%s: printed %r, computed %r" % (f, got[f], exp[f]))
        if got["l2"] != exp["l2"]:
            problems.append("L2 trims: printed %r, computed %r" % (got["l2"], exp["l2"]))
        el6 = [("%.4f" % (b["min_display_mastering_luminance"] / 10000.0), b["max_display_mastering_luminance"], b["max_content_light_level"], b["max_frame_average_light_level"]) for b in exp["l6"]]
        if got["l6"] != el6:
            problems.append("L6: printed %r, computed %r" % (got["l6"], el6))
        # model figures
        mprof = [int(x) for x in mv["profiles"].split(",")]
        if mprof != sorted(set(j["dovi_profile"] for j in allj)) or int(mv["count"]) != n or int(mv["scenecount"]) != exp["scenes"]:
            problems.append("model: profiles/count/scene count differ")
        dmv = mv["dm"].split(":")
        if {"0": "2 (CM v4.0)", "1": "1 (CM v2.9)", "2": "1 + 2 (CM 2.9 and 4.0)"}[dmv[0]] != got["dm"] or (len(dmv) == 3 and (int(dmv[1]), int(dmv[2])) != got["counts"]):
            problems.append("model: DM version %s vs printed %s %s" % (mv["dm"], got["dm"], got["counts"]))
        if (int(mv["maxcll"]), int(mv["maxfall"])) != exp["pq"]:
            problems.append("model: L1 maxima %s/%s vs %s" % (mv["maxcll"], mv["maxfall"], exp["pq"]))
        ml2 = [int(x) for x in mv["l2"].split(",")] if mv["l2"] != "-" else []
        if ml2 != exp["l2raw"]:
            problems.append("model: L2 targets %s vs %s" % (ml2, exp["l2raw"]))
        ml6 = [tuple(int(v) for v in x.split(":")) for x in mv["l6"].split(";")] if mv["l6"] != "-" else []
        if [(b[1], b[0], b[2], b[3]) for b in [(x[0], x[1], x[2], x[3]) for x in ml6]] and len(ml6) != len(exp["l6"]):
            problems.append("model: L6 list length differs")
        nm = len(exp["mastering"])
        if got["mastering_str"] is None or (nm and len(got["mastering_str"].split(", ")) != nm):
            problems.append("mastering display list: printed %r for %d distinct pairs" % (got["mastering_str"], nm))
        elif nm:
            # min with 4 decimals, peak snapped to the nearest multiple of 1000 nits, both from the stored PQ codes
            em = ["%.4f/%d nits" % (math.floor(pq_to_nits(a / 4095.0) * 1e6 + 0.5) / 1e6, int(math.floor(pq_to_nits(b / 4095.0) / 1000.0 + 0.5)) * 1000) for a, b in exp["mastering"]]
            if got["mastering_str"].split(", ") != em:
                problems.append("RPU mastering display: printed %r, computed %r" % (got["mastering_str"], ", ".join(em)))
        if problems:
            res.violation("info --summary differs from the per-frame data: " + "; ".join(problems)[:400], dict(rp, summary=t5[-600:]))
    res.coverage.update({
        "evaluations": nrun,
        "distinct_nontrivial": ncase,
        "rule": "RPU lists of 1..20 frames from the reference generator (profiles 4/5/7/8 mixed, CM v2.9 / v4.0, random L1/L2/L6/L8.., random scene flags; a quarter of the lists dim: L1 averages below the CM v4.0 floor or no L1 block) with L5 patterns: runs of equal offsets of any length, alternating, missing L5 mixed with zero offsets, constant, none; export -d all vs the library's serialisation of each parsed RPU and vs `info -f i`; `info -f n` out of range; export -d scenes vs the flags in the per-frame JSON and the Coq model; export -d level5 vs the Coq model (presets, ranges) and applied through `editor` to the same list and to an unrelated list of the same length, re-exported and compared frame by frame; info --summary parsed and compared with figures recomputed from the per-frame JSON and with the Coq model",
        "cli_runs": nrun, "stats": stats,
    })
    res.assumptions += ["nits figures are compared after the 2-decimal formatting with a reference PQ implementation in floating point (the PQ function itself is C19's subject)",
                        "JSON serialisation of a single RPU is the library's serde output (validated against the Coq model's value tree in C02)"]
    C.conclude(res, broken)


def replay(rp):
    r = rp["replay"]
    print(C.model().run(["export " + ",".join((b"\x7c\x01" + R.escape(bytes.fromhex(x))).hex() for x in r["rpus"])])[0][:600])
    return 0
