"""C18 - --drop-hdr10plus removes exactly the HDR10+ SEI messages."""
import json, os
from .. import common as C
from .. import rpu as R
from .. import hevc as H
from .. import cli
from .. import streamgen as S
from . import c05


def walk_sei(nal):
    """independent SEI walker: [(payload_type, payload bytes)] of an (escaped) SEI NAL"""
    b = R.unescape(nal)[2:]
    out = []
    i = 0
    while i < len(b) and not (i == len(b) - 1 and b[i] == 0x80):
        pt = 0
        while b[i] == 0xFF:
            pt += 255
            i += 1
        pt += b[i]
        i += 1
        sz = 0
        while b[i] == 0xFF:
            sz += 255
            i += 1
        sz += b[i]
        i += 1
        out.append((pt, bytes(b[i : i + sz])))
        i += sz
    return out


def is_hdr10plus(msg):
    pt, pl = msg
    return pt == 4 and len(pl) >= 7 and pl[:7] == bytes([0xB5, 0x00, 0x3C, 0x00, 0x01, 0x04, 0x01])


def gen_sei(r, with_hdr):
    if with_hdr and r.random() < 0.25:
        # seam case: no emulation prevention byte anywhere in the source NAL, but cutting the HDR10+ message out
        # brings the zero bytes that end the message before it against a first byte <= 3 of the message after it
        if r.random() < 0.6:
            prev = (r.choice([5, 129, 200]), H.filler(r, r.choice([1, 9])) + b"\x00\x00")
            nxt = (r.choice([0, 1, 2, 3]), H.filler(r, r.choice([1, 4, 30])))          # 00 00 | 0x
        else:
            prev = (r.choice([5, 129, 200]), H.filler(r, r.choice([1, 9])) + b"\x00")
            nxt = (0, H.filler(r, r.choice([1, 2, 3])))                                # 00 | 00 0x (type 0, size <= 3)
        msgs = [prev, (4, H.hdr10plus_payload(r, r.choice([5, 30, 260]))), nxt]
        if r.random() < 0.3:
            msgs.insert(0, (r.choice([1, 137]), H.filler(r, 6)))
        if r.random() < 0.3:
            msgs.append((r.choice([6, 144]), H.filler(r, 6)))
        return msgs
    n = r.choice([1, 1, 2, 3, 4])
    msgs = []
    for _ in range(n):
        kind = r.random()
        if kind < 0.25:
            msgs.append((4, bytes([0xB5, 0x00, 0x3B, 0x00, 0x00, 0x08, 0x00]) + H.filler(r, r.choice([3, 20]))))     # other T.35 provider
        elif kind < 0.35:
            msgs.append((4, bytes([0xB5, 0x00, 0x3C, 0x00, 0x01, 0x04, 0x00]) + H.filler(r, 5)))                      # wrong application version
        elif kind < 0.45:
            msgs.append((4, bytes([0xB5, 0x00, 0x3C])))                                                              # truncated header (size < 7)
        else:
            sz = r.choice([1, 5, 40, 254, 255, 256, 300, 600])
            pl = bytearray(H.filler(r, sz))
            if r.random() < 0.4 and sz > 8:
                k = r.randrange(0, sz - 3)
                pl[k : k + 3] = bytes([0, 0, r.choice([0, 1, 2, 3])])                                               # emulation-prevention patterns inside
            msgs.append((r.choice([1, 5, 6, 129, 137, 144, 147, 200, 254]), bytes(pl)))
    if with_hdr:
        msgs.insert(r.randrange(0, len(msgs) + 1), (4, H.hdr10plus_payload(r, r.choice([5, 30, 260]))))
        if r.random() < 0.3:
            msgs = [m for m in msgs if is_hdr10plus(m)]                                                              # the only message
    return msgs


def run(res):
    broken = C.prelude(res, need_dovi=True, tables=("Switches_gen",))
    r = C.rng(res.seed, "c18")
    w = cli.Work("c18")
    ncase = 60 if res.tier == "quick" else 600
    nrun = 0
    nsei = 0
    # ---- NAL level: model vs independent walker
    nl, seis = [], []
    for _ in range(300 if res.tier == "quick" else 5000):
        msgs = gen_sei(r, r.random() < 0.6)
        nal = H.sei_nal(msgs)
        seis.append((msgs, nal))
        nl.append("seidrop " + nal.hex())
    mo = C.run_sharded(C.model, nl)
    for (msgs, nal), o in zip(seis, mo):
        has = any(is_hdr10plus(m) for m in msgs)
        first_idx = next((i for i, m in enumerate(msgs) if is_hdr10plus(m)), None)
        if not has:
            want = "ok keep"
        elif len(msgs) == 1:
            want = "ok drop"
        else:
            want = "rewrite"
        if want == "rewrite":
            if not o.startswith("ok rewrite "):
                res.violation("model: SEI with an HDR10+ message among others is not rewritten: %s -> %s" % (nal.hex()[:80], o[:40]), {"op": "seidrop", "input": nal.hex(), "model": o[:200]})
                continue
            got = walk_sei(C.unhexs(o.split()[2]))
            exp = msgs[:first_idx] + msgs[first_idx + 1:]
            if got != exp:
                res.violation("model: rewritten SEI does not hold exactly the other messages", {"op": "seidrop", "input": nal.hex(), "model": o[:400]})
        elif o != want:
            res.violation("model: SEI classification %s, expected %s" % (o[:40], want), {"op": "seidrop", "input": nal.hex(), "model": o[:200]})
    # ---- command level: streams with generated SEI NALs through convert / demux / remove, option on and off
    for k in range(ncase):
        frames = S.gen_frames(r, r.choice([1, 2, 4, 7]), el=r.random() < 0.6)
        allmsgs = {}
        for f in frames:
            pos = next((i for i, n in enumerate(f) if n.type <= 21), len(f))
            for _ in range(r.choice([0, 1, 1, 2])):
                msgs = gen_sei(r, r.random() < 0.6)
                sn = S.SNal(H.sei_nal(msgs))
                allmsgs[sn.data] = msgs
                f.insert(pos, sn)
                nsei += 1
        nals = S.flatten(frames)
        data = S.stream_bytes(r, nals, sc=r.choice(["four", "mixed"]), tz_prob=r.choice([0.05, 0.5]))   # zero bytes after NALs (Annex B trailing_zero_8bits)
        cmd = r.choice(["convert", "demux", "remove"])
        for drop in (1, 0):
            opts = {"drop": drop}
            m = C.model().run([c05.model_line(c05.CFG[cmd], opts, nals, data)])[0]
            inp = w.write("in.hevc", data)
            args, outs = c05.cli_args(cmd, opts, inp, w)
            for f in outs.values():
                if os.path.exists(w.path(f)):
                    os.remove(w.path(f))
            ec, txt = cli.run(args, w.dir, chunk_size=r.choice([None, 1000, 5000]))
            nrun += 1
            files = {key: w.read(f) for key, f in outs.items()}
            c05.compare(res, "c18 case %d drop=%d" % (k, drop), cmd, opts, nals, data, ec, files, c05.parse_model(m), {"input": "file"})
            if ec != "0":
                continue
            # direct oracle with the independent walker
            outn = [x for x in R.split_annexb(files.get("main") or b"")]
            out_sei = [x for x in outn if (x[0] >> 1) & 0x3F == 39]
            in_sei = [n.data for n in nals if n.type == 39]
            if drop:
                exp = []
                for d in in_sei:
                    ms = walk_sei(d)
                    keep = [mm for mm in ms if not is_hdr10plus(mm)] if any(is_hdr10plus(mm) for mm in ms) else ms
                    # only the first HDR10+ message is removed (conformant streams carry at most one)
                    if any(is_hdr10plus(mm) for mm in ms):
                        fi = next(i for i, mm in enumerate(ms) if is_hdr10plus(mm))
                        keep = ms[:fi] + ms[fi + 1:]
                    if keep:
                        exp.append(keep)
                got = [walk_sei(x) for x in out_sei]
                if got != exp:
                    res.violation("%s --drop-hdr10plus: remaining SEI messages differ from the input minus HDR10+" % cmd, {"cmd": cmd, "opts": opts, "stream_hex": data.hex()})
                if any(is_hdr10plus(mm) for g in got for mm in g):
                    res.violation("%s --drop-hdr10plus: an HDR10+ message remains" % cmd, {"cmd": cmd, "opts": opts, "stream_hex": data.hex()})
            else:
                if [x.rstrip(b"\x00") for x in out_sei] != [x.rstrip(b"\x00") for x in in_sei]:
                    res.violation("%s without the option changed a prefix SEI NAL" % cmd, {"cmd": cmd, "opts": opts, "stream_hex": data.hex()})
    # ---- mux and inject-rpu with --drop-hdr10plus: generated SEI NALs in the base layer, before the first slice,
    # directly after the AUD, or as first NAL of the frame (base layer without AUDs); against Mux.v / Order.v with
    # the drop option and the independent SEI walker
    from . import c06 as C06
    from .. import rpucases as RC
    nmux = ninj = 0
    trees = RC.valid_trees(res.seed, 40, "c18", profile=8)
    okl = C.dvh().run(["parseclass rpu " + (RC.SC4 + raw).hex() for t, raw, m_ in trees])
    pool8 = [raw.rstrip(b"\x00") for (t, raw, m_), ok in zip(trees, okl) if ok == "ok" and raw[:3] == bytes([0x19, 8, 9])]
    for k in range(24 if res.tier == "quick" else 300):
        n = r.choice([1, 2, 3, 5, 8])
        bl_frames, el_frames = C06.gen_pair(r, n, n)
        placement = r.choice(["before-slice", "first-nal", "first-nal", "after-aud"])
        if placement == "first-nal":
            bl_frames = [[x for x in f if x.type != 35] for f in bl_frames]
        for f in bl_frames:
            if r.random() < 0.8:
                msgs = gen_sei(r, r.random() < 0.8)
                sn = S.SNal(H.sei_nal(msgs))
                if placement == "first-nal":
                    pos = 0
                elif placement == "after-aud":
                    pos = 1 if f and f[0].type == 35 else 0
                else:
                    pos = next((i for i, x in enumerate(f) if x.type <= 21), len(f))
                f.insert(pos, sn)
                nsei += 1
        bl, el = S.flatten(bl_frames), S.flatten(el_frames)
        in_hdr = sum(1 for x in bl if x.type == 39 and any(is_hdr10plus(mm) for mm in walk_sei(x.data)))
        for drop in (1, 0):
            if r.random() < 0.6:
                # ---------------- mux
                o = {"noaud": int(r.random() < 0.4), "eosfirst": int(r.random() < 0.3), "discard": int(r.random() < 0.3), "annexb": 0, "mode": None}
                bld = S.stream_bytes(r, bl, sc=r.choice(["four", "mixed"]), tz_prob=0)
                eld = S.stream_bytes(r, el, sc="four", tz_prob=0)
                blp, elp, outp = w.write("BL.hevc", bld), w.write("EL.hevc", eld), w.path("mux.hevc")
                if os.path.exists(outp):
                    os.remove(outp)
                ec, txt = cli.run((["--drop-hdr10plus"] if drop else []) + C06.mux_args(o, blp, elp, outp), w.dir, chunk_size=r.choice([None, 1000, 5000]))
                nrun += 1
                nmux += 1
                rp = {"cmd": "mux", "opts": o, "drop": drop, "placement": placement, "bl_hex": bld.hex(), "el_hex": eld.hex()}
                ostr = C06.opt_string(o).replace("drop=0", "drop=%d" % drop)
                m1 = C.model().run(["mux %s %s %s" % (ostr, ";".join(x.model() for x in bl), ";".join(x.model() for x in el))])[0]
                if ec != "0" or not m1.startswith("ok match"):
                    if (ec == "0") != m1.startswith("ok match"):
                        res.violation("mux%s exits %s, the model says %s" % (" --drop-hdr10plus" if drop else "", ec, m1[:30]), rp)
                    continue
                outn = [x.rstrip(b"\x00") for x in R.split_annexb(w.read("mux.hevc") or b"")]
                exp = [C.unhexs(x.split(":")[1]).rstrip(b"\x00") for x in m1.split(" ")[2].split(",")] if m1.split(" ")[2] != "-" else []
                if outn != exp:
                    kk = next((i for i, (a, b) in enumerate(zip(outn, exp)) if a != b), min(len(outn), len(exp)))
                    res.violation("mux%s: output differs from the model at NAL %d (%d written, %d expected; SEI placement %s)" % (" --drop-hdr10plus" if drop else "", kk, len(outn), len(exp), placement), rp)
                    continue
            else:
                # ---------------- inject-rpu
                src = [x for x in bl if x.type != 62] if r.random() < 0.5 else bl
                sdata = S.stream_bytes(r, src, sc="four", tz_prob=0)
                rpus = [r.choice(pool8) for _ in range(n)]
                rpuf = w.write("new.bin", b"".join(b"\x00\x00\x00\x01" + R.escape(x) for x in rpus))
                inp2, outh = w.write("bl.hevc", sdata), w.path("inj.hevc")
                if os.path.exists(outh):
                    os.remove(outh)
                noaud = int(r.random() < 0.4)
                ec, txt = cli.run((["--drop-hdr10plus"] if drop else []) + ["inject-rpu", "-i", inp2, "--rpu-in", rpuf, "-o", outh] + (["--no-add-aud"] if noaud else []), w.dir, chunk_size=r.choice([None, 10000, 20000]))
                nrun += 1
                ninj += 1
                rp = {"cmd": "inject-rpu", "no_add_aud": noaud, "drop": drop, "placement": placement, "stream_hex": sdata.hex(), "rpus": [x.hex() for x in rpus]}
                m1 = C.model().run(["inject noaud=%d,annexb=0,drop=%d %s %s" % (noaud, drop, ";".join(x.model() for x in src), ",".join((b"\x7c\x01" + R.escape(x)).hex() for x in rpus))])[0]
                if ec != "0" or not m1.startswith("ok"):
                    if (ec == "0") != m1.startswith("ok"):
                        res.violation("inject-rpu%s exits %s, the model says %s" % (" --drop-hdr10plus" if drop else "", ec, m1[:30]), rp)
                    continue
                outn = [x.rstrip(b"\x00") for x in R.split_annexb(w.read("inj.hevc") or b"")]
                exp = [C.unhexs(x.split(":")[1]).rstrip(b"\x00") for x in m1[3:].split(",")] if m1 != "ok -" else []
                if outn != exp:
                    kk = next((i for i, (a, b) in enumerate(zip(outn, exp)) if a != b), min(len(outn), len(exp)))
                    res.violation("inject-rpu%s: output differs from the model at NAL %d (%d written, %d expected; SEI placement %s)" % (" --drop-hdr10plus" if drop else "", kk, len(outn), len(exp), placement), rp)
                    continue
            # direct oracle on the output: no HDR10+ message left with the option, all of them kept without it
            left = sum(1 for x in outn if (x[0] >> 1) & 0x3F == 39 and any(is_hdr10plus(mm) for mm in walk_sei(x)))
            if drop and left:
                res.violation("%s --drop-hdr10plus: %d SEI NAL(s) of the output still hold an HDR10+ message (SEI placement %s)" % (rp["cmd"], left, placement), rp)
            if not drop and left != in_hdr:
                res.violation("%s without the option: %d of %d HDR10+ SEI NALs left" % (rp["cmd"], left, in_hdr), rp)
    # ---- inject-rpu: every combination of --no-add-aud and the input's own AUDs / RPUs under --drop-hdr10plus on one
    # stream (own PRNG stream: the cases above stay what they were)
    r3 = C.rng(res.seed, "c18inj")
    for k in range(5 if res.tier == "quick" else 60):
        n = r3.choice([1, 2, 3, 5])
        bl_frames, _el = C06.gen_pair(r3, n, n)
        placement = r3.choice(["before-slice", "first-nal", "after-aud"])
        if placement == "first-nal":
            bl_frames = [[x for x in f if x.type != 35] for f in bl_frames]
        for f in bl_frames:
            msgs = gen_sei(r3, r3.random() < 0.9)
            pos = 0 if placement == "first-nal" else (1 if f and f[0].type == 35 else 0) if placement == "after-aud" else next((i for i, x in enumerate(f) if x.type <= 21), len(f))
            f.insert(pos, S.SNal(H.sei_nal(msgs)))
            nsei += 1
        bl = S.flatten(bl_frames)
        rpus = [r3.choice(pool8) for _ in range(n)]
        rpuf = w.write("new.bin", b"".join(b"\x00\x00\x00\x01" + R.escape(x) for x in rpus))
        for keep_rpu in (0, 1):
            src = bl if keep_rpu else [x for x in bl if x.type != 62]
            sdata = S.stream_bytes(r3, src, sc="four", tz_prob=0)
            inp2, outh = w.write("bl.hevc", sdata), w.path("inj.hevc")
            for noaud in (0, 1):
                if os.path.exists(outh):
                    os.remove(outh)
                ec, txt = cli.run(["--drop-hdr10plus", "inject-rpu", "-i", inp2, "--rpu-in", rpuf, "-o", outh] + (["--no-add-aud"] if noaud else []), w.dir, chunk_size=r3.choice([None, 10000]))
                nrun += 1
                ninj += 1
                rp = {"cmd": "inject-rpu", "no_add_aud": noaud, "drop": 1, "placement": placement, "stream_hex": sdata.hex(), "rpus": [x.hex() for x in rpus]}
                m1 = C.model().run(["inject noaud=%d,annexb=0,drop=1 %s %s" % (noaud, ";".join(x.model() for x in src), ",".join((b"\x7c\x01" + R.escape(x)).hex() for x in rpus))])[0]
                if ec != "0" or not m1.startswith("ok"):
                    if (ec == "0") != m1.startswith("ok"):
                        res.violation("inject-rpu --drop-hdr10plus exits %s, the model says %s" % (ec, m1[:30]), rp)
                    continue
                outn = [x.rstrip(b"\x00") for x in R.split_annexb(w.read("inj.hevc") or b"")]
                exp = [C.unhexs(x.split(":")[1]).rstrip(b"\x00") for x in m1[3:].split(",")] if m1 != "ok -" else []
                if outn != exp:
                    kk = next((i for i, (a, b) in enumerate(zip(outn, exp)) if a != b), min(len(outn), len(exp)))
                    res.violation("inject-rpu --drop-hdr10plus%s: output differs from the model at NAL %d (%d written, %d expected; SEI placement %s)" % (" --no-add-aud" if noaud else "", kk, len(outn), len(exp), placement), rp)
                    continue
                left = sum(1 for x in outn if (x[0] >> 1) & 0x3F == 39 and any(is_hdr10plus(mm) for mm in walk_sei(x)))
                if left:
                    res.violation("inject-rpu --drop-hdr10plus%s: %d SEI NAL(s) of the output still hold an HDR10+ message (SEI placement %s)" % (" --no-add-aud" if noaud else "", left, placement), rp)
    res.coverage.update({
        "mux_runs": nmux, "inject_runs": ninj,
        "evaluations": len(nl) + 2 * nrun,
        "distinct_nontrivial": len(set(nl)),
        "rule": "prefix SEI NALs with 1..4 messages (assorted payload types, sizes incl. 254/255/256/300/600 with FF extension bytes, payloads holding 00 00 0x, T.35 messages of another provider, wrong application version, truncated header; HDR10+ first / middle / last / alone; seam cases: no emulation prevention byte in the source NAL but the cut brings 00 00 or 00 of the message before against a first byte <= 3 of the message after), checked at NAL level against an independent SEI walker and inside generated streams through convert / demux / remove, and through mux and inject-rpu (SEI before the first slice, after the AUD, or as first NAL of a frame in a base layer without AUDs; --no-add-aud / --discard / --eos-before-el) against the mux and inject models with the drop option with and without --drop-hdr10plus (outputs compared with the Coq routing model and walked independently); distinct SEI NALs counted",
        "sei_nals_in_streams": nsei, "cli_runs": nrun,
        "samples": [nl[0][:120], nl[1][:120]],
    })
    res.assumptions += ["at most one HDR10+ message per SEI NAL (the first one is removed), as the property states", "payload types below 255 (the u8 accumulation in hevc_parser overflows beyond)", "mux and inject-rpu call the same function (call sites checked by C06 / C07)"]
    C.conclude(res, broken)


def replay(rp):
    r = rp["replay"]
    if r.get("op") == "seidrop":
        print(C.model().run(["seidrop " + r["input"]]))
    else:
        print(json.dumps({k: (v if k != "stream_hex" else v[:200]) for k, v in r.items()}))
    return 0
