"""C13 - start-code emulation prevention is exact; NAL framing unambiguous."""
import itertools
from .. import common as C

ALPHA = [0x00, 0x01, 0x02, 0x03, 0x04, 0xFF]


def forbidden(b):
    """first index of a byte-aligned 00 00 {00,01,02}, or of a 00 00 03 not followed by <=3"""
    for i in range(len(b) - 2):
        if b[i] == 0 and b[i + 1] == 0:
            if b[i + 2] <= 2:
                return i
            if b[i + 2] == 3 and i + 3 < len(b) and b[i + 3] > 3:
                return i
    return None


def gen_cases(res):
    maxlen = 7 if res.tier == "quick" else 8
    cases = []
    for n in range(0, maxlen + 1):
        for t in itertools.product(ALPHA, repeat=n):
            cases.append(bytes([0x19]) + bytes(t))
    # longer payloads: every position of a 00 00 0x triple, trailing zeros
    r = C.rng(res.seed, "c13")
    extra = []
    for x in (0, 1, 2, 3):
        for pos in range(0, 40):
            body = bytearray(r.randrange(4, 256) for _ in range(48))
            body[pos : pos + 3] = bytes([0, 0, x])
            extra.append(bytes([0x19]) + bytes(body))
            extra.append(bytes([0x19]) + bytes(body) + bytes(r.randrange(0, 4)))
    for _ in range(2000 if res.tier == "quick" else 20000):
        n = r.randrange(1, 80)
        extra.append(bytes([0x19]) + bytes(r.choice([0, 0, 0, 1, 2, 3, 3, 4, 0x80, r.randrange(256)]) for _ in range(n)))
    return cases, extra, maxlen


def run(res):
    broken = C.prelude(res)
    cases, extra, maxlen = gen_cases(res)
    allc = cases + extra
    lines_e = ["escape " + C.hexs(c) for c in allc]
    m = C.run_sharded(C.model, lines_e)
    i = C.run_sharded(C.dvh, lines_e)
    nd = C.diff_streams(res, "escape", lines_e, m, i)
    # unescape on arbitrary strings (not only escaper output) and on the escaper's output
    lines_u = ["unescape " + C.hexs(c[1:] if len(c) > 1 else c) for c in allc] + ["unescape " + x.split()[1] for x in i if x.startswith("ok ")]
    mu = C.run_sharded(C.model, lines_u)
    iu = C.run_sharded(C.dvh, lines_u)
    nd += C.diff_streams(res, "unescape", lines_u, mu, iu)
    # direct oracle on the implementation: unescape(escape x) = x, no forbidden sequence in 7C 01 ++ escape x
    nontriv = 0
    back = iu[len(allc):]
    for c, e, u in zip(allc, i, back):
        if not e.startswith("ok "):
            res.violation("escape failed on %s: %s" % (c.hex(), e), {"op": "escape", "input": c.hex(), "impl": e})
            continue
        eb = C.unhexs(e.split()[1])
        if eb != c:
            nontriv += 1
        f = forbidden(b"\x7c\x01" + eb)
        if f is not None:
            res.violation("written NAL contains a forbidden sequence at %d: payload %s -> %s" % (f, c.hex(), eb.hex()), {"op": "escape", "input": c.hex(), "impl": e})
        if u != "ok " + C.hexs(c):
            res.violation("unescape(escape x) != x for x=%s: escape=%s unescape=%s" % (c.hex(), eb.hex(), u), {"op": "unescape.escape", "input": c.hex(), "impl_escape": e, "impl_unescape": u})
    res.coverage.update({
        "evaluations": len(lines_e) + len(lines_u),
        "distinct_nontrivial": nontriv,
        "rule": "all strings of length <= %d over {00,01,02,03,04,FF} behind 0x19 (exhaustive), 00 00 0x triples at every position 0..39 of 48-byte payloads, random zero-rich payloads; non-trivial = escaping changes the string (distinct inputs by construction)" % maxlen,
        "exhaustive": True,
        "exhaustive_space": "strings of length <= %d over a 6-byte alphabet: %d cases" % (maxlen, len(cases)),
        "disagreements": nd,
        "samples": [{"input": c.hex(), "impl_escape": e} for c, e in list(zip(allc, i))[len(cases) - 3 : len(cases) + 3]],
    })
    res.assumptions += ["payload first byte non-zero (RPUs start with 0x19); for a leading 00 00 0x the i > 2 guard makes the round trip false (C13_refuted_leading_zero)"]
    C.conclude(res, broken)


def replay(rp):
    r = rp["replay"]
    if "input" in r:
        line = "escape " + r["input"]
        print("model:", C.model().run([line]))
        print("impl :", C.dvh().run([line]))
    else:
        print(r)
    return 0
