"""C13 - start-code emulation prevention is exact; NAL framing unambiguous."""
import itertools, json, os
from .. import common as C
from .. import rpu as R

ALPHA = [0x00, 0x01, 0x02, 0x03, 0x04, 0xFF]


def forbidden(b):
    """first index of a byte-aligned 00 00 {00,01,02}, or of a 00 00 03 not followed by <=3"""
    for i in range(len(b) - 2):
        if b[i] == 0 and b[i + 1] == 0:
            if b[i + 2] <= 2:
                return i
            if b[i + 2] == 3 and i + 3 < len(b) and b[i + 3] > 3:
                return i
    return None


def gen_cases(res):
    maxlen = 7 if res.tier == "quick" else 8
    cases = []
    for n in range(0, maxlen + 1):
        for t in itertools.product(ALPHA, repeat=n):
            cases.append(bytes([0x19]) + bytes(t))
    # longer payloads: every position of a 00 00 0x triple, trailing zeros
    r = C.rng(res.seed, "c13")
    extra = []
    for x in (0, 1, 2, 3):
        for pos in range(0, 40):
            body = bytearray(r.randrange(4, 256) for _ in range(48))
            body[pos : pos + 3] = bytes([0, 0, x])
            extra.append(bytes([0x19]) + bytes(body))
            extra.append(bytes([0x19]) + bytes(body) + bytes(r.randrange(0, 4)))
    for _ in range(2000 if res.tier == "quick" else 20000):
        n = r.randrange(1, 80)
        extra.append(bytes([0x19]) + bytes(r.choice([0, 0, 0, 1, 2, 3, 3, 4, 0x80, r.randrange(256)]) for _ in range(n)))
    return cases, extra, maxlen


_TAB = []
for _i in range(256):
    _c = _i << 24
    for _ in range(8):
        _c = ((_c << 1) ^ 0x04C11DB7) & 0xFFFFFFFF if _c & 0x80000000 else (_c << 1) & 0xFFFFFFFF
    _TAB.append(_c)


def crc_step(state, data):
    for b in data:
        state = ((state << 8) & 0xFFFFFFFF) ^ _TAB[((state >> 24) ^ b) & 0xFF]
    return state


def seam_rpus(res, r):
    """valid RPUs (raw form) whose bytes put an escape site at or across the seam between the data and the CRC-32:
    data ending in 00 00 with a CRC starting <= 3, data ending in 00 with a CRC starting 00 0x, a CRC holding
    00 00 0x itself, plus unsteered variants. Built from generated RPUs with a CM v4.0 payload by rewriting the
    bytes before the CRC (`remaining`) and searching two of them for the wanted CRC."""
    from .. import rpucases as RC
    from .. import rpugen as G
    out = []
    nbase = 0
    for t, raw, m in RC.valid_trees(res.seed, 60, "c13", profile=8):
        d = t.get("vdr_dm_data")
        if d is None or "cmv40_metadata" not in d or t.get("remaining"):
            continue
        t2 = dict(t)
        t2["remaining"] = [0] * (8 * 6)
        body = G.encode(t2).rstrip(b"\x00")[:-5]          # 0x19 .. remaining, without CRC and 0x80
        if C.dvh().run(["parseclass rpu " + (RC.SC4 + body + R.crc32_mpeg2(body[1:]).to_bytes(4, "big") + b"\x80").hex()])[0] != "ok":
            continue
        nbase += 1
        pre = body[:-6]
        st0 = crc_step(0xFFFFFFFF, pre[1:])
        def finish(rem):
            b = pre + rem
            return b + crc_step(st0, rem).to_bytes(4, "big") + b"\x80"
        want = {"00 00 | 0x": [], "00 | 00 0x": [], "crc 00 00 0x": [], "crc x 00 00 0x": []}
        x0 = r.randrange(4, 256)
        for b1 in range(256):
            for b2 in range(1, 256):
                for tail, key in ((b"\x00\x00", "00 00 | 0x"), (b"\x00", "00 | 00 0x"), (b"\x07", None)):
                    rem = bytes([x0, 0x55, b1, b2]) + (tail if len(tail) == 2 else b"\x21" + tail)
                    c = crc_step(st0, rem)
                    c0, c1, c2, c3 = c >> 24, (c >> 16) & 255, (c >> 8) & 255, c & 255
                    if key == "00 00 | 0x" and c0 <= 3 and len(want[key]) < 6:
                        want[key].append(rem)
                    elif key == "00 | 00 0x" and c0 == 0 and c1 <= 3 and len(want[key]) < 3:
                        want[key].append(rem)
                    elif key is None and c0 == 0 and c1 == 0 and c2 <= 3 and len(want["crc 00 00 0x"]) < 2:
                        want["crc 00 00 0x"].append(rem)
                    elif key is None and c1 == 0 and c2 == 0 and c3 <= 3 and len(want["crc x 00 00 0x"]) < 2:
                        want["crc x 00 00 0x"].append(rem)
        for key, rems in want.items():
            for rem in rems:
                out.append((key, finish(rem)))
        for _ in range(20):
            out.append(("unsteered", finish(bytes(r.choice([0, 0, 1, 2, 3, 0x42, r.randrange(256)]) for _ in range(6)))))
        if nbase >= (3 if res.tier == "quick" else 12):
            break
    return out


def run(res):
    broken = C.prelude(res, need_dovi=True)
    cases, extra, maxlen = gen_cases(res)
    allc = cases + extra
    lines_e = ["escape " + C.hexs(c) for c in allc]
    m = C.run_sharded(C.model, lines_e)
    i = C.run_sharded(C.dvh, lines_e)
    nd = C.diff_streams(res, "escape", lines_e, m, i)
    # unescape on arbitrary strings (not only escaper output) and on the escaper's output
    lines_u = ["unescape " + C.hexs(c[1:] if len(c) > 1 else c) for c in allc] + ["unescape " + x.split()[1] for x in i if x.startswith("ok ")]
    mu = C.run_sharded(C.model, lines_u)
    iu = C.run_sharded(C.dvh, lines_u)
    nd += C.diff_streams(res, "unescape", lines_u, mu, iu)
    # direct oracle on the implementation: unescape(escape x) = x, no forbidden sequence in 7C 01 ++ escape x
    nontriv = 0
    back = iu[len(allc):]
    for c, e, u in zip(allc, i, back):
        if not e.startswith("ok "):
            res.violation("escape failed on %s: %s" % (c.hex(), e), {"op": "escape", "input": c.hex(), "impl": e})
            continue
        eb = C.unhexs(e.split()[1])
        if eb != c:
            nontriv += 1
        f = forbidden(b"\x7c\x01" + eb)
        if f is not None:
            res.violation("written NAL contains a forbidden sequence at %d: payload %s -> %s" % (f, c.hex(), eb.hex()), {"op": "escape", "input": c.hex(), "impl": e})
        if u != "ok " + C.hexs(c):
            res.violation("unescape(escape x) != x for x=%s: escape=%s unescape=%s" % (c.hex(), eb.hex(), u), {"op": "unescape.escape", "input": c.hex(), "impl_escape": e, "impl_unescape": u})
    # ---- the call sites: RPUs written as NALs by the library (write_hevc_unspec62_nalu) and into an RPU file by a
    # command, with escape sites at and across the seam between the data and the CRC-32
    from .. import cli
    from .. import rpucases as RC
    r = C.rng(res.seed, "c13-seam")
    seam = seam_rpus(res, r)
    # the same RPUs followed by zero bytes (kept by the parser as trailing zeros and written back): 3 and more need an
    # escape behind the 0x80 terminator
    seam_tz = [(key + " +%d zeros" % k, raw + b"\x00" * k) for key, raw in (seam[:12] + [(k_, v.rstrip(b"\x00")) for k_, v in RC.asset_cases() if k_.startswith(("profile8", "fel", "mel", "cmv40_full"))][:6]) for k in (1, 2, 3, 4, 7)]
    seam = seam + seam_tz
    kinds = {}
    lines_w = ["rt rpu nal " + (RC.SC4 + raw).hex() for key, raw in seam]
    mw = C.run_sharded(C.model, lines_w)
    iw = C.run_sharded(C.dvh, lines_w)
    nd += C.diff_streams(res, "NAL writer", lines_w, mw, iw)
    written_ok = []
    for (key, raw), o in zip(seam, iw):
        kinds[key] = kinds.get(key, 0) + 1
        if not o.startswith("ok "):
            res.violation("write_hevc_unspec62_nalu fails on a valid unmodified RPU (%s): %s" % (key, o), {"op": "rt rpu nal", "input": raw.hex(), "impl": o})
            continue
        nal = C.unhexs(o.split()[1])
        f = forbidden(nal)
        if f is not None:
            res.violation("the NAL written for an RPU (%s) contains a forbidden sequence at %d: ...%s" % (key, f, nal[max(0, f - 4) : f + 6].hex()), {"op": "rt rpu nal", "input": raw.hex(), "impl": o})
        elif R.unescape(nal[2:]) != raw or nal[2:] != R.escape(raw):
            res.violation("the NAL written for an RPU (%s) is not the canonical escaping of its payload" % key, {"op": "rt rpu nal", "input": raw.hex(), "impl": o})
        else:
            written_ok.append(raw)
    if seam:
        w = cli.Work("c13")
        inp = w.write("in.bin", b"".join(b"\x00\x00\x00\x01" + R.escape(raw) for key, raw in seam))
        w.write("cfg.json", b"{}")
        ec, txt = cli.run(["editor", "-i", inp, "-j", w.path("cfg.json"), "-o", w.path("out.bin")], w.dir)
        rp = {"op": "editor {}", "rpus": [raw.hex() for key, raw in seam][:40]}
        if ec != "0":
            res.violation("editor with an empty config exits %s on a file of valid RPUs" % ec, rp)
        else:
            outd = w.read("out.bin") or b""
            got = [x for x in R.read_rpu_file_raw(w.path("out.bin"))]
            if [g.rstrip(b"\x00") for g in got] != [raw.rstrip(b"\x00") for key, raw in seam]:
                res.violation("RPU file written by the editor: %d entries read back for %d written, or their bytes differ (start code emulation inside an entry)" % (len(got), len(seam)), rp)
            elif outd != b"".join(b"\x00\x00\x00\x01" + R.escape(raw) for key, raw in seam):
                res.violation("RPU file written by the editor is not the canonical escaping of its entries", rp)
    # ---- the other NAL the tool re-escapes: a prefix SEI rewritten under --drop-hdr10plus. Messages holding 00 00 0x in
    # front of, and behind, the removed HDR10+ message: the written file must split into the NALs that were written
    from .. import streamgen as S
    from .. import hevc as H
    r5 = C.rng(res.seed, "c13-sei")
    w5 = cli.Work("c13sei")
    nsei = 0
    for k in range(4 if res.tier == "quick" else 40):
        frames = S.gen_frames(r5, 2, el=False, eos_mid=False)
        zero_rich = lambda n: bytes(r5.choice([0, 0, 0, 1, 2, 3, 0x80, 0xFF]) for _ in range(n))
        before = [(5, bytes(range(16, 32)) + b"\x00\x00\x01\x07\x00\x00\x03\x00\x00\x02" + zero_rich(r5.choice([4, 12, 30])) + b"\x55")]
        after = [(r5.choice([1, 137, 144]), zero_rich(r5.choice([3, 9, 24])) + b"\x11")] if r5.random() < 0.6 else []
        msgs = before + [(4, H.hdr10plus_payload(r5, r5.choice([8, 20, 60])))] + after
        f0 = frames[0]
        pos = next((i for i, x in enumerate(f0) if x.type <= 21), len(f0))
        f0.insert(pos, S.SNal(H.sei_nal(msgs)))
        nals = S.flatten(frames)
        data = S.stream_bytes(r5, nals, sc="four", tz_prob=0)
        inp = w5.write("in.hevc", data)
        outp = w5.path("out.hevc")
        if os.path.exists(outp):
            os.remove(outp)
        ec, txt = cli.run(["--drop-hdr10plus", "convert", inp, "-o", outp], w5.dir)
        nsei += 1
        rp = {"op": "convert --drop-hdr10plus", "stream_hex": data.hex()}
        if ec != "0":
            res.violation("convert --drop-hdr10plus exits %s on a stream with a multi-message prefix SEI" % ec, rp)
            continue
        want = [(H.sei_nal(before + after) if i == f0[pos] else i.data).rstrip(b"\x00") for i in nals]
        got = [x.rstrip(b"\x00") for x in R.split_annexb(w5.read("out.hevc") or b"")]
        bad = next((g for g in got if forbidden(g) is not None), None)
        if bad is not None:
            res.violation("a NAL of the file written by convert --drop-hdr10plus contains a forbidden sequence: ...%s" % bad[:40].hex(), rp)
        elif got != want:
            res.violation("the file written by convert --drop-hdr10plus does not split into the NALs that were written (%d for %d)" % (len(got), len(want)), rp)
    res.coverage["rewritten_sei_streams"] = nsei
    res.coverage.update({
        "nal_writer_cases": len(seam), "nal_writer_kinds": kinds,
        "evaluations": len(lines_e) + len(lines_u) + 2 * len(seam),
        "distinct_nontrivial": nontriv,
        "rule": "all strings of length <= %d over {00,01,02,03,04,FF} behind 0x19 (exhaustive), 00 00 0x triples at every position 0..39 of 48-byte payloads, random zero-rich payloads; the call sites: valid RPUs steered (by a CRC search over the bytes before the CRC) to need an escape at / across the seam between data and CRC-32 or inside the CRC, and RPUs followed by 1..7 zero bytes, written by write_hevc_unspec62_nalu (against Rpu.v and the reference escaper) and into an RPU file by `editor {}`; prefix SEI NALs rewritten by convert --drop-hdr10plus with 00 00 0x patterns in front of and behind the removed message (file split independently); non-trivial = escaping changes the string (distinct inputs by construction)" % maxlen,
        "exhaustive": True,
        "exhaustive_space": "strings of length <= %d over a 6-byte alphabet: %d cases" % (maxlen, len(cases)),
        "disagreements": nd,
        "samples": [{"input": c.hex(), "impl_escape": e} for c, e in list(zip(allc, i))[len(cases) - 3 : len(cases) + 3]],
    })
    res.assumptions += ["payload first byte non-zero (RPUs start with 0x19); for a leading 00 00 0x the i > 2 guard makes the round trip false (C13_refuted_leading_zero)"]
    C.conclude(res, broken)


def replay(rp):
    r = rp["replay"]
    if "input" in r:
        line = "escape " + r["input"]
        print("model:", C.model().run([line]))
        print("impl :", C.dvh().run([line]))
    else:
        print(r)
    return 0
