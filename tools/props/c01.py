"""C01 - unmodified RPUs re-encode byte-exactly or fail; never silently change."""
import json, os, subprocess
from .. import common as C
from .. import rpu as R
from .. import rpugen as G
from .. import rpucases as RC


def trim_prefix(b):
    """what validated_trimmed_data strips"""
    for p in (b"\x00\x00\x00\x01", b"\x00\x00\x01", b"\x00\x01", b"\x7c\x01", b"\x01"):
        if b.startswith(p + b"\x19"):
            return b[len(p):]
    return b


def cli_identity(res, raws, nd_counter, chunk_size=None, data=None):
    """list level: `editor` with {} and `convert -m 0`-style paths keep every RPU or fail"""
    tmp = os.path.join(C.TMP, "c01")
    os.makedirs(tmp, exist_ok=True)
    inp = os.path.join(tmp, "in.bin")
    with open(inp, "wb") as f:
        if data is not None:
            f.write(data)
        for raw in ([] if data is not None else raws):
            f.write(b"\x00\x00\x00\x01" + R.escape(raw))
    cfg = os.path.join(tmp, "empty.json")
    open(cfg, "w").write("{}")
    out = os.path.join(tmp, "out.bin")
    if os.path.exists(out):
        os.remove(out)
    env = dict(os.environ)
    if chunk_size:
        env["DOVI_TOOL_VERIF_CHUNK_SIZE"] = str(chunk_size)
    p = subprocess.run([C.DOVI, "editor", "-i", inp, "-j", cfg, "-o", out], stdout=subprocess.PIPE, stderr=subprocess.STDOUT, timeout=300, env=env)
    if p.returncode not in (0, 1):
        res.violation("editor {} crashed with status %d" % p.returncode, {"cmd": "editor {}", "input_rpus": [r.hex() for r in raws[:50]], "status": p.returncode})
        return 0
    if p.returncode == 0:
        got = R.read_rpu_file_raw(out) if os.path.exists(out) else []
        if [g.rstrip(b"\x00") for g in got] != [r.rstrip(b"\x00") for r in raws]:
            k = next((i for i, (a, b) in enumerate(zip(got, raws)) if a.rstrip(b"\x00") != b.rstrip(b"\x00")), min(len(got), len(raws)))
            res.violation("editor with an empty config changed the RPU list (exit 0): %d in, %d out, first difference at index %d" % (len(raws), len(got), k),
                          {"cmd": "editor {}", "input_rpus": [r.hex() for r in raws], "first_diff": k}, key="editor-drops-unwritable")
    return 1


def run(res):
    broken = C.prelude(res, need_dovi=True, tables=("Blocks_gen", "DmData_gen", "Switches_gen", "Consts_gen"))
    n = 1500 if res.tier == "quick" else 30000
    r = C.rng(res.seed, "c01")
    trees = RC.valid_trees(res.seed, n, "c01")
    cases = []  # (label, raw)
    for k, v in RC.CORPUS.items():
        cases.append(("corpus:" + k, v))
    for k, v in RC.asset_cases():
        cases.append(("asset:" + k, v))
    for t, raw, meta in trees:
        cases.append(("tree", raw))
    base = list(cases)
    for lbl, raw in base:
        for _ in range(2 if res.tier == "quick" else 3):
            cases.append(("mut", RC.mutate(r, raw)))
    # bytes after the final 0x80 that are not zero: outside the CRC-protected region, must be refused
    for lbl, raw in base[:: 4]:
        body = raw.rstrip(b"\x00")
        cases.append(("tail", body + r.choice([b"\x01", b"\x01\x02", b"\x00\x01", b"\xff", b"\x00\x00\x03", b"\x7f\x00", bytes([r.randrange(1, 128)]) * r.randrange(1, 5)])))
    # ---- raw entry point, every accepted prefix
    lines, inputs = [], []
    for lbl, raw in cases:
        inp = RC.prefixed(r, raw)
        inputs.append(inp)
        lines.append("rt rpu rpu " + inp.hex())
    m = C.run_sharded(C.model, lines)
    i = C.run_sharded(C.dvh, lines)
    nd = C.diff_streams(res, "parse->write raw", lines, m, i)
    acc = same = 0
    for (lbl, raw), inp, o in zip(cases, inputs, i):
        if o.startswith("ok "):
            acc += 1
            out = C.unhexs(o.split()[1])
            if out == trim_prefix(inp):
                same += 1
            else:
                res.violation("unmodified RPU silently re-encoded to different bytes (raw): in=%s out=%s" % (inp.hex(), out.hex()),
                              {"op": "rt rpu rpu", "input": inp.hex(), "impl": o[:2000]})
        elif o.startswith("panic") or o in ("abort", "timeout"):
            res.violation("parse/write crashed instead of returning an error: %s on %s" % (o, inp.hex()), {"op": "rt rpu rpu", "input": inp.hex(), "impl": o}, key=C.third_party_key(o))
    # ---- HEVC NAL entry point: canonical escaping, and a non-canonical variant
    nl, ninputs, canon = [], [], []
    for (lbl, raw), o in zip(cases, i):
        if not o.startswith("ok "):
            continue
        e = b"\x7c\x01" + R.escape(raw)
        nl.append("rt nal nal " + e.hex())
        ninputs.append(e)
        canon.append(True)
        if r.random() < 0.3:
            # unescaped payload behind the NAL header: accepted when it holds no 00 00 03
            e2 = b"\x7c\x01" + raw
            nl.append("rt nal nal " + e2.hex())
            ninputs.append(e2)
            canon.append(R.escape(raw) == raw)
    mn = C.run_sharded(C.model, nl)
    inn = C.run_sharded(C.dvh, nl)
    nd += C.diff_streams(res, "parse->write NAL", nl, mn, inn)
    for inp, cn, o in zip(ninputs, canon, inn):
        if o.startswith("ok "):
            out = C.unhexs(o.split()[1])
            if R.unescape(out[2:]) != R.unescape(inp[2:]) or out[:2] != b"\x7c\x01":
                res.violation("NAL re-encoded to a different payload: in=%s out=%s" % (inp.hex(), out.hex()), {"op": "rt nal nal", "input": inp.hex(), "impl": o[:2000]})
            elif cn and out != inp:
                res.violation("canonically escaped NAL not reproduced byte for byte: in=%s out=%s" % (inp.hex(), out.hex()), {"op": "rt nal nal", "input": inp.hex(), "impl": o[:2000]})
    # ---- AV1 writer from the raw parse, read back
    al = ["rt rpu av1 " + (RC.SC4 + raw).hex() for (lbl, raw), o in zip(cases, i) if o.startswith("ok ")][: (400 if res.tier == "quick" else 5000)]
    ma = C.run_sharded(C.model, al)
    ia = C.run_sharded(C.dvh, al)
    nd += C.diff_streams(res, "parse->write AV1", al, ma, ia)
    # ---- list level (CLI): identity editor on lists that include unwritable RPUs
    okraws = [raw for (lbl, raw), o in zip(cases, i) if o.startswith("ok ")]
    parse_only = [raw for (lbl, raw), o in zip(cases, i) if o == "err write"]
    ncli = 0
    ncli += cli_identity(res, okraws[:300], nd)
    if parse_only:
        mixed = okraws[:20] + parse_only[:3] + okraws[20:30]
        ncli += cli_identity(res, mixed, nd)
    # files spanning several read chunks, incl. one whose size is an exact multiple of the chunk size
    from . import c14
    pool = [x.rstrip(b"\x00") for x in okraws[:80]]
    for cs, exact in ((10000, True), (10000, False), (12500, True)):
        data, lst = c14.build_file(r, pool, int(cs * 2.4), cs, [r.randrange(-4, 5), r.randrange(-4, 5)], exact_multiple=exact, tz_prob=0.0)
        ncli += cli_identity(res, lst, nd, chunk_size=cs, data=data)
    sigs = set(RC.signature(meta, t) for t, raw, meta in trees)
    res.coverage.update({
        "evaluations": len(lines) + len(nl) + len(al) + ncli,
        "distinct_nontrivial": len(sigs),
        "rule": "value trees from the structured generator (profiles 0/4/5/7/8, both coefficient types, 2..9 pivots, poly/MMR orders, NLQ, use_prev, compressed DM, every block level/length, any order/count, ext_mapping bits, data before CRC, trailing zeros) encoded by the independent reference encoder, the 33 asset RPUs, the corpus witnesses, and CRC-repaired 1..4 byte mutations of all of them; every accepted prefix; raw, NAL (canonical and unescaped) and AV1 forms; non-trivial = distinct (profile, coefficient type, flags, block-level multiset) signatures among the generated trees",
        "accepted_by_parser": acc, "reencoded_identically": same, "rejected_or_write_error": len(lines) - acc,
        "disagreements": nd,
        "samples": [{"input": inputs[k].hex(), "impl": i[k][:120]} for k in (0, 2, 40, len(base) + 5)],
    })
    res.assumptions += ["exp-Golomb values >= 2^64-1 and |se| >= 2^52 (lossy in the code) are covered by the CRC guard only", "bit-level primitives and the crc crate are modelled, validated by correspondence"]
    C.conclude(res, broken)


def replay(rp):
    r = rp["replay"]
    if "input" in r:
        line = r["op"] + " " + r["input"]
        print("model:", C.model().run([line])[0][:400])
        print("impl :", C.dvh().run([line])[0][:400])
    else:
        print(json.dumps(r)[:2000])
    return 0
