#!/bin/bash
# usage: seedconfirm.sh <seeded-id> <demo file under seeded/<id>/demo> <cargo test target name> [where: root|dv]
# confirms in a scratch worktree: patch applies, builds, 108 tests pass, demo fails with / passes without
id=$1; demo=$2; tname=$3
W=/tmp/wt/confirm_$id
cd /repo && git worktree add -q --detach $W HEAD || exit 2
cd $W
export CARGO_NET_OFFLINE=true CARGO_TARGET_DIR=/tmp/wt/confirm_target
mkdir -p tests; cp /verif/seeded/$id/demo/$demo tests/$tname.rs
echo "== without patch: demo"; cargo test --offline --test $tname 2>&1 | grep -E "^test result|panicked|FAILED" | head -5
git apply /verif/seeded/$id/patch.diff || { echo "PATCH FAILS"; }
echo "== with patch: demo"; cargo test --offline --test $tname 2>&1 | grep -E "^test result|FAILED" | head -5
rm tests/$tname.rs
echo "== with patch: suite"; cargo test --workspace --no-fail-fast --offline 2>&1 | grep -E "^test result" | head -4
cd /repo && git worktree remove --force $W
