"""Generator of well-formed dual-layer / single-layer HEVC streams from access-unit templates,
with the attributes the Coq stream model takes as inputs (type, layer, first-slice flag, POC)."""
from . import hevc as H
from . import rpu as R
from . import rpucases as RC

TINY = bytes.fromhex("190809084061365058")


def tagged_rpu(r, tag, pool=None):
    """valid RPU that carries `tag` (frame id) in its data before the CRC, so RPUs are distinguishable"""
    body = TINY + bytes([0x40 + (tag >> 8) % 64, 1 + tag % 255, 0x55])
    crc = R.crc32_mpeg2(body[1:])
    return body + crc.to_bytes(4, "big") + b"\x80"


class SNal:
    """a NAL of a generated stream with the model attributes"""

    def __init__(self, data, first=False, poc=0, stype=0):
        self.data = data
        self.stype = stype
        self.type = H.nal_type(data)
        self.layer = ((data[0] & 1) << 5) | (data[1] >> 3)
        self.first = first
        self.poc = poc

    def model(self, data=None):
        return "%d.%d.%d.%d.%d.%s" % (self.type, self.layer, 1 if self.first else 0, self.poc, self.stype, (self.data if data is None else data).hex())


def gen_frames(r, nframes, el=True, rpu_pool=None, big=0, aud_prob=0.9, multi_slice=True, eos_mid=True, gop=None):
    """list of frames; each frame = list of SNal in stream order.  `gop` = list of (nal_type, poc) in decode order"""
    vps, sps, pps = H.param_sets()
    frames = []
    if gop is None:
        gop = []
        poc = 0
        k = 0
        while len(gop) < nframes:
            if k % 8 == 0:
                gop.append((r.choice([19, 19, 20, 21]) if k else 19, 0 if True else poc))
                base = 0
                cnt = 0
            else:
                cnt += 1
                gop.append((r.choice([1, 1, 0]), cnt * 2 if r.random() < 0.5 else cnt * 2))
            k += 1
        # simple IPPP: POC increasing within a period; reordering patterns are C07's business
        per = []
        out = []
        c = 0
        for t, _ in gop:
            if 16 <= t <= 23:
                c = 0
                out.append((t, 0))
            else:
                c += 1
                out.append((t, c))
        gop = out
    use_aud = r.random() < aud_prob
    for fi, (ntype, poc) in enumerate(gop[:nframes]):
        f = []
        if use_aud:
            f.append(SNal(H.aud(0 if 16 <= ntype <= 23 else 1)))
        if 16 <= ntype <= 23 and (fi == 0 or r.random() < 0.7):
            f += [SNal(vps), SNal(sps), SNal(pps)]
        for _ in range(r.choice([0, 0, 1, 2])):
            sz = r.choice([5, 20, 300]) if not big else r.choice([5, 300, big])
            f.append(SNal(H.sei_nal([(r.choice([1, 5, 137, 144, 200]), H.filler(r, sz))])))
            big = 0 if sz > 1000 else big
        nsl = r.choice([1, 1, 2, 4]) if multi_slice else 1
        for s in range(nsl):
            st = 2 if 16 <= ntype <= 23 else (1 if ntype % 2 == 1 else 0)
            f.append(SNal(H.slice_nal(r, ntype, s == 0, poc, st, r.choice([8, 40, 400, 3000])), first=(s == 0), poc=poc, stype=st))
        if el:
            for s in range(r.choice([1, 1, 2, 3])):
                inner = H.slice_nal(r, ntype, s == 0, poc, 2 if 16 <= ntype <= 23 else 1, r.choice([8, 40, 900]))
                f.append(SNal(H.el_wrap(inner)))
        if r.random() < 0.3:
            f.append(SNal(H.sei_nal([(132, H.filler(r, 16))], suffix=True)))
        raw = r.choice(rpu_pool) if rpu_pool else tagged_rpu(r, fi)
        f.append(SNal(H.rpu_nal(raw)))
        if (fi == nframes - 1 and r.random() < 0.5) or (eos_mid and r.random() < 0.08):
            f.append(SNal(H.EOS))
            if fi == nframes - 1 and r.random() < 0.5:
                f.append(SNal(H.EOB))
        frames.append(f)
    return frames


def flatten(frames):
    return [n for f in frames for n in f]


def stream_bytes(r, nals, sc="mixed", tz_prob=0.05):
    def choice(i, n):
        c = 4 if sc == "four" else 3 if sc == "three" else r.choice([3, 4, 4])
        if i == 0:
            c = 4 if sc != "three" else 3
        tz = r.randrange(1, 3) if r.random() < tz_prob else 0
        return (c, tz)
    return H.join([n.data for n in nals], choice)
