"""Running the dovi_tool binary built from /repo (with the hook cfg) on generated files."""
import os, shutil, subprocess, tempfile
from . import common as C


def exit_class(rc):
    if rc == 0:
        return "0"
    if rc == 1:
        return "1"
    if rc == 101:
        return "panic"
    if rc < 0:
        return "signal%d" % -rc
    return "exit%d" % rc


class Work:
    """scratch directory under /verif/.build/tmp"""

    def __init__(self, name):
        self.dir = os.path.join(C.TMP, name)
        shutil.rmtree(self.dir, ignore_errors=True)
        os.makedirs(self.dir, exist_ok=True)

    def path(self, name):
        return os.path.join(self.dir, name)

    def write(self, name, data):
        p = self.path(name)
        with open(p, "wb") as f:
            f.write(data)
        return p

    def read(self, name):
        p = self.path(name)
        if not os.path.exists(p):
            return None
        with open(p, "rb") as f:
            return f.read()


def run(args, cwd, chunk_size=None, stdin_data=None, fragments=None, timeout=300, release=False, env_extra=None):
    """returns (exit class, stdout+stderr text)"""
    env = dict(os.environ)
    env.pop("DOVI_TOOL_VERIF_CHUNK_SIZE", None)
    if chunk_size:
        env["DOVI_TOOL_VERIF_CHUNK_SIZE"] = str(chunk_size)
    if env_extra:
        env.update(env_extra)
    exe = C.DOVI_REL if release else C.DOVI
    if stdin_data is None:
        p = subprocess.run([exe] + args, cwd=cwd, env=env, stdout=subprocess.PIPE, stderr=subprocess.STDOUT, timeout=timeout)
        return exit_class(p.returncode), p.stdout.decode(errors="replace")
    # piped stdin with a given write fragmentation
    p = subprocess.Popen([exe] + args, cwd=cwd, env=env, stdin=subprocess.PIPE, stdout=subprocess.PIPE, stderr=subprocess.STDOUT)
    try:
        pos = 0
        frs = list(fragments or [len(stdin_data)])
        k = 0
        while pos < len(stdin_data):
            n = frs[k % len(frs)] if frs else len(stdin_data)
            k += 1
            try:
                p.stdin.write(stdin_data[pos : pos + n])
                p.stdin.flush()
            except BrokenPipeError:
                break
            pos += n
        try:
            p.stdin.close()
        except BrokenPipeError:
            pass
        out = p.stdout.read()
        p.wait(timeout=timeout)
    finally:
        if p.poll() is None:
            p.kill()
    return exit_class(p.returncode), out.decode(errors="replace")
