#!/bin/bash
# usage: seedconfirm2.sh <seeded-id> "<demo command with {BIN} and {WT} placeholders>"
# confirms in a scratch worktree: original code: demo passes; with patch: builds, suite passes, demo fails
id=$1; cmd=$2
W=/tmp/wt/confirm_$id
cd /repo && git worktree add -q --detach $W HEAD || exit 2
cd $W
export CARGO_NET_OFFLINE=true CARGO_TARGET_DIR=/tmp/wt/confirm_target
BIN=$CARGO_TARGET_DIR/debug/dovi_tool
run() { c=${cmd//\{BIN\}/$BIN}; c=${c//\{WT\}/$W}; (cd /verif/seeded/$id/demo && eval "$c") > /tmp/wt/confirm_$id.log 2>&1; echo "demo exit=$? : $(tail -2 /tmp/wt/confirm_$id.log | tr '\n' ' ' | cut -c1-200)"; }
cargo build --offline 2>&1 | tail -1
echo "== original code"; run
git apply /verif/seeded/$id/patch.diff || echo "PATCH FAILS"
cargo build --offline 2>&1 | tail -1
echo "== with patch"; run
echo "== with patch: suite"; cargo test --workspace --no-fail-fast --offline 2>&1 | grep -E "^test result" | head -4
cd /repo && git worktree remove --force $W
