"""Random operation sequences on a parsed RPU (line syntax shared by dvh `seq` and the model driver)."""
from . import rpugen as G

ALL_LEVELS = [1, 2, 3, 4, 5, 6, 8, 9, 10, 11, 254, 255]
# legal maxima narrower than the coded width (from the validate() clauses)
SEMANTIC_BOUNDS = {(11, "whitepoint"): 15, (11, "content_type"): 15, (6, "max_display_mastering_luminance"): 10000, (6, "min_display_mastering_luminance"): 10000,
                   (6, "max_content_light_level"): 10000, (6, "max_frame_average_light_level"): 10000, (5, "active_area_left_offset"): 8191,
                   (5, "active_area_right_offset"): 8191, (5, "active_area_top_offset"): 8191, (5, "active_area_bottom_offset"): 8191,
                   (10, "target_max_pq"): 4095, (10, "target_min_pq"): 4095, (9, "source_primary_index"): 255, (254, "dm_mode"): 255}


def block_spec(r, level, valid=True, full_range=False):
    b = G.gen_block(r, level, valid=valid)
    (k, v), = b.items()
    length = v.get("length", G.BLOCK_BYTES[level][0])
    kv = []
    for name, val in v.items():
        if name == "length":
            continue
        if name == "reference_mode_flag":
            kv.append("%s=%d" % (name, 1 if val else 0))
            continue
        if full_range and r.random() < 0.3:
            # over the whole integer type of the field, not only its legal range; half of the time
            # right at the edge of the coded width or of the field's semantic bound (k and k + 1)
            width = dict((f[0], f[1]) for f in G.BLOCK_FIELDS[level]).get(name, 8)
            tb = 8 if abs(width) <= 8 else 16
            if width > 0 and r.random() < 0.5:
                edges = [(1 << width) - 1, 1 << width] if width < tb else [(1 << tb) - 1]
                k = SEMANTIC_BOUNDS.get((level, name))
                if k is not None:
                    edges += [k, k + 1]
                val = min(r.choice(edges), (1 << tb) - 1)
            else:
                val = r.choice([(1 << tb) - 1, 1 << (tb - 1), r.randrange(1 << tb)]) if width > 0 else r.choice([-32768, 32767, -2, -4097, 4096, r.randrange(-32768, 32768)])
        kv.append("%s=%d" % (name, val))
    return "%d:%d:%s" % (level, length, ",".join(kv))


def gen_ops(r, n, others, modes=True, full_range=False, valid=True):
    ops = []
    for _ in range(n):
        k = r.random()
        lv = r.choice(ALL_LEVELS)
        if k < 0.22:
            ops.append("add:" + block_spec(r, lv, valid, full_range))
        elif k < 0.50:
            ops.append("repl:" + block_spec(r, lv, valid, full_range))
        elif k < 0.58:
            ops.append("repllvl:" + block_spec(r, lv, valid, full_range))
        elif k < 0.68:
            ops.append("rm:%d" % lv)
        elif k < 0.73:
            ops.append("crop")
        elif k < 0.79:
            ops.append("offsets:%d,%d,%d,%d" % tuple(r.choice([0, 1, 276, 8191, 8192 if full_range else 100, r.randrange(0, 4000)]) for _ in range(4)))
        elif k < 0.805:
            # source levels at and beyond the 12-bit bound (a value that cannot be written must fail the write)
            ops.append("srclv:%s,%s" % (r.choice(["-", "0", "7", "4095", "4096"]), r.choice(["-", "3079", "4095", "4096", "5000", "65535"])))
        elif k < 0.82:
            ops.append("rmmap")
        elif k < 0.86:
            ops.append("rmcmv40")
        elif k < 0.93 and others:
            lvls = r.sample(ALL_LEVELS, r.randint(1, 3))
            ops.append("copy:%s:%s" % (r.choice(others).hex(), ",".join(map(str, lvls))))
        elif modes:
            ops.append(r.choice(["conv:%d" % r.randrange(5), "convu8:%d" % r.choice([0, 1, 2, 3, 4, 5, 6, 255])]))
        else:
            ops.append("rm:%d" % lv)
    return ops


def canon_seq(x):
    """canonical form of a `seq` response: parsed JSON values, reparse errors by class"""
    import json
    t = x.split(" ")
    if t[0] != "ok" or len(t) < 4:
        return x
    try:
        st = json.loads(t[1])
    except Exception:
        return x
    back = t[3]
    if back.startswith('"reparse-'):
        back = "reparse-error"
    elif back != "-":
        back = json.loads(back)
    return ("ok", st, t[2], back)
