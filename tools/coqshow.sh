#!/bin/bash
# usage: coqshow.sh <file.v> <line>  -- show the goal just before <line>
f=$1; n=$2
d=$(dirname $f); b=$(basename $f .v)
head -n $((n-1)) $f > $d/Tmp_$b.v
printf '\nShow.\nAbort.\n' >> $d/Tmp_$b.v
cd /verif/coq && coqc -q -Q theories DV -Q gen DVgen $d/Tmp_$b.v 2>&1 | tail -${3:-40}
rm -f $d/Tmp_$b.* $d/.Tmp_$b.*
