#!/bin/bash
# usage: seedall.sh [pattern]  -- re-run every stored seeded change against the check of its property
# (applies each patch to /repo, runs the quick check, undoes it); prints the seeds that are NOT caught
cd "$(dirname "$0")/.."
pat=${1:-C}
missed=0
for d in seeded/${pat}*; do
  id=$(basename $d)
  prop=$(python3 -c "import json;print(json.load(open('$d/meta.json'))['property'])")
  out=$(tools/seedtest.sh $id $prop 2>&1 | head -1)
  echo "$id $prop $out"
  if [ "$out" != "exit=1" ]; then missed=$((missed+1)); echo "  ^^^ NOT CAUGHT"; fi
done
echo "missed=$missed"
