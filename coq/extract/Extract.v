(* Extraction of the executable model to OCaml. ExtrOcamlBasic only: bool, option, list, prod,
   unit, sumbool map to OCaml's own types; positive / N / Z / nat / string stay inductive. *)
From Coq Require Import Extraction ExtrOcamlBasic.
From Coq Require Import List NArith ZArith String.
From DV Require Import Outcome Bits Escape BitIO Av1 Crc32 Fields Blocks Rpu Ops RpuFile Stream Order Mux Editor Export Generator XmlFormulas Splitter GeneratorPrec.
From DVgen Require Import Blocks_gen DmData_gen Switches_gen.

Extraction Language OCaml.
Set Extraction Optimize.

Extraction "../driver/model.ml"
  Escape.escape Escape.unescape Escape.no_start_code_emulation
  Av1.convert_regular_rpu_to_av1_payload Av1.convert_av1_rpu_payload_to_regular
  Av1.av1_validated_trimmed_data
  Crc32.crc32
  Rpu.parse_rpu Rpu.parse_unspec62_nalu Rpu.parse_av1 Rpu.src_sw
  Rpu.write_rpu Rpu.write_hevc_unspec62_nalu Rpu.write_av1_payload Rpu.write_av1_complete
  Rpu.dm_main_prog Blocks.desc_of Fields.present
  Ops.dm_add_block Ops.dm_remove_level Ops.dm_replace_level Ops.dm_replace_block Ops.with_dm
  Ops.crop Ops.set_offsets Ops.remove_mapping Ops.remove_cmv40 Ops.replace_levels_from_rpu
  Mux.mux Mux.mux_spec Editor.edit Generator.generate Generator.generate_hdr10plus Generator.generate_madvr XmlFormulas.generate_xml Export.scenes Export.l5_export Export.dm_version Export.profiles Export.scene_count Export.maxcll_pq Export.maxfall_pq Export.l2_targets Export.l6_list Export.mastering
  Order.ordered_frames Order.extract_rpus Order.inject_rpus
  Stream.run_stream Stream.assign_indices Stream.ps0 Stream.remove_hdr10plus Stream.parse_sei_rbsp
  RpuFile.parse_rpu_file RpuFile.write_rpu_file
  Splitter.split_whole Splitter.parse_nalus Splitter.read_file Splitter.read_stdin
  GeneratorPrec.uniq_check
  Ops.convert_with_mode Ops.mode_of_u8 Ops.mode_of_cli Ops.set_modified
  N.add N.mul N.div N.modulo N.of_nat N.to_nat Z.of_N Z.to_N Z.opp N.eqb.
