(* C03: every RPU the writer emits is read back by the parser as exactly the RPU held in memory. *)
From Coq Require Import List NArith ZArith Lia Bool String.
From DV Require Import Outcome Bits BitIO Escape Fields Blocks Crc32 Rpu Tables FieldsProofs C03Proofs HeaderRT MappingRT RpuRT DmWS HeaderWS MappingWS.
From DVgen Require Import Consts_gen Blocks_gen DmData_gen Switches_gen.
Import ListNotations.
Open Scope N_scope.
Local Open Scope out_scope.
Require Import ZifyBool ZifyNat ZifyN.
Ltac Zify.zify_post_hook ::= Z.div_mod_to_equations.

(* ---------------------------------------------------------------- bits and bytes *)
Lemma bits_as_bytes : forall k l, List.length l = (8 * k)%nat ->
  exists bytes, l = bits_of_bytes bytes /\ forallb is_byte bytes = true /\ List.length bytes = k.
Proof.
  induction k as [|k IH]; intros l Hl.
  - destruct l; [|cbn in Hl; lia]. exists []. auto.
  - assert (Hs : l = firstn 8 l ++ skipn 8 l) by (symmetry; apply firstn_skipn).
    assert (Hf : List.length (firstn 8 l) = 8%nat) by (rewrite firstn_length; lia).
    destruct (IH (skipn 8 l)) as (bs & Hb & Hby & Hlen); [rewrite skipn_length; lia|].
    exists (val (firstn 8 l) :: bs). split; [|split].
    + cbn [bits_of_bytes]. unfold byte_bits. rewrite (enc_inj_len _ 8 Hf). rewrite <- Hb. exact Hs.
    + cbn [forallb]. rewrite Hby. rewrite andb_true_r. unfold is_byte. apply N.ltb_lt.
      pose proof (val_bound (firstn 8 l)) as Hv. rewrite Hf in Hv. exact Hv.
    + cbn. lia.
Qed.

Lemma crc_shift_bound c : crc_shift c < 4294967296.
Proof.
  unfold crc_shift, crc_mask.
  assert (Hl : N.land (N.shiftl c 1) 4294967295 < 4294967296).
  { change 4294967295 with (N.ones 32). rewrite N.land_ones. apply N.mod_lt. discriminate. }
  destruct (N.land c crc_top =? 0); [exact Hl|].
  set (a := N.land (N.shiftl c 1) 4294967295) in *.
  destruct (N.eq_dec (N.lxor a crc_poly) 0) as [->|Hnz]; [reflexivity|].
  change 4294967296 with (2 ^ 32) in *.
  apply (proj2 (N.log2_lt_pow2 (N.lxor a crc_poly) 32 ltac:(lia))).
  eapply N.le_lt_trans; [apply N.log2_lxor|].
  apply N.max_lub_lt.
  - destruct (N.eq_dec a 0) as [->|Ha]; [reflexivity|]. apply (proj1 (N.log2_lt_pow2 a 32 ltac:(lia))). exact Hl.
  - reflexivity.
Qed.

Lemma crc32_bound data : crc32 data < 4294967296.
Proof.
  unfold crc32. rewrite <- fold_left_rev_right.
  destruct (rev data) as [|b t]; cbn [fold_right]; [reflexivity|].
  unfold crc_byte. apply crc_shift_bound.
Qed.

Lemma clz_zeros_then k x t : x <> 0 -> count_leading_zeros (repeat 0 k ++ x :: t) = k.
Proof.
  intros Hx. induction k as [|k IH]; cbn [repeat app count_leading_zeros].
  - destruct x; [congruence|reflexivity].
  - rewrite IH. reflexivity.
Qed.


(* ---------------------------------------------------------------- the whole RPU *)
Record rpu_canonical (sw : src_switches) (x : rpu) : Prop := {
  rc_hdr : header_canonical (hdr x);
  rc_prof : dovi_profile x = get_dovi_profile (hdr x);
  rc_el : el_type x = el_type_of (rmapping x);
  rc_len : coefficient_log2_denom_length (hdr x) < 64;
  rc_elb : el_bit_depth_minus8 (hdr x) + 8 < 16;
  rc_bl : (bl_bit_depth_minus8 (hdr x) + 8) mod 4294967296 < 16 /\ 1 <= (bl_bit_depth_minus8 (hdr x) + 8) mod 4294967296;
  rc_map : if negb (use_prev_vdr_rpu_flag (hdr x))
           then exists m, rmapping x = Some m /\ mapping_canonical sw (hdr x) m else rmapping x = None;
  rc_dm : if vdr_dm_metadata_present_flag (hdr x)
          then exists d, rdm x = Some d /\ dm_ok (hdr x) d /\ canon_dm d = d /\
                         match cmv40 d with Some c => cblocks c <> [] | None => True end
          else rdm x = None;
  rc_rem : match remaining x with Some bs => bs <> [] /\ (List.length bs mod 8 = 0)%nat | None => True end;
  rc_sw : match sw_rpu_end_min sw with Some k => k <= 6 | None => True end }.

Definition reparsed (x : rpu) (crc : N) : rpu :=
  mkRpu (dovi_profile x) (el_type x) (hdr x) (rmapping x) (rdm x) (remaining x) crc false (trailing_zeroes x).

Lemma get_bits_app a : forall rest pos, get_bits (List.length a) (mkR (a ++ rest) pos) = Ok (a, mkR rest (pos + N.of_nat (List.length a))).
Proof.
  induction a as [|b t IH]; intros rest pos; cbn [List.length get_bits app].
  - f_equal. f_equal. f_equal. lia.
  - unfold get. cbn [rbits rpos bind]. rewrite IH. cbn [bind]. f_equal. f_equal. f_equal. lia.
Qed.

Lemma reads_prefix rest pos : get_n 8 8 (mkR (enc 8 25 ++ rest) pos) = Ok (25, mkR rest (pos + 8)).
Proof. reflexivity. Qed.

Lemma wput_wempty_bits bs : wbits (wput wempty bs) = bs /\ wpos (wput wempty bs) = N.of_nat (List.length bs).
Proof. split; [rewrite wbits_wput; reflexivity|rewrite wpos_wput; reflexivity]. Qed.

Lemma write_decompose p sw x out : write_rpu_data p sw x = Ok out -> rpu_canonical sw x ->
  exists bh bm bd,
    let h := hdr x in
    let brem := match remaining x with Some bs => bs | None => [] end in
    let pos4 := N.of_nat (List.length (enc 8 25 ++ bh ++ bm ++ bd)) in
    let pre := (enc 8 25 ++ bh ++ bm ++ bd) ++ zeros (N.to_nat (pad_len pos4)) ++ brem in
    let computed := crc32 (tl (bytes_of_bits pre)) in
    rpu_valid x = true /\
    reads (parse_header Debug) bh h /\
    (if negb (use_prev_vdr_rpu_flag h) then exists m, rmapping x = Some m /\ reads (parse_mapping Debug sw h) bm m
     else bm = [] /\ rmapping x = None) /\
    (if vdr_dm_metadata_present_flag h
     then exists d, rdm x = Some d /\ canon_dm d = d /\
            forall rest, (match cmv40 d with Some _ => True | None => N.of_nat (List.length rest) < dm_data_payload2_min_bits end) ->
                         (match cmv40 d with Some _ => 40 <= List.length rest | None => True end)%nat ->
              parse_dm Debug h (mkR (bd ++ rest) (N.of_nat (List.length (enc 8 25 ++ bh ++ bm))))
              = Ok (d, mkR rest (N.of_nat (List.length (enc 8 25 ++ bh ++ bm ++ bd))))
     else bd = [] /\ rdm x = None) /\
    (List.length pre mod 8 = 0)%nat /\
    (modified x = false -> rpu_crc x = computed) /\
    out = bytes_of_bits (pre ++ enc 32 computed ++ enc 8 final_byte ++ zeros (8 * N.to_nat (trailing_zeroes x))).
Proof.
  intros Hw [Hh Hprof Hel Hlen Helb [Hbl1 Hbl2] Hmap Hdm Hrem Hsw].
  unfold write_rpu_data in Hw. destruct (rpu_valid x) eqn:Hv; cbn [negb] in Hw; [|discriminate].
  assert (E0 : write_n 32 8 25 wempty = Ok (wput wempty (enc 8 25))) by reflexivity.
  rewrite E0 in Hw. cbn [bind] in Hw.
  destruct (write_header p (hdr x) (wput wempty (enc 8 25))) as [w1| |s] eqn:E1; cbn [bind] in Hw; try discriminate.
  destruct (header_write_sound _ _ _ _ E1 Hh) as (bh & -> & Rh).
  rewrite (hc_type _ Hh) in Hw. cbn [N.eqb Pos.eqb] in Hw.
  (* mapping *)
  set (h := hdr x) in *.
  match type of Hw with bind (bind ?X _) _ = _ => destruct X as [w2| |s] eqn:E2; cbn [bind] in Hw; try discriminate end.
  assert (Hm : exists bm, w2 = wput (wput (wput wempty (enc 8 25)) bh) bm /\
             (if negb (use_prev_vdr_rpu_flag h) then exists m, rmapping x = Some m /\ reads (parse_mapping Debug sw h) bm m
              else bm = [] /\ rmapping x = None)).
  { destruct (negb (use_prev_vdr_rpu_flag h)).
    - destruct Hmap as (m & Em & Hmc). rewrite Em in E2.
      destruct (mapping_write_sound sw h Hlen Helb Hbl1 Hbl2 p m _ _ E2 Hmc) as (bm & -> & Rm).
      exists bm. split; [reflexivity|]. exists m. auto.
    - inversion E2; subst w2. exists []. split; [symmetry; apply wput_nil|]. auto. }
  destruct Hm as (bm & -> & Rm).
  match type of Hw with bind ?X _ = _ => destruct X as [w3| |s] eqn:E3; cbn [bind] in Hw; try discriminate end.
  assert (Hd : exists bd, w3 = wput (wput (wput (wput wempty (enc 8 25)) bh) bm) bd /\
             (if vdr_dm_metadata_present_flag h
              then exists d, rdm x = Some d /\ canon_dm d = d /\
                     forall rest, (match cmv40 d with Some _ => True | None => N.of_nat (List.length rest) < dm_data_payload2_min_bits end) ->
                                  (match cmv40 d with Some _ => 40 <= List.length rest | None => True end)%nat ->
                       parse_dm Debug h (mkR (bd ++ rest) (N.of_nat (List.length (enc 8 25 ++ bh ++ bm))))
                       = Ok (d, mkR rest (N.of_nat (List.length (enc 8 25 ++ bh ++ bm ++ bd))))
              else bd = [] /\ rdm x = None)).
  { destruct (vdr_dm_metadata_present_flag h).
    - destruct Hdm as (d & Ed & Hok & Hcan & H40). rewrite Ed in E3.
      destruct (dm_write_sound p h d _ _ E3 Hok ltac:(reflexivity) ltac:(reflexivity)) as (b29 & b40 & -> & Hb40 & Rd).
      exists (b29 ++ b40). split; [reflexivity|]. exists d. split; [exact Ed|]. split; [exact Hcan|].
      intros rest Hr1 Hr2.
      rewrite (Rd rest (N.of_nat (List.length (enc 8 25 ++ bh ++ bm)))).
      + rewrite Hcan. f_equal. f_equal. f_equal. rewrite !app_length. lia.
      + rewrite !wpos_wput. cbn [wempty wpos]. rewrite !app_length. f_equal. lia.
      + destruct (cmv40 d) as [c40|].
        * specialize (Hb40 H40). rewrite app_length. unfold dm_data_payload2_min_bits. lia.
        * exact Hr1.
    - inversion E3; subst w3. exists []. split; [symmetry; apply wput_nil|]. auto. }
  destruct Hd as (bd & -> & Rd).
  exists bh, bm, bd. cbv zeta.
  rewrite !wput_app in Hw.
  set (B4 := enc 8 25 ++ bh ++ bm ++ bd) in *.
  change align_before_remaining with true in Hw. cbv iota in Hw.
  assert (Hba : byte_align (wput wempty B4) = wput wempty (B4 ++ zeros (N.to_nat (pad_len (N.of_nat (List.length B4)))))).
  { unfold byte_align. rewrite wpos_wput. cbn [wempty wpos]. rewrite N.add_0_l, <- zeros_repeat, wput_app. reflexivity. }
  rewrite Hba in Hw.
  match type of Hw with bind ?G _ = _ => destruct G as [[]| |s]; cbn [bind] in Hw; try discriminate end.
  set (brem := match remaining x with Some bs => bs | None => [] end).
  set (pre := B4 ++ zeros (N.to_nat (pad_len (N.of_nat (List.length B4)))) ++ brem).
  assert (Hwr : match remaining x with
                | Some bs => wput (wput wempty (B4 ++ zeros (N.to_nat (pad_len (N.of_nat (List.length B4)))))) bs
                | None => wput wempty (B4 ++ zeros (N.to_nat (pad_len (N.of_nat (List.length B4)))))
                end = wput wempty pre).
  { unfold pre, brem. destruct (remaining x); [rewrite wput_app, <- app_assoc; reflexivity|rewrite app_nil_r; reflexivity]. }
  rewrite Hwr in Hw.
  assert (Hpre8 : (List.length pre mod 8 = 0)%nat).
  { unfold pre. rewrite !app_length, zeros_repeat, repeat_length.
    assert (Hb : (List.length brem mod 8 = 0)%nat) by (unfold brem; destruct (remaining x); [apply Hrem|reflexivity]).
    unfold pad_len. lia. }
  assert (Hba2 : byte_align (wput wempty pre) = wput wempty pre).
  { unfold byte_align. rewrite wpos_wput. cbn [wempty wpos]. rewrite N.add_0_l.
    assert (Hp0 : pad_len (N.of_nat (List.length pre)) = 0) by (apply pad_len_0; lia).
    rewrite Hp0. cbn [N.to_nat repeat]. apply wput_nil. }
  rewrite Hba2 in Hw.
  assert (Hwb : wbytes (wput wempty pre) = bytes_of_bits pre) by (unfold wbytes; rewrite wbits_wput; reflexivity).
  rewrite Hwb in Hw.
  set (computed := crc32 (tl (bytes_of_bits pre))) in *.
  destruct (negb (modified x) && negb (rpu_crc x =? computed)) eqn:Eg; [discriminate|].
  unfold write_n in Hw. cbn [N.ltb N.compare Pos.compare Pos.compare_cont andb bind] in Hw.
  replace (2 ^ 8 <=? final_byte) with false in Hw by reflexivity. cbn [andb bind] in Hw.
  apply ok_inj in Hw. subst out.
  split; [reflexivity|]. split; [exact Rh|]. split; [exact Rm|]. split; [exact Rd|]. split; [exact Hpre8|]. split.
  - intros Hmod. rewrite Hmod in Eg. cbn [negb andb] in Eg. apply Bool.negb_false_iff in Eg. apply N.eqb_eq in Eg. exact Eg.
  - unfold wbytes. rewrite !wput_app, wbits_wput. cbn [wempty wbits wrev frev rev_append app].
    change (N.to_nat 32) with 32%nat. change (N.to_nat 8) with 8%nat. rewrite <- ?app_assoc. reflexivity.
Qed.

Lemma firstn_app_exact {A} (a b : list A) : firstn (List.length a) (a ++ b) = a.
Proof. rewrite firstn_app, Nat.sub_diag, firstn_all. cbn. apply app_nil_r. Qed.

(* THE RPU WRITE-SOUNDNESS THEOREM (C03): whatever RPU the writer emits for a canonical in-memory
   RPU, the parser accepts it and returns exactly that RPU (with the CRC the writer computed and the
   modified flag cleared) *)
Theorem rpu_write_sound p sw x out :
  write_rpu_data p sw x = Ok out -> rpu_canonical sw x ->
  exists crc, parse_inner Debug sw out = Ok (reparsed x crc) /\ (modified x = false -> crc = rpu_crc x).
Proof.
  intros Hw Hc. destruct (write_decompose _ _ _ _ Hw Hc) as (bh & bm & bd & Hdec). cbv zeta in Hdec.
  destruct Hdec as (Hv & Rh & Rm & Rd & Hpre8 & Hcrc & Hout).
  destruct Hc as [Hh Hprof Hel Hlen Helb Hbl Hmap Hdm Hrem Hsw].
  set (h := hdr x) in *.
  set (B4 := enc 8 25 ++ bh ++ bm ++ bd) in *.
  set (k1 := N.to_nat (pad_len (N.of_nat (List.length B4)))) in *.
  set (brem := match remaining x with Some bs => bs | None => [] end) in *.
  set (pre := B4 ++ zeros k1 ++ brem) in *.
  set (computed := crc32 (tl (bytes_of_bits pre))) in *.
  set (tz := N.to_nat (trailing_zeroes x)) in *.
  (* bytes *)
  destruct (bits_as_bytes (List.length pre / 8) pre ltac:(lia)) as (P & HP & HPb & HPl).
  assert (Hc32 : computed < 2 ^ N.of_nat 32) by (change (2 ^ N.of_nat 32) with 4294967296; apply crc32_bound).
  destruct (bits_as_bytes 4 (enc 32 computed) ltac:(rewrite enc_length; reflexivity)) as (C4 & HC & HCb & HCl).
  assert (HPpre : bytes_of_bits pre = P) by (rewrite HP; apply bytes_of_bits_of_bytes; exact HPb).
  assert (Hbits : pre ++ enc 32 computed ++ enc 8 final_byte ++ zeros (8 * tz)
                  = bits_of_bytes (P ++ C4 ++ [final_byte] ++ repeat 0 tz)).
  { rewrite !bits_of_bytes_app, <- HP, <- HC, bits_of_zero_bytes. reflexivity. }
  assert (Hout' : out = P ++ C4 ++ [final_byte] ++ repeat 0 tz).
  { rewrite Hout, Hbits. apply bytes_of_bits_of_bytes.
    rewrite !forallb_app, HPb, HCb, zero_bytes_are_bytes. reflexivity. }
  assert (HP1 : (1 <= List.length P)%nat).
  { assert (8 <= List.length pre)%nat by (unfold pre, B4; rewrite !app_length, enc_length; lia). lia. }
  clear Hout.
  (* the parser *)
  unfold parse_inner. cbv zeta.
  assert (Htz : count_leading_zeros (frev out) = tz).
  { rewrite Hout', frev_rev. rewrite !rev_app_distr. rewrite rev_repeat. cbn [rev app].
    rewrite <- ?app_assoc. cbn [app]. apply clz_zeros_then. discriminate. }
  rewrite Htz.
  assert (Hlo : List.length out = (List.length P + 5 + tz)%nat).
  { rewrite Hout', !app_length, repeat_length, HCl. cbn [List.length]. lia. }
  replace (List.length out - tz)%nat with (List.length P + 5)%nat by lia.
  assert (Hmin : match sw_rpu_end_min sw with Some k => N.of_nat (List.length P + 5) <? k | None => false end = false).
  { destruct (sw_rpu_end_min sw) as [k|]; [|reflexivity]. apply N.ltb_ge. lia. }
  rewrite Hmin.
  replace (List.length P + 5 <? 6)%nat with false by (symmetry; apply Nat.ltb_ge; lia).
  assert (Hbody : firstn (List.length P + 5) out = P ++ C4 ++ [final_byte]).
  { rewrite Hout'. replace (P ++ C4 ++ [final_byte] ++ repeat 0 tz) with ((P ++ C4 ++ [final_byte]) ++ repeat 0 tz) by (rewrite <- !app_assoc; reflexivity).
    replace (List.length P + 5)%nat with (List.length (P ++ C4 ++ [final_byte])) by (rewrite !app_length, HCl; cbn; lia).
    apply firstn_app_exact. }
  rewrite Hbody.
  assert (Hlast : nth (List.length P + 5 - 1) out 0 = final_byte).
  { rewrite Hout'. rewrite app_nth2 by lia. rewrite app_nth2 by (rewrite HCl; lia).
    replace (List.length P + 5 - 1 - List.length P - List.length C4)%nat with 0%nat by (rewrite HCl; lia). reflexivity. }
  rewrite Hlast. cbn [N.eqb Pos.eqb negb].
  assert (Hrecv : crc32 (firstn (List.length P + 5 - 6) (tl out)) = computed).
  { unfold computed. rewrite HPpre. f_equal. rewrite Hout'. destruct P as [|b0 P']; [cbn in HP1; lia|].
    cbn [app tl List.length]. replace (S (List.length P') + 5 - 6)%nat with (List.length P') by lia. apply firstn_app_exact. }
  (* read_rpu_data on the body *)
  assert (Hread : read_rpu_data Debug sw (P ++ C4 ++ [final_byte])
                  = Ok (mkRpu (get_dovi_profile h) (el_type_of (rmapping x)) h (rmapping x) (rdm x) (remaining x) computed false 0)).
  { unfold read_rpu_data, reader_of_bytes. cbv zeta.
    rewrite !bits_of_bytes_app, <- HP, <- HC. cbn [bits_of_bytes app]. rewrite app_nil_r.
    change (byte_bits final_byte) with (enc 8 final_byte).
    unfold pre, B4. rewrite <- !app_assoc. rewrite reads_prefix. cbn [bind ensure N.eqb Pos.eqb].
    rewrite Rh. cbn [bind].
    assert (Hhv : header_valid h (get_dovi_profile h) = true).
    { unfold rpu_valid in Hv. fold h in Hv. rewrite Hprof in Hv. apply andb_prop in Hv. destruct Hv as [Hv _].
      apply andb_prop in Hv. apply Hv. }
    rewrite Hhv. cbn [ensure bind].
    (* mapping *)
    set (restm := bd ++ zeros k1 ++ brem ++ enc 32 computed ++ enc 8 final_byte).
    assert (Hmp : (if negb (use_prev_vdr_rpu_flag h)
                   then (let* '(m, r) := parse_mapping Debug sw h (mkR (bm ++ restm) (0 + 8 + N.of_nat (List.length bh))) in Ok (Some m, r))
                   else Ok (None, mkR (bm ++ restm) (0 + 8 + N.of_nat (List.length bh))))
                  = Ok (rmapping x, mkR restm (N.of_nat (List.length (enc 8 25 ++ bh ++ bm))))).
    { destruct (negb (use_prev_vdr_rpu_flag h)).
      - destruct Rm as (m & Em & Rm). rewrite Rm. cbn [bind]. rewrite Em. f_equal. f_equal. f_equal.
        rewrite !app_length, enc_length. lia.
      - destruct Rm as (-> & Em). rewrite Em. cbn [app]. f_equal. f_equal. f_equal. rewrite !app_length, enc_length. cbn [List.length]. lia. }
    rewrite Hmp. cbn [bind]. unfold restm.
    (* dm *)
    set (restd := zeros k1 ++ brem ++ enc 32 computed ++ enc 8 final_byte).
    assert (Hrl : List.length restd = (k1 + List.length brem + 40)%nat).
    { unfold restd. rewrite !app_length, zeros_repeat, repeat_length, !enc_length. lia. }
    assert (Hk1 : (k1 <= 7)%nat) by (unfold k1, pad_len; lia).
    assert (Hdp : (if vdr_dm_metadata_present_flag h
                   then (let* '(d, r) := parse_dm Debug h (mkR (bd ++ restd) (N.of_nat (List.length (enc 8 25 ++ bh ++ bm)))) in Ok (Some d, r))
                   else Ok (None, mkR (bd ++ restd) (N.of_nat (List.length (enc 8 25 ++ bh ++ bm)))))
                  = Ok (rdm x, mkR restd (N.of_nat (List.length B4)))).
    { destruct (vdr_dm_metadata_present_flag h) eqn:Edm.
      - destruct Rd as (d & Ed & Hcan & Rd). rewrite (Rd restd).
        + cbn [bind]. rewrite Ed. reflexivity.
        + destruct (cmv40 d) eqn:E40; [exact I|].
          (* the writer's guard: data before the CRC is at most one byte when there is no CM v4.0 container *)
          unfold dm_data_payload2_min_bits. rewrite Hrl.
          assert (Hb : (List.length brem <= 8)%nat).
          { unfold brem. destruct (remaining x) as [bs|] eqn:Er; [|cbn; lia].
            unfold write_rpu_data in Hw. rewrite Hv in Hw. cbn [negb] in Hw.
            (* re-derive from the guard *)
            revert Hw. change align_before_remaining with true. cbv iota. fold h. rewrite Er, Ed.
            change g_remaining_guard with true. cbv iota. rewrite E40. cbn [is_some orb].
            destruct (N.of_nat (List.length bs) + crc32_terminator_bits <? dm_data_payload2_min_bits) eqn:Eg.
            - intros _. apply N.ltb_lt in Eg. unfold crc32_terminator_bits, dm_data_payload2_min_bits in Eg.
              destruct Hrem as [_ Hm8]. lia.
            - intros Hw. exfalso.
              repeat match type of Hw with
              | bind ?X _ = Ok _ => destruct X; cbn [bind ensure] in Hw; try discriminate
              end. }
          lia.
        + destruct (cmv40 d); [rewrite Hrl; lia|exact I].
      - destruct Rd as (-> & Ed). rewrite Ed. cbn [app]. unfold B4. rewrite app_nil_r. reflexivity. }
    rewrite Hdp. cbn [bind]. unfold restd.
    (* alignment, remaining, crc, final byte *)
    rewrite (align_zero_zeros k1 _ _ eq_refl ltac:(lia)). cbn [bind rbits].
    assert (Hrm : (if avail_gt crc32_terminator_bits (mkR (brem ++ enc 32 computed ++ enc 8 final_byte) (N.of_nat (List.length B4) + N.of_nat k1))
                   then (let* '(bs, r) := get_bits (List.length (brem ++ enc 32 computed ++ enc 8 final_byte) - N.to_nat crc32_terminator_bits)%nat
                                                   (mkR (brem ++ enc 32 computed ++ enc 8 final_byte) (N.of_nat (List.length B4) + N.of_nat k1)) in Ok (Some bs, r))
                   else Ok (None, mkR (brem ++ enc 32 computed ++ enc 8 final_byte) (N.of_nat (List.length B4) + N.of_nat k1)))
                  = Ok (remaining x, mkR (enc 32 computed ++ enc 8 final_byte) (N.of_nat (List.length B4) + N.of_nat k1 + N.of_nat (List.length brem)))).
    { unfold avail_gt. cbn [rbits].
      assert (Hl : List.length (brem ++ enc 32 computed ++ enc 8 final_byte) = (List.length brem + 40)%nat)
        by (rewrite !app_length, !enc_length; lia).
      unfold brem in *. destruct (remaining x) as [bs|].
      - destruct Hrem as [Hne _].
        replace (has_at_least (bs ++ enc 32 computed ++ enc 8 final_byte) (crc32_terminator_bits + 1)) with true
          by (symmetry; apply has_at_least_spec; rewrite Hl; unfold crc32_terminator_bits; destruct bs; [congruence|cbn; lia]).
        rewrite Hl. replace (List.length bs + 40 - N.to_nat crc32_terminator_bits)%nat with (List.length bs) by (unfold crc32_terminator_bits; lia).
        rewrite get_bits_app. cbn [bind]. reflexivity.
      - cbn [app List.length].
        replace (has_at_least (enc 32 computed ++ enc 8 final_byte) (crc32_terminator_bits + 1)) with false.
        + f_equal. f_equal. f_equal. lia.
        + symmetry. destruct (has_at_least _ _) eqn:E; [|reflexivity]. apply has_at_least_spec in E.
          cbn [app List.length] in Hl. rewrite Hl in E. unfold crc32_terminator_bits in E. lia. }
    rewrite Hrm. cbn [bind].
    assert (Hg32 : forall rest pos, get_n 32 32 (mkR (enc 32 computed ++ rest) pos) = Ok (computed, mkR rest (pos + 32))).
    { intros rest pos. unfold get_n. cbn [N.leb N.compare Pos.compare Pos.compare_cont rbits rpos].
      change (N.to_nat 32) with (List.length (enc 32 computed)) at 1. rewrite take_app. rewrite (enc_val_small 32 computed Hc32). reflexivity. }
    rewrite Hg32. cbn [bind].
    assert (Hg8 : forall pos, get_n 8 8 (mkR (enc 8 final_byte) pos) = Ok (final_byte, mkR [] (pos + 8))) by (intros; reflexivity).
    rewrite Hg8. cbn [bind ensure N.eqb Pos.eqb]. reflexivity. }
  rewrite Hread. cbn [bind]. cbn [dovi_profile el_type hdr rmapping rdm remaining rpu_crc].
  rewrite Hrecv. rewrite (N.eqb_refl computed). cbn [negb].
  assert (Hx' : mkRpu (get_dovi_profile h) (el_type_of (rmapping x)) h (rmapping x) (rdm x) (remaining x) computed false (N.of_nat tz)
                = reparsed x computed).
  { unfold reparsed. rewrite Hprof, Hel. fold h. f_equal. unfold tz. lia. }
  rewrite Hx'.
  assert (Hv' : rpu_valid (reparsed x computed) = true) by exact Hv.
  rewrite Hv'. exists computed. split; [reflexivity|]. intros Hm. symmetry. apply Hcrc. exact Hm.
Qed.
