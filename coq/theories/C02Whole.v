(* C02 on the whole RPU: the parser is a left inverse of the syntax (the writer of the model). *)
From Coq Require Import List NArith ZArith Bool.
From DV Require Import Outcome Bits BitIO Fields Blocks Rpu RpuWS.
Import ListNotations.
Open Scope N_scope.

Lemma parser_inverts_syntax p sw x out :
  write_rpu_data p sw x = Ok out -> rpu_canonical sw x ->
  exists crc, parse_inner Debug sw out = Ok (reparsed x crc).
Proof.
  intros H Hc. destruct (rpu_write_sound p sw x out H Hc) as [crc [Hp _]]. exists crc. exact Hp.
Qed.
