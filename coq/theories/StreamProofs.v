(* The routing function refines its flat specification (C05). *)
From Coq Require Import List NArith ZArith Lia Bool.
From DV Require Import Outcome Bits BitIO Rpu Ops Stream.
Import ListNotations.
Open Scope N_scope.

Definition osim {A B} (R : A -> B -> Prop) (x : outcome A) (y : outcome B) : Prop :=
  match x, y with
  | Ok a, Ok b => R a b
  | Err, Err => True
  | Panic s, Panic s' => s = s'
  | _, _ => False
  end.

Definition Rst (s1 : @rstate outputs) (s2 : @rstate pouts) : Prop :=
  prev_rpu s1 = prev_rpu s2 /\ erase (acc s1) = acc s2.

Lemma erase_main a t f d w a' t' f' : erase (impl_main a t f d w) = spec_main a' t' f' d (erase w).
Proof. unfold erase, impl_main, spec_main. cbn. rewrite map_app. reflexivity. Qed.
Lemma erase_el a t f x d w a' t' f' x' : erase (impl_el a t f x d w) = spec_el a' t' f' x' d (erase w).
Proof. unfold erase, impl_el, spec_el. cbn. rewrite map_app. reflexivity. Qed.
Lemma erase_rpu d w : erase (impl_rpu d w) = spec_rpu d (erase w).
Proof. reflexivity. Qed.

Lemma osim_bind {A B A' B'} (R : A -> B -> Prop) (R' : A' -> B' -> Prop)
      (x : outcome A) (y : outcome B) (f : A -> outcome A') (g : B -> outcome B') :
  osim R x y -> (forall a b, R a b -> osim R' (f a) (g b)) -> osim R' (bind x f) (bind y g).
Proof.
  destruct x, y; cbn; intros H Hf; try contradiction; auto.
Qed.

Lemma osim_same {A} (R : A -> A -> Prop) (x : outcome A) : (forall a, R a a) -> osim R x x.
Proof. destruct x; cbn; auto. Qed.

Lemma step_sim p cfg o ni s1 s2 i0 i0' :
  Rst s1 s2 ->
  osim Rst (route_step impl_main impl_el impl_rpu p cfg o i0 s1 ni)
           (route_step spec_main spec_el spec_rpu p cfg o i0' s2 ni).
Proof.
  intros [Hr Ha]. destruct ni as [n idx]. unfold route_step.
  set (hd := if o_drop_hdr10plus o && (ntype n =? 39) then remove_hdr10plus (ndata n) else Ok (false, None)).
  destruct hd as [[has40 repl]| |s]; cbn [bind]; [|exact I|reflexivity].
  destruct (has40 && negb (is_some repl)); [split; assumption|].
  rewrite <- Hr.
  destruct ((0 <? prev_rpu s1) && (ntype n =? 62) && (idx =? prev_rpu s1)); [split; assumption|].
  destruct (track i0 s1 idx) as [f1 pf1]. destruct (track i0' s2 idx) as [f2 pf2].
  cbn [acc prev_rpu payload_count prev_frame].
  assert (Hkeep : forall a b c d e, Rst (mkRs a b c (acc s1)) (mkRs d e c (acc s2))) by (intros; split; cbn; [reflexivity|exact Ha]).
  assert (Hmain : forall a b c d e a1 t1 f1' a2 t2 f2' x,
             Rst (with_acc (mkRs a b c (acc s1)) (impl_main a1 t1 f1' x (acc s1)))
                 (with_acc (mkRs d e c (acc s2)) (spec_main a2 t2 f2' x (acc s2)))).
  { intros. split; cbn; [reflexivity|]. rewrite <- Ha. apply erase_main. }
  assert (Hel : forall a b c d e a1 t1 f1' x1 a2 t2 f2' x2 x,
             Rst (with_acc (mkRs a b c (acc s1)) (impl_el a1 t1 f1' x1 x (acc s1)))
                 (with_acc (mkRs d e c (acc s2)) (spec_el a2 t2 f2' x2 x (acc s2)))).
  { intros. split; cbn; [reflexivity|]. rewrite <- Ha. apply erase_el. }
  assert (Hrp : forall a b c d e x,
             Rst (with_acc (mkRs a b c (acc s1)) (impl_rpu x (acc s1)))
                 (with_acc (mkRs d e c (acc s2)) (spec_rpu x (acc s2)))).
  { intros. split; cbn; [reflexivity|]. rewrite <- Ha. apply erase_rpu. }
  destruct cfg as [|wb| |].
  - (* WSingle *)
    destruct ((ntype n =? 63) && o_discard o); [apply Hkeep|].
    destruct ((ntype n =? 62) && is_some (o_mode o)).
    + apply osim_bind with (R := eq); [apply osim_same; reflexivity|]. intros d d' <-. apply Hmain.
    + apply Hmain.
  - (* WDemux *)
    destruct (ntype n =? 63); [apply Hel|].
    destruct (ntype n =? 62).
    + apply osim_bind with (R := eq); [apply osim_same; reflexivity|]. intros d d' <-. apply Hel.
    + destruct wb; [apply Hmain|apply Hkeep].
  - (* WRemove *)
    destruct (ntype n =? 63); [apply Hkeep|].
    destruct (ntype n =? 62).
    + apply osim_bind with (R := eq); [apply osim_same; reflexivity|]. intros d d' <-. apply Hkeep.
    + apply Hmain.
  - (* WExtract *)
    destruct (ntype n =? 63); [apply Hkeep|].
    destruct (ntype n =? 62).
    + apply osim_bind with (R := eq); [apply osim_same; reflexivity|]. intros d d' <-. apply Hrp.
    + apply Hkeep.
Qed.

(* a batch followed by a continuation, against the flat list *)
Lemma batch_append_sim p cfg o (K : @rstate outputs -> outcome (@rstate outputs)) rest b :
  forall i i' s1 s2,
  Rst s1 s2 ->
  (forall s1' s2' i'', Rst s1' s2' ->
     osim Rst (K s1') (route_batch spec_main spec_el spec_rpu p cfg o i'' s2' rest)) ->
  osim Rst (bind (route_batch impl_main impl_el impl_rpu p cfg o i s1 b) K)
           (route_batch spec_main spec_el spec_rpu p cfg o i' s2 (b ++ rest)).
Proof.
  induction b as [|x t IH]; intros i i' s1 s2 HR HK.
  - cbn. apply HK. exact HR.
  - cbn [route_batch app].
    pose proof (step_sim p cfg o x s1 s2 i i' HR) as Hs.
    destruct (route_step impl_main impl_el impl_rpu p cfg o i s1 x) as [a| |e];
      destruct (route_step spec_main spec_el spec_rpu p cfg o i' s2 x) as [b'| |e']; cbn in Hs; try contradiction; cbn [bind].
    + apply IH; assumption.
    + exact I.
    + exact Hs.
Qed.

Lemma batches_sim p cfg o bs : forall s1 s2 i',
  Rst s1 s2 ->
  osim Rst (route_batches impl_main impl_el impl_rpu p cfg o s1 bs)
           (route_batch spec_main spec_el spec_rpu p cfg o i' s2 (concat bs)).
Proof.
  induction bs as [|b t IH]; intros s1 s2 i' HR.
  - cbn. exact HR.
  - cbn [route_batches concat]. apply batch_append_sim; [exact HR|].
    intros s1' s2' i'' HR'. apply IH. destruct HR' as [H1 H2]. split; assumption.
Qed.

Lemma assign_indices_length l : forall st, List.length (assign_indices st l) = List.length l.
Proof.
  induction l as [|n t IH]; intros st; cbn; [reflexivity|].
  destruct (index_step st n) as [st' i]. cbn. rewrite IH. reflexivity.
Qed.

Lemma concat_rebatch {A} (bs : list (list nal)) : forall (fl : list A),
  List.length fl = List.length (concat bs) -> concat (rebatch bs fl) = fl.
Proof.
  induction bs as [|b t IH]; intros fl Hl; cbn in *.
  - destruct fl; [reflexivity|discriminate].
  - rewrite app_length in Hl. rewrite IH; [apply firstn_skipn|]. rewrite skipn_length. lia.
Qed.

(* the routing of any batching of a stream equals the specification on the flat NAL list,
   once start-code lengths are erased *)
Theorem route_refines_spec p cfg o batches :
  omap erase (run_stream p cfg o batches) = route_spec p cfg o (concat batches).
Proof.
  unfold run_stream, route_spec, omap.
  pose proof (batches_sim p cfg o (rebatch batches (assign_indices ps0 (concat batches)))
                (mkRs 0 0 0 (mkOut [] [] [])) (mkRs 0 0 0 (mkPo [] [] [])) false
                ltac:(split; reflexivity)) as H.
  rewrite concat_rebatch in H by apply assign_indices_length.
  destruct (route_batches _ _ _ _ _ _ _ _) as [a| |e];
    destruct (route_batch _ _ _ _ _ _ _ _ _) as [b| |e']; cbn in H; try contradiction; cbn [bind].
  - destruct H as [_ H]. rewrite H. reflexivity.
  - reflexivity.
  - rewrite H. reflexivity.
Qed.

Lemma batching_irrelevant p cfg o batches out :
  run_stream p cfg o batches = Ok out ->
  exists out1, run_stream p cfg o [concat batches] = Ok out1 /\ erase out1 = erase out.
Proof.
  intros H. pose proof (route_refines_spec p cfg o batches) as H1.
  pose proof (route_refines_spec p cfg o [concat batches]) as H2.
  cbn [concat] in H2. rewrite app_nil_r in H2. rewrite <- H1 in H2. rewrite H in H2. cbn in H2.
  destruct (run_stream p cfg o [concat batches]) as [o1| |e]; cbn in H2; try discriminate.
  exists o1. split; [reflexivity|]. inversion H2 as [He]. unfold erase. rewrite ?He. unfold erase in He. congruence.
Qed.

(* ---- convert without options is the identity on the NAL sequence ---- *)
Lemma spec_identity_batch p l : forall s i0,
  prev_rpu s = 0 ->
  exists s', route_batch spec_main spec_el spec_rpu p WSingle (mkOpts None false false false false) i0 s l = Ok s' /\
             prev_rpu s' = 0 /\
             acc s' = mkPo (po_main (acc s) ++ map (fun x => ndata (fst x)) l) (po_el (acc s)) (po_rpu (acc s)).
Proof.
  induction l as [|[n idx] t IH]; intros s i0 Hp.
  - exists s. cbn. rewrite app_nil_r. destruct (acc s); auto.
  - cbn [route_batch]. unfold route_step at 1. cbn [o_drop_hdr10plus andb bind o_discard o_mode is_some o_annexb].
    rewrite Hp. cbn [N.ltb andb]. replace (0 <? 0) with false by reflexivity. cbn [andb].
    destruct (track i0 s idx) as [f pf]. rewrite !andb_false_r. cbn [bind].
    edestruct (IH (with_acc (mkRs (payload_count s) pf 0 (acc s)) (spec_main false (ntype n) f (ndata n) (acc s))) false) as [s' [H1 [H2 H3]]];
      [reflexivity|].
    exists s'. cbn [acc with_acc] in *. split; [exact H1|]. split; [exact H2|].
    rewrite H3. cbn. rewrite <- app_assoc. reflexivity.
Qed.

Theorem convert_identity p batches out :
  run_stream p WSingle (mkOpts None false false false false) batches = Ok out ->
  map snd (out_main out) = map ndata (concat batches) /\ map snd (out_el out) = [] /\ out_rpu out = [].
Proof.
  intros H. pose proof (route_refines_spec p WSingle (mkOpts None false false false false) batches) as Hs.
  rewrite H in Hs. cbn in Hs. unfold route_spec in Hs.
  destruct (spec_identity_batch p (assign_indices ps0 (concat batches)) (mkRs 0 0 0 (mkPo [] [] [])) false eq_refl)
    as [s' [H1 [_ H3]]].
  rewrite H1 in Hs. cbn in Hs. inversion Hs as [He]. rewrite H3 in He. cbn in He.
  unfold erase in He. injection He as Hm Hel Hr.
  split; [|split; assumption].
  rewrite Hm. clear. generalize ps0. induction (concat batches) as [|n t IH]; intros st; cbn; [reflexivity|].
  destruct (index_step st n) as [st' i]. cbn. rewrite IH. reflexivity.
Qed.

(* ---- with --start-code four every start code has 4 bytes ---- *)
Definition all4 (w : outputs) : Prop :=
  Forall (fun x => fst x = 4) (out_main w) /\ Forall (fun x => fst x = 4) (out_el w).

Lemma step_all4 p cfg o i0 s ni s' :
  o_annexb o = false -> all4 (acc s) ->
  route_step impl_main impl_el impl_rpu p cfg o i0 s ni = Ok s' -> all4 (acc s').
Proof.
  intros Hb [Hm He] H. destruct ni as [n idx]. unfold route_step in H.
  destruct (if o_drop_hdr10plus o && (ntype n =? 39) then remove_hdr10plus (ndata n) else Ok (false, None))
    as [[has40 repl]| |e]; cbn [bind] in H; try discriminate.
  destruct (has40 && negb (is_some repl)); [inversion H; subst; split; assumption|].
  destruct ((0 <? prev_rpu s) && (ntype n =? 62) && (idx =? prev_rpu s)); [inversion H; subst; split; assumption|].
  destruct (track i0 s idx) as [f pf]. cbn [acc] in H.
  assert (Hsc : forall t fl, sc_len (o_annexb o) t fl = 4) by (intros; rewrite Hb; reflexivity).
  assert (Hmain : forall t fl d, all4 (impl_main (o_annexb o) t fl d (acc s))).
  { intros. split; cbn; [apply Forall_app; split; [assumption|constructor; [cbn; apply Hsc|constructor]]|assumption]. }
  assert (Hel : forall t fl x d, all4 (impl_el (o_annexb o) t fl x d (acc s))).
  { intros. split; cbn; [assumption|apply Forall_app; split; [assumption|constructor; [cbn; destruct x; [reflexivity|apply Hsc]|constructor]]]. }
  assert (Hrp : forall d, all4 (impl_rpu d (acc s))) by (intros; split; cbn; assumption).
  destruct cfg as [|wb| |].
  - destruct ((ntype n =? 63) && o_discard o); [inversion H; subst; split; assumption|].
    destruct ((ntype n =? 62) && is_some (o_mode o)).
    + apply bind_ok_inv in H as [d [_ H]]. inversion H; subst. apply Hmain.
    + inversion H; subst. apply Hmain.
  - destruct (ntype n =? 63); [inversion H; subst; apply Hel|].
    destruct (ntype n =? 62).
    + apply bind_ok_inv in H as [d [_ H]]. inversion H; subst. apply Hel.
    + destruct wb; inversion H; subst; [apply Hmain|split; assumption].
  - destruct (ntype n =? 63); [inversion H; subst; split; assumption|].
    destruct (ntype n =? 62).
    + apply bind_ok_inv in H as [d [_ H]]. inversion H; subst. split; assumption.
    + inversion H; subst. apply Hmain.
  - destruct (ntype n =? 63); [inversion H; subst; split; assumption|].
    destruct (ntype n =? 62).
    + apply bind_ok_inv in H as [d [_ H]]. inversion H; subst. apply Hrp.
    + inversion H; subst. split; assumption.
Qed.

Lemma batch_all4 p cfg o l : forall i0 s s',
  o_annexb o = false -> all4 (acc s) ->
  route_batch impl_main impl_el impl_rpu p cfg o i0 s l = Ok s' -> all4 (acc s').
Proof.
  induction l as [|x t IH]; intros i0 s s' Hb Ha H; cbn in H; [inversion H; subst; exact Ha|].
  apply bind_ok_inv in H as [s1 [H1 H2]]. eapply IH; [exact Hb| |exact H2]. eapply step_all4; eassumption.
Qed.

Lemma batches_all4 p cfg o bs : forall s s',
  o_annexb o = false -> all4 (acc s) ->
  route_batches impl_main impl_el impl_rpu p cfg o s bs = Ok s' -> all4 (acc s').
Proof.
  induction bs as [|b t IH]; intros s s' Hb Ha H; cbn in H; [inversion H; subst; exact Ha|].
  apply bind_ok_inv in H as [s1 [H1 H2]]. eapply IH; [exact Hb| |exact H2]. cbn. eapply batch_all4; eassumption.
Qed.

Theorem four_byte_start_codes p cfg o batches out :
  o_annexb o = false -> run_stream p cfg o batches = Ok out ->
  Forall (fun w => fst w = 4) (out_main out) /\ Forall (fun w => fst w = 4) (out_el out).
Proof.
  intros Hb H. unfold run_stream in H. apply bind_ok_inv in H as [s [H1 H2]]. inversion H2; subst.
  eapply batches_all4; [exact Hb| |exact H1]. split; constructor.
Qed.
