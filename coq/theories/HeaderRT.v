(* C01: the RPU header, read then written, reproduces exactly the bits that were read. *)
From Coq Require Import List NArith ZArith Lia Bool String.
From DV Require Import Outcome Bits BitIO Fields Tables FieldsProofs Rpu.
Import ListNotations.
Open Scope N_scope.
Require Import ZifyBool ZifyN.
Ltac Zify.zify_post_hook ::= Z.div_mod_to_equations.

(* r' is r after consuming exactly the bits bs *)
Definition consumed (r r' : reader) (bs : list bool) : Prop :=
  rbits r = bs ++ rbits r' /\ rpos r' = rpos r + N.of_nat (List.length bs).

Lemma consumed_nil r : consumed r r [].
Proof. split; cbn; [reflexivity|lia]. Qed.

Lemma consumed_trans r1 r2 r3 a b : consumed r1 r2 a -> consumed r2 r3 b -> consumed r1 r3 (a ++ b).
Proof.
  intros [H1 H2] [H3 H4]. split.
  - rewrite H1, H3. rewrite app_assoc. reflexivity.
  - rewrite H4, H2, app_length. lia.
Qed.

Lemma get_rt r b r' : get r = Ok (b, r') -> consumed r r' [b].
Proof.
  unfold get. destruct (rbits r) as [|x t] eqn:E; [discriminate|]. intros H. inversion H; subst.
  split; cbn; [exact E|lia].
Qed.

Lemma get_n_rt tb n r v r' : get_n tb n r = Ok (v, r') ->
  exists bs, consumed r r' bs /\ forall w, write_n tb n v w = Ok (wput w bs).
Proof.
  intros H. apply get_n_inv in H. destruct H as (Hn & h & Hr & Hl & Hv & Hp).
  exists h. split; [split; [exact Hr|rewrite Hp, Hl; lia]|].
  intros w. unfold write_n.
  replace (tb <? n) with false by (symmetry; apply N.ltb_ge; exact Hn).
  assert (Hb : v < 2 ^ n).
  { subst v. pose proof (val_bound h) as Hb. rewrite Hl, N2Nat.id in Hb. exact Hb. }
  replace (2 ^ n <=? v) with false by (symmetry; apply N.leb_gt; exact Hb).
  rewrite andb_false_r. subst v. rewrite (enc_inj_len h _ Hl). reflexivity.
Qed.

(* exp-Golomb, read then written: the canonical code is the one that was read (a Debug build
   panics on the only non-canonical case, a 129-bit code) *)
Lemma get_ue_rt r v r' : get_ue Debug r = Ok (v, r') ->
  exists bs, consumed r r' bs /\ forall p w, write_ue p v w = Ok (wput w bs).
Proof.
  unfold get_ue. destruct (read_unary1 (rbits r) 0) as [[lz t]|] eqn:Eu; [|discriminate].
  apply read_unary1_spec in Eu. destruct Eu as (k & Hlz & Hbits). cbn [N.add] in Hlz.
  destruct (lz =? 0) eqn:E0.
  - intros H. inversion H; subst v r'. clear H. apply N.eqb_eq in E0.
    assert (k = 0%nat) by lia. subst k. cbn [repeat app] in Hbits.
    exists [true]. split; [split; cbn [rbits rpos List.length]; [exact Hbits|lia]|].
    intros p w. reflexivity.
  - apply N.eqb_neq in E0.
    destruct (get_n 64 lz (mkR t (rpos r + lz + 1))) as [[x r2]| |s] eqn:Eg; cbn [bind]; try discriminate.
    destruct (lz =? 64) eqn:E64; [discriminate|]. apply N.eqb_neq in E64.
    intros H. inversion H; subst v r'. clear H.
    apply get_n_inv in Eg. destruct Eg as (Hn & h & Hr & Hl & Hx & Hp). cbn [rbits rpos] in *.
    assert (Hb : x < 2 ^ lz).
    { subst x. pose proof (val_bound h) as Hb. rewrite Hl, N2Nat.id in Hb. exact Hb. }
    assert (Hpow : 2 ^ lz < two64).
    { change two64 with (2 ^ 64). apply N.pow_lt_mono_r; lia. }
    assert (Hpow2 : 2 * 2 ^ lz <= two64).
    { change two64 with (2 ^ 64). rewrite <- N.pow_succ_r'. apply N.pow_le_mono_r; lia. }
    assert (Hp1 : 1 <= 2 ^ lz) by (assert (2 ^ lz <> 0) by (apply N.pow_nonzero; lia); lia).
    assert (Hp2 : 2 <= 2 ^ lz).
    { change 2 with (2 ^ 1) at 1. apply N.pow_le_mono_r; lia. }
    exists ((repeat false k ++ [true]) ++ h). split.
    + split.
      * rewrite Hbits, Hr. rewrite <- !app_assoc. reflexivity.
      * rewrite Hp. rewrite !app_length, repeat_length. cbn [List.length]. lia.
    + intros p w. unfold write_ue.
      replace (x + 2 ^ lz - 1 =? 0) with false by (symmetry; apply N.eqb_neq; lia).
      replace (x + 2 ^ lz - 1 + 1 =? two64) with false by (symmetry; apply N.eqb_neq; lia).
      assert (Hlog : N.log2 (x + 2 ^ lz - 1 + 1) = lz).
      { apply (N.log2_unique' _ lz x); lia. }
      destruct p; rewrite Hlog; unfold write_n;
        (replace (64 <? lz) with false by (symmetry; apply N.ltb_ge; lia));
        (replace (x + 2 ^ lz - 1 + 1 - 2 ^ lz) with x by lia);
        (replace (2 ^ lz <=? x) with false by (symmetry; apply N.leb_gt; exact Hb));
        rewrite andb_false_r; rewrite wput_app; subst x; rewrite (enc_inj_len h _ Hl);
        replace (N.to_nat lz) with k by lia; reflexivity.
Qed.

(* el_bit_depth_minus8 and ext_mapping_idc are the low and next 8 bits of one exp-Golomb value:
   splitting a 16-bit value and joining the parts again returns it (all 65536 values) *)
Definition el_rejoin (el : N) : N :=
  let ext0 := N.land (N.shiftr el 8) 255 in
  let e04 := N.land ext0 31 in
  let e57 := N.shiftr ext0 5 in
  let ext := N.lor (N.land (N.shiftl e57 5) 255) e04 in
  N.lor (N.shiftl ext 8) (N.land el 255).

Lemma lor_shift_add q r k : r < 2 ^ k -> N.lor (N.shiftl q k) r = q * 2 ^ k + r.
Proof.
  intros H. rewrite N.shiftl_mul_pow2.
  assert (Hl : N.land (q * 2 ^ k) r = 0).
  { apply N.bits_inj. intros n. rewrite N.land_spec, N.bits_0.
    destruct (N.lt_ge_cases n k) as [Hn|Hn].
    - rewrite N.mul_pow2_bits_low by exact Hn. reflexivity.
    - assert (Hr : N.testbit r n = false).
      { destruct (N.eq_dec r 0) as [->|Hr0]; [apply N.bits_0|].
        apply N.bits_above_log2. apply N.log2_lt_pow2; [lia|].
        eapply N.lt_le_trans; [exact H|]. apply N.pow_le_mono_r; lia. }
      rewrite Hr. apply Bool.andb_false_r. }
  rewrite <- N.lxor_lor by exact Hl. symmetry. apply N.add_nocarry_lxor. exact Hl.
Qed.

Lemma el_rejoin_id el : el < 65536 -> el_rejoin el = el.
Proof.
  intros H. unfold el_rejoin. cbv zeta.
  change 255 with (N.ones 8). change 31 with (N.ones 5).
  rewrite !N.land_ones, !N.shiftr_div_pow2.
  change (2 ^ 8) with 256. change (2 ^ 5) with 32.
  set (q := el / 256). assert (Hq : q < 256) by (unfold q; lia).
  rewrite (N.mod_small q 256 Hq).
  assert (Hs : N.shiftl (q / 32) 5 mod 256 = N.shiftl (q / 32) 5).
  { apply N.mod_small. rewrite N.shiftl_mul_pow2. change (2 ^ 5) with 32. lia. }
  rewrite Hs. rewrite (lor_shift_add (q / 32) (q mod 32) 5) by (change (2 ^ 5) with 32; lia).
  change (2 ^ 5) with 32. replace (q / 32 * 32 + q mod 32) with q by lia.
  rewrite (lor_shift_add q (el mod 256) 8) by (change (2 ^ 8) with 256; lia).
  change (2 ^ 8) with 256. unfold q. lia.
Qed.

(* one parsing step: extend the accumulated `consumed` fact Hc and record the writer fact *)
Ltac rt_acc Hc E :=
  let Hn := fresh "Hc" in
  pose proof (consumed_trans _ _ _ _ _ Hc E) as Hn; clear Hc E; rename Hn into Hc.

Ltac rt_get H Hc :=
  cbv iota in H;
  match type of H with
  | context [bind (get ?r) _] =>
      let b := fresh "b" in let r1 := fresh "r" in let E := fresh "E" in
      destruct (get r) as [[b r1]| |] eqn:E; cbn [bind] in H; [|discriminate|discriminate];
      apply get_rt in E; rt_acc Hc E
  | context [bind (get_n ?tb ?n ?r) _] =>
      let v := fresh "v" in let r1 := fresh "r" in let E := fresh "E" in let bs := fresh "bs" in
      let Ec := fresh "Ec" in let Hw := fresh "Hw" in
      destruct (get_n tb n r) as [[v r1]| |] eqn:E; cbn [bind] in H; [|discriminate|discriminate];
      apply get_n_rt in E; destruct E as (bs & Ec & Hw); rt_acc Hc Ec
  | context [bind (get_ue Debug ?r) _] =>
      let v := fresh "v" in let r1 := fresh "r" in let E := fresh "E" in let bs := fresh "bs" in
      let Ec := fresh "Ec" in let Hw := fresh "Hw" in
      destruct (get_ue Debug r) as [[v r1]| |] eqn:E; cbn [bind] in H; [|discriminate|discriminate];
      apply get_ue_rt in E; destruct E as (bs & Ec & Hw); rt_acc Hc Ec
  | context [bind (ensure ?c) _] =>
      let E := fresh "E" in destruct c eqn:E; cbn [ensure bind] in H; [|discriminate]
  end.

Ltac wr_step :=
  first
  [ match goal with Hw : forall w, write_n ?tb ?n ?v w = Ok _ |- context [write_n ?tb ?n ?v ?w0] => rewrite (Hw w0); clear Hw end
  | match goal with Hw : forall p w, write_ue p ?v w = Ok _ |- context [write_ue ?p0 ?v ?w0] => rewrite (Hw p0 w0); clear Hw end ];
  cbn [bind].

Ltac hdr_fields :=
  cbn [rpu_type rpu_format vdr_rpu_profile vdr_rpu_level
       vdr_seq_info_present_flag chroma_resampling_explicit_filter_flag coefficient_data_type coefficient_log2_denom
       vdr_rpu_normalized_idc bl_video_full_range_flag bl_bit_depth_minus8 el_bit_depth_minus8 ext_mapping_idc_0_4
       ext_mapping_idc_5_7 vdr_bit_depth_minus8 spatial_resampling_filter_flag reserved_zero_3bits
       el_spatial_resampling_filter_flag disable_residual_flag vdr_dm_metadata_present_flag use_prev_vdr_rpu_flag prev_vdr_rpu_id].

Lemma land255_lt x : N.land x 255 < 256.
Proof. change 255 with (N.ones 8). rewrite N.land_ones. apply N.mod_lt. discriminate. Qed.

Ltac finish_hdr H Hc :=
  inversion H; subst; clear H;
  split; [cbn [rpu_type]; apply N.eqb_eq; assumption|];
  split; [cbn [el_bit_depth_minus8]; first [apply land255_lt | reflexivity]|];
  eexists; split; [exact Hc|];
  intros p w; unfold write_header, write_bit, seq_info_ok; hdr_fields.

Ltac close_hdr :=
  repeat wr_step; rewrite ?wput_app; cbn [app]; repeat rewrite <- app_assoc; reflexivity.

(* the el value: the writer's recomposition is el_rejoin of the value read *)
Ltac fix_el v Hw Hlt :=
  let Hw' := fresh "Hwel" in
  assert (Hw' : forall p w, write_ue p (el_rejoin v) w = Ok (wput w _))
    by (intros ? ?; rewrite (el_rejoin_id v) by (apply N.ltb_lt; exact Hlt); apply Hw);
  clear Hw;
  match goal with |- context [N.lor ?a (N.land v 255)] => change (N.lor a (N.land v 255)) with (el_rejoin v) end.

(* THE HEADER ROUND TRIP: whatever header the parser accepts, the writer emits for it exactly the
   bits the parser consumed - for every input and in every build profile of the writer *)
Lemma header_roundtrip_facts r h r' :
  parse_header Debug r = Ok (h, r') ->
  rpu_type h = 2 /\ el_bit_depth_minus8 h < 256 /\
  exists bs, consumed r r' bs /\ forall p w, write_header p h w = Ok (wput w bs).
Proof.
  unfold parse_header. intros H. pose proof (consumed_nil r) as Hc.
  do 6 rt_get H Hc.
  destruct b.
  - (* sequence info present *)
    do 2 rt_get H Hc.
    destruct (v3 =? 0) eqn:Ecdt.
    + do 3 rt_get H Hc.
      destruct (N.land v0 1792 =? 0) eqn:Efmt.
      * do 8 rt_get H Hc.
        cbn [bind] in H. do 2 rt_get H Hc.
        destruct b5.
        -- rt_get H Hc. finish_hdr H Hc. rewrite Ecdt, Efmt. fix_el v7 Hw7 E0. close_hdr.
        -- cbn [bind] in H. finish_hdr H Hc. rewrite Ecdt, Efmt. fix_el v7 Hw7 E0. close_hdr.
      * cbn [bind] in H. do 2 rt_get H Hc.
        destruct b2.
        -- rt_get H Hc. finish_hdr H Hc. rewrite Ecdt, Efmt. close_hdr.
        -- cbn [bind] in H. finish_hdr H Hc. rewrite Ecdt, Efmt. close_hdr.
    + cbn [bind] in H. do 2 rt_get H Hc.
      destruct (N.land v0 1792 =? 0) eqn:Efmt.
      * do 8 rt_get H Hc.
        cbn [bind] in H. destruct (v3 =? 1) eqn:Ecdt1; cbn [bind] in H; [|discriminate].
        do 2 rt_get H Hc.
        destruct b5.
        -- rt_get H Hc. finish_hdr H Hc. rewrite Ecdt, Efmt. fix_el v6 Hw6 E0. close_hdr.
        -- cbn [bind] in H. finish_hdr H Hc. rewrite Ecdt, Efmt. fix_el v6 Hw6 E0. close_hdr.
      * cbn [bind] in H. destruct (v3 =? 1) eqn:Ecdt1; cbn [bind] in H; [|discriminate].
        do 2 rt_get H Hc.
        destruct b2.
        -- rt_get H Hc. finish_hdr H Hc. rewrite Ecdt, Efmt. close_hdr.
        -- cbn [bind] in H. finish_hdr H Hc. rewrite Ecdt, Efmt. close_hdr.
  - cbn [bind] in H. do 2 rt_get H Hc.
    destruct b0.
    + rt_get H Hc. finish_hdr H Hc. close_hdr.
    + cbn [bind] in H. finish_hdr H Hc. close_hdr.
Qed.

Theorem header_roundtrip r h r' :
  parse_header Debug r = Ok (h, r') ->
  exists bs, consumed r r' bs /\ forall p w, write_header p h w = Ok (wput w bs).
Proof. intros H. apply header_roundtrip_facts in H. tauto. Qed.


(* ---------------------------------------------------------------- NLQ *)
Theorem nlq_roundtrip h m r q r' :
  parse_nlq Debug h r = Ok (q, r') -> is_some (nlq_method_idc m) = true ->
  el_bit_depth_minus8 h < 256 ->
  exists bs, consumed r r' bs /\ forall p w, write_nlq p h m q w = Ok (wput w bs).
Proof.
  unfold parse_nlq. intros H Hm Hel. pose proof (consumed_nil r) as Hc.
  assert (Emod : (el_bit_depth_minus8 h + 8) mod 4294967296 = el_bit_depth_minus8 h + 8)
    by (apply N.mod_small; lia).
  destruct (coefficient_data_type h =? 0) eqn:Et0.
  - do 21 rt_get H Hc. inversion H; subst q r'. clear H.
    eexists. split; [exact Hc|]. intros p w. unfold write_nlq, nth_or_panic.
    rewrite Et0, Hm, Emod. cbn [nlq_offset vdr_in_max_int vdr_in_max ld_slope_int ld_slope ld_threshold_int ld_threshold
                                map nth_error bind].
    close_hdr.
  - cbn [bind] in H. do 12 rt_get H Hc. inversion H; subst q r'. clear H.
    eexists. split; [exact Hc|]. intros p w. unfold write_nlq, nth_or_panic.
    rewrite Et0, Hm, Emod. cbn [nlq_offset vdr_in_max_int vdr_in_max ld_slope_int ld_slope ld_threshold_int ld_threshold
                                map nth_error bind].
    close_hdr.
Qed.

(* ---------------------------------------------------------------- signed exp-Golomb *)
Definition two53 : N := 9007199254740992.
Definition two52 : N := 4503599627370496.

Lemma round_f64_small x : x < two53 -> round_f64 x = x.
Proof.
  intros H. unfold round_f64.
  assert (Hl : N.log2 x - 52 = 0).
  { destruct (N.eq_dec x 0) as [->|Hx]; [reflexivity|].
    assert (N.log2 x < 53).
    { apply N.log2_lt_pow2; [lia|]. change (2 ^ 53) with two53. exact H. }
    lia. }
  rewrite Hl. reflexivity.
Qed.

Lemma round_f64_large x : two53 <= x -> two53 <= round_f64 x.
Proof.
  intros H. unfold round_f64.
  assert (Hx0 : x <> 0) by (unfold two53 in H; lia).
  assert (Hlog : 53 <= N.log2 x).
  { change 53 with (N.log2 two53). apply N.log2_le_mono. exact H. }
  set (k := N.log2 x - 52). assert (Hk : 1 <= k) by (unfold k; lia).
  replace (k =? 0) with false by (symmetry; apply N.eqb_neq; lia). cbv zeta.
  assert (Hpk : 2 ^ k <> 0) by (apply N.pow_nonzero; lia).
  assert (Hq : two52 <= x / 2 ^ k).
  { apply N.div_le_lower_bound; [exact Hpk|].
    pose proof (proj1 (N.log2_spec x ltac:(lia))) as Hs.
    replace (N.log2 x) with (k + 52) in Hs by (unfold k; lia).
    rewrite N.pow_add_r in Hs. change (2 ^ 52) with two52 in Hs. lia. }
  assert (H2k : 2 <= 2 ^ k).
  { change 2 with (2 ^ 1) at 1. apply N.pow_le_mono_r; lia. }
  assert (Hge : two52 * 2 ^ k <= (x / 2 ^ k) * 2 ^ k) by (apply N.mul_le_mono_r; exact Hq).
  assert (H53 : two53 <= two52 * 2 ^ k).
  { change two53 with (two52 * 2). apply N.mul_le_mono_l. exact H2k. }
  destruct (x mod 2 ^ k <? 2 ^ (k - 1)); [lia|].
  destruct (2 ^ (k - 1) <? x mod 2 ^ k); [nia|].
  destruct (N.even (x / 2 ^ k)); [lia|nia].
Qed.

Lemma get_ue_bound r v r' : get_ue Debug r = Ok (v, r') -> v + 1 < two64.
Proof.
  unfold get_ue. destruct (read_unary1 (rbits r) 0) as [[lz t]|]; [|discriminate].
  destruct (lz =? 0) eqn:E0; [intros H; inversion H; reflexivity|].
  destruct (get_n 64 lz _) as [[x r2]| |s] eqn:Eg; cbn [bind]; try discriminate.
  destruct (lz =? 64) eqn:E64; [discriminate|]. apply N.eqb_neq in E64.
  intros H. inversion H; subst. apply get_n_inv in Eg. destruct Eg as (Hn & h & _ & Hl & Hx & _).
  assert (Hb : x < 2 ^ lz) by (subst x; pose proof (val_bound h) as Hb; rewrite Hl, N2Nat.id in Hb; exact Hb).
  assert (2 * 2 ^ lz <= two64).
  { change two64 with (2 ^ 64). rewrite <- N.pow_succ_r'. apply N.pow_le_mono_r; lia. }
  assert (1 <= 2 ^ lz) by (assert (2 ^ lz <> 0) by (apply N.pow_nonzero; lia); lia).
  lia.
Qed.

(* signed exp-Golomb, read then written (|v| < 2^52, where the f64 arithmetic of the reader is exact) *)
Lemma get_se_rt r v r' : get_se Debug r = Ok (v, r') ->
  (Z.abs v < Z.of_N two52)%Z ->
  exists bs, consumed r r' bs /\ forall p w, write_se p v w = Ok (wput w bs).
Proof.
  unfold get_se. destruct (get_ue Debug r) as [[code r1]| |s] eqn:Eu; cbn [bind]; try discriminate.
  pose proof (get_ue_bound _ _ _ Eu) as Hcb.
  apply get_ue_rt in Eu. destruct Eu as (bs & Hc & Hw).
  intros H Hv. exists bs.
  rewrite (N.mod_small (code + 1) two64 Hcb) in H.
  destruct (N.lt_ge_cases (code + 1) two53) as [Hs|Hl].
  - rewrite (round_f64_small _ Hs) in H.
    assert (Hm63 : ((code + 1) / 2 =? two63) = false).
    { apply N.eqb_neq. unfold two53, two63 in *. lia. }
    rewrite Hm63 in H.
    destruct (N.even code) eqn:Ev.
    + inversion H; subst v r'. clear H. split; [exact Hc|]. intros p w.
      apply N.even_spec in Ev. destruct Ev as [m ->].
      replace ((2 * m + 1) / 2) with m by lia.
      unfold write_se.
      replace (0 <? - Z.of_N m)%Z with false by lia.
      replace (Z.of_N two63 <? -2 * - Z.of_N m)%Z with false by (unfold two53, two63 in *; lia).
      replace (Z.of_N two63 =? -2 * - Z.of_N m)%Z with false by (unfold two53, two63 in *; lia).
      replace (Z.to_N (-2 * - Z.of_N m)) with (2 * m) by lia. apply Hw.
    + inversion H; subst v r'. clear H. split; [exact Hc|]. intros p w.
      assert (Ho : N.odd code = true) by (rewrite <- N.negb_even, Ev; reflexivity).
      apply N.odd_spec in Ho. destruct Ho as [m ->].
      replace ((2 * m + 1 + 1) / 2) with (m + 1) by lia.
      unfold write_se.
      replace (0 <? Z.of_N (m + 1))%Z with true by lia.
      replace (Z.of_N two63 <=? 2 * Z.of_N (m + 1))%Z with false by (unfold two53, two63 in *; lia).
      replace (Z.to_N (2 * Z.of_N (m + 1) - 1)) with (2 * m + 1) by lia. apply Hw.
  - exfalso. pose proof (round_f64_large _ Hl) as Hr.
    assert (Hm : two52 <= round_f64 (code + 1) / 2).
    { apply N.div_le_lower_bound; [lia|]. change (2 * two52) with two53. exact Hr. }
    destruct (N.even code); destruct (round_f64 (code + 1) / 2 =? two63) eqn:E63;
      try (apply N.eqb_eq in E63); inversion H; subst v; unfold two52, two63 in *; lia.
Qed.
