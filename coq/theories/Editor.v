(* The RPU editor (src/dovi/editor.rs): EditConfig passes over a list of Option<DoviRpu>.
   The list-level skeleton is written generically in the frame type A, the encoded type B and the
   per-frame functions, so that the list theorems (EditorProofs.v) hold for every instantiation;
   `edit` below instantiates it with the RPU operations of Ops.v. *)
From Coq Require Import List NArith ZArith Lia Bool String Ascii.
From DV Require Import Outcome SortUnique Bits BitIO Fields Blocks Rpu Ops.
From DVgen Require Import Consts_gen Blocks_gen DmData_gen Switches_gen Modes_gen PqUsers_gen.
Import ListNotations.
Open Scope N_scope.
Local Open Scope out_scope.

(* ---------------- range keys ---------------- *)
Definition is_digit (c : ascii) : bool := let n := N_of_ascii c in (48 <=? n) && (n <=? 57).

Fixpoint digits_val (s : string) (acc : N) : option N :=
  match s with
  | EmptyString => Some acc
  | String c t => if is_digit c then digits_val t (acc * 10 + (N_of_ascii c - 48)) else None
  end.

(* str::parse::<usize>(): optional '+', at least one digit, digits only, fits 64 bits *)
Definition parse_usize (s : string) : option N :=
  let body := match s with String "+"%char t => t | _ => s end in
  match body with
  | EmptyString => None
  | _ => match digits_val body 0 with
         | Some v => if v <? 18446744073709551616 then Some v else None
         | None => None
         end
  end.

Fixpoint split_dash (s : string) (cur : string) : list string :=
  match s with
  | EmptyString => [cur]
  | String c t => if Ascii.eqb c "-"%char then cur :: split_dash t EmptyString
                  else split_dash t (cur ++ String c EmptyString)
  end.

Definition has_dash (s : string) : bool := (1 <? List.length (split_dash s EmptyString))%nat.

(* range_string_to_tuple: halves that do not parse are silently 0; pieces after the second are ignored *)
Definition range_tuple (s : string) : outcome (N * N) :=
  if has_dash s then
    match split_dash s EmptyString with
    | a :: b :: _ => Ok ((match parse_usize a with Some x => x | None => 0 end),
                         (match parse_usize b with Some x => x | None => 0 end))
    | _ => Err
    end
  else Err.

(* checked_range *)
Definition checked_range (s : string) (len : N) : outcome (N * N) :=
  let* '(a, b) := range_tuple s in
  let* _ := ensure (a <=? b) in
  let* _ := ensure (b <? len) in
  Ok (a, b).

Definition lower_char (c : ascii) : ascii :=
  let n := N_of_ascii c in if (65 <=? n) && (n <=? 90) then ascii_of_N (n + 32) else c.
Fixpoint lower (s : string) : string :=
  match s with EmptyString => EmptyString | String c t => String (lower_char c) (lower t) end.
Definition is_all (s : string) : bool := String.eqb (lower s) "all".

(* ---------------- generic list skeleton ---------------- *)
Section Skeleton.
  Context {A B : Type}.

  Definition in_range (a b i : N) : bool := (a <=? i) && (i <=? b).

  (* rpus[a..=b].iter_mut().for_each(|e| *e = None) *)
  Fixpoint set_none (a b : N) (i : N) (l : list (option A)) : list (option A) :=
    match l with
    | [] => []
    | x :: t => (if in_range a b i then None else x) :: set_none a b (i + 1) t
    end.

  (* for rpu in rpus[a..=b].iter_mut().filter_map(|e| e.as_mut()) { f(rpu)? } *)
  Fixpoint map_range (f : A -> outcome A) (a b : N) (i : N) (l : list (option A)) : outcome (list (option A)) :=
    match l with
    | [] => Ok []
    | x :: t =>
        let* x' := match x with
                   | Some v => if in_range a b i then (let* v' := f v in Ok (Some v')) else Ok (Some v)
                   | None => Ok None
                   end in
        let* t' := map_range f a b (i + 1) t in
        Ok (x' :: t')
    end.

  Definition map_all (f : A -> outcome A) (l : list (option A)) : outcome (list (option A)) :=
    map_range f 0 (N.of_nat (List.length l)) 0 l.

  (* remove_frames *)
  Fixpoint remove_frames (ranges : list string) (l : list (option A)) : outcome (list (option A)) :=
    match ranges with
    | [] => Ok l
    | r :: t =>
        let n := N.of_nat (List.length l) in
        if has_dash r then
          let* '(a, b) := checked_range r n in
          remove_frames t (set_none a b 0 l)
        else match parse_usize r with
             | Some i => let* _ := ensure (i <? n) in remove_frames t (set_none i i 0 l)
             | None => remove_frames t l
             end
    end.

  (* a pass over the keyed entries other than "all", in the map's (key) order *)
  Fixpoint range_pass {V} (f : V -> outcome (A -> outcome A)) (entries : list (string * V))
           (l : list (option A)) : outcome (list (option A)) :=
    match entries with
    | [] => Ok l
    | (k, v) :: t =>
        if is_all k then range_pass f t l
        else
          let* '(a, b) := checked_range k (N.of_nat (List.length l)) in
          let* g := f v in
          let* l' := map_range g a b 0 l in
          range_pass f t l'
    end.

  (* rpus.iter_mut().filter_map(..).zip(source_rpus): the i-th remaining frame meets source i *)
  Fixpoint zip_remaining {S} (f : A -> S -> outcome A) (l : list (option A)) (src : list S)
    : outcome (list (option A)) :=
    match l with
    | [] => Ok []
    | None :: t => let* t' := zip_remaining f t src in Ok (None :: t')
    | Some v :: t =>
        match src with
        | [] => Ok (Some v :: t)          (* zip stops *)
        | s :: st => let* v' := f v s in let* t' := zip_remaining f t st in Ok (Some v' :: t')
        end
    end.

  Fixpoint encode_remaining (enc : A -> outcome B) (l : list (option A)) : outcome (list B) :=
    match l with
    | [] => Ok []
    | None :: t => encode_remaining enc t
    | Some v :: t => let* e := enc v in let* r := encode_remaining enc t in Ok (e :: r)
    end.

  (* duplicates: stable sort by offset, reversed; then spliced one after the other *)
  Definition dup := (N * N * N)%type.        (* source, offset, length *)
  Definition dup_off (d : dup) : N := snd (fst d).
  Fixpoint dup_insert (x : dup) (l : list dup) : list dup :=
    match l with
    | [] => [x]
    | y :: t => if dup_off x <? dup_off y then x :: l else y :: dup_insert x t
    end.
  Definition dup_order (l : list dup) : list dup := rev (fold_left (fun acc x => dup_insert x acc) l []).

  Fixpoint dup_apply (ds : list dup) (data : list B) : outcome (list B) :=
    match ds with
    | [] => Ok data
    | (src, off, len) :: t =>
        let n := N.of_nat (List.length data) in
        let* _ := ensure ((src <? n) && (off <=? n)) in
        match nth_error data (N.to_nat src) with
        | Some x => dup_apply t (firstn (N.to_nat off) data ++ repeat x (N.to_nat len) ++ skipn (N.to_nat off) data)
        | None => Err
        end
    end.
End Skeleton.

(* ---------------- the configuration ---------------- *)
Record preset := mkPreset { ps_id : N; ps_l : Z; ps_r : Z; ps_t : Z; ps_b : Z }.

Record econfig := mkCfg {
  e_mode : N;
  e_remove_cmv4 : bool;
  e_remove_mapping : bool;
  e_min_pq : option Z; e_max_pq : option Z;
  e_has_aa : bool;                          (* active_area present *)
  e_crop : bool;
  e_drop_l5 : option string;
  e_presets : option (list preset);
  e_edits : option (list (string * N));     (* key order *)
  e_remove : option (list string);
  e_dups : option (list dup);
  e_cuts : option (list (string * bool));   (* key order *)
  e_l6 : option block; e_l9 : option N; e_l11 : option block; e_l255 : option block;
  e_source : option (outcome (list rpu));   (* parse_rpu_file(source_rpu) *)
  e_levels : option (list N) }.

(* ---------------- per-frame operations ---------------- *)
Definition on_dm (x : rpu) (always_modified : bool) (f : dmdata -> outcome dmdata) : outcome rpu :=
  match rdm x with
  | Some d => let* d' := f d in Ok (with_dm x (Some d') true)
  | None => Ok (if always_modified then set_modified x else x)
  end.

Definition l6_source_meta (b : block) : Z * Z :=
  let prog := match desc_of 6 with Some d => b_parse d | None => [] end in
  let g name := match field_val prog (bvals b) name with Some v => v | None => 0%Z end in
  let mn := g "min_display_mastering_luminance"%string in
  let mx := g "max_display_mastering_luminance"%string in
  ((if (mn <=? l6_min_le)%Z then l6_min_le_code else if (mn =? l6_min_eq)%Z then l6_min_eq_code else l6_min_default),
   match find (fun a => (fst a =? mx)%Z) l6_max_arms with Some a => snd a | None => l6_max_default end).

(* VdrDmData::change_source_levels *)
Definition change_source_levels (mn mx : option Z) (d : dmdata) : dmdata :=
  let set name v (d : dmdata) := mkDm (dm_compressed d) (dm_ids d) (set_field dm_main_prog (dm_main d) name v) (cmv29 d) (cmv40 d) in
  let d := match mn with Some v => set "source_min_pq"%string v d | None => d end in
  let d := match mx with Some v => set "source_max_pq"%string v d | None => d end in
  match level_blocks d 6 with
  | b :: _ =>
      let '(dmin, dmax) := l6_source_meta b in
      let d := if negb (is_some mn) && (dm_field d "source_min_pq" =? 0)%Z then set "source_min_pq"%string dmin d else d in
      if negb (is_some mx) && (dm_field d "source_max_pq" =? 0)%Z then set "source_max_pq"%string dmax d else d
  | [] => d
  end.

Definition set_scene_cut (b : bool) (d : dmdata) : dmdata :=
  mkDm (dm_compressed d)
       (match dm_ids d with a :: c :: _ :: t => a :: c :: (if b then 1 else 0) :: t | l => l end)
       (dm_main d) (cmv29 d) (cmv40 d).

Definition l9_block (idx : N) : block :=
  match desc_of 9 with
  | Some d => mkBlk 9 1 (set_field (b_parse d) (map f_def (b_parse d)) "source_primary_index" (Z.of_N idx)) false
  | None => mkBlk 9 1 [] false
  end.

Definition l5_zero (d : dmdata) : bool :=
  match level_blocks d 5 with
  | b :: _ => forallb (fun v => (v =? 0)%Z) (bvals b)
  | [] => false
  end.

Definition find_preset (ps : list preset) (id : N) : option preset := find (fun p => ps_id p =? id) ps.

Definition apply_preset (p : preset) (x : rpu) : outcome rpu := set_offsets x (ps_l p) (ps_r p) (ps_t p) (ps_b p).

Fixpoint all_presets (ps : list preset) (edits : list (string * N)) (x : rpu) : outcome rpu :=
  match edits with
  | [] => Ok x
  | (k, id) :: t =>
      if is_all k then
        match find_preset ps id with
        | Some p => let* x' := apply_preset p x in all_presets ps t x'
        | None => Err
        end
      else all_presets ps t x
  end.

Fixpoint all_cuts (cuts : list (string * bool)) (x : rpu) : outcome rpu :=
  match cuts with
  | [] => Ok x
  | (k, b) :: t => if is_all k then (let* x' := on_dm x false (fun d => Ok (set_scene_cut b d)) in all_cuts t x')
                   else all_cuts t x
  end.

(* ActiveArea::execute_single_rpu *)
Definition aa_single (c : econfig) (x : rpu) : outcome rpu :=
  let* x := if e_crop c then crop x else Ok x in
  let* x := match e_drop_l5 c with
            | Some opt =>
                let o := lower opt in
                match rdm x with
                | Some d =>
                    let drop := if String.eqb o "zeroes" then l5_zero d else String.eqb o "all" in
                    if drop then Ok (with_dm x (Some (dm_remove_level d 5)) true) else Ok x
                | None => Ok x
                end
            | None => Ok x
            end in
  match e_presets c, e_edits c with
  | Some ps, Some ed => all_presets ps ed x
  | _, _ => Ok x
  end.

(* EditConfig::execute_single_rpu *)
Definition single (c : econfig) (x : rpu) : outcome rpu :=
  let x := if e_remove_cmv4 c then remove_cmv40 x else x in
  let* x := if 0 <? e_mode c then convert_with_mode x (mode_of_u8 (e_mode c)) else Ok x in
  let* x := if is_some (e_min_pq c) || is_some (e_max_pq c)
            then on_dm x true (fun d => Ok (change_source_levels (e_min_pq c) (e_max_pq c) d)) else Ok x in
  let x := if e_remove_mapping c then remove_mapping x else x in
  let* x := match e_l6 c with Some b => on_dm x true (fun d => dm_replace_block d b) | None => Ok x end in
  let* x := match e_l9 c with Some i => on_dm x false (fun d => dm_replace_block d (l9_block i)) | None => Ok x end in
  let* x := match e_l11 c with Some b => on_dm x false (fun d => dm_replace_block d b) | None => Ok x end in
  let* x := match e_l255 c with Some b => on_dm x true (fun d => dm_replace_block d b) | None => Ok x end in
  let* x := match e_cuts c with Some cuts => all_cuts cuts x | None => Ok x end in
  if e_has_aa c then aa_single c x else Ok x.

(* EditConfig::execute *)
Definition execute (c : econfig) (l : list (option rpu)) : outcome (list (option rpu)) :=
  let* l := match e_remove c with Some r => remove_frames r l | None => Ok l end in
  let* l := map_all (single c) l in
  let* l := match e_cuts c with
            | Some cuts => range_pass (fun b => Ok (fun x => on_dm x false (fun d => Ok (set_scene_cut b d)))) cuts l
            | None => Ok l
            end in
  let* l := if e_has_aa c then
              match e_edits c with
              | Some ed =>
                  match ed, e_presets c with
                  | _ :: _, Some ps =>
                      range_pass (fun id => match find_preset ps id with Some p => Ok (apply_preset p) | None => Err end) ed l
                  | _, _ => Ok l
                  end
              | None => Ok l
              end
            else Ok l in
  match e_source c with
  | Some src =>
      let* s := src in
      let* _ := ensure (Nat.eqb (List.length l) (List.length s)) in
      match e_levels c with
      | Some lv => zip_remaining (fun x sx => replace_levels_from_rpu x sx lv) l s
      | None => Err
      end
  | None => Ok l
  end.

(* scene_cuts and edits are BTreeMap<String, _>: iterated in key order (byte-wise lexicographic),
   whatever the order of the entries in the JSON file *)
Definition entry_le {V} (a b : string * V) : bool := String.leb (fst a) (fst b).
Definition sort_entries {V} (l : list (string * V)) : list (string * V) := isort entry_le l.

Definition canon (c : econfig) : econfig :=
  mkCfg (e_mode c) (e_remove_cmv4 c) (e_remove_mapping c) (e_min_pq c) (e_max_pq c) (e_has_aa c) (e_crop c)
        (e_drop_l5 c) (e_presets c) (option_map sort_entries (e_edits c)) (e_remove c) (e_dups c)
        (option_map sort_entries (e_cuts c)) (e_l6 c) (e_l9 c) (e_l11 c) (e_l255 c) (e_source c) (e_levels c).

(* Editor::edit on a configuration whose maps are listed in key order *)
Definition edit_sorted (p : profile) (c : econfig) (rpus : list rpu) : outcome (list (list N)) :=
  let* l := execute c (map Some rpus) in
  let* data := encode_remaining (write_hevc_unspec62_nalu p src_sw) l in
  match e_dups c with
  | Some ds => dup_apply (dup_order ds) data
  | None => Ok data
  end.

(* Editor::edit, from the parsed list to the NALs written by write_rpu_file *)
Definition edit (p : profile) (c : econfig) (rpus : list rpu) : outcome (list (list N)) :=
  edit_sorted p (canon c) rpus.
