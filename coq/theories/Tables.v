(* Decidable well-formedness / compatibility predicates over the regenerated tables, and their
   proofs by computation.  A width, order, sign, threshold, bound, size or count edit in the source
   changes the generated tables and breaks one of these obligations. *)
From Coq Require Import List NArith ZArith Lia Bool String.
From DV Require Import Outcome Bits BitIO Av1 Fields Blocks Rpu.
From DVgen Require Import Consts_gen Blocks_gen DmData_gen Switches_gen.
Import ListNotations.
Open Scope N_scope.

Definition is_ue (f : fld) : bool := match f_k f with FUE => true | _ => false end.

(* bits consumed by the present fields of a program for a given length *)
Definition prog_bits (prog : list fld) (len : N) : N :=
  fold_left (fun a f => if present f len then a + f_w f else a) prog 0.

Definition names_distinct (prog : list fld) : bool :=
  (fix go (l : list fld) : bool :=
     match l with
     | [] => true
     | f :: t => negb (existsb (fun g => String.eqb (f_name f) (f_name g)) t) && go t
     end) prog.

(* every field read/written belongs to the struct with a type wide enough *)
Definition field_in_struct (d : blockdesc) (f : fld) : bool :=
  existsb (fun s => let '(nm, tb, sg, _) := s in
                    String.eqb nm (f_name f) && (tb =? f_tb f) &&
                    Bool.eqb sg (match f_k f with FS => true | _ => false end)) (b_fields d).

Definition desc_compatible (d : blockdesc) : bool :=
  prog_eqb (b_parse d) (b_write d) &&
  forallb fld_wf (b_parse d) && forallb (fun f => negb (is_ue f)) (b_parse d) &&
  names_distinct (b_parse d) &&
  forallb (field_in_struct d) (b_parse d) &&
  (* required_bits() of every length = the bits of the fields present at that length, and the
     block's byte size holds them *)
  forallb (fun lb => (prog_bits (b_parse d) (fst lb) =? snd lb) && (snd lb <=? 8 * fst lb)) (b_lengths d) &&
  negb (match b_lengths d with [] => true | _ => false end) &&
  (* optional groups are only used by variable-length levels *)
  (b_var_len d || forallb (fun f => f_gt f =? 0) (b_parse d)) &&
  (* sort key field exists *)
  match b_sort_field d with
  | Some s => existsb (fun f => String.eqb (f_name f) s) (b_parse d)
  | None => true
  end &&
  (* validate clauses name existing fields *)
  forallb (fun c => existsb (fun f => String.eqb (f_name f) (v_field c)) (b_parse d)) (b_validate d).

Lemma blocks_compatible : forallb desc_compatible all_block_descs = true.
Proof. vm_compute. reflexivity. Qed.

(* no truncated or wrapped value can be written: an unsigned field narrower than its type is
   range-checked by the bit writer itself (write_n rejects v >= 2^w when w < bits(T)); a signed
   field narrower than its type needs validate() to bound it from below, because the writer's
   check does not see negative values below -2^(w-1) *)
Definition bound_covers (d : blockdesc) (f : fld) : bool :=
  match f_k f with
  | FS => (f_w f =? f_tb f) ||
          existsb (fun c => String.eqb (v_field c) (f_name f) &&
                            match v_cond c, v_cmp c with
                            | VAlways, VGe => (- 2 ^ (Z.of_N (f_w f) - 1) <=? v_val c)%Z
                            | _, _ => false
                            end) (b_validate d)
  | _ => true
  end.
Definition desc_bounded (d : blockdesc) : bool :=
  b_validates_on_write d && forallb (bound_covers d) (b_write d).

(* levels whose fields are narrower than their types must validate on write *)
Definition desc_needs_bounds (d : blockdesc) : bool :=
  existsb (fun f => match f_k f with FS => negb (f_w f =? f_tb f) | _ => false end) (b_write d).
Lemma blocks_bounded :
  forallb (fun d => negb (desc_needs_bounds d) || desc_bounded d) all_block_descs = true.
Proof. vm_compute. reflexivity. Qed.

(* level -> container routing: the two allowed lists are disjoint, cover every described level,
   and the parse dispatch tables are exactly the allowed lists / the other container's list *)
Definition routing_ok : bool :=
  forallb (fun l => negb (mem l cmv40_allowed)) cmv29_allowed &&
  forallb (fun d => xorb (mem (b_level d) cmv29_allowed) (mem (b_level d) cmv40_allowed)) all_block_descs &&
  forallb (fun l => mem l (map b_level all_block_descs)) (cmv29_allowed ++ cmv40_allowed) &&
  list_beq cmv29_parse_levels cmv29_allowed && list_beq cmv40_parse_levels cmv40_allowed &&
  forallb (fun l => mem l cmv40_allowed) cmv29_bail_levels &&
  forallb (fun l => mem l cmv29_allowed) cmv40_bail_levels &&
  forallb (fun l => match desc_of l with Some d => b_var_len d | None => false end) cmv40_parse_var_levels &&
  forallb (fun d => negb (b_var_len d) || mem (b_level d) cmv40_parse_var_levels) all_block_descs &&
  forallb (fun lim => mem (fst (fst lim)) cmv29_allowed) cmv29_count_limits &&
  forallb (fun lim => mem (fst (fst lim)) cmv40_allowed) cmv40_count_limits.
Lemma routing_tables_ok : routing_ok = true.
Proof. vm_compute. reflexivity. Qed.

(* the length sets checked by validate_length are the sets required_bits() knows *)
Definition length_sets_ok : bool :=
  forallb (fun d => negb (b_var_len d) ||
                    match find (fun p => fst p =? b_level d) g_validate_length_sets with
                    | Some (_, l) => forallb (fun x => known_length d x) l &&
                                     forallb (fun lb => mem (fst lb) l) (b_lengths d)
                    | None => false
                    end) all_block_descs.
Lemma validate_length_sets_ok : length_sets_ok = true.
Proof. vm_compute. reflexivity. Qed.

(* DM data main payload *)
Fixpoint strs_eqb (a b : list string) : bool :=
  match a, b with
  | [], [] => true
  | x :: a', y :: b' => String.eqb x y && strs_eqb a' b'
  | _, _ => false
  end.

Definition dm_compatible : bool :=
  prog_eqb dm_parse dm_write && forallb fld_wf dm_parse && names_distinct dm_parse &&
  forallb is_ue (firstn 3 dm_parse) && forallb (fun f => negb (is_ue f)) (skipn 3 dm_parse) &&
  strs_eqb (map f_name (firstn 3 dm_parse))
           ["affected_dm_metadata_id"; "current_dm_metadata_id"; "scene_refresh_flag"]%string &&
  (dm_write_ids_before_compressed_test =? 3) &&
  (* every struct field except `compressed` and the two containers is read and written *)
  strs_eqb (map f_name dm_parse)
           (filter (fun n => negb (String.eqb n "compressed" || String.eqb n "cmv29_metadata" || String.eqb n "cmv40_metadata")%string) dm_struct_fields) &&
  (dm_compressed_marker =? 1).
Lemma dm_tables_compatible : dm_compatible = true.
Proof. vm_compute. reflexivity. Qed.

(* all the guards that turn untrusted-input panics into errors are present in the source *)
Definition switches_all_fixed : bool :=
  g_map_idc_bail && g_interp_bail && g_write_interp_bail && g_mixed_method_bail &&
  g_blocks_alloc_clamped && g_block_len_checked_parse && g_block_len_checked_write && g_remaining_guard &&
  match g_pivots_bound with Some k => k <=? 7 | None => false end &&
  match g_rpu_end_min with Some k => 6 <=? k | None => false end.
Lemma source_switches_fixed : switches_all_fixed = true.
Proof. vm_compute. reflexivity. Qed.

(* the tail of write_rpu_data mirrors read_rpu_data: align, data before the CRC, align *)
Lemma write_tail_order : align_before_remaining = true /\ align_after_remaining = true.
Proof. vm_compute. split; reflexivity. Qed.
