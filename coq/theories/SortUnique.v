(* A stable insertion sort by a total preorder gives the same list for every listing (permutation)
   of the same elements, as soon as the order is antisymmetric on those elements (distinct keys).
   Used for C17: BTreeMap key order of the editor's maps; sorted insertion of L10 target blocks. *)
From Coq Require Import List Bool Sorting.Permutation Sorting.Sorted.
Import ListNotations.

Section SortUnique.
  Context {A : Type} (le : A -> A -> bool).
  Context (le_total : forall a b, le a b = false -> le b a = true).
  Context (le_trans : forall a b c, le a b = true -> le b c = true -> le a c = true).

  Fixpoint ins (x : A) (l : list A) : list A :=
    match l with
    | [] => [x]
    | y :: t => if le x y then x :: l else y :: ins x t
    end.
  Definition isort (l : list A) : list A := fold_right ins [] l.

  Definition leP (a b : A) : Prop := le a b = true.

  Lemma ins_perm x l : Permutation (ins x l) (x :: l).
  Proof.
    induction l as [|y t IH]; cbn; auto. destruct (le x y); auto.
    eapply perm_trans; [apply perm_skip; exact IH|apply perm_swap].
  Qed.

  Lemma isort_perm l : Permutation (isort l) l.
  Proof.
    induction l as [|x t IH]; cbn; auto.
    eapply perm_trans; [apply ins_perm|apply perm_skip; exact IH].
  Qed.

  Lemma ins_forall (P : A -> Prop) x l : P x -> Forall P l -> Forall P (ins x l).
  Proof.
    intros Hx Hl. eapply Permutation_Forall; [apply Permutation_sym, ins_perm|]. constructor; auto.
  Qed.

  Lemma ins_sorted x l : StronglySorted leP l -> StronglySorted leP (ins x l).
  Proof.
    induction l as [|y t IH]; intros Hs; cbn.
    - constructor; constructor.
    - destruct (le x y) eqn:E.
      + constructor; auto. constructor; auto.
        inversion Hs as [|? ? _ Hy]; subst. eapply Forall_impl; [|exact Hy].
        intros z Hz. eapply le_trans; eauto.
      + inversion Hs as [|? ? Ht Hy]; subst. constructor; auto.
        apply ins_forall; auto. apply le_total. exact E.
  Qed.

  Lemma isort_sorted l : StronglySorted leP (isort l).
  Proof. induction l as [|x t IH]; cbn; [constructor|]. apply ins_sorted. exact IH. Qed.

  (* two sorted listings of the same elements are equal when the order is antisymmetric on them *)
  Lemma sorted_perm_unique : forall l1 l2,
    (forall x y, In x l1 -> In y l1 -> le x y = true -> le y x = true -> x = y) ->
    StronglySorted leP l1 -> StronglySorted leP l2 -> Permutation l1 l2 -> l1 = l2.
  Proof.
    induction l1 as [|x t1 IH]; intros l2 Hanti S1 S2 P.
    - apply Permutation_nil in P. auto.
    - destruct l2 as [|y t2]; [apply Permutation_sym, Permutation_nil in P; discriminate|].
      inversion S1 as [|? ? St1 Hx]; subst. inversion S2 as [|? ? St2 Hy]; subst.
      assert (Exy : x = y).
      { assert (Hyin : In y (x :: t1)) by (eapply Permutation_in; [apply Permutation_sym; exact P|left; reflexivity]).
        assert (Hxin : In x (y :: t2)) by (eapply Permutation_in; [exact P|left; reflexivity]).
        destruct Hyin as [->|Hyt]; auto.
        destruct Hxin as [->|Hxt]; auto.
        apply Hanti; [left; reflexivity|right; exact Hyt| |].
        - rewrite Forall_forall in Hx. apply Hx. exact Hyt.
        - rewrite Forall_forall in Hy. apply Hy. exact Hxt. }
      subst y. f_equal. apply IH; auto.
      + intros a b Ha Hb. apply Hanti; right; auto.
      + eapply Permutation_cons_inv; eauto.
  Qed.

  Theorem isort_canonical l1 l2 :
    (forall x y, In x l1 -> In y l1 -> le x y = true -> le y x = true -> x = y) ->
    Permutation l1 l2 -> isort l1 = isort l2.
  Proof.
    intros Hanti P. apply sorted_perm_unique.
    - intros x y Hx Hy. apply Hanti; eapply Permutation_in; try apply isort_perm; auto.
    - apply isort_sorted.
    - apply isort_sorted.
    - eapply perm_trans; [apply isort_perm|]. eapply perm_trans; [exact P|apply Permutation_sym, isort_perm].
  Qed.
End SortUnique.
