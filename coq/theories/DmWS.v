(* C03: what the writer emits for the display-management payload (extension blocks, containers)
   is read back by the parser as exactly what was written ("write soundness"). *)
From Coq Require Import List NArith ZArith Lia Bool String.
From DV Require Import Outcome Bits BitIO Escape Fields Blocks Rpu Tables FieldsProofs C03Proofs HeaderRT RpuRT.
From DVgen Require Import Consts_gen Blocks_gen DmData_gen Switches_gen.
Import ListNotations.
Open Scope N_scope.
Local Open Scope out_scope.
Require Import ZifyBool ZifyN.
Ltac Zify.zify_post_hook ::= Z.div_mod_to_equations.

(* parsing back what was appended: the reader sees bs followed by anything *)
Definition reads {A} (P : reader -> outcome (A * reader)) (bs : list bool) (v : A) : Prop :=
  forall rest pos, P (mkR (bs ++ rest) pos) = Ok (v, mkR rest (pos + N.of_nat (List.length bs))).

Lemma write_n_reads tb n v w w' : write_n tb n v w = Ok w' -> v < 2 ^ tb ->
  exists bs, w' = wput w bs /\ reads (get_n tb n) bs v.
Proof.
  unfold write_n. destruct (tb <? n) eqn:E1; [discriminate|]. apply N.ltb_ge in E1.
  destruct ((n <? tb) && (2 ^ n <=? v)) eqn:E2; [discriminate|]. intros H Hv. inversion H; subst w'.
  exists (enc (N.to_nat n) v). split; [reflexivity|]. intros rest pos. unfold get_n. cbn [rbits rpos].
  replace (n <=? tb) with true by (symmetry; apply N.leb_le; exact E1).
  assert (Hl : List.length (enc (N.to_nat n) v) = N.to_nat n) by apply enc_length.
  rewrite <- Hl at 1. rewrite take_app. f_equal. f_equal; [|f_equal; rewrite Hl; lia].
  apply enc_val_small. rewrite N2Nat.id.
  destruct (n <? tb) eqn:E3; cbn [andb] in E2.
  - apply N.leb_gt in E2. exact E2.
  - apply N.ltb_ge in E3. assert (n = tb) by lia. subst. exact Hv.
Qed.

Lemma zeros_read n : forall rest pos, read_zero_bits n (mkR (zeros n ++ rest) pos) = Ok (mkR rest (pos + N.of_nat n)).
Proof.
  induction n as [|n IH]; intros rest pos; cbn [read_zero_bits zeros app].
  - f_equal. f_equal. lia.
  - unfold get. cbn [rbits rpos bind]. rewrite IH. f_equal. f_equal. lia.
Qed.

(* the canonical in-memory form of a block: the length field is the level's byte size, the L11
   white point is stored without the reference-mode bit, other levels carry no flag, every value
   fits the Rust type of its field *)
Definition block_canonical (d : blockdesc) (b : block) : Prop :=
  let vs := if is_l11 d then l11_pre d (bvals b) (bflag b) else bvals b in
  blen b = bytes_size d b /\
  all_in_type (b_parse d) vs = true /\
  (if is_l11 d then l11_post d vs else (vs, false)) = (bvals b, bflag b).

Lemma present_all prog len : forallb (fun f => f_gt f =? 0) prog = true ->
  forall vs, List.length vs = List.length prog -> present_vals prog len vs = vs.
Proof.
  induction prog as [|f t IH]; intros H vs Hl; destruct vs as [|v vt]; cbn in Hl; try discriminate; [reflexivity|].
  cbn [forallb] in H. apply andb_prop in H. destruct H as [H1 H2]. cbn [present_vals].
  unfold present. rewrite H1. cbn [orb]. f_equal. apply IH; [exact H2|lia].
Qed.

Lemma all_in_type_length prog : forall vs, all_in_type prog vs = true -> List.length vs = List.length prog.
Proof.
  induction prog as [|f t IH]; intros [|v vt] H; cbn in H; try discriminate; [reflexivity|].
  apply andb_prop in H. destruct H as [_ H]. cbn. f_equal. auto.
Qed.

Lemma set_nth_length i v l : List.length (set_nth i v l) = List.length l.
Proof. revert i; induction l as [|x t IH]; intros [|i]; cbn; auto. Qed.

Lemma l11_pre_length d vs flag : List.length (l11_pre d vs flag) = List.length vs.
Proof.
  unfold l11_pre, set_field. destruct (field_val _ _ _); [|reflexivity]. destruct flag; [|reflexivity].
  destruct (index_of _ _ _); [apply set_nth_length|reflexivity].
Qed.

Lemma lengths_small : forallb (fun d => forallb (fun lb => fst lb <? 65536) (b_lengths d)) all_block_descs = true.
Proof. vm_compute. reflexivity. Qed.

Lemma bytes_size_small d b req : In d all_block_descs -> required_bits d b = Ok req -> bytes_size d b < 65536.
Proof.
  intros Hin Hr. pose proof lengths_small as Hs. rewrite forallb_forall in Hs. specialize (Hs d Hin).
  rewrite forallb_forall in Hs. unfold required_bits, bytes_size in *.
  destruct (b_var_len d).
  - destruct (find _ (b_lengths d)) as [[l bits]|] eqn:Ef; [|discriminate].
    apply find_some in Ef. destruct Ef as [Hi Heq]. apply N.eqb_eq in Heq. cbn in Heq. subst l.
    specialize (Hs _ Hi). cbn in Hs. apply N.ltb_lt in Hs. exact Hs.
  - destruct (b_lengths d) as [|[l bits] t]; [discriminate|]. specialize (Hs (l, bits) (or_introl eq_refl)).
    cbn in Hs. apply N.ltb_lt in Hs. exact Hs.
Qed.

Lemma write_ue_wput p v w w' : write_ue p v w = Ok w' -> exists B, w' = wput w B.
Proof.
  unfold write_ue. destruct (v =? 0); [intros H; inversion H; eauto|].
  destruct (v + 1 =? two64); [destruct p; discriminate|].
  unfold write_n. destruct (64 <? _); [discriminate|]. destruct (_ && _); [discriminate|].
  intros H. inversion H. rewrite wput_app. eauto.
Qed.

Lemma write_ue_reads p v w w' : write_ue p v w = Ok w' -> v + 1 < two64 ->
  exists bs, w' = wput w bs /\ forall p', reads (get_ue p') bs v.
Proof.
  intros H Hv. destruct (write_ue_wput _ _ _ _ H) as [B ->]. exists B. split; [reflexivity|].
  intros p' rest pos.
  assert (H' : write_ue p' v w = Ok (wput w B)).
  { revert H. unfold write_ue. destruct (v =? 0); [auto|]. destruct (v + 1 =? two64); [destruct p; discriminate|]. auto. }
  destruct (get_ue_write_ue p' v w (wput w B) rest Hv H') as (bs & Hb & Hr).
  rewrite wbits_wput in Hb. apply app_inv_head in Hb. subst bs. apply Hr.
Qed.

Theorem block_write_sound p v b w w' d :
  write_block p b w = Ok w' -> desc_of (blevel b) = Some d -> block_canonical d b ->
  mem (blevel b) (parse_levels v) = true -> mem (blevel b) (allowed v) = true ->
  g_block_len_checked_parse = g_block_len_checked_write ->
  exists bs, w' = wput w bs /\
    reads (parse_block Debug v) bs
          (mkBlk (blevel b) (blen b) (present_vals (b_parse d) (blen b) (bvals b)) (bflag b)).
Proof.
  intros Hw Hd (Hlen & Hty & Hpost) Hpl Hal Hsw. unfold write_block in Hw. rewrite Hd in Hw.
  destruct (desc_of_in _ _ Hd) as [Hin Hlv]. pose proof (desc_compat _ Hin) as Hcomp.
  unfold desc_compatible in Hcomp. repeat (apply andb_prop in Hcomp; destruct Hcomp as [Hcomp ?]).
  apply prog_eqb_eq in Hcomp.
  assert (Hwf : forallb fld_wf (b_parse d) = true) by assumption.
  assert (Hnue : forallb (fun f => negb (is_ue f)) (b_parse d) = true) by assumption.
  assert (Hgt : b_var_len d || forallb (fun f => f_gt f =? 0) (b_parse d) = true) by assumption.
  destruct (if g_block_len_checked_write then ensure (vl_known (blevel b) (blen b)) else Ok tt) as [[]| |s] eqn:Evl; cbn [bind] in Hw; try discriminate.
  destruct (required_bits d b) as [req| |s] eqn:Ereq; cbn [bind] in Hw; try discriminate.
  destruct (write_ue p (bytes_size d b) w) as [w1| |s] eqn:E1; cbn [bind] in Hw; try discriminate.
  destruct (write_n 8 8 (blevel b) w1) as [w2| |s] eqn:E2; cbn [bind] in Hw; try discriminate.
  destruct (write_block_payload p d b w2) as [w3| |s] eqn:E3; cbn [bind] in Hw; try discriminate.
  inversion Hw; subst w'. clear Hw.
  pose proof (bytes_size_small _ _ _ Hin Ereq) as Hsmall.
  rewrite <- Hlen in E1, Hsmall |- *.
  assert (Hbs64 : blen b + 1 < two64) by (unfold two64; lia).
  destruct (write_ue_reads _ _ _ _ E1 Hbs64) as (b1 & -> & Hr1).
  assert (Hlv8 : blevel b < 2 ^ 8).
  { assert (Ht : forallb (fun d => b_level d <? 256) all_block_descs = true) by (vm_compute; reflexivity).
    rewrite forallb_forall in Ht. specialize (Ht d Hin). apply N.ltb_lt in Ht. rewrite <- Hlv. exact Ht. }
  destruct (write_n_reads _ _ _ _ _ E2 Hlv8) as (b2 & -> & Hr2).
  unfold write_block_payload in E3.
  destruct (if b_validates_on_write d then ensure (block_valid d b) else Ok tt) as [[]| |s]; cbn [bind] in E3; try discriminate.
  set (vs := if is_l11 d then l11_pre d (bvals b) (bflag b) else bvals b) in *.
  rewrite <- Hcomp in E3.
  destruct (enc_dec_fields p (b_parse d) (blen b) vs _ _ Hwf Hnue Hty E3) as (b3 & -> & Hr3).
  exists (b1 ++ b2 ++ b3 ++ zeros (N.to_nat (8 * blen b - req))). split; [rewrite !wput_app; reflexivity|].
  intros rest pos. unfold parse_block. rewrite <- !app_assoc.
  rewrite (Hr1 Debug). cbn [bind]. rewrite Hr2. cbn [bind]. rewrite Hpl, Hd.
  assert (E3d : enc_fields Debug (b_parse d) (blen b) vs (wput (wput w b1) b2) = Ok (wput (wput (wput w b1) b2) b3))
    by (rewrite (enc_fields_profile _ Hnue Debug p); exact E3).
  destruct (enc_dec_fields Debug (b_parse d) (blen b) vs _ _ Hwf Hnue Hty E3d) as (b3' & Hb3 & Hr3d).
  assert (b3' = b3).
  { apply (f_equal wbits) in Hb3. rewrite !wbits_wput in Hb3. apply app_inv_head in Hb3. auto. }
  subst b3'. rewrite Hr3d. cbn [bind].
  assert (Hpv : (if is_l11 d then l11_post d (present_vals (b_parse d) (blen b) vs) else (present_vals (b_parse d) (blen b) vs, false))
                = (present_vals (b_parse d) (blen b) (bvals b), bflag b)).
  { unfold vs in *. destruct (is_l11 d) eqn:El11.
    - assert (Hfix : forallb (fun f => f_gt f =? 0) (b_parse d) = true).
      { destruct (b_var_len d) eqn:Ev; [|exact Hgt].
        exfalso.
        assert (Ht : forallb (fun d => negb (is_l11 d && b_var_len d)) all_block_descs = true) by (vm_compute; reflexivity).
        rewrite forallb_forall in Ht. specialize (Ht d Hin). rewrite El11, Ev in Ht. discriminate. }
      pose proof (all_in_type_length _ _ Hty) as Hl.
      rewrite (present_all _ _ Hfix _ Hl). rewrite Hpost.
      rewrite (present_all _ _ Hfix); [reflexivity|]. rewrite <- Hl. symmetry. apply l11_pre_length.
    - inversion Hpost. reflexivity. }
  rewrite Hpv.
  set (pv := present_vals (b_parse d) (blen b) (bvals b)).
  assert (Hbl0 : (if b_var_len d then blen b else bytes_size d (mkBlk (blevel b) (blen b) pv (bflag b))) = blen b).
  { destruct (b_var_len d) eqn:Ev; [reflexivity|]. transitivity (bytes_size d b); [|symmetry; exact Hlen].
    unfold bytes_size. rewrite Ev. reflexivity. }
  rewrite Hbl0.
  set (b0 := mkBlk (blevel b) (blen b) pv (bflag b)).
  assert (Hbs0 : bytes_size d b0 = blen b).
  { transitivity (bytes_size d b); [|symmetry; exact Hlen]. unfold bytes_size, b0. cbn [blen]. reflexivity. }
  assert (Hreq0 : required_bits d b0 = Ok req) by (rewrite <- Ereq; reflexivity).
  change (blen b0) with (blen b). rewrite Hsw, Evl. cbn [bind].
  rewrite Hbs0, N.eqb_refl. cbn [ensure bind]. rewrite Hal. cbn [ensure bind].
  rewrite Hreq0. cbn [bind]. rewrite zeros_read. cbn [bind].
  f_equal. f_equal. f_equal. rewrite !app_length, zeros_repeat, repeat_length. lia.
Qed.

(* ---------------------------------------------------------------- block lists, containers *)
Definition canon_block (b : block) : block :=
  match desc_of (blevel b) with
  | Some d => mkBlk (blevel b) (blen b) (present_vals (b_parse d) (blen b) (bvals b)) (bflag b)
  | None => b
  end.

Definition block_ok (v : cmver) (b : block) : Prop :=
  exists d, desc_of (blevel b) = Some d /\ block_canonical d b /\
            mem (blevel b) (parse_levels v) = true /\ mem (blevel b) (allowed v) = true.

Lemma write_block_nonempty p b w bs : write_block p b w = Ok (wput w bs) -> wbits (wput w bs) = wbits w ++ bs.
Proof. intros _. apply wbits_wput. Qed.

Lemma block_write_sound' p v b w w' :
  write_block p b w = Ok w' -> block_ok v b -> g_block_len_checked_parse = g_block_len_checked_write ->
  exists bs, w' = wput w bs /\ (1 <= List.length bs)%nat /\ reads (parse_block Debug v) bs (canon_block b).
Proof.
  intros Hw (d & Hd & Hc & Hpl & Hal) Hsw.
  destruct (block_write_sound p v b w w' d Hw Hd Hc Hpl Hal Hsw) as (bs & -> & Hr).
  exists bs. split; [reflexivity|]. split.
  - (* a parse that succeeds consumed at least the length code *)
    destruct bs as [|x t]; [|cbn; lia]. exfalso.
    specialize (Hr [] 0). cbn [app] in Hr. unfold parse_block, get_ue in Hr. cbn in Hr. discriminate.
  - unfold canon_block. rewrite Hd. exact Hr.
Qed.

Lemma blocks_write_sound p v : forall bl w w',
  write_blocks p bl w = Ok w' -> Forall (block_ok v) bl -> g_block_len_checked_parse = g_block_len_checked_write ->
  exists bs, w' = wput w bs /\ (List.length bl <= List.length bs)%nat /\
    forall rest pos fuel, (List.length bl <= fuel)%nat ->
      parse_blocks Debug v fuel (N.of_nat (List.length bl)) (mkR (bs ++ rest) pos)
      = Ok (map canon_block bl, mkR rest (pos + N.of_nat (List.length bs))).
Proof.
  induction bl as [|b t IH]; intros w w' H Hok Hsw; cbn [write_blocks] in H.
  - inversion H; subst. exists []. split; [symmetry; apply wput_nil|]. split; [cbn; lia|].
    intros rest pos fuel _. destruct fuel; cbn; (f_equal; f_equal; f_equal; lia).
  - destruct (write_block p b w) as [w1| |s] eqn:E1; cbn [bind] in H; try discriminate.
    inversion Hok as [|? ? Hb Ht]; subst.
    destruct (block_write_sound' _ _ _ _ _ E1 Hb Hsw) as (b1 & -> & Hl1 & Hr1).
    destruct (IH _ _ H Ht Hsw) as (b2 & -> & Hl2 & Hr2).
    exists (b1 ++ b2). split; [apply wput_app|]. split; [rewrite app_length; cbn; lia|].
    intros rest pos fuel Hf. destruct fuel as [|f]; [cbn in Hf; lia|].
    cbn [parse_blocks List.length].
    replace (N.of_nat (S (List.length t)) =? 0) with false by (symmetry; apply N.eqb_neq; lia).
    rewrite <- app_assoc, Hr1. cbn [bind].
    replace (N.of_nat (S (List.length t)) - 1) with (N.of_nat (List.length t)) by lia.
    rewrite Hr2 by (cbn in Hf; lia). cbn [bind map]. f_equal. f_equal. f_equal. rewrite app_length. lia.
Qed.

(* a container as held in memory after update_info: the count is the number of blocks *)
Definition container_ok (v : cmver) (c : container) : Prop :=
  cnum c = N.of_nat (List.length (cblocks c)) /\ Forall (block_ok v) (cblocks c).

Lemma align_zero_zeros : forall k rest pos, k = N.to_nat (pad_len pos) -> (k <= 8)%nat ->
  align_zero 8 (mkR (zeros k ++ rest) pos) = Ok (mkR rest (pos + N.of_nat k)).
Proof.
  assert (G : forall fuel k rest pos, k = N.to_nat (pad_len pos) -> (k <= fuel)%nat ->
              align_zero fuel (mkR (zeros k ++ rest) pos) = Ok (mkR rest (pos + N.of_nat k))).
  { induction fuel as [|f IH]; intros k rest pos Hk Hf.
    - assert (Hk0 : k = 0%nat) by lia.
      assert (Hm : pos mod 8 = 0) by (unfold pad_len in Hk; lia).
      rewrite Hk0. cbn [align_zero zeros app]. unfold is_aligned. cbn [rpos].
      rewrite Hm. cbn. f_equal. f_equal. lia.
    - cbn [align_zero]. unfold is_aligned. cbn [rpos].
      destruct (pos mod 8 =? 0) eqn:E.
      + apply N.eqb_eq in E. assert (Hk0 : k = 0%nat) by (unfold pad_len in Hk; rewrite E in Hk; cbn in Hk; exact Hk).
        rewrite Hk0. cbn. f_equal. f_equal. lia.
      + apply N.eqb_neq in E. destruct k as [|k]; [unfold pad_len in Hk; lia|].
        cbn [zeros app]. unfold get. cbn [rbits rpos bind].
        rewrite (IH k rest (pos + 1)); [f_equal; f_equal; lia| |lia].
        unfold pad_len in *. lia. }
  intros k rest pos Hk Hle. apply G; assumption.
Qed.

Theorem container_write_sound p v c w w' :
  write_container p c w = Ok w' -> container_ok v c -> cnum c + 1 < two64 ->
  g_block_len_checked_parse = g_block_len_checked_write -> g_blocks_alloc_clamped = true ->
  exists bs, w' = wput w bs /\
    forall rest pos, pos mod 8 = wpos w mod 8 ->
      parse_container Debug v (mkR (bs ++ rest) pos)
      = Ok (mkC (cnum c) (map canon_block (cblocks c)), mkR rest (pos + N.of_nat (List.length bs))).
Proof.
  intros H (Hn & Hok) Hn64 Hsw Hcl. unfold write_container in H.
  destruct (write_ue p (cnum c) w) as [w1| |s] eqn:E1; cbn [bind] in H; try discriminate.
  destruct (write_ue_reads _ _ _ _ E1 Hn64) as (b1 & -> & Hr1).
  unfold byte_align in H. rewrite <- zeros_repeat in H.
  destruct (blocks_write_sound _ v _ _ _ H Hok Hsw) as (b3 & -> & Hl3 & Hr3).
  set (k := N.to_nat (pad_len (wpos (wput w b1)))) in *.
  exists (b1 ++ zeros k ++ b3). split; [rewrite !wput_app; reflexivity|].
  intros rest pos Hp. unfold parse_container. rewrite <- !app_assoc.
  rewrite (Hr1 Debug). cbn [bind]. rewrite Hcl. cbn [negb andb bind].
  assert (Hk : k = N.to_nat (pad_len (pos + N.of_nat (List.length b1)))).
  { unfold k. f_equal. unfold pad_len. rewrite wpos_wput.
    rewrite (N.add_mod pos), (N.add_mod (wpos w)) by lia. rewrite Hp. reflexivity. }
  rewrite (align_zero_zeros k _ _ Hk) by (rewrite Hk; unfold pad_len; lia). cbn [bind rbits].
  rewrite Hn. rewrite Hr3.
  - cbn [bind]. f_equal. f_equal. f_equal. rewrite !app_length, zeros_repeat, repeat_length. lia.
  - rewrite !app_length. lia.
Qed.

(* ---------------------------------------------------------------- how many bits a block takes *)
Lemma prog_bits_acc prog len : forall a, fold_left (fun a f => if present f len then a + f_w f else a) prog a
                                         = a + prog_bits prog len.
Proof.
  unfold prog_bits. induction prog as [|f t IH]; intros a; cbn [fold_left]; [lia|].
  rewrite IH. rewrite (IH (if present f len then 0 + f_w f else 0)). destruct (present f len); lia.
Qed.

Lemma dec_fields_pos p prog : forallb (fun f => negb (is_ue f)) prog = true ->
  forall len r vs r', dec_fields p prog len r = Ok (vs, r') -> rpos r' = rpos r + prog_bits prog len.
Proof.
  induction prog as [|f t IH]; intros Hue len r vs r' H; cbn [dec_fields] in H.
  - inversion H; subst. unfold prog_bits. cbn. lia.
  - cbn [forallb] in Hue. apply andb_prop in Hue. destruct Hue as [Hf Ht].
    destruct (dec_field p f len r) as [[v r1]| |s] eqn:E1; cbn [bind] in H; try discriminate.
    destruct (dec_fields p t len r1) as [[vt r2]| |s] eqn:E2; cbn [bind] in H; try discriminate.
    inversion H; subst. rewrite (IH Ht _ _ _ _ E2).
    unfold prog_bits at 2. cbn [fold_left]. rewrite prog_bits_acc.
    unfold dec_field in E1. unfold is_ue in Hf.
    destruct (present f len).
    + destruct (f_k f); try discriminate;
        (destruct (get_n (f_tb f) (f_w f) r) as [[x rx]| |s] eqn:Eg; cbn [bind] in E1; try discriminate;
         inversion E1; subst; apply get_n_inv in Eg; destruct Eg as (_ & hh & _ & _ & _ & Hp); rewrite Hp; lia).
    + inversion E1; subst. lia.
Qed.

Lemma lengths_positive : forallb (fun d => forallb (fun lb => 1 <=? fst lb) (b_lengths d)) all_block_descs = true.
Proof. vm_compute. reflexivity. Qed.

Lemma required_bits_table d b req : In d all_block_descs -> required_bits d b = Ok req ->
  req = prog_bits (b_parse d) (bytes_size d b) /\ req <= 8 * bytes_size d b /\ 1 <= bytes_size d b.
Proof.
  intros Hin Hr. pose proof (desc_compat _ Hin) as Hc. unfold desc_compatible in Hc.
  repeat (apply andb_prop in Hc; destruct Hc as [Hc ?]).
  match goal with Hx : forallb (fun lb => (prog_bits (b_parse d) (fst lb) =? snd lb) && _) (b_lengths d) = true |- _ => rename Hx into Hl end.
  rewrite forallb_forall in Hl.
  pose proof lengths_positive as Hp. rewrite forallb_forall in Hp. specialize (Hp d Hin). rewrite forallb_forall in Hp.
  unfold required_bits, bytes_size in *. destruct (b_var_len d).
  - destruct (find _ (b_lengths d)) as [[l bits]|] eqn:Ef; [|discriminate]. inversion Hr; subst bits.
    apply find_some in Ef. destruct Ef as [Hi Heq]. apply N.eqb_eq in Heq. cbn in Heq. subst l.
    specialize (Hl _ Hi). specialize (Hp _ Hi). cbn in Hl, Hp. apply andb_prop in Hl. destruct Hl as [A B].
    apply N.eqb_eq in A. apply N.leb_le in B. apply N.leb_le in Hp. auto.
  - destruct (b_lengths d) as [|[l bits] t]; [discriminate|]. inversion Hr; subst bits.
    specialize (Hl (l, req) (or_introl eq_refl)). specialize (Hp (l, req) (or_introl eq_refl)). cbn in Hl, Hp.
    apply andb_prop in Hl. destruct Hl as [A B].
    apply N.eqb_eq in A. apply N.leb_le in B. apply N.leb_le in Hp. auto.
Qed.

Lemma get_ue_pos r v r' : get_ue Debug r = Ok (v, r') -> rpos r + 1 <= rpos r'.
Proof.
  intros H. apply get_ue_rt in H. destruct H as (bs & (_ & Hp) & Hw).
  pose proof (Hw Debug wempty) as Hw1.
  assert (1 <= List.length bs)%nat.
  { destruct bs as [|x t]; [|cbn; lia]. exfalso. unfold write_ue in Hw1.
    destruct (v =? 0); [cbn in Hw1; inversion Hw1|].
    destruct (v + 1 =? two64); [discriminate|]. unfold write_n in Hw1.
    destruct (64 <? _); [discriminate|]. destruct (_ && _); [discriminate|].
    apply ok_inj in Hw1. rewrite wput_app in Hw1. apply (f_equal wbits) in Hw1. rewrite !wbits_wput in Hw1.
    cbn [wempty wbits wrev frev rev_append app] in Hw1. rewrite <- app_assoc in Hw1. destruct (repeat false _); discriminate. }
  lia.
Qed.

(* every extension block takes at least 17 bits: length code, level, at least one byte of payload *)
Lemma parse_block_min_bits v r b r' : parse_block Debug v r = Ok (b, r') -> rpos r + 17 <= rpos r'.
Proof.
  unfold parse_block. intros H.
  destruct (get_ue Debug r) as [[len r1]| |s] eqn:E1; cbn [bind] in H; try discriminate.
  destruct (get_n 8 8 r1) as [[level r2]| |s] eqn:E2; cbn [bind] in H; try discriminate.
  destruct (mem level (parse_levels v)); [|discriminate].
  destruct (desc_of level) as [d|] eqn:Ed; [|discriminate].
  destruct (desc_of_in _ _ Ed) as [Hin _]. pose proof (desc_compat _ Hin) as Hcomp.
  unfold desc_compatible in Hcomp. repeat (apply andb_prop in Hcomp; destruct Hcomp as [Hcomp ?]).
  assert (Hnue : forallb (fun f => negb (is_ue f)) (b_parse d) = true) by assumption.
  destruct (dec_fields Debug (b_parse d) len r2) as [[vs r3]| |s] eqn:E3; cbn [bind] in H; try discriminate.
  destruct (if is_l11 d then l11_post d vs else (vs, false)) as [vs' flag].
  set (b0 := mkBlk level (if b_var_len d then len else bytes_size d (mkBlk level len vs' flag)) vs' flag) in *.
  destruct (if g_block_len_checked_parse then ensure (vl_known level (blen b0)) else Ok tt) as [[]| |s]; cbn [bind] in H; try discriminate.
  destruct (len =? bytes_size d b0) eqn:Elen; cbn [ensure bind] in H; [|discriminate]. apply N.eqb_eq in Elen.
  destruct (mem level (allowed v)); cbn [ensure bind] in H; [|discriminate].
  destruct (required_bits d b0) as [req| |s] eqn:Ereq; cbn [bind] in H; try discriminate.
  destruct (read_zero_bits _ r3) as [r4| |s] eqn:Ez; cbn [bind] in H; try discriminate.
  inversion H; subst r'. clear H.
  pose proof (get_ue_pos _ _ _ E1) as P1.
  apply get_n_inv in E2. destruct E2 as (_ & hh & _ & _ & _ & P2).
  pose proof (dec_fields_pos _ _ Hnue _ _ _ _ E3) as P3.
  apply read_zero_bits_rt in Ez. destruct Ez as [_ P4]. rewrite zeros_repeat, repeat_length in P4.
  destruct (required_bits_table _ _ _ Hin Ereq) as (Hreq & Hle & Hpos).
  rewrite <- Elen in Hreq. lia.
Qed.

Lemma parse_blocks_min_bits v fuel : forall n r bl r', parse_blocks Debug v fuel n r = Ok (bl, r') ->
  rpos r + 17 * N.of_nat (List.length bl) <= rpos r'.
Proof.
  induction fuel as [|f IH]; intros n r bl r' H; cbn [parse_blocks] in H.
  - destruct (n =? 0); [|discriminate]. inversion H; subst. cbn. lia.
  - destruct (n =? 0); [inversion H; subst; cbn; lia|].
    destruct (parse_block Debug v r) as [[b r1]| |s] eqn:Eb; cbn [bind] in H; try discriminate.
    destruct (parse_blocks Debug v f (n - 1) r1) as [[t r2]| |s] eqn:Et; cbn [bind] in H; try discriminate.
    inversion H; subst. pose proof (parse_block_min_bits _ _ _ _ Eb). pose proof (IH _ _ _ _ Et). cbn [List.length]. lia.
Qed.

Lemma parse_container_min_bits v r c r' : parse_container Debug v r = Ok (c, r') -> cblocks c <> [] ->
  rpos r + 18 <= rpos r'.
Proof.
  unfold parse_container. intros H Hne.
  destruct (get_ue Debug r) as [[num r1]| |s] eqn:E1; cbn [bind] in H; try discriminate.
  destruct (if negb g_blocks_alloc_clamped && (1000000 <? num) then Panic site_alloc else Ok tt) as [[]| |s]; cbn [bind] in H; try discriminate.
  destruct (align_zero 8 r1) as [r2| |s] eqn:E2; cbn [bind] in H; try discriminate.
  destruct (parse_blocks Debug v _ num r2) as [[bl r3]| |s] eqn:E3; cbn [bind] in H; try discriminate.
  inversion H; subst c r'. cbn [cblocks] in Hne.
  pose proof (get_ue_pos _ _ _ E1). destruct (align_zero_rt _ _ _ E2) as [[_ P2] _].
  pose proof (parse_blocks_min_bits _ _ _ _ _ _ E3). destruct bl; [congruence|]. cbn [List.length] in *. lia.
Qed.

(* ---------------------------------------------------------------- the DM payload *)
Definition canon_container (c : container) : container := mkC (cnum c) (map canon_block (cblocks c)).

Lemma dm_main_all_present : forallb (fun f => f_gt f =? 0) dm_main_prog = true.
Proof. vm_compute. reflexivity. Qed.

(* the DM payload as held in memory: three ids, main fields within their types (all zero when the
   header marks the payload compressed), a CM v2.9 container, optionally a CM v4.0 one *)
Record dm_ok (h : header) (d : dmdata) : Prop := {
  dmo_ids : exists a c s, dm_ids d = [a; c; s] /\ a + 1 < two64 /\ c + 1 < two64 /\ s + 1 < two64;
  dmo_compressed : dm_compressed d = (reserved_zero_3bits h =? dm_compressed_marker);
  dmo_main : if dm_compressed d then dm_main d = map (fun _ => 0%Z) dm_main_prog
             else all_in_type dm_main_prog (dm_main d) = true;
  dmo_c29 : exists c, cmv29 d = Some c /\ container_ok V29 c /\ cnum c + 1 < two64;
  dmo_c40 : match cmv40 d with Some c => container_ok V40 c /\ cnum c + 1 < two64 | None => True end }.

Definition canon_dm (d : dmdata) : dmdata :=
  mkDm (dm_compressed d) (dm_ids d) (dm_main d) (option_map canon_container (cmv29 d)) (option_map canon_container (cmv40 d)).

Theorem dm_write_sound p h d w w' :
  write_dm p d w = Ok w' -> dm_ok h d ->
  g_block_len_checked_parse = g_block_len_checked_write -> g_blocks_alloc_clamped = true ->
  exists bs29 bs40, w' = wput w (bs29 ++ bs40) /\
    (match cmv40 d with Some c => cblocks c <> [] -> (18 <= List.length bs40)%nat | None => bs40 = [] end) /\
    forall rest pos, pos mod 8 = wpos w mod 8 ->
      (* what follows decides whether the parser looks for a CM v4.0 container *)
      (match cmv40 d with
       | Some _ => dm_data_payload2_min_bits <= N.of_nat (List.length (bs40 ++ rest))
       | None => N.of_nat (List.length rest) < dm_data_payload2_min_bits
       end) ->
      parse_dm Debug h (mkR ((bs29 ++ bs40) ++ rest) pos)
      = Ok (canon_dm d, mkR rest (pos + N.of_nat (List.length (bs29 ++ bs40)))).
Proof.
  intros H [Hids Hcomp Hmain H29 H40] Hsw Hcl. unfold write_dm in H.
  destruct Hids as (a & c & s & Eids & Ha & Hc & Hs). rewrite Eids in H.
  destruct (write_ue p a w) as [w1| |e] eqn:E1; cbn [bind] in H; try discriminate.
  destruct (write_ue p c w1) as [w2| |e] eqn:E2; cbn [bind] in H; try discriminate.
  destruct (write_ue p s w2) as [w3| |e] eqn:E3; cbn [bind] in H; try discriminate.
  destruct (write_ue_reads _ _ _ _ E1 Ha) as (b1 & -> & Hr1).
  destruct (write_ue_reads _ _ _ _ E2 Hc) as (b2 & -> & Hr2).
  destruct (write_ue_reads _ _ _ _ E3 Hs) as (b3 & -> & Hr3).
  destruct dm_progs as (Hprog & Hwf & Hnue).
  (* main fields *)
  assert (Hm : exists b4 w4, (if dm_compressed d then Ok (wput (wput (wput w b1) b2) b3)
                              else enc_fields p dm_main_wprog 0 (dm_main d) (wput (wput (wput w b1) b2) b3)) = Ok w4 /\
             w4 = wput (wput (wput (wput w b1) b2) b3) b4 /\
             forall rest pos,
               (if dm_compressed d then Ok (map (fun _ => 0%Z) dm_main_prog, mkR (b4 ++ rest) pos)
                else dec_fields Debug dm_main_prog 0 (mkR (b4 ++ rest) pos))
               = Ok (dm_main d, mkR rest (pos + N.of_nat (List.length b4)))).
  { destruct (dm_compressed d).
    - exists [], (wput (wput (wput w b1) b2) b3). split; [reflexivity|]. split; [symmetry; apply wput_nil|].
      intros rest pos. cbn [app List.length]. rewrite Hmain. f_equal. f_equal. f_equal. lia.
    - destruct (enc_fields p dm_main_wprog 0 (dm_main d) _) as [w4| |e] eqn:E4; cbn [bind] in H; try discriminate.
      rewrite Hprog in E4.
      assert (E4d : enc_fields Debug dm_main_prog 0 (dm_main d) (wput (wput (wput w b1) b2) b3) = Ok w4)
        by (rewrite (enc_fields_profile _ Hnue Debug p); exact E4).
      destruct (enc_dec_fields Debug dm_main_prog 0 (dm_main d) _ _ Hwf Hnue Hmain E4d) as (b4 & -> & Hr4).
      exists b4, (wput (wput (wput (wput w b1) b2) b3) b4). split; [reflexivity|]. split; [reflexivity|].
      intros rest pos. rewrite Hr4.
      rewrite (present_all _ _ dm_main_all_present _ (all_in_type_length _ _ Hmain)). reflexivity. }
  destruct Hm as (b4 & w4 & Ew4 & -> & Hr4). rewrite Ew4 in H. cbn [bind] in H.
  destruct H29 as (c29 & E29 & Hok29 & Hn29). rewrite E29 in H.
  destruct (write_container p c29 _) as [w5| |e] eqn:E5; cbn [bind] in H; try discriminate.
  destruct (container_write_sound _ V29 _ _ _ E5 Hok29 Hn29 Hsw Hcl) as (b5 & -> & Hr5).
  assert (H6 : exists b6, w' = wput (wput (wput (wput (wput (wput w b1) b2) b3) b4) b5) b6 /\
             forall rest pos, pos mod 8 = wpos (wput (wput (wput (wput (wput w b1) b2) b3) b4) b5) mod 8 ->
               match cmv40 d with
               | Some c40 => parse_container Debug V40 (mkR (b6 ++ rest) pos)
                             = Ok (canon_container c40, mkR rest (pos + N.of_nat (List.length b6)))
               | None => b6 = []
               end).
  { destruct (cmv40 d) as [c40|].
    - destruct H40 as [Hok40 Hn40].
      destruct (container_write_sound _ V40 _ _ _ H Hok40 Hn40 Hsw Hcl) as (b6 & -> & Hr6).
      exists b6. split; [reflexivity|]. intros rest pos Hp. apply Hr6. exact Hp.
    - inversion H; subst w'. exists []. split; [symmetry; apply wput_nil|]. intros; reflexivity. }
  destruct H6 as (b6 & -> & Hr6).
  exists (b1 ++ b2 ++ b3 ++ b4 ++ b5), b6. split; [rewrite !wput_app, <- !app_assoc; reflexivity|].
  split.
  { specialize (Hr6 [] (wpos (wput (wput (wput (wput (wput w b1) b2) b3) b4) b5)) eq_refl).
    destruct (cmv40 d) as [c40|]; [|exact Hr6]. intros Hne.
    apply parse_container_min_bits in Hr6; [cbn [rpos] in Hr6; lia|].
    cbn [canon_container cblocks]. destruct (cblocks c40); [congruence|discriminate]. }
  intros rest pos Hp Hrest. unfold parse_dm. rewrite <- !app_assoc.
  rewrite (Hr1 Debug). cbn [bind]. rewrite (Hr2 Debug). cbn [bind]. rewrite (Hr3 Debug). cbn [bind].
  rewrite <- Hcomp. rewrite Hr4. cbn [bind].
  assert (Hp5 : (pos + N.of_nat (List.length b1) + N.of_nat (List.length b2) + N.of_nat (List.length b3) + N.of_nat (List.length b4)) mod 8
                = wpos (wput (wput (wput (wput w b1) b2) b3) b4) mod 8).
  { rewrite !wpos_wput. rewrite <- !N.add_assoc. rewrite (N.add_mod pos), (N.add_mod (wpos w)) by lia. rewrite Hp. reflexivity. }
  rewrite (Hr5 _ _ Hp5). cbn [bind].
  set (pos5 := pos + N.of_nat (List.length b1) + N.of_nat (List.length b2) + N.of_nat (List.length b3) + N.of_nat (List.length b4) + N.of_nat (List.length b5)).
  assert (Hp6 : pos5 mod 8 = wpos (wput (wput (wput (wput (wput w b1) b2) b3) b4) b5) mod 8).
  { unfold pos5. rewrite !wpos_wput. rewrite <- !N.add_assoc. rewrite (N.add_mod pos), (N.add_mod (wpos w)) by lia. rewrite Hp. reflexivity. }
  specialize (Hr6 rest pos5 Hp6). unfold avail_ge. cbn [rbits].
  unfold canon_dm. rewrite Eids, E29. cbn [option_map].
  destruct (cmv40 d) as [c40|].
  - replace (has_at_least (b6 ++ rest) dm_data_payload2_min_bits) with true
      by (symmetry; apply has_at_least_spec; exact Hrest).
    rewrite Hr6. cbn [bind option_map]. f_equal. f_equal. f_equal. unfold pos5. rewrite !app_length. lia.
  - subst b6. cbn [app].
    replace (has_at_least rest dm_data_payload2_min_bits) with false.
    + cbn [bind option_map]. f_equal. f_equal. f_equal. unfold pos5. rewrite !app_length. cbn [List.length]. lia.
    + symmetry. destruct (has_at_least rest dm_data_payload2_min_bits) eqn:E; [|reflexivity].
      apply has_at_least_spec in E. lia.
Qed.

(* ---------------------------------------------------------------- decidable forms, non-vacuity *)
Fixpoint zlist_eqb (a b : list Z) : bool :=
  match a, b with
  | [], [] => true
  | x :: a', y :: b' => (x =? y)%Z && zlist_eqb a' b'
  | _, _ => false
  end.
Lemma zlist_eqb_eq a : forall b, zlist_eqb a b = true -> a = b.
Proof.
  induction a as [|x a IH]; intros [|y b] H; cbn in H; try discriminate; [reflexivity|].
  apply andb_prop in H. destruct H as [H1 H2]. apply Z.eqb_eq in H1. subst. f_equal. auto.
Qed.

Definition block_okb (v : cmver) (b : block) : bool :=
  match desc_of (blevel b) with
  | Some d =>
      let vs := if is_l11 d then l11_pre d (bvals b) (bflag b) else bvals b in
      let pf := if is_l11 d then l11_post d vs else (vs, false) in
      (blen b =? bytes_size d b) && all_in_type (b_parse d) vs &&
      zlist_eqb (fst pf) (bvals b) && Bool.eqb (snd pf) (bflag b) &&
      mem (blevel b) (parse_levels v) && mem (blevel b) (allowed v)
  | None => false
  end.

Lemma block_okb_sound v b : block_okb v b = true -> block_ok v b.
Proof.
  unfold block_okb, block_ok. destruct (desc_of (blevel b)) as [d|]; [|discriminate].
  intros H. repeat (apply andb_prop in H; destruct H as [H ?]).
  exists d. split; [reflexivity|]. split; [|split; assumption].
  unfold block_canonical. split; [apply N.eqb_eq; exact H|]. split; [assumption|].
  match goal with |- ?pf = _ => destruct pf as [a f] eqn:E end. cbn [fst snd] in *.
  apply zlist_eqb_eq in H3. apply Bool.eqb_prop in H2. subst. reflexivity.
Qed.

Definition container_okb (v : cmver) (c : container) : bool :=
  (cnum c =? N.of_nat (List.length (cblocks c))) && forallb (block_okb v) (cblocks c).
Lemma container_okb_sound v c : container_okb v c = true -> container_ok v c.
Proof.
  unfold container_okb, container_ok. intros H. apply andb_prop in H. destruct H as [H1 H2].
  split; [apply N.eqb_eq; exact H1|]. apply Forall_forall. intros b Hb. rewrite forallb_forall in H2.
  apply block_okb_sound. auto.
Qed.
