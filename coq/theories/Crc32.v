(* CRC-32/MPEG-2: poly 0x04C11DB7, init 0xFFFFFFFF, no reflection, xorout 0 (crc crate CRC_32_MPEG_2). *)
From Coq Require Import List NArith.
Import ListNotations.
Open Scope N_scope.

Definition crc_poly : N := 79764919.        (* 0x04C11DB7 *)
Definition crc_mask : N := 4294967295.      (* 0xFFFFFFFF *)
Definition crc_top : N := 2147483648.       (* 0x80000000 *)

Definition crc_shift (crc : N) : N :=
  if N.land crc crc_top =? 0 then N.land (N.shiftl crc 1) crc_mask
  else N.lxor (N.land (N.shiftl crc 1) crc_mask) crc_poly.

Definition crc_byte (crc : N) (b : N) : N :=
  let c := N.lxor crc (N.shiftl b 24) in
  crc_shift (crc_shift (crc_shift (crc_shift (crc_shift (crc_shift (crc_shift (crc_shift c))))))).

Definition crc32 (data : list N) : N := fold_left crc_byte data crc_mask.

Example crc32_check : crc32 [49; 50; 51; 52; 53; 54; 55; 56; 57] = 58124007.  (* "123456789" -> 0x0376E6E7 *)
Proof. vm_compute. reflexivity. Qed.
