(* Chunk invariance of the Annex B reader (Splitter.v): whatever the chunk size and however the
   input is cut into reads (short reads only at the end), the NALs handed over, in order, are
   those of the whole input split in one piece. *)
From Coq Require Import List NArith Arith Lia Bool.
From DV Require Import Splitter.
Import ListNotations.
Open Scope N_scope.

(* ---------------- the structure of a byte string: garbage prefix + segments ---------------- *)
Definition starts001 (l : list N) : bool :=
  match l with a :: b :: c :: _ => (a =? 0) && (b =? 0) && (c =? 1) | _ => false end.

Fixpoint cut (l : list N) : list N * list (list N) :=
  match l with
  | [] => ([], [])
  | a :: t => let '(p, ss) := cut t in
              if starts001 (a :: t) then ([], (a :: p) :: ss) else (a :: p, ss)
  end.

Lemma starts001_spec l : starts001 l = true <-> exists t, l = 0 :: 0 :: 1 :: t.
Proof.
  split.
  - destruct l as [|a [|b [|c t]]]; cbn; try discriminate. intros H.
    apply andb_prop in H. destruct H as [H Hc]. apply andb_prop in H. destruct H as [Ha Hb].
    apply N.eqb_eq in Ha, Hb, Hc. subst. eauto.
  - intros [t ->]. reflexivity.
Qed.

Lemma cut_cons a t : cut (a :: t) =
  if starts001 (a :: t) then ([], (a :: fst (cut t)) :: snd (cut t)) else (a :: fst (cut t), snd (cut t)).
Proof. cbn [cut]. destruct (cut t). reflexivity. Qed.

Lemma cut_reassemble l : l = fst (cut l) ++ concat (snd (cut l)).
Proof.
  induction l as [|a t IH]; [reflexivity|]. rewrite cut_cons.
  destruct (starts001 (a :: t)); cbn [fst snd concat app]; rewrite <- ?app_comm_cons; f_equal; exact IH.
Qed.

Lemma starts001_true_cut l : starts001 l = true -> fst (cut l) = [] /\ snd (cut l) <> [].
Proof.
  destruct l as [|a t]; [discriminate|]. intros H. rewrite cut_cons, H. split; [reflexivity|discriminate].
Qed.

(* the prefix before the first start code holds none *)
Lemma cut_fst_clean l : cut (fst (cut l)) = (fst (cut l), []).
Proof.
  induction l as [|a t IH]; [reflexivity|]. rewrite cut_cons.
  destruct (starts001 (a :: t)) eqn:E; cbn [fst]; [reflexivity|].
  rewrite cut_cons, IH. cbn [fst snd].
  destruct (starts001 (a :: fst (cut t))) eqn:E2; [|reflexivity].
  exfalso. apply starts001_spec in E2. destruct E2 as [u Hu]. injection Hu as -> Hp.
  assert (Ht : starts001 (0 :: t) = true).
  { rewrite (cut_reassemble t), Hp. reflexivity. }
  congruence.
Qed.

Lemma s001_x1 a u : starts001 (a :: 1 :: u) = false.
Proof. destruct u; cbn; rewrite ?andb_false_r; reflexivity. Qed.
Lemma s001_1 u : starts001 (1 :: u) = false.
Proof. destruct u as [|b [|c u]]; reflexivity. Qed.

Definition seg_ok (s : list N) : Prop := starts001 s = true /\ cut s = ([], [s]).

Lemma cut_segments l : Forall seg_ok (snd (cut l)).
Proof.
  induction l as [|a t IH]; [constructor|]. rewrite cut_cons.
  destruct (starts001 (a :: t)) eqn:E; cbn [snd]; [|exact IH].
  constructor; [|exact IH].
  apply starts001_spec in E. destruct E as [u Hu]. injection Hu as -> ->.
  (* t = 0 :: 1 :: u: the prefix of t keeps these two bytes *)
  assert (Hp : fst (cut (0 :: 1 :: u)) = 0 :: 1 :: fst (cut u)).
  { rewrite cut_cons, s001_x1. cbn [fst]. rewrite cut_cons, s001_1. reflexivity. }
  split.
  - rewrite Hp. reflexivity.
  - rewrite cut_cons, cut_fst_clean. cbn [fst snd]. rewrite Hp. reflexivity.
Qed.

(* a start code at the junction: nothing before it is affected by what follows *)
Lemma starts001_junction a x y : starts001 y = true -> starts001 (a :: x ++ y) = starts001 (a :: x).
Proof.
  intros Hy. apply starts001_spec in Hy. destruct Hy as [u ->].
  destruct x as [|b [|c x]]; cbn [app starts001].
  - rewrite andb_false_r. reflexivity.
  - rewrite andb_false_r. reflexivity.
  - reflexivity.
Qed.

Lemma cut_app_at_sc x y : starts001 y = true ->
  cut (x ++ y) = (fst (cut x), snd (cut x) ++ snd (cut y)).
Proof.
  intros Hy. induction x as [|a x IH].
  - cbn [app]. destruct (starts001_true_cut y Hy) as [H1 _]. cbn [cut fst snd app].
    rewrite <- H1. destruct (cut y); reflexivity.
  - rewrite <- app_comm_cons, cut_cons, IH, (cut_cons a x), starts001_junction by exact Hy.
    cbn [fst snd]. destruct (starts001 (a :: x)); reflexivity.
Qed.

(* ---------------- get_offsets = the start positions of the segments ---------------- *)
Local Open Scope nat_scope.

Fixpoint starts (r : nat) (ss : list (list N)) : list nat :=
  match ss with [] => [] | s :: t => r :: starts (r + List.length s) t end.

Fixpoint occ_from (i : nat) (l : list N) : list nat :=
  match l with
  | [] => []
  | a :: t => if starts001 (a :: t) then i :: occ_from (S i) t else occ_from (S i) t
  end.

(* skipping the tag after a hit loses nothing: the pattern does not overlap itself *)
Lemma offsets_occ n : forall l i, List.length l <= n -> offsets_from i l = occ_from i l.
Proof.
  induction n as [|n IH]; intros l i Hl.
  - destruct l; [reflexivity|cbn in Hl; lia].
  - destruct l as [|a t]; [reflexivity|].
    assert (Hfall : offsets_from (S i) t = occ_from (S i) t) by (apply IH; cbn in Hl; lia).
    destruct (starts001 (a :: t)) eqn:E.
    + apply starts001_spec in E. destruct E as [u Hu]. injection Hu as -> ->.
      cbn [offsets_from occ_from]. change (starts001 (0 :: 0 :: 1 :: u)%N) with true. cbv iota.
      rewrite s001_x1, s001_1. f_equal.
      replace (i + 3) with (S (S (S i))) by lia. apply IH. cbn in Hl. lia.
    + cbn [occ_from]. rewrite E, <- Hfall.
      destruct a as [|pa]; [|reflexivity].
      destruct t as [|b t1]; [reflexivity|]. destruct b as [|pb]; [|reflexivity].
      destruct t1 as [|c t']; [reflexivity|]. destruct c as [|[pc|pc|]]; try reflexivity.
      cbn in E. discriminate.
Qed.

Lemma occ_cut l : forall i, occ_from i l = starts (i + List.length (fst (cut l))) (snd (cut l)).
Proof.
  induction l as [|a t IH]; intros i; [reflexivity|].
  cbn [occ_from]. rewrite cut_cons, IH. destruct (starts001 (a :: t)); cbn [fst snd starts List.length].
  - f_equal; [lia|]. f_equal. lia.
  - f_equal. lia.
Qed.

Lemma get_offsets_cut l : get_offsets l = starts (List.length (fst (cut l))) (snd (cut l)).
Proof. unfold get_offsets. rewrite (offsets_occ (List.length l)) by lia. rewrite occ_cut. reflexivity. Qed.

Lemma starts_app r a b : starts r (a ++ b) = starts r a ++ starts (r + List.length (concat a)) b.
Proof.
  revert r. induction a as [|s a IH]; intros r; cbn [app starts concat List.length].
  - now rewrite Nat.add_0_r.
  - rewrite IH, app_length, Nat.add_assoc. reflexivity.
Qed.

(* ---------------- split_nals on a segmented chunk ---------------- *)
Definition ends0 (s : list N) : bool := (last s 1 =? 0)%N.
(* a NAL followed by another one: start code dropped, one trailing zero byte given to a 4-byte start code *)
Definition nalmid (s : list N) : list N := skipn 3 (if ends0 s then removelast s else s).

Lemma slice_app_skip A l a b : slice (A ++ l) (List.length A + a) (List.length A + b) = slice l a b.
Proof.
  unfold slice. rewrite skipn_app, skipn_all2 by lia. cbn [app].
  replace (List.length A + a - List.length A) with a by lia.
  replace (List.length A + b - (List.length A + a)) with (b - a) by lia. reflexivity.
Qed.

Lemma skipn_pred_last (s : list N) d : s <> [] -> skipn (List.length s - 1) s = [last s d].
Proof.
  intros Hs. rewrite (app_removelast_last d Hs) at 1 2.
  rewrite app_length. cbn [List.length]. rewrite skipn_app.
  replace (List.length (removelast s) + 1 - 1) with (List.length (removelast s)) by lia.
  rewrite skipn_all, Nat.sub_diag. reflexivity.
Qed.

Lemma is_0001_x x u : is_0001 (firstn 4 ([x] ++ 0%N :: 0%N :: 1%N :: u)) = (x =? 0)%N.
Proof. cbn. destruct x as [|[p|p|]]; reflexivity. Qed.

Lemma seg_len s : starts001 s = true -> 3 <= List.length s.
Proof. intros H. apply starts001_spec in H. destruct H as [u ->]. cbn. lia. Qed.

Lemma nal_mid A s R nxt lst :
  starts001 s = true -> starts001 R = true ->
  (nxt = Some (List.length A + List.length s) \/ (nxt = None /\ lst = List.length A + List.length s)) ->
  List.length A <> lst ->
  let data := A ++ s ++ R in
  slice data (List.length A + 3) (List.length A + nal_size data (List.length A) nxt lst) = nalmid s.
Proof.
  intros Hs HR Hn Hne data. pose proof (seg_len s Hs) as Hl.
  unfold nal_size. rewrite (proj2 (Nat.eqb_neq _ _) Hne).
  assert (Hsz : match nxt with Some n => n - List.length A | None => lst - List.length A end = List.length s).
  { destruct Hn as [-> | [-> ->]]; lia. }
  rewrite Hsz.
  replace (List.length A + List.length s - 1) with (List.length A + (List.length s - 1)) by lia.
  replace (List.length A + List.length s + 3) with (List.length A + (List.length s + 3)) by lia.
  unfold data. rewrite !slice_app_skip.
  assert (Hchk : is_0001 (slice (s ++ R) (List.length s - 1) (List.length s + 3)) = ends0 s).
  { unfold slice. rewrite skipn_app.
    replace (List.length s - 1 - List.length s) with 0 by lia. cbn [skipn].
    rewrite (skipn_pred_last s 1%N) by (intros ->; discriminate).
    replace (List.length s + 3 - (List.length s - 1)) with 4 by lia.
    apply starts001_spec in HR. destruct HR as [u ->]. apply is_0001_x. }
  rewrite Hchk. unfold nalmid.
  destruct (ends0 s).
  - unfold slice. rewrite skipn_app.
    replace (3 - List.length s) with 0 by lia. rewrite skipn_O.
    rewrite removelast_firstn_len. rewrite skipn_firstn_comm.
    rewrite firstn_app. replace (List.length s - 1 - 3 - List.length (skipn 3 s)) with 0 by (rewrite skipn_length; lia).
    cbn [firstn]. rewrite app_nil_r. f_equal. lia.
  - unfold slice. rewrite skipn_app.
    replace (3 - List.length s) with 0 by lia. rewrite skipn_O.
    rewrite firstn_app. replace (List.length s - 3 - List.length (skipn 3 s)) with 0 by (rewrite skipn_length; lia).
    cbn [firstn]. rewrite app_nil_r. apply firstn_all2. rewrite skipn_length. lia.
Qed.

Lemma starts001_app s x : starts001 s = true -> starts001 (s ++ x) = true.
Proof. intros H. apply starts001_spec in H. destruct H as [u ->]. reflexivity. Qed.

Lemma starts001_concat ms T : Forall (fun s => starts001 s = true) ms -> starts001 T = true ->
  starts001 (concat ms ++ T) = true.
Proof.
  intros H HT. destruct H as [|s ms Hs _]; [exact HT|].
  cbn [concat]. rewrite <- app_assoc. now apply starts001_app.
Qed.

Lemma split_mids data lst : forall mids A T tail_offs,
  data = A ++ concat mids ++ T -> starts001 T = true -> Forall (fun s => starts001 s = true) mids ->
  lst = List.length A + List.length (concat mids) ->
  (tail_offs = [] \/ exists more, tail_offs = lst :: more) ->
  split_nals data (starts (List.length A) mids ++ tail_offs) lst
  = map nalmid mids ++ split_nals data tail_offs lst.
Proof.
  induction mids as [|s ms IH]; intros A T tail_offs Hd HT Hm Hl Htl; [reflexivity|].
  inversion Hm as [|s' ms' Hs Hms]; subst s' ms'.
  cbn [starts app split_nals map].
  cbn [concat] in Hd, Hl. rewrite app_length in Hl. rewrite <- app_assoc in Hd.
  pose proof (seg_len s Hs) as Hls.
  assert (HR : starts001 (concat ms ++ T) = true) by now apply starts001_concat.
  f_equal.
  - rewrite Hd. apply nal_mid; [exact Hs|exact HR| |lia].
    destruct ms as [|s1 ms1].
    + cbn [starts app]. cbn [concat List.length] in Hl.
      destruct Htl as [-> | [more ->]]; [right; split; [reflexivity|lia] | left; f_equal; lia].
    + left. reflexivity.
  - apply (IH (A ++ s) T tail_offs) in HT; [| |exact Hms| |exact Htl].
    + rewrite app_length in HT. exact HT.
    + rewrite Hd, <- app_assoc. reflexivity.
    + rewrite app_length. lia.
Qed.

Lemma split_last B T : 3 <= List.length T ->
  split_nals (B ++ T) [List.length B] (List.length B) = [skipn 3 T].
Proof.
  intros HT. cbn [split_nals]. unfold nal_size. rewrite Nat.eqb_refl, app_length.
  replace (List.length B + List.length T - List.length B) with (List.length T) by lia.
  rewrite slice_app_skip. unfold slice. f_equal. apply firstn_all2. rewrite skipn_length. lia.
Qed.

(* ---------------- one chunk, in terms of its segments ---------------- *)
Definition nals_of (ss : list (list N)) : list (list N) :=
  match ss with [] => [] | _ => map nalmid (removelast ss) ++ [skipn 3 (last ss [])] end.

Lemma last_app_ne {A} (m x : list A) d : x <> [] -> last (m ++ x) d = last x d.
Proof.
  intros Hx. induction m as [|a m IH]; [reflexivity|].
  cbn [app]. destruct (m ++ x) eqn:E; [|exact IH].
  destruct m; [cbn in E; congruence|discriminate].
Qed.

Lemma nals_of_app mids x : x <> [] -> nals_of (mids ++ x) = map nalmid mids ++ nals_of x.
Proof.
  intros Hx. unfold nals_of. destruct (mids ++ x) eqn:E.
  - destruct mids; [cbn in E; congruence|discriminate].
  - rewrite <- E. rewrite removelast_app, last_app_ne, map_app, <- app_assoc by exact Hx.
    destruct x; [congruence|reflexivity].
Qed.

Definition mids_of (c : list N) : list (list N) := removelast (snd (cut c)).
Definition ls_of (c : list N) : list N := last (snd (cut c)) [].
Definition lst_of (c : list N) : nat := List.length (fst (cut c)) + List.length (concat (mids_of c)).

Lemma ss_split c : snd (cut c) <> [] -> snd (cut c) = mids_of c ++ [ls_of c].
Proof. intros Hne. apply app_removelast_last. exact Hne. Qed.

Lemma segs_ok c : snd (cut c) <> [] -> Forall seg_ok (mids_of c) /\ seg_ok (ls_of c).
Proof.
  intros Hne. pose proof (cut_segments c) as H. rewrite (ss_split c Hne) in H.
  apply Forall_app in H. destruct H as [H1 H2]. split; [exact H1|]. now inversion H2.
Qed.

Lemma mids_sc c : snd (cut c) <> [] -> Forall (fun s => starts001 s = true) (mids_of c).
Proof. intros Hne. destruct (segs_ok c Hne) as [H _]. eapply Forall_impl; [|exact H]. intros s [Hs _]. exact Hs. Qed.

Lemma c_split c : snd (cut c) <> [] -> c = fst (cut c) ++ concat (mids_of c) ++ ls_of c.
Proof.
  intros Hne. rewrite (cut_reassemble c) at 1. rewrite (ss_split c Hne), concat_app. cbn [concat].
  now rewrite app_nil_r.
Qed.

Lemma offs_eq c : snd (cut c) <> [] ->
  get_offsets c = starts (List.length (fst (cut c))) (mids_of c) ++ [lst_of c].
Proof. intros Hne. rewrite get_offsets_cut. rewrite (ss_split c Hne), starts_app. reflexivity. Qed.

Lemma offs_last c : snd (cut c) <> [] -> last (get_offsets c) 0 = lst_of c.
Proof. intros Hne. rewrite (offs_eq c Hne). apply last_last. Qed.

Lemma offs_removelast c : snd (cut c) <> [] ->
  removelast (get_offsets c) = starts (List.length (fst (cut c))) (mids_of c).
Proof. intros Hne. rewrite (offs_eq c Hne). apply removelast_last. Qed.

Lemma carry_is_last c : snd (cut c) <> [] -> skipn (last (get_offsets c) 0) c = ls_of c.
Proof.
  intros Hne. rewrite (offs_last c Hne). pose proof (c_split c Hne) as Hc.
  set (k := lst_of c). rewrite Hc at 1. unfold k, lst_of.
  rewrite app_assoc, skipn_app, skipn_all2 by (rewrite app_length; lia).
  rewrite app_length, Nat.sub_diag. reflexivity.
Qed.

Lemma split_full c : snd (cut c) <> [] ->
  split_nals c (removelast (get_offsets c)) (last (get_offsets c) 0) = map nalmid (mids_of c).
Proof.
  intros Hne. rewrite (offs_removelast c Hne), (offs_last c Hne).
  rewrite <- (app_nil_r (starts _ _)).
  rewrite (split_mids c (lst_of c) (mids_of c) (fst (cut c)) (ls_of c) []);
    [cbn [split_nals]; apply app_nil_r|exact (c_split c Hne)| |exact (mids_sc c Hne)|reflexivity|now left].
  destruct (segs_ok c Hne) as [_ [H _]]. exact H.
Qed.

Lemma split_final c : snd (cut c) <> [] ->
  split_nals c (get_offsets c) (last (get_offsets c) 0) = nals_of (snd (cut c)).
Proof.
  intros Hne. rewrite (offs_last c Hne), (offs_eq c Hne).
  destruct (segs_ok c Hne) as [_ [Hls _]].
  rewrite (split_mids c (lst_of c) (mids_of c) (fst (cut c)) (ls_of c) [lst_of c]);
    [|exact (c_split c Hne)|exact Hls|exact (mids_sc c Hne)|reflexivity|right; now exists []].
  pose proof (c_split c Hne) as Hc.
  unfold nals_of. destruct (snd (cut c)) eqn:E; [congruence|]. rewrite <- E. fold (mids_of c) (ls_of c). f_equal.
  set (k := lst_of c). rewrite Hc at 1. unfold k, lst_of.
  rewrite app_assoc, <- app_length.
  apply split_last. now apply seg_len.
Qed.

Lemma offs_nil c : snd (cut c) = [] -> get_offsets c = [].
Proof. intros H. rewrite get_offsets_cut, H. reflexivity. Qed.

Lemma offs_not_nil c : snd (cut c) <> [] -> get_offsets c <> [].
Proof. intros H. rewrite (offs_eq c H). intros E. apply app_eq_nil in E. destruct E; discriminate. Qed.

Lemma split_whole_cut data : split_whole data = nals_of (snd (cut data)).
Proof.
  unfold split_whole. destruct (snd (cut data)) eqn:E.
  - rewrite (offs_nil data E). reflexivity.
  - rewrite <- E. apply split_final. congruence.
Qed.

(* ---------------- the whole input after one chunk ---------------- *)
Lemma cut_concat_segs mids : forall Z, Forall seg_ok mids -> starts001 Z = true ->
  snd (cut (concat mids ++ Z)) = mids ++ snd (cut Z).
Proof.
  induction mids as [|s ms IH]; intros Z Hm HZ; [reflexivity|].
  inversion Hm as [|s' ms' [Hs Hcs] Hms]; subst s' ms'.
  cbn [concat]. rewrite <- app_assoc.
  assert (HR : starts001 (concat ms ++ Z) = true).
  { apply starts001_concat; [|exact HZ]. eapply Forall_impl; [|exact Hms]. intros x [Hx _]. exact Hx. }
  rewrite (cut_app_at_sc s _ HR), Hcs. cbn [snd app]. f_equal. now apply IH.
Qed.

Lemma whole_step c rest : snd (cut c) <> [] ->
  split_whole (c ++ rest) = map nalmid (mids_of c) ++ split_whole (ls_of c ++ rest).
Proof.
  intros Hne. rewrite !split_whole_cut.
  destruct (segs_ok c Hne) as [Hm [Hls _]].
  pose proof (c_split c Hne) as Hc.
  assert (HZ : starts001 (ls_of c ++ rest) = true) by now apply starts001_app.
  assert (HY : starts001 (concat (mids_of c) ++ ls_of c ++ rest) = true).
  { apply starts001_concat; [exact (mids_sc c Hne)|exact HZ]. }
  assert (E : snd (cut (c ++ rest)) = mids_of c ++ snd (cut (ls_of c ++ rest))).
  { rewrite Hc at 1. rewrite <- !app_assoc. rewrite (cut_app_at_sc _ _ HY). cbn [snd].
    rewrite cut_fst_clean. cbn [snd app]. now apply cut_concat_segs. }
  rewrite E. apply nals_of_app. exact (proj2 (starts001_true_cut _ HZ)).
Qed.

(* ---------------- the loop ---------------- *)
Lemma loop_eof_whole chunk acc : concat (loop_eof chunk acc) = concat acc ++ split_whole chunk.
Proof.
  unfold loop_eof. destruct chunk as [|a t]; [cbn; now rewrite app_nil_r|].
  set (c := a :: t). unfold split_whole. destruct (get_offsets c) eqn:E.
  - cbn. now rewrite app_nil_r.
  - rewrite concat_app. cbn [concat]. now rewrite app_nil_r.
Qed.

Lemma loop_invariant cs (Hcs : 1 <= cs) : forall reads chunk acc,
  schedule_ok cs reads ->
  concat (hevc_loop cs reads chunk acc) = concat acc ++ split_whole (chunk ++ concat reads).
Proof.
  induction reads as [|r rs IH]; intros chunk acc Hok.
  - cbn [hevc_loop concat]. rewrite app_nil_r. apply loop_eof_whole.
  - cbn [hevc_loop]. destruct Hok as [Hshort Hok]. cbn [concat].
    destruct (Nat.eqb (List.length r) 0 && is_nil chunk) eqn:E0.
    + apply andb_prop in E0. destruct E0 as [Hr Hc]. apply Nat.eqb_eq in Hr.
      destruct chunk; [|discriminate]. destruct r; [|discriminate].
      rewrite Hshort by (cbn; lia). cbn. now rewrite app_nil_r.
    + rewrite app_assoc. set (c := chunk ++ r).
      destruct (get_offsets c) as [|o offs] eqn:Eo.
      * (* no complete start code yet *)
        destruct (Nat.eqb (List.length r) 0) eqn:Er.
        -- apply Nat.eqb_eq in Er. rewrite Hshort by lia. rewrite app_nil_r.
           unfold split_whole. rewrite Eo. cbn. now rewrite app_nil_r.
        -- apply IH. exact Hok.
      * assert (Hne : snd (cut c) <> []).
        { intros H. apply offs_nil in H. congruence. }
        rewrite <- Eo.
        destruct (Nat.ltb (List.length r) cs) eqn:El.
        -- (* short read: the end of the input *)
           apply Nat.ltb_lt in El. rewrite (IH [] _ Hok). rewrite Hshort by exact El.
           rewrite concat_app. cbn [concat app]. rewrite (app_nil_r c), app_nil_r.
           change (split_whole []) with (@nil (list N)). rewrite app_nil_r. reflexivity.
        -- rewrite (IH _ _ Hok). rewrite concat_app. cbn [concat]. rewrite app_nil_r, <- app_assoc. f_equal.
           rewrite (split_full c Hne), (carry_is_last c Hne). symmetry. now apply whole_step.
Qed.

(* THE CHUNK INVARIANCE OF THE ANNEX B READER (C05, C06, C07, C18): for every chunk size and every
   way the input is delivered in reads (a read shorter than the chunk size only at the end), the
   NALs handed to the command, batch after batch, are the NALs of the input split in one piece *)
Theorem parse_nalus_chunk_invariant cs reads :
  1 <= cs -> schedule_ok cs reads ->
  concat (parse_nalus cs reads) = split_whole (concat reads).
Proof. intros Hcs Hok. unfold parse_nalus. now rewrite (loop_invariant cs Hcs reads [] [] Hok). Qed.

(* ---------------- a file read in full chunks ---------------- *)
Lemma file_reads_concat cs : 1 <= cs -> forall fuel l, List.length l <= fuel -> concat (file_reads fuel cs l) = l.
Proof.
  intros Hcs. induction fuel as [|f IH]; intros l Hl.
  - destruct l; [reflexivity|cbn in Hl; lia].
  - cbn [file_reads]. destruct l as [|a t] eqn:E; [reflexivity|]. rewrite <- E in *.
    cbn [concat]. rewrite IH; [apply firstn_skipn|].
    rewrite skipn_length. assert (1 <= List.length l) by (rewrite E; cbn; lia). lia.
Qed.

Lemma file_reads_schedule cs : 1 <= cs -> forall fuel l, List.length l <= fuel -> schedule_ok cs (file_reads fuel cs l).
Proof.
  intros Hcs. induction fuel as [|f IH]; intros l Hl; [exact I|].
  cbn [file_reads]. destruct l as [|a t] eqn:E; [exact I|]. rewrite <- E in *.
  assert (Hlen : 1 <= List.length l) by (rewrite E; cbn; lia).
  assert (Hf : List.length (skipn cs l) <= f) by (rewrite skipn_length; lia).
  split; [|now apply IH].
  intros Hshort. rewrite firstn_length in Hshort.
  rewrite (file_reads_concat cs Hcs f _ Hf). apply skipn_all2. lia.
Qed.

(* for a file: every chunk size gives the NALs of the file *)
Theorem read_file_chunk_invariant cs file :
  1 <= cs -> concat (parse_nalus cs (read_file cs file)) = split_whole file.
Proof.
  intros Hcs. unfold read_file.
  rewrite parse_nalus_chunk_invariant; [|exact Hcs|now apply file_reads_schedule].
  now rewrite file_reads_concat.
Qed.

Corollary chunk_size_irrelevant cs1 cs2 file : 1 <= cs1 -> 1 <= cs2 ->
  concat (parse_nalus cs1 (read_file cs1 file)) = concat (parse_nalus cs2 (read_file cs2 file)).
Proof. intros H1 H2. now rewrite !read_file_chunk_invariant. Qed.

(* the hypothesis on the reads is needed: a short read in the middle of the input is taken for its end
   (this is what a reader buffer smaller than the request produces) *)
Example short_read_in_the_middle :
  let file := [0;0;1;64;1;7;7;7;7; 0;0;1;66;1;9]%N in
  concat (parse_nalus 8 [firstn 6 file; skipn 6 file]) <> split_whole file
  /\ concat (parse_nalus 8 (read_file 8 file)) = split_whole file.
Proof. cbv. split; [discriminate|reflexivity]. Qed.

(* a start code cut by the chunk boundary, a 4-byte start code (its first zero is not given to the
   NAL before it), trailing zeros of the last NAL kept, garbage before the first start code *)
Example straddling_start_code :
  let file := [9;9; 0;0;1;64;1;7;7;0; 0;0;1;66;1;9; 0;0;0;1;78;1;5;0;0]%N in
  split_whole file = [[64;1;7;7]; [66;1;9]; [78;1;5;0;0]]%N
  /\ forallb (fun cs => if list_eq_dec (list_eq_dec N.eq_dec)
                             (concat (parse_nalus cs (read_file cs file))) (split_whole file)
                        then true else false) (seq 1 30) = true.
Proof. split; vm_compute; reflexivity. Qed.

(* ---------------- piped stdin: any fragmentation of the input gives an admissible read schedule ---------------- *)
Lemma eof_sticky_concat_nil frags : eof_sticky frags -> forall f t, frags = f :: t -> f = [] -> concat t = [].
Proof. intros H f t -> Hf. destruct H as [H _]. exact (H Hf). Qed.

Lemma stdin_inner_spec cs : forall frags acc piece rest,
  eof_sticky frags -> stdin_inner cs acc frags = (piece, rest) ->
  acc ++ concat frags = piece ++ concat rest /\ eof_sticky rest /\
  (List.length rest <= List.length frags) /\
  (List.length piece < cs -> concat rest = []) /\ (acc <> [] -> piece <> []).
Proof.
  induction frags as [|f t IH]; intros acc piece rest Hs H; cbn [stdin_inner] in H.
  - inversion H; subst. cbn. rewrite app_nil_r. repeat split; auto.
  - destruct Hs as [Hf Ht].
    destruct (Nat.eqb (List.length f) 0) eqn:E0.
    + apply Nat.eqb_eq in E0. apply length_zero_iff_nil in E0. subst f. inversion H; subst.
      cbn [concat app]. repeat split; auto. cbn. lia.
    + destruct (Nat.leb cs (List.length (acc ++ f))) eqn:El.
      * inversion H; subst. cbn [concat]. rewrite app_assoc. repeat split; auto; [cbn; lia| |].
        -- apply Nat.leb_le in El. intros Hlt. lia.
        -- intros _ Hnil. apply app_eq_nil in Hnil as [_ Hn]. subst f. discriminate.
      * destruct (IH (acc ++ f) piece rest Ht H) as (H1 & H2 & H3 & H4 & H5).
        cbn [concat]. rewrite app_assoc. repeat split; auto; [cbn; lia|].
        intros _. apply H5. intros Hnil. apply app_eq_nil in Hnil as [_ Hn]. subst f. discriminate.
Qed.

Lemma stdin_pieces_spec cs : forall fuel frags,
  eof_sticky frags -> List.length frags <= fuel ->
  concat (stdin_pieces fuel cs frags) = concat frags /\ schedule_ok cs (stdin_pieces fuel cs frags).
Proof.
  induction fuel as [|fu IH]; intros frags Hs Hl.
  - destruct frags; [split; [reflexivity|exact I]|cbn in Hl; lia].
  - destruct frags as [|f t]; [split; [reflexivity|exact I]|].
    cbn [stdin_pieces]. destruct (stdin_inner cs f t) as [piece rest] eqn:E.
    destruct Hs as [Hf Ht].
    destruct (stdin_inner_spec cs t f piece rest Ht E) as (H1 & H2 & H3 & H4 & _).
    destruct (IH rest H2) as [Hc Hok]; [cbn in Hl; lia|].
    split.
    + change (concat (piece :: stdin_pieces fu cs rest)) with (piece ++ concat (stdin_pieces fu cs rest)).
      rewrite Hc. change (concat (f :: t)) with (f ++ concat t). symmetry. exact H1.
    + split; [|exact Hok]. intros Hlt. rewrite Hc. apply H4. exact Hlt.
Qed.

(* PIPED INPUT: however the pipe fragments the stream, the reader hands over the NALs of the whole stream *)
Theorem read_stdin_chunk_invariant cs frags :
  1 <= cs -> eof_sticky frags ->
  concat (parse_nalus cs (read_stdin cs frags)) = split_whole (concat frags).
Proof.
  intros Hcs Hs. unfold read_stdin.
  destruct (stdin_pieces_spec cs (List.length frags) frags Hs (le_n _)) as [Hc Hok].
  rewrite parse_nalus_chunk_invariant by assumption. now rewrite Hc.
Qed.

(* file and pipe agree, whatever the fragmentation *)
Corollary file_and_pipe_agree cs1 cs2 frags : 1 <= cs1 -> 1 <= cs2 -> eof_sticky frags ->
  concat (parse_nalus cs1 (read_stdin cs1 frags)) = concat (parse_nalus cs2 (read_file cs2 (concat frags))).
Proof. intros H1 H2 Hs. now rewrite read_stdin_chunk_invariant, read_file_chunk_invariant. Qed.

(* the pipe treated as a file (no accumulation: one fragment per iteration) loses data as soon as a fragment is
   shorter than the chunk size *)
Example pipe_read_as_file_breaks :
  let file := [0;0;1;64;1;7;7;7;7; 0;0;1;66;1;9]%N in
  let frags := [firstn 6 file; skipn 6 file; []] in
  eof_sticky frags /\
  concat (parse_nalus 8 frags) <> split_whole file /\
  concat (parse_nalus 8 (read_stdin 8 frags)) = split_whole file.
Proof. cbv. repeat split; try discriminate; intros; discriminate. Qed.
