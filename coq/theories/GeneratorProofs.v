(* Facts about the generator model (Generator.v): frame accounting, L1 clamping, scene cuts. *)
From Coq Require Import List NArith ZArith Lia Bool String.
From DV Require Import Outcome Bits BitIO Fields Blocks Rpu Ops Editor Generator.
From DVgen Require Import Consts_gen.
Import ListNotations.
Open Scope N_scope.
Local Open Scope out_scope.

(* ---------------- L1 clamping ---------------- *)
Lemma zclamp_range v lo hi : (lo <= hi)%Z -> (lo <= zclamp v lo hi <= hi)%Z.
Proof. unfold zclamp. lia. Qed.

Lemma zclamp_id v lo hi : (lo <= v <= hi)%Z -> zclamp v lo hi = v.
Proof. unfold zclamp. lia. Qed.

(* a clamped L1 block lies in the legal ranges: min <= 12, 2081 <= max <= 4095, avg_min <= avg < max *)
Lemma clamp_l1_legal v40 ln mn mx av fl :
  exists mn' mx' av', clamp_l1 v40 (mkBlk 1 ln [mn; mx; av] fl) = mkBlk 1 ln [mn'; mx'; av'] fl /\
    (0 <= mn' <= 12)%Z /\ (2081 <= mx' <= 4095)%Z /\
    ((if v40 then 1229 else 819) <= av' < mx')%Z.
Proof.
  unfold clamp_l1. cbn [blevel bvals blen bflag N.eqb Pos.eqb].
  eexists _, _, _. split; [reflexivity|].
  assert (Hmx : (2081 <= zclamp mx (Z.of_N l1_max_pq_min) (Z.of_N l1_max_pq_max) <= 4095)%Z).
  { apply zclamp_range. vm_compute. discriminate. }
  split; [apply zclamp_range; vm_compute; discriminate|]. split; [exact Hmx|].
  assert (Hlo : (Z.of_N (if v40 then l1_avg_pq_min_cmv40 else l1_avg_pq_min) = if v40 then 1229 else 819)%Z)
    by (destruct v40; reflexivity).
  rewrite Hlo. remember (zclamp mx (Z.of_N l1_max_pq_min) (Z.of_N l1_max_pq_max)) as M.
  unfold zclamp. destruct v40; lia.
Qed.

(* values already legal are left alone *)
Lemma clamp_l1_legal_id (v40 : bool) (ln : N) (mn mx av : Z) (fl : bool) :
  (0 <= mn <= 12)%Z -> (2081 <= mx <= 4095)%Z -> ((if v40 then 1229 else 819) <= av < mx)%Z ->
  clamp_l1 v40 (mkBlk 1 ln [mn; mx; av] fl) = mkBlk 1 ln [mn; mx; av] fl.
Proof.
  intros H1 H2 H3. unfold clamp_l1. cbn [blevel bvals blen bflag N.eqb Pos.eqb].
  rewrite (zclamp_id mn), (zclamp_id mx); try (vm_compute (Z.of_N _); lia).
  rewrite zclamp_id; [reflexivity|].
  destruct v40; vm_compute (Z.of_N _); lia.
Qed.

Lemma clamp_l1_other v40 b : blevel b <> 1 -> clamp_l1 v40 b = b.
Proof. unfold clamp_l1. intros H. apply N.eqb_neq in H. rewrite H. reflexivity. Qed.

(* ---------------- frame accounting ---------------- *)
Lemma shot_frames_length long s : forall fuel i x l,
  shot_frames long s fuel i x = Ok l -> List.length l = fuel.
Proof.
  induction fuel as [|f IH]; intros i x l H; cbn [shot_frames] in H.
  - inversion H. reflexivity.
  - destruct (match rdm x with Some d => _ | None => Ok x end) as [fr| |e]; cbn [bind] in H; try discriminate.
    destruct (shot_frames long s f (i + 1) x) as [rest| |e] eqn:Hr; cbn [bind] in H; try discriminate.
    inversion H; subst. cbn. f_equal. eauto.
Qed.

Fixpoint total_frames (shots : list gshot) : nat :=
  match shots with [] => O | s :: t => (N.to_nat (s_dur s) + total_frames t)%nat end.

Lemma all_frames_length long : forall shots x l,
  all_frames long shots x = Ok l -> List.length l = total_frames shots.
Proof.
  induction shots as [|s t IH]; intros x l H; cbn [all_frames] in H.
  - inversion H. reflexivity.
  - destruct (shot_frames long s (N.to_nat (s_dur s)) 0 x) as [a| |e] eqn:Ha; cbn [bind] in H; try discriminate.
    destruct (all_frames long t x) as [b| |e] eqn:Hb; cbn [bind] in H; try discriminate.
    inversion H; subst. rewrite app_length. cbn [total_frames].
    apply shot_frames_length in Ha. rewrite Ha. f_equal. eauto.
Qed.

Lemma sum_dur_total shots : forall acc, N.to_nat (fold_left (fun a s => a + s_dur s) shots acc) = (N.to_nat acc + total_frames shots)%nat.
Proof. induction shots as [|s t IH]; intros acc; cbn [fold_left total_frames]; [lia|]. rewrite IH. lia. Qed.

(* generation writes exactly `length` RPUs, the sum of the shot durations *)
Theorem generate_list_length c base l :
  generate_list c base = Ok l -> List.length l = N.to_nat (g_length c) /\ g_length c = sum_dur (g_shots c).
Proof.
  unfold generate_list. intros H.
  destruct (match rdm base with Some d => _ | None => Ok base end) as [x| |e]; cbn [bind] in H; try discriminate.
  destruct (g_length c =? sum_dur (g_shots c)) eqn:E; cbn in H; try discriminate.
  apply N.eqb_eq in E. split; [|exact E].
  apply all_frames_length in H. rewrite H, E. unfold sum_dur. rewrite sum_dur_total. lia.
Qed.

Lemma encode_all_length p : forall l out, encode_all p l = Ok out -> List.length out = List.length l.
Proof.
  induction l as [|x t IH]; intros out H; cbn [encode_all] in H.
  - inversion H. reflexivity.
  - destruct (write_hevc_unspec62_nalu p src_sw x) as [e| |s]; cbn [bind] in H; try discriminate.
    destruct (encode_all p t) as [r| |s] eqn:Hr; cbn [bind] in H; try discriminate.
    inversion H; subst. cbn. f_equal. eauto.
Qed.

Theorem generate_count p c olong base out :
  generate p c olong base = Ok out ->
  exists c', cli_prepare c olong = Ok c' /\ List.length out = N.to_nat (g_length c') /\ g_length c' = sum_dur (g_shots c').
Proof.
  unfold generate. intros H.
  destruct (cli_prepare c olong) as [c'| |e]; cbn [bind] in H; try discriminate.
  destruct (generate_list c' base) as [l| |e] eqn:Hl; cbn [bind] in H; try discriminate.
  exists c'. split; auto. apply encode_all_length in H. apply generate_list_length in Hl. destruct Hl as [H1 H2].
  rewrite H, H1. auto.
Qed.

(* ---------------- scene cuts ---------------- *)
Lemma set_container_ids d v c : dm_ids (set_container d v c) = dm_ids d.
Proof. destruct v; reflexivity. Qed.

Lemma dm_remove_level_ids d l : dm_ids (dm_remove_level d l) = dm_ids d.
Proof. unfold dm_remove_level. destruct (container_of_level d l) as [[v c]|]; [apply set_container_ids|reflexivity]. Qed.

Lemma dm_add_block_ids d b d' : dm_add_block d b = Ok d' -> dm_ids d' = dm_ids d.
Proof.
  unfold dm_add_block. destruct (container_of_level d (blevel b)) as [[v c]|]; intros H.
  - destruct (c_add_block v c b) as [c'| |e]; cbn [bind] in H; try discriminate.
    inversion H. apply set_container_ids.
  - inversion H. reflexivity.
Qed.

Lemma dm_ids_replace_block d b d' : dm_replace_block d b = Ok d' -> dm_ids d' = dm_ids d.
Proof.
  unfold dm_replace_block. intros H. destruct (keyed_level (blevel b)).
  - destruct (container_of_level d (blevel b)) as [[v c]|]; try discriminate.
    inversion H. apply set_container_ids.
  - destruct (is_some (desc_of (blevel b))); try discriminate.
    unfold dm_replace_level in H. apply dm_add_block_ids in H. rewrite H. apply dm_remove_level_ids.
Qed.

Lemma dm_ids_replace_blocks bs : forall d d', dm_replace_blocks d bs = Ok d' -> dm_ids d' = dm_ids d.
Proof.
  induction bs as [|b t IH]; intros d d' H; cbn [dm_replace_blocks] in H.
  - inversion H. reflexivity.
  - destruct (dm_replace_block d b) as [d1| |e] eqn:E; cbn [bind] in H; try discriminate.
    rewrite (IH _ _ H). eapply dm_ids_replace_block; eauto.
Qed.

Definition scene_flag_dm (d : dmdata) : option N := nth_error (dm_ids d) 2.

(* the scene-cut flag of a generated frame: 1 on the first frame of its shot (every frame in
   long-play mode), otherwise what the base carries; block overrides never touch it *)
Theorem frame_dm_scene_flag long s i d d' a c f t :
  dm_ids d = a :: c :: f :: t ->
  frame_dm long s i d = Ok d' ->
  scene_flag_dm d' = Some (if (i =? 0) || long then 1 else f).
Proof.
  intros Hids H. unfold frame_dm in H.
  set (d0 := if (i =? 0) || long then set_scene_cut true d else d) in H.
  assert (H0 : dm_ids d0 = a :: c :: (if (i =? 0) || long then 1 else f) :: t).
  { unfold d0. destruct ((i =? 0) || long); [|exact Hids]. unfold set_scene_cut. cbn [dm_ids]. rewrite Hids. reflexivity. }
  destruct (dm_replace_blocks d0 (s_blocks s)) as [d1| |e] eqn:E1; cbn [bind] in H; try discriminate.
  apply dm_ids_replace_blocks in E1.
  assert (H1 : dm_ids d' = dm_ids d1).
  { destruct (find_edit (s_edits s) i) as [bs|]; [eapply dm_ids_replace_blocks; eauto|inversion H; reflexivity]. }
  unfold scene_flag_dm. rewrite H1, E1, H0. reflexivity.
Qed.
