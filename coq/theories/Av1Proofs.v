(* Proofs about the AV1 / EMDF model (C15). *)
From Coq Require Import List NArith ZArith Lia Bool.
From DV Require Import Outcome Bits BitIO Av1.
From DVgen Require Import Consts_gen.
Import ListNotations.
Open Scope N_scope.

Lemma write_n_ok tb n x w :
  n <= tb -> x < 2 ^ n -> write_n tb n x w = Ok (wput w (enc (N.to_nat n) x)).
Proof.
  intros Hn Hx. unfold write_n.
  replace (tb <? n) with false by (symmetry; apply N.ltb_ge; exact Hn).
  replace (2 ^ n <=? x) with false by (symmetry; apply N.leb_gt; exact Hx).
  rewrite andb_false_r. reflexivity.
Qed.

Lemma get_n_enc tb n x rest pos :
  n <= tb -> x < 2 ^ n ->
  get_n tb n (mkR (enc (N.to_nat n) x ++ rest) pos) = Ok (x, mkR rest (pos + n)).
Proof.
  intros Hn Hx. unfold get_n.
  replace (n <=? tb) with true by (symmetry; apply N.leb_le; exact Hn).
  cbn [rbits rpos].
  assert (Hl : length (enc (N.to_nat n) x) = N.to_nat n) by apply enc_length.
  rewrite <- Hl at 1. rewrite take_app.
  rewrite enc_val_small by (rewrite N2Nat.id; exact Hx). reflexivity.
Qed.

Lemma get_cons b rest pos : get (mkR (b :: rest) pos) = Ok (b, mkR rest (pos + 1)).
Proof. reflexivity. Qed.

Lemma write_n_wbits tb n x w w' :
  write_n tb n x w = Ok w' -> wbits w' = wbits w ++ enc (N.to_nat n) x.
Proof.
  unfold write_n. destruct (tb <? n); [discriminate|].
  destruct ((n <? tb) && (2 ^ n <=? x)); [discriminate|].
  intros H. inversion H. apply wbits_wput.
Qed.

(* ---- variable_bits(n): one- and two-group forms ---- *)
Section VarBits.
  Context (n : N) (Hn1 : 1 <= n) (Hn32 : n <= 32) (Hpp : 2 ^ n + 2 ^ n * 2 ^ n < two32).
  Context (Hfix : vb_write_cmp_is_ge = true).

  Let p := 2 ^ n.

  Lemma p_pos : 0 < p.
  Proof. unfold p. apply N.neq_0_lt_0. apply N.pow_nonzero. lia. Qed.

  (* every value below 2^n + 2^(2n) is encodable: at most two groups *)
  Lemma write_variable_bits_total v w :
    v < p + p * p -> exists w', write_variable_bits v n w = Ok w'.
  Proof.
    intros Hv. pose proof p_pos as Hp. unfold write_variable_bits. rewrite Hfix. fold p.
    destruct (p <=? v) eqn:E.
    - apply N.leb_le in E.
      assert (Hq : v / p <= p).
      { apply N.lt_succ_r. apply N.div_lt_upper_bound; lia. }
      assert (Hq1 : 1 <= v / p).
      { apply N.div_le_lower_bound; lia. }
      pose proof (N.div_mod v p ltac:(lia)) as Hdm.
      pose proof (N.mod_lt v p ltac:(lia)) as Hml.
      assert (Hbyte : (v / p * p - p) / p = v / p - 1).
      { replace (v / p * p - p) with ((v / p - 1) * p) by nia. apply N.div_mul. lia. }
      rewrite Hbyte.
      rewrite write_n_ok by (fold p; lia). cbn [bind write_bit].
      replace (v - v / p * p) with (v mod p) by lia.
      rewrite write_n_ok by (fold p; lia). cbn [bind]. unfold write_bit. eauto.
    - apply N.leb_gt in E. rewrite write_n_ok by (fold p; lia). cbn [bind]. unfold write_bit. eauto.
  Qed.

  Lemma pvb_step f value r :
    parse_variable_bits_loop (S f) n value r =
    bind (get_n 32 n r) (fun '(tmp, r1) =>
      let v1 := value + tmp in
      if two32 <=? v1 then Err
      else
        bind (get r1) (fun '(more, r2) =>
        if negb more then Ok (v1, r2)
        else parse_variable_bits_loop f n (v1 * 2 ^ n + 2 ^ n) r2)).
  Proof. reflexivity. Qed.

  Lemma pvb_last f value x rest pos :
    x < p -> value + x < two32 ->
    parse_variable_bits_loop (S f) n value (mkR (enc (N.to_nat n) x ++ false :: rest) pos)
    = Ok (value + x, mkR rest (pos + n + 1)).
  Proof.
    intros Hx Hs. rewrite pvb_step. rewrite get_n_enc by (fold p; lia). cbn [bind].
    cbv zeta. replace (two32 <=? value + x) with false by (symmetry; apply N.leb_gt; lia).
    rewrite get_cons. cbn [bind negb]. reflexivity.
  Qed.

  Lemma pvb_more f value x rest pos :
    x < p -> value + x < two32 ->
    parse_variable_bits_loop (S f) n value (mkR (enc (N.to_nat n) x ++ true :: rest) pos)
    = parse_variable_bits_loop f n ((value + x) * p + p) (mkR rest (pos + n + 1)).
  Proof.
    intros Hx Hs. rewrite pvb_step. rewrite get_n_enc by (fold p; lia). cbn [bind].
    cbv zeta. replace (two32 <=? value + x) with false by (symmetry; apply N.leb_gt; lia).
    rewrite get_cons. cbn [bind negb]. fold p. reflexivity.
  Qed.

  Theorem variable_bits_roundtrip v w w' rest :
    v < p + p * p ->
    write_variable_bits v n w = Ok w' ->
    exists bs, wbits w' = wbits w ++ bs /\
      forall prof pos,
        parse_variable_bits prof n (mkR (bs ++ rest) pos)
        = Ok (v, mkR rest (pos + N.of_nat (length bs))).
  Proof.
    intros Hv H. pose proof p_pos as Hp. unfold write_variable_bits in H. rewrite Hfix in H.
    fold p in H.
    destruct (p <=? v) eqn:E.
    - apply N.leb_le in E.
      assert (Hq : v / p <= p).
      { apply N.lt_succ_r. apply N.div_lt_upper_bound; lia. }
      assert (Hq1 : 1 <= v / p).
      { apply N.div_le_lower_bound; lia. }
      pose proof (N.div_mod v p ltac:(lia)) as Hdm.
      pose proof (N.mod_lt v p ltac:(lia)) as Hml.
      assert (Hbyte : (v / p * p - p) / p = v / p - 1).
      { replace (v / p * p - p) with ((v / p - 1) * p) by nia. apply N.div_mul. lia. }
      rewrite Hbyte in H.
      rewrite write_n_ok in H by (fold p; lia). cbn [bind write_bit] in H.
      replace (v - v / p * p) with (v mod p) in H by lia.
      rewrite write_n_ok in H by (fold p; lia). cbn [bind] in H.
      inversion H; subst w'. clear H.
      set (g1 := enc (N.to_nat n) (v / p - 1)).
      set (g2 := enc (N.to_nat n) (v mod p)).
      exists (g1 ++ [true] ++ g2 ++ [false]). split.
      { rewrite !wbits_wput. rewrite <- !app_assoc. reflexivity. }
      intros prof pos. unfold parse_variable_bits. cbn [rbits].
      assert (Hl1 : length g1 = N.to_nat n) by apply enc_length.
      assert (Hl2 : length g2 = N.to_nat n) by apply enc_length.
      remember (length ((g1 ++ [true] ++ g2 ++ [false]) ++ rest)) as fuel0 eqn:Hf.
      assert (Hfuel : (2 <= fuel0)%nat).
      { subst fuel0. rewrite !app_length. cbn [length]. lia. }
      destruct fuel0 as [|[|f]]; try lia.
      rewrite <- !app_assoc. cbn [app]. unfold g1, g2.
      fold p in Hpp.
      rewrite pvb_more by nia.
      replace ((0 + (v / p - 1)) * p + p) with (v / p * p) by nia.
      assert (Hs : v / p * p + v mod p < two32) by lia.
      rewrite (pvb_last _ _ _ _ _ Hml Hs).
      replace (v / p * p + v mod p) with v by lia.
      f_equal. f_equal. f_equal.
      rewrite !app_length. cbn [length]. rewrite !app_length. cbn [length].
      rewrite !enc_length. lia.
    - apply N.leb_gt in E.
      rewrite write_n_ok in H by (fold p; lia). cbn [bind write_bit] in H.
      inversion H; subst w'. clear H.
      exists (enc (N.to_nat n) v ++ [false]). split.
      { rewrite !wbits_wput. rewrite <- !app_assoc. reflexivity. }
      intros prof pos. unfold parse_variable_bits. cbn [rbits].
      rewrite <- !app_assoc. cbn [app].
      fold p in Hpp.
      rewrite pvb_last by lia.
      f_equal. f_equal. f_equal.
      rewrite app_length. cbn [length]. rewrite enc_length. lia.
  Qed.
End VarBits.
