(* Outcome monad shared by every model function: the code either returns a value,
   returns an error (anyhow::Error / io::Error), or panics at a numbered site. *)
From Coq Require Import NArith List.
Import ListNotations.

Inductive outcome (A : Type) : Type :=
| Ok (a : A)
| Err
| Panic (site : N).
Arguments Ok {A} a.
Arguments Err {A}.
Arguments Panic {A} site.

(* build profile: integer overflow panics in Debug and wraps in Release *)
Inductive profile := Debug | Release.

Definition bind {A B} (x : outcome A) (f : A -> outcome B) : outcome B :=
  match x with
  | Ok a => f a
  | Err => Err
  | Panic s => Panic s
  end.

Definition omap {A B} (f : A -> B) (x : outcome A) : outcome B :=
  bind x (fun a => Ok (f a)).

Definition ensure (b : bool) : outcome unit := if b then Ok tt else Err.

Definition is_ok {A} (x : outcome A) : bool :=
  match x with Ok _ => true | _ => false end.
Definition is_panic {A} (x : outcome A) : bool :=
  match x with Panic _ => true | _ => false end.

Declare Scope out_scope.
Delimit Scope out_scope with out.
Notation "'let*' x ':=' c1 'in' c2" := (bind c1 (fun x => c2))
  (at level 61, x pattern, c1 at next level, right associativity) : out_scope.
Notation "'let*' ' x ':=' c1 'in' c2" := (bind c1 (fun x => c2))
  (at level 61, x pattern, c1 at next level, right associativity) : out_scope.

(* panic sites, numbered; the table mapping numbers to source locations is in PanicSites.v *)
Definition site_ue_shift : N := 1.        (* bitvec_helpers get_ue: 1 << 64 (Debug) *)
Definition site_se_neg : N := 2.          (* bitvec_helpers get_se: -(i64::MIN) (Debug) *)
Definition site_mapping_idc : N := 3.     (* rpu_data_mapping.rs From<u64> unreachable!() *)
Definition site_linear_interp : N := 4.   (* rpu_data_mapping.rs unimplemented!() parse *)
Definition site_block_len : N := 5.       (* level8/9/10 required_bits unreachable!() *)
Definition site_alloc : N := 6.           (* allocation sized by a stream field *)
Definition site_rpu_end : N := 7.         (* dovi_rpu.rs rpu_end - 1 / - 5 / inverted slice *)
Definition site_write_index : N := 8.     (* rpu_data_mapping.rs write: index out of bounds *)
Definition site_write_interp : N := 9.    (* rpu_data_mapping.rs write: unimplemented!() *)
Definition site_ue_write : N := 10.       (* write_ue: v + 1 overflow *)
Definition site_se_write : N := 11.       (* signed_to_unsigned overflow *)
Definition site_st2094_slice : N := 12.   (* st2094_10 &data[..7] *)
Definition site_arith : N := 13.          (* other arithmetic overflow in Debug *)

Lemma bind_ok_inv {A B} (x : outcome A) (f : A -> outcome B) b :
  bind x f = Ok b -> exists a, x = Ok a /\ f a = Ok b.
Proof. destruct x; simpl; intros H; try discriminate. eauto. Qed.

Lemma ensure_ok_inv b : ensure b = Ok tt -> b = true.
Proof. destruct b; simpl; congruence. Qed.
