(* Generic interpreter for the regenerated field programs (DVgen.Blocks_gen / DmData_gen):
   dec_fields mirrors a sequence of reader.get_n / get_ue calls, enc_fields the matching
   writer.write_n / write_signed_n / write_ue calls, both possibly under `if length > k`. *)
From Coq Require Import List NArith ZArith Lia Bool String.
From DV Require Import Outcome Bits BitIO.
From DVgen Require Import Blocks_gen.
Import ListNotations.
Open Scope N_scope.
Local Open Scope out_scope.

(* two's complement interpretation of a w-bit raw value (`as i16` after get_n::<u16>(16), and the
   L2 ms_weight idiom `if v > 4095 { v -= 8192 }` for w = 13) *)
Definition twos (w : N) (raw : N) : Z :=
  if w =? 0 then Z.of_N raw
  else if raw <? 2 ^ (w - 1) then Z.of_N raw else (Z.of_N raw - 2 ^ Z.of_N w)%Z.

Definition present (f : fld) (len : N) : bool := (f_gt f =? 0) || (f_gt f <? len).

Definition dec_field (p : profile) (f : fld) (len : N) (r : reader) : outcome (Z * reader) :=
  if present f len then
    match f_k f with
    | FU => let* '(v, r') := get_n (f_tb f) (f_w f) r in Ok (Z.of_N v, r')
    | FS => let* '(v, r') := get_n (f_tb f) (f_w f) r in Ok (twos (f_w f) v, r')
    | FUE => let* '(v, r') := get_ue p r in Ok (Z.of_N v, r')
    end
  else Ok (f_def f, r).

Fixpoint dec_fields (p : profile) (prog : list fld) (len : N) (r : reader)
  : outcome (list Z * reader) :=
  match prog with
  | [] => Ok ([], r)
  | f :: t =>
      let* '(v, r1) := dec_field p f len r in
      let* '(vs, r2) := dec_fields p t len r1 in
      Ok (v :: vs, r2)
  end.

Definition enc_field (p : profile) (f : fld) (len : N) (v : Z) (w : writer) : outcome writer :=
  if present f len then
    match f_k f with
    | FU => write_n (f_tb f) (f_w f) (Z.to_N v) w
    | FS => write_signed_n (f_tb f) (f_w f) v w
    | FUE => write_ue p (Z.to_N v) w
    end
  else Ok w.

Fixpoint enc_fields (p : profile) (prog : list fld) (len : N) (vs : list Z) (w : writer)
  : outcome writer :=
  match prog, vs with
  | [], _ => Ok w
  | f :: t, v :: vt =>
      let* w1 := enc_field p f len v w in
      enc_fields p t len vt w1
  | _ :: _, [] => Err
  end.

(* values by field name *)
Fixpoint index_of (name : string) (prog : list fld) (i : nat) : option nat :=
  match prog with
  | [] => None
  | f :: t => if String.eqb (f_name f) name then Some i else index_of name t (S i)
  end.

Definition field_val (prog : list fld) (vs : list Z) (name : string) : option Z :=
  match index_of name prog 0 with
  | Some i => nth_error vs i
  | None => None
  end.

Fixpoint set_nth (i : nat) (v : Z) (l : list Z) : list Z :=
  match l, i with
  | [], _ => []
  | _ :: t, O => v :: t
  | x :: t, S k => x :: set_nth k v t
  end.

Definition set_field (prog : list fld) (vs : list Z) (name : string) (v : Z) : list Z :=
  match index_of name prog 0 with
  | Some i => set_nth i v vs
  | None => vs
  end.

(* validate() clauses *)
Definition vcond_holds (c : vcond) (len : N) : bool :=
  match c with
  | VAlways => true
  | VLenGt k => k <? len
  | VLenLe k => len <=? k
  end.

Definition vcmp_holds (c : vcmp) (x k : Z) : bool :=
  match c with
  | VLe => (x <=? k)%Z
  | VGe => (k <=? x)%Z
  | VGt => (k <? x)%Z
  | VEq => (x =? k)%Z
  | VNe => negb (x =? k)%Z
  | VNotIn l => negb (existsb (Z.eqb x) l)
  end.

Definition clause_holds (prog : list fld) (len : N) (vs : list Z) (c : vclause) : bool :=
  if vcond_holds (v_cond c) len then
    match field_val prog vs (v_field c) with
    | Some x => vcmp_holds (v_cmp c) x (v_val c)
    | None => false
    end
  else true.

Definition validate_clauses (prog : list fld) (len : N) (vs : list Z) (cl : list vclause) : bool :=
  forallb (clause_holds prog len vs) cl.

(* value within the Rust type of its field *)
Definition in_type (f : fld) (v : Z) : bool :=
  match f_k f with
  | FS => (- 2 ^ (Z.of_N (f_tb f) - 1) <=? v)%Z && (v <? 2 ^ (Z.of_N (f_tb f) - 1))%Z
  | _ => (0 <=? v)%Z && (v <? 2 ^ Z.of_N (f_tb f))%Z
  end.

Fixpoint all_in_type (prog : list fld) (vs : list Z) : bool :=
  match prog, vs with
  | [], [] => true
  | f :: t, v :: vt => in_type f v && all_in_type t vt
  | _, _ => false
  end.

(* decidable equality of field programs (parse side = write side) *)
Definition fk_eqb (a b : fk) : bool :=
  match a, b with FU, FU | FS, FS | FUE, FUE => true | _, _ => false end.
Definition fld_eqb (a b : fld) : bool :=
  String.eqb (f_name a) (f_name b) && (f_w a =? f_w b) && (f_tb a =? f_tb b) &&
  fk_eqb (f_k a) (f_k b) && (f_gt a =? f_gt b) && (f_def a =? f_def b)%Z.
Fixpoint prog_eqb (a b : list fld) : bool :=
  match a, b with
  | [], [] => true
  | x :: a', y :: b' => fld_eqb x y && prog_eqb a' b'
  | _, _ => false
  end.

(* a field program is well formed when widths fit the types and signed fields have a sign bit *)
Definition fld_wf (f : fld) : bool :=
  match f_k f with
  | FU => (f_w f <=? f_tb f) && (1 <=? f_w f)
  | FS => (f_w f <=? f_tb f) && (2 <=? f_w f)
  | FUE => true
  end.
