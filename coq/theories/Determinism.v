(* C17: iteration-order independence of the sites that iterate a hashed container. *)
From Coq Require Import List NArith ZArith Lia Bool String Sorting.Permutation.
From DV Require Import Outcome SortUnique Bits BitIO Fields Blocks Rpu Ops.
From DVgen Require Import Iter_gen.
Import ListNotations.
Open Scope N_scope.

Definition blk_le (a b : block) : bool := key_le (sort_key a) (sort_key b).

(* sort_blocks is the insertion sort of SortUnique with the block key order (convertible) *)
Lemma sort_blocks_isort l : sort_blocks l = isort blk_le l.
Proof. reflexivity. Qed.

Lemma key_le_total' a b : key_le a b = false -> key_le b a = true.
Proof.
  unfold key_le. destruct a as [a1 a2], b as [b1 b2]. cbn [fst snd]. intros H.
  apply orb_false_iff in H as [H1 H2]. apply N.ltb_ge in H1.
  destruct (N.eq_dec a1 b1) as [->|Hne].
  - rewrite N.eqb_refl in H2. cbn [andb] in H2. apply Z.leb_gt in H2.
    rewrite N.ltb_irrefl, N.eqb_refl. cbn. apply Z.leb_le. lia.
  - replace (b1 <? a1) with true by (symmetry; apply N.ltb_lt; lia). reflexivity.
Qed.

Lemma key_le_spec a b : key_le a b = true <-> (fst a < fst b \/ (fst a = fst b /\ (snd a <= snd b)%Z)).
Proof.
  unfold key_le. rewrite orb_true_iff, andb_true_iff, N.ltb_lt, N.eqb_eq, Z.leb_le. tauto.
Qed.

Lemma key_le_trans a b c : key_le a b = true -> key_le b c = true -> key_le a c = true.
Proof. rewrite !key_le_spec. intros [H1|[H1 H1']] [H2|[H2 H2']]; lia. Qed.

Lemma key_le_antisym a b : key_le a b = true -> key_le b a = true -> a = b.
Proof.
  rewrite !key_le_spec. destruct a as [a1 a2], b as [b1 b2]. cbn [fst snd].
  intros [H1|[H1 H1']] [H2|[H2 H2']]; try lia. f_equal; lia.
Qed.

Lemma nodup_map_eq {A K} (f : A -> K) (l : list A) x y :
  NoDup (map f l) -> In x l -> In y l -> f x = f y -> x = y.
Proof.
  induction l as [|e t IH]; intros Hnd Hx Hy Hk; [destruct Hx|].
  cbn in Hnd. inversion Hnd as [|? ? Hnot Hnd']; subst.
  destruct Hx as [->|Hx], Hy as [->|Hy]; auto.
  - exfalso. apply Hnot. rewrite Hk. apply in_map. exact Hy.
  - exfalso. apply Hnot. rewrite <- Hk. apply in_map. exact Hx.
Qed.

(* blocks with distinct (level, target) keys pushed in any order end in the same container order:
   parse_global_level10_targets pushes one L10 block per target display while iterating a HashMap;
   the blocks are later inserted into a container that is re-sorted by (level, target index) *)
Theorem sort_blocks_canonical l1 l2 :
  NoDup (map sort_key l1) -> Permutation l1 l2 -> sort_blocks l1 = sort_blocks l2.
Proof.
  intros Hnd P. rewrite !sort_blocks_isort. apply isort_canonical; auto.
  - intros a b. apply key_le_total'.
  - intros a b c. apply key_le_trans.
  - intros x y Hx Hy H1 H2. eapply nodup_map_eq; eauto. apply key_le_antisym; auto.
Qed.

(* every iteration over a hashed container found in the sources is one of the accounted sites *)
Definition accounted_sites : list (string * string) :=
  [("dolby_vision/src/xml/parser.rs", "target_displays")]%string.

Definition site_accounted (s : string * string) : bool :=
  existsb (fun a => String.eqb (fst a) (fst s) && String.eqb (snd a) (snd s)) accounted_sites.

Lemma hash_iteration_sites_accounted : forallb site_accounted hash_iter_sites = true.
Proof. vm_compute. reflexivity. Qed.
