(* Facts about the export views (Export.v). *)
From Coq Require Import List NArith ZArith Lia Bool String Sorting.Sorted.
From DV Require Import Outcome Bits BitIO Fields Blocks Rpu Ops Editor Export.
Import ListNotations.
Open Scope N_scope.

(* ---------------- scenes ---------------- *)
Lemma scenes_from_spec l : forall i k,
  In k (scenes_from i l) <-> exists j x, k = i + N.of_nat j /\ nth_error l j = Some x /\ scene_flag x = true.
Proof.
  induction l as [|x t IH]; intros i k; cbn [scenes_from].
  - split; [intros []|intros (j & y & _ & H & _); destruct j; discriminate].
  - rewrite in_app_iff, IH. split.
    + intros [H|(j & y & -> & Hn & Hf)].
      * destruct (scene_flag x) eqn:E; [|destruct H]. destruct H as [<-|[]].
        exists O, x. cbn. split; [lia|auto].
      * exists (S j), y. cbn. split; [lia|auto].
    + intros (j & y & -> & Hn & Hf). destruct j as [|j].
      * cbn in Hn. inversion Hn; subst y. rewrite Hf. left. left. cbn. lia.
      * right. exists j, y. cbn in Hn. split; [lia|auto].
Qed.

Lemma scenes_from_lower l : forall i, Forall (fun k => i <= k) (scenes_from i l).
Proof.
  induction l as [|x t IH]; intros i; cbn [scenes_from]; [constructor|].
  apply Forall_app. split.
  - destruct (scene_flag x); constructor; [lia|constructor].
  - eapply Forall_impl; [|apply IH]. cbn. intros; lia.
Qed.

Lemma scenes_from_sorted l : forall i, StronglySorted N.lt (scenes_from i l).
Proof.
  induction l as [|x t IH]; intros i; cbn [scenes_from]; [constructor|].
  destruct (scene_flag x); cbn [app]; [|apply IH].
  constructor; [apply IH|]. eapply Forall_impl; [|apply scenes_from_lower]. cbn. intros; lia.
Qed.

Lemma scenes_from_length l : forall i, N.of_nat (List.length (scenes_from i l)) = scene_count l.
Proof.
  unfold scene_count, count_if. induction l as [|x t IH]; intros i; cbn [scenes_from filter]; auto.
  rewrite app_length. specialize (IH (i + 1)).
  destruct (scene_flag x); cbn [List.length Nat.add]; lia.
Qed.

(* ---------------- level5 export ---------------- *)
Lemma key_eqb_eq a b : key_eqb a b = true <-> a = b.
Proof.
  destruct a as [[[a1 a2] a3] a4], b as [[[b1 b2] b3] b4]. cbn.
  rewrite !andb_true_iff, !Z.eqb_eq. split.
  - intros [[[-> ->] ->] ->]. reflexivity.
  - intros H. inversion H. auto.
Qed.

Lemma key_eqb_refl a : key_eqb a a = true.
Proof. apply key_eqb_eq. reflexivity. Qed.

(* the key of the run that contains frame j: the last run starting at or before j *)
Fixpoint key_at (rs : list (l5key * N)) (j : N) (d : l5key) : l5key :=
  match rs with
  | [] => d
  | (k, s) :: t => if s <=? j then key_at t j k else d
  end.

Fixpoint starts_from (rs : list (l5key * N)) (i : N) : Prop :=
  match rs with
  | [] => True
  | (_, s) :: t => i <= s /\ starts_from t (s + 1)
  end.

Lemma starts_from_weaken rs : forall i i', i' <= i -> starts_from rs i -> starts_from rs i'.
Proof. destruct rs as [|[k s] t]; cbn; auto. intros i i' H [H1 H2]. split; [lia|auto]. Qed.

Lemma runs_starts l : forall i prev, starts_from (runs l i prev) i.
Proof.
  induction l as [|k t IH]; intros i prev; cbn [runs]; [exact I|].
  destruct (match prev with Some p => key_eqb p k | None => false end).
  - eapply starts_from_weaken; [|apply IH]. lia.
  - cbn. split; [lia|apply IH].
Qed.

Lemma key_at_before rs : forall i j d, starts_from rs i -> j < i -> key_at rs j d = d.
Proof.
  destruct rs as [|[k s] t]; cbn; auto. intros i j d [H _] Hj.
  destruct (s <=? j) eqn:E; auto. apply N.leb_le in E. lia.
Qed.

(* the runs describe the key list exactly *)
Lemma runs_key_at l : forall i prev d (j : nat) k,
  (match prev with Some p => d = p | None => True end) ->
  nth_error l j = Some k ->
  (prev = None -> j = O -> True) ->
  key_at (runs l i prev) (i + N.of_nat j) d = k.
Proof.
  induction l as [|k0 t IH]; intros i prev d j k Hd Hn _; [destruct j; discriminate|].
  cbn [runs].
  destruct (match prev with Some p => key_eqb p k0 | None => false end) eqn:E.
  - destruct prev as [p|]; [|discriminate]. apply key_eqb_eq in E. subst p d.
    destruct j as [|j].
    + cbn in Hn. inversion Hn; subst k. rewrite N.add_0_r.
      eapply key_at_before; [apply runs_starts|lia].
    + cbn in Hn. replace (i + N.of_nat (S j)) with (i + 1 + N.of_nat j) by lia.
      apply IH; auto.
  - cbn [key_at]. replace (i <=? i + N.of_nat j) with true by (symmetry; apply N.leb_le; lia).
    destruct j as [|j].
    + cbn in Hn. inversion Hn; subst k. rewrite N.add_0_r.
      eapply key_at_before; [apply runs_starts|lia].
    + cbn in Hn. replace (i + N.of_nat (S j)) with (i + 1 + N.of_nat j) by lia.
      apply IH; auto.
Qed.

(* last_match over the exported edits selects the run that contains the frame *)
Lemma last_match_edits ps : forall rs i n j acc,
  starts_from rs i -> j < n ->
  last_match (edits_of ps rs n) j acc =
  match rs with
  | [] => acc
  | (k, s) :: _ => if s <=? j then Some (pos_of (key_at rs j k) ps) else acc
  end.
Proof.
  induction rs as [|[k s] t IH]; intros i n j acc Hs Hj; [reflexivity|].
  cbn [edits_of last_match]. cbn in Hs. destruct Hs as [Hi Ht].
  destruct t as [|[k' s'] t'].
  - cbn [edits_of last_match key_at]. unfold in_range.
    replace (j <=? n - 1) with true by (symmetry; apply N.leb_le; lia).
    rewrite andb_true_r. destruct (s <=? j); reflexivity.
  - rewrite (IH (s + 1) n j _ Ht Hj). cbn [key_at]. cbn in Ht. destruct Ht as [Hs' _].
    unfold in_range.
    destruct (s' <=? j) eqn:E2.
    + apply N.leb_le in E2. replace (s <=? j) with true by (symmetry; apply N.leb_le; lia). reflexivity.
    + apply N.leb_gt in E2. destruct (s <=? j) eqn:E1; cbn [andb].
      * replace (j <=? s' - 1) with true by (symmetry; apply N.leb_le; lia). reflexivity.
      * reflexivity.
Qed.

(* presets: append-only, every run key ends up in the table, pos_of finds it *)
Lemma add_presets_prefix rs : forall ps, exists ext, add_presets ps rs = ps ++ ext.
Proof.
  induction rs as [|[k s] t IH]; intros ps; cbn [add_presets].
  - exists []. rewrite app_nil_r. reflexivity.
  - destruct (existsb (key_eqb k) ps).
    + apply IH.
    + destruct (IH (ps ++ [k])) as [ext H]. exists ([k] ++ ext). rewrite H, app_assoc. reflexivity.
Qed.

Lemma existsb_app_l {A} (f : A -> bool) l ext : existsb f l = true -> existsb f (l ++ ext) = true.
Proof. rewrite existsb_app. intros ->. reflexivity. Qed.

Lemma add_presets_has rs : forall ps k s, In (k, s) rs -> existsb (key_eqb k) (add_presets ps rs) = true.
Proof.
  induction rs as [|[k0 s0] t IH]; intros ps k s Hin; [destruct Hin|].
  cbn [add_presets]. destruct Hin as [E|Hin]; [|eapply IH; eauto].
  inversion E; subst k0 s0.
  destruct (existsb (key_eqb k) ps) eqn:Ex.
  - destruct (add_presets_prefix t ps) as [ext ->]. apply existsb_app_l. exact Ex.
  - destruct (add_presets_prefix t (ps ++ [k])) as [ext ->]. apply existsb_app_l.
    rewrite existsb_app. cbn. rewrite key_eqb_refl. rewrite orb_true_r. reflexivity.
Qed.

Lemma pos_of_nth k ps : existsb (key_eqb k) ps = true -> nth_error ps (pos_of k ps) = Some k.
Proof.
  induction ps as [|p t IH]; cbn; [discriminate|].
  destruct (key_eqb k p) eqn:E1.
  - apply key_eqb_eq in E1. subst p. rewrite key_eqb_refl. reflexivity.
  - cbn. intros H. destruct (key_eqb p k) eqn:E2.
    + apply key_eqb_eq in E2. subst p. rewrite key_eqb_refl in E1. discriminate.
    + cbn. apply IH. exact H.
Qed.

Lemma key_at_in rs : forall j d, key_at rs j d = d \/ exists s, In (key_at rs j d, s) rs.
Proof.
  induction rs as [|[k s] t IH]; intros j d; cbn; auto.
  destruct (s <=? j); auto. destruct (IH j k) as [->|[s' H]]; right; eauto.
Qed.

(* the exported config reproduces the L5 offsets of every frame: for frame j the last edit whose
   range contains j names a preset equal to the frame's own offsets *)
Theorem l5_export_reproduces (keys : list l5key) (j : nat) k :
  nth_error keys j = Some k ->
  let rs := runs keys 0 None in
  let ps := add_presets [] rs in
  exists id, last_match (edits_of ps rs (N.of_nat (List.length keys))) (N.of_nat j) None = Some id /\
             nth_error ps id = Some k.
Proof.
  intros Hn rs ps.
  assert (Hj : N.of_nat j < N.of_nat (List.length keys)).
  { assert (j < List.length keys)%nat by (apply nth_error_Some; congruence). lia. }
  pose proof (runs_starts keys 0 None) as Hs. fold rs in Hs.
  rewrite (last_match_edits ps rs 0 _ _ None Hs Hj).
  pose proof (runs_key_at keys 0 None k j k I Hn (fun _ _ => I)) as Hk. rewrite N.add_0_l in Hk. fold rs in Hk.
  destruct rs as [|[k0 s0] t] eqn:Ers.
  - (* no run: impossible, the list is not empty *)
    destruct keys as [|k1 t1]; [destruct j; discriminate|]. cbn in Ers. discriminate.
  - assert (Hs0 : s0 = 0).
    { destruct keys as [|k1 t1]; [destruct j; discriminate|]. cbn in Ers. inversion Ers. reflexivity. }
    subst s0. cbn [N.leb]. replace (0 <=? N.of_nat j) with true by (symmetry; apply N.leb_le; lia).
    assert (Hk' : key_at ((k0, 0) :: t) (N.of_nat j) k0 = k).
    { cbn [key_at] in *. replace (0 <=? N.of_nat j) with true in * by (symmetry; apply N.leb_le; lia). exact Hk. }
    rewrite Hk'. eexists. split; [reflexivity|].
    apply pos_of_nth.
    destruct (key_at_in ((k0, 0) :: t) (N.of_nat j) k0) as [E|[s Hin]].
    + assert (Ek : k = k0) by (rewrite <- Hk'; exact E). rewrite Ek. unfold ps. eapply add_presets_has. left. reflexivity.
    + rewrite Hk' in Hin. unfold ps. eapply add_presets_has. exact Hin.
Qed.

(* ---------------- summary ---------------- *)
Lemma zmax_list_upper l : Forall (fun v => (v <= zmax_list l)%Z) l.
Proof.
  unfold zmax_list. induction l as [|x t IH]; cbn [fold_right]; constructor; [lia|].
  eapply Forall_impl; [|exact IH]. cbn beta. intros a Ha. lia.
Qed.

Lemma zmax_list_attained l : zmax_list l = 0%Z \/ In (zmax_list l) l.
Proof.
  unfold zmax_list. induction l as [|x t IH]; cbn [fold_right In]; auto.
  destruct (Z.max_spec x (fold_right Z.max 0%Z t)) as [[_ E]|[_ E]]; rewrite E; auto.
  destruct IH as [E0|H]; auto.
Qed.
