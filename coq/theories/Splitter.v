(* Bytes -> NAL batches: the chunked Annex B reader every stream command of dovi_tool sits on
   (hevc_parser 0.6.8: HevcParser::get_offsets / split_nals in src/lib.rs, the read loop
   HevcProcessor::parse_nalus in src/io/processor.rs, driven by DoviProcessor::read_write_from_io,
   the muxer and the injector with their chunk_size).

   The loop is modelled over the list of pieces its iterations obtain from the reader (`reads`):
   for a file, pieces of exactly chunk_size bytes and a shorter last one; for stdin, the pieces
   the inner accumulation loop gathers (at least chunk_size bytes unless the input ended). *)
From Coq Require Import List NArith Arith Lia Bool.
Import ListNotations.
Open Scope N_scope.

(* ---------------- get_offsets: nom take_until([0,0,1]) repeated, tag skipped ---------------- *)
Fixpoint offsets_from (i : nat) (l : list N) : list nat :=
  match l with
  | [] => []
  | a :: t =>
      match a, t with
      | 0, 0 :: 1 :: t' => i :: offsets_from (i + 3) t'      (* consumed += 3 *)
      | _, _ => offsets_from (S i) t
      end
  end.
Definition get_offsets (data : list N) : list nat := offsets_from 0 data.

(* ---------------- split_nals ---------------- *)
Local Open Scope nat_scope.
Definition slice (l : list N) (a b : nat) : list N := firstn (b - a) (skipn a l).

Definition is_0001 (l : list N) : bool :=
  match l with [0; 0; 0; 1]%N => true | _ => false end.

(* size of the NAL at `offset` (start code included); `next` is offsets[index + 1] if any *)
Definition nal_size (data : list N) (offset : nat) (next : option nat) (last : nat) : nat :=
  if Nat.eqb offset last then List.length data - offset
  else
    let size := match next with Some n => n - offset | None => last - offset end in
    (* match &data[offset + size - 1..offset + size + 3] { [0, 0, 0, 1] => size - 1, _ => size } *)
    if is_0001 (slice data (offset + size - 1) (offset + size + 3)) then size - 1 else size.

(* the bytes handed over for one NAL: chunk[nal.start..nal.end], start = offset + 3 *)
Fixpoint split_nals (data : list N) (offsets : list nat) (last : nat) : list (list N) :=
  match offsets with
  | [] => []
  | o :: t =>
      let size := nal_size data o (match t with n :: _ => Some n | [] => None end) last in
      slice data (o + 3) (o + size) :: split_nals data t last
  end.

(* ---------------- parse_nalus ---------------- *)
Definition is_nil {A} (l : list A) : bool := match l with [] => true | _ => false end.

(* end of input: read returns 0 from now on *)
Definition loop_eof (chunk : list N) (acc : list (list (list N))) : list (list (list N)) :=
  match chunk with
  | [] => acc                                                    (* read_bytes == 0 && chunk.is_empty() *)
  | _ =>
      match get_offsets chunk with
      | [] => acc                                                (* offsets.is_empty() && read_bytes == 0 *)
      | offs => acc ++ [split_nals chunk offs (last offs 0%nat)] (* 0 < chunk_size: last chunk *)
      end
  end.

Fixpoint hevc_loop (cs : nat) (reads : list (list N)) (chunk : list N) (acc : list (list (list N)))
  : list (list (list N)) :=
  match reads with
  | [] => loop_eof chunk acc
  | r :: rs =>
      let n := List.length r in
      if Nat.eqb n 0 && is_nil chunk then acc
      else
        let chunk := chunk ++ r in
        match get_offsets chunk with
        | [] => if Nat.eqb n 0 then acc else hevc_loop cs rs chunk acc          (* continue *)
        | offs =>
            let lst := last offs 0%nat in
            if Nat.ltb n cs
            then hevc_loop cs rs [] (acc ++ [split_nals chunk offs lst])
            else hevc_loop cs rs (skipn lst chunk) (acc ++ [split_nals chunk (removelast offs) lst])
        end
  end.

Definition parse_nalus (cs : nat) (reads : list (list N)) : list (list (list N)) := hevc_loop cs reads [] [].

(* the reference: the whole input seen as one (last) chunk *)
Definition split_whole (data : list N) : list (list N) :=
  let offs := get_offsets data in split_nals data offs (last offs 0%nat).

(* a file read through a reader that returns full requests until the end of the file *)
Fixpoint file_reads (fuel cs : nat) (l : list N) : list (list N) :=
  match fuel with
  | O => []
  | S f => match l with [] => [] | _ => firstn cs l :: file_reads f cs (skipn cs l) end
  end.
Definition read_file (cs : nat) (file : list N) : list (list N) := file_reads (List.length file) cs file.

(* what the loop relies on: a piece shorter than chunk_size is only obtained at the end of the input *)
Fixpoint schedule_ok (cs : nat) (reads : list (list N)) : Prop :=
  match reads with
  | [] => True
  | r :: rs => (List.length r < cs -> concat rs = []) /\ schedule_ok cs rs
  end.

(* ---------------- piped stdin (IoFormat::RawStdin): the inner accumulation loop ---------------- *)
(* `frags` = the results of the successive read() calls on the pipe: arbitrary non-empty fragments, an empty
   one at the end of the input. One iteration of parse_nalus takes one fragment into main_buf, then keeps
   reading into sec_buf until the iteration has at least chunk_size bytes or a read returns nothing *)
Fixpoint stdin_inner (cs : nat) (acc : list N) (frags : list (list N)) : list N * list (list N) :=
  match frags with
  | [] => (acc, [])                                   (* read returns 0: end of input *)
  | f :: t =>
      if Nat.eqb (List.length f) 0 then (acc, t)
      else let acc' := acc ++ f in
           if Nat.leb cs (List.length acc') then (acc', t) else stdin_inner cs acc' t
  end.

Fixpoint stdin_pieces (fuel cs : nat) (frags : list (list N)) : list (list N) :=
  match fuel with
  | O => []
  | S fu =>
      match frags with
      | [] => []
      | f :: t => let '(piece, rest) := stdin_inner cs f t in piece :: stdin_pieces fu cs rest
      end
  end.
Definition read_stdin (cs : nat) (frags : list (list N)) : list (list N) := stdin_pieces (List.length frags) cs frags.

(* the end of the input is final: once a read has returned nothing, every later read returns nothing *)
Fixpoint eof_sticky (frags : list (list N)) : Prop :=
  match frags with
  | [] => True
  | f :: t => (f = [] -> concat t = []) /\ eof_sticky t
  end.
