(* Bit strings (MSB first), fixed-width unsigned encoding, bytes <-> bits. *)
From Coq Require Import List NArith ZArith Lia Bool.
Import ListNotations.
Open Scope N_scope.

Ltac Zify.zify_post_hook ::= Z.div_mod_to_equations.

(* linear-time list reversal for the executable model (List.rev is quadratic) *)
Definition frev {A} (l : list A) : list A := rev_append l [].
Lemma frev_rev {A} (l : list A) : frev l = rev l.
Proof. unfold frev. symmetry. apply rev_alt. Qed.

Definition b2n (b : bool) : N := if b then 1 else 0.

Definition val (l : list bool) : N := fold_left (fun a b => 2 * a + b2n b) l 0.

Fixpoint enc (n : nat) (v : N) : list bool :=
  match n with
  | O => []
  | S k => enc k (v / 2) ++ [N.odd v]
  end.

Lemma fold_val_acc l a :
  fold_left (fun a b => 2 * a + b2n b) l a = a * 2 ^ N.of_nat (length l) + val l.
Proof.
  unfold val. revert a. induction l as [|b l IH]; intros a.
  - simpl. lia.
  - cbn [fold_left length]. rewrite IH. rewrite (IH (2 * 0 + b2n b)).
    rewrite Nat2N.inj_succ, N.pow_succ_r'. ring.
Qed.

Lemma val_app l1 l2 : val (l1 ++ l2) = val l1 * 2 ^ N.of_nat (length l2) + val l2.
Proof. unfold val at 1. rewrite fold_left_app. rewrite fold_val_acc. reflexivity. Qed.

Lemma val_snoc l b : val (l ++ [b]) = 2 * val l + b2n b.
Proof. rewrite val_app. change (val [b]) with (2 * 0 + b2n b).
  change (N.of_nat (length [b])) with 1. rewrite N.pow_1_r. lia. Qed.

Lemma val_cons b l : val (b :: l) = b2n b * 2 ^ N.of_nat (length l) + val l.
Proof. change (b :: l) with ([b] ++ l). rewrite val_app.
  change (val [b]) with (2 * 0 + b2n b). lia. Qed.

Lemma enc_length n v : length (enc n v) = n.
Proof. revert v. induction n as [|n IH]; intros v; cbn [enc]; [reflexivity|].
  rewrite app_length, IH. simpl. lia. Qed.

Lemma b2n_odd v : b2n (N.odd v) = v mod 2.
Proof.
  rewrite <- N.bit0_mod, N.bit0_odd. destruct (N.odd v); reflexivity.
Qed.

Lemma val_enc n v : val (enc n v) = v mod 2 ^ N.of_nat n.
Proof.
  revert v. induction n as [|n IH]; intros v.
  - cbn. unfold val. cbn. rewrite N.mod_1_r. reflexivity.
  - cbn [enc]. rewrite val_snoc, IH, b2n_odd.
    rewrite Nat2N.inj_succ, N.pow_succ_r'.
    assert (Hp : 2 ^ N.of_nat n <> 0) by (apply N.pow_nonzero; lia).
    set (p := 2 ^ N.of_nat n) in *.
    apply (N.mod_unique _ _ (v / 2 / p)).
    + assert (v / 2 mod p < p) by (apply N.mod_lt; exact Hp).
      assert (v mod 2 < 2) by (apply N.mod_lt; lia). lia.
    + pose proof (N.div_mod v 2 ltac:(lia)) as H1.
      pose proof (N.div_mod (v / 2) p Hp) as H2. nia.
Qed.

Lemma val_bound l : val l < 2 ^ N.of_nat (length l).
Proof.
  induction l as [|b l IH] using rev_ind.
  - cbn. unfold val. cbn. lia.
  - rewrite val_snoc, app_length. cbn [length]. rewrite Nat.add_1_r.
    rewrite Nat2N.inj_succ, N.pow_succ_r'. destruct b; cbn [b2n]; lia.
Qed.

Lemma enc_val l : enc (length l) (val l) = l.
Proof.
  induction l as [|b l IH] using rev_ind.
  - reflexivity.
  - rewrite app_length. cbn [length]. rewrite Nat.add_1_r. cbn [enc].
    rewrite val_snoc.
    assert (Hd : (2 * val l + b2n b) / 2 = val l).
    { destruct b; cbn [b2n].
      - symmetry. apply (N.div_unique _ _ _ 1); lia.
      - rewrite N.add_0_r. rewrite N.mul_comm. apply N.div_mul. lia. }
    rewrite Hd, IH. f_equal. f_equal.
    destruct b; cbn [b2n].
    + rewrite N.add_comm. rewrite N.odd_add_mul_2. reflexivity.
    + rewrite N.add_0_r. rewrite N.odd_mul, N.odd_2. reflexivity.
Qed.

Lemma enc_val_small n v : v < 2 ^ N.of_nat n -> val (enc n v) = v.
Proof. intros H. rewrite val_enc. apply N.mod_small. exact H. Qed.

Lemma enc_inj_len l n : length l = n -> enc n (val l) = l.
Proof. intros <-. apply enc_val. Qed.

(* ---------- bytes ---------- *)

Definition byte_bits (b : N) : list bool := enc 8 b.

Fixpoint bits_of_bytes (l : list N) : list bool :=
  match l with
  | [] => []
  | b :: t => byte_bits b ++ bits_of_bytes t
  end.

(* take exactly n bits *)
Fixpoint take (n : nat) (l : list bool) : option (list bool * list bool) :=
  match n with
  | O => Some ([], l)
  | S k => match l with
           | [] => None
           | b :: t => match take k t with
                       | Some (h, r) => Some (b :: h, r)
                       | None => None
                       end
           end
  end.

Lemma take_spec n l h r : take n l = Some (h, r) -> l = h ++ r /\ length h = n.
Proof.
  revert l h r. induction n as [|n IH]; intros l h r H.
  - cbn in H. inversion H; subst. split; reflexivity.
  - cbn in H. destruct l as [|b t]; [discriminate|].
    destruct (take n t) as [[h' r']|] eqn:E; [|discriminate].
    inversion H; subst. apply IH in E as [-> <-]. split; reflexivity.
Qed.

Lemma take_app h r : take (length h) (h ++ r) = Some (h, r).
Proof. induction h as [|b h IH]; cbn; [reflexivity|]. rewrite IH. reflexivity. Qed.

(* bits -> bytes; fuel = length; leftover bits (< 8) are dropped, callers align first *)
Fixpoint bytes_of_bits_fuel (fuel : nat) (l : list bool) : list N :=
  match fuel with
  | O => []
  | S f => match take 8 l with
           | Some (h, r) => val h :: bytes_of_bits_fuel f r
           | None => []
           end
  end.
Definition bytes_of_bits (l : list bool) : list N := bytes_of_bits_fuel (length l) l.

Definition is_byte (b : N) : bool := b <? 256.

Lemma bytes_of_bits_fuel_of_bytes l rest f :
  forallb is_byte l = true -> (length l <= f)%nat -> (length rest < 8)%nat ->
  bytes_of_bits_fuel f (bits_of_bytes l ++ rest) = l.
Proof.
  revert f. induction l as [|b t IH]; intros f Hb Hf Hr.
  - cbn. destruct f; [reflexivity|]. cbn [bytes_of_bits_fuel].
    destruct (take 8 rest) as [[h r]|] eqn:E; [|reflexivity].
    apply take_spec in E as [-> E]. rewrite app_length in Hr. lia.
  - cbn in Hb. apply andb_true_iff in Hb as [Hb1 Hb2].
    destruct f as [|f]; [cbn in Hf; lia|].
    cbn [bits_of_bytes bytes_of_bits_fuel]. rewrite <- app_assoc.
    assert (H8 : length (byte_bits b) = 8%nat) by (unfold byte_bits; apply enc_length).
    rewrite <- H8 at 1. rewrite take_app. f_equal.
    + unfold byte_bits. apply enc_val_small. unfold is_byte in Hb1.
      apply N.ltb_lt in Hb1. exact Hb1.
    + apply IH; [exact Hb2 | cbn in Hf; lia | exact Hr].
Qed.

Lemma bits_of_bytes_length l : length (bits_of_bytes l) = (8 * length l)%nat.
Proof. induction l as [|b t IH]; cbn [bits_of_bytes length]; [reflexivity|].
  rewrite app_length. unfold byte_bits. rewrite enc_length, IH. lia. Qed.

Lemma bytes_of_bits_of_bytes l :
  forallb is_byte l = true -> bytes_of_bits (bits_of_bytes l) = l.
Proof.
  intros H. unfold bytes_of_bits.
  rewrite <- (app_nil_r (bits_of_bytes l)) at 2.
  apply bytes_of_bits_fuel_of_bytes; [exact H | | cbn; lia].
  rewrite bits_of_bytes_length. lia.
Qed.
