(* AV1 ITU-T T.35 / EMDF wrapping: models of dolby_vision::av1::{mod.rs, emdf.rs}.
   Numeric constants come from the regenerated DVgen.Consts_gen. *)
From Coq Require Import List NArith ZArith Lia Bool.
From DV Require Import Outcome Bits BitIO.
From DVgen Require Import Consts_gen.
Import ListNotations.
Open Scope N_scope.
Local Open Scope out_scope.

Definition two32 : N := 4294967296.

(* fn write_variable_bits(writer, value: u32, n) ; the comparison operator of the first
   test comes from the source (Consts_gen.vb_write_cmp_is_ge: `>=` after the fix, `>` before) *)
Definition write_variable_bits (value n : N) (w : writer) : outcome writer :=
  let max := 2 ^ n in
  if (if vb_write_cmp_is_ge then max <=? value else max <? value) then
    (* loop body; it always terminates after one iteration because remaining < 2^n <= max *)
    let tmp := value / 2 ^ n in
    let clipped := tmp * 2 ^ n in
    let remaining := value - clipped in
    let byte := (clipped - max) / 2 ^ n in
    let* w1 := write_n 32 n byte w in
    let* w2 := write_bit true w1 in
    let* w3 := write_n 32 n remaining w2 in
    write_bit false w3
  else
    let* w1 := write_n 32 n value w in
    write_bit false w1.

(* fn parse_variable_bits(reader, n) -> u32 ; accumulates in u64, rejects values above u32::MAX;
   fuel bounds the loop by the input length *)
Fixpoint parse_variable_bits_loop (fuel : nat) (n value : N) (r : reader)
  : outcome (N * reader) :=
  match fuel with
  | O => Err
  | S f =>
      let* '(tmp, r1) := get_n 32 n r in
      let v1 := value + tmp in
      if two32 <=? v1 then Err
      else
        let* '(more, r2) := get r1 in
        if negb more then Ok (v1, r2)
        else parse_variable_bits_loop f n (v1 * 2 ^ n + 2 ^ n) r2
  end.

Definition parse_variable_bits (p : profile) (n : N) (r : reader) : outcome (N * reader) :=
  parse_variable_bits_loop (S (length (rbits r))) n 0 r.

Definition expect_n (tbits n expected : N) (r : reader) : outcome reader :=
  let* '(v, r1) := get_n tbits n r in
  let* _ := ensure (v =? expected) in Ok r1.

Definition expect_bit (expected : bool) (r : reader) : outcome reader :=
  let* '(b, r1) := get r in
  let* _ := ensure (Bool.eqb b expected) in Ok r1.

Definition parse_emdf_container (p : profile) (r : reader) : outcome (N * reader) :=
  let* r := expect_n 8 2 emdf_version r in
  let* r := expect_n 8 3 emdf_key_id r in
  let* r := expect_n 8 5 emdf_payload_id r in
  let* '(ext, r) := parse_variable_bits p 5 r in
  let* _ := ensure (ext =? emdf_payload_id_ext) in
  let* r := expect_bit false r in
  let* r := expect_bit false r in
  let* r := expect_bit false r in
  let* r := expect_bit false r in
  let* r := expect_bit true r in
  parse_variable_bits p 8 r.

Fixpoint get_bytes (fuel : nat) (k : N) (r : reader) : outcome (list N * reader) :=
  match fuel with
  | O => if k =? 0 then Ok ([], r) else Err
  | S f =>
      if k =? 0 then Ok ([], r)
      else
        let* '(b, r1) := get_n 8 8 r in
        let* '(t, r2) := get_bytes f (k - 1) r1 in
        Ok (b :: t, r2)
  end.

Definition convert_av1_rpu_payload_to_regular (p : profile) (data : list N) : outcome (list N) :=
  let r := reader_of_bytes data in
  let* r := expect_n 16 16 t35_provider_code r in
  let* r := expect_n 32 32 t35_provider_oriented_code r in
  let* '(size, r) := parse_emdf_container p r in
  let* _ := ensure (avail_ge (size * 8) r) in
  let* '(bytes, _) := get_bytes (length data) size r in
  Ok (25 :: bytes).

Fixpoint list_beq (a b : list N) : bool :=
  match a, b with
  | [], [] => true
  | x :: a', y :: b' => (x =? y) && list_beq a' b'
  | _, _ => false
  end.

Definition av1_validated_trimmed_data (data : list N) : outcome (list N) :=
  if N.of_nat (length data) <? av1_min_len then Err
  else
    let data := match data with 181 :: t => t | _ => data end in
    if list_beq (firstn 9 data) t35_payload_header then Ok data else Err.

Fixpoint write_bytes (l : list N) (w : writer) : outcome writer :=
  match l with
  | [] => Ok w
  | b :: t => let* w1 := write_n 8 8 b w in write_bytes t w1
  end.

Definition write_dovi_rpu_emdf_header (w : writer) : outcome writer :=
  let* w := write_n 32 2 emdf_version w in
  let* w := write_n 32 3 emdf_key_id w in
  let* w := write_n 32 5 emdf_payload_id w in
  let* w := write_variable_bits emdf_payload_id_ext 5 w in
  let* w := write_n 32 4 0 w in
  write_bit true w.

Definition write_emdf_container (payload : list N) (w : writer) : outcome writer :=
  let* w := write_dovi_rpu_emdf_header w in
  let* w := write_variable_bits (N.of_nat (length payload) mod two32) 8 w in
  let* w := write_bytes payload w in
  let* w := write_n 32 5 0 w in
  let* w := write_n 32 2 1 w in
  let* w := write_n 32 2 0 w in
  write_n 32 8 0 w.

Fixpoint strip_trailing_zeros_rev (l : list N) : list N :=
  match l with
  | 0 :: t => strip_trailing_zeros_rev t
  | _ => l
  end.
Definition strip_trailing_zeros (l : list N) : list N := frev (strip_trailing_zeros_rev (frev l)).

(* pub fn convert_regular_rpu_to_av1_payload(data) ; data[0] on an empty slice panics *)
Definition convert_regular_rpu_to_av1_payload (data : list N) : outcome (list N) :=
  match data with
  | [] => Panic site_rpu_end
  | d0 :: _ =>
      let* _ := ensure (d0 =? 25) in
      let trimmed := strip_trailing_zeros data in
      match frev trimmed with
      | [] => Panic site_rpu_end        (* all-zero input cannot pass the 0x19 test; kept total *)
      | last :: _ =>
          if negb (last =? 128) then Err
          else
            let body := tl trimmed in
            let* w := write_n 32 16 t35_provider_code wempty in
            let* w := write_n 32 32 t35_provider_oriented_code w in
            let* w := write_emdf_container body w in
            Ok (wbytes (byte_align_ones w))
      end
  end.
