(* C09, duplications: every frame present before the `duplicate` pass is still there afterwards, in order; what is
   added are copies of frames of the list. *)
From Coq Require Import List NArith Lia Bool.
From DV Require Import Outcome Editor.
Import ListNotations.
Open Scope N_scope.
Local Open Scope out_scope.

Inductive subseq {B} : list B -> list B -> Prop :=
| ss_nil : forall l, subseq [] l
| ss_keep : forall x a b, subseq a b -> subseq (x :: a) (x :: b)
| ss_skip : forall x a b, subseq a b -> subseq a (x :: b).

Lemma subseq_refl {B} (l : list B) : subseq l l.
Proof. induction l; constructor; auto. Qed.

Lemma subseq_trans {B} (a b c : list B) : subseq a b -> subseq b c -> subseq a c.
Proof.
  intros H1 H2. revert a H1. induction H2 as [l|x b c H IH|x b c H IH]; intros a H1.
  - inversion H1; subst. constructor.
  - inversion H1; subst; [constructor|constructor; auto|apply ss_skip; auto].
  - apply ss_skip. auto.
Qed.

Lemma subseq_app_mid {B} (l1 m l2 : list B) : subseq (l1 ++ l2) (l1 ++ m ++ l2).
Proof.
  induction l1 as [|x l1 IH]; cbn [app].
  - induction m as [|y m IHm]; cbn [app]; [apply subseq_refl|apply ss_skip; exact IHm].
  - constructor. exact IH.
Qed.

Lemma subseq_length {B} (a b : list B) : subseq a b -> (List.length a <= List.length b)%nat.
Proof. induction 1; cbn; lia. Qed.

Lemma in_firstn' {B} n : forall (l : list B) y, In y (firstn n l) -> In y l.
Proof. induction n as [|n IH]; intros [|a l] y H; cbn in H; try contradiction. destruct H as [->|H]; [left; reflexivity|right; auto]. Qed.

Lemma in_skipn' {B} n : forall (l : list B) y, In y (skipn n l) -> In y l.
Proof. induction n as [|n IH]; intros [|a l] y H; cbn in H; try contradiction; auto. right. auto. Qed.

(* THE DUPLICATE PASS ONLY ADDS: the list before the pass is a subsequence of the list after it (no frame
   disappears, order kept), and every frame of the result is a frame the list already held *)
Lemma dup_apply_keeps {B} (ds : list dup) : forall (data out : list B),
  dup_apply ds data = Ok out -> subseq data out /\ (forall x, In x out -> In x data).
Proof.
  induction ds as [|[[src off] len] t IH]; intros data out H; cbn [dup_apply] in H.
  - inversion H; subst. split; [apply subseq_refl|auto].
  - destruct ((src <? N.of_nat (List.length data)) && (off <=? N.of_nat (List.length data))); cbn [ensure bind] in H; [|discriminate].
    destruct (nth_error data (N.to_nat src)) as [x|] eqn:Ex; [|discriminate].
    destruct (IH _ _ H) as [Hs Hin]. split.
    + eapply subseq_trans; [|exact Hs].
      rewrite <- (firstn_skipn (N.to_nat off) data) at 1. apply subseq_app_mid.
    + intros y Hy. apply Hin in Hy. apply in_app_or in Hy as [Hy|Hy]; [eapply in_firstn'; exact Hy|].
      apply in_app_or in Hy as [Hy|Hy]; [|eapply in_skipn'; exact Hy].
      apply repeat_spec in Hy. subst y. eapply nth_error_In. exact Ex.
Qed.
