(* Facts about the chunked RPU file reader (C14). *)
From Coq Require Import List NArith ZArith Lia Bool.
From DV Require Import Outcome Bits Escape BitIO Rpu RpuFile.
Import ListNotations.
Open Scope N_scope.

Lemma empty_file_error parse cs : parse_rpu_file parse cs [] = Err.
Proof. unfold parse_rpu_file. destruct cs as [|cs]; [reflexivity|]. cbn. reflexivity. Qed.

Lemma reader_step parse f cs rest chunk acc offsets_count :
  reader_loop parse (S f) cs rest chunk acc offsets_count =
  let n := Nat.min cs (List.length rest) in
  if (Nat.eqb n 0) && (match chunk with [] => true | _ => false end) then
    if (Nat.ltb 0 offsets_count) && (Nat.eqb (List.length acc) offsets_count) then Ok acc else Err
  else
    let chunk := chunk ++ firstn n rest in
    let rest := skipn n rest in
    let offs := find_offsets chunk in
    match offs with
    | [] => Err
    | _ =>
        let last := List.last offs 0%nat in
        let full := negb (Nat.ltb n cs) in
        let use := if full then removelast_n offs else offs in
        let carry := if full then skipn last chunk else [] in
        let '(parsed, err) := parse_ranges parse chunk (nal_ranges (List.length chunk) use last) in
        let acc' := acc ++ parsed in
        if err then Err
        else if (match acc' with [] => true | _ => false end) then Err
        else reader_loop parse f cs rest carry acc' (offsets_count + List.length use)
    end.
Proof. reflexivity. Qed.

Lemma no_start_code_error parse cs file :
  find_offsets file = [] -> file <> [] -> (List.length file < cs)%nat -> parse_rpu_file parse cs file = Err.
Proof.
  intros Hf Hne Hl. unfold parse_rpu_file.
  destruct cs as [|cs]; [reflexivity|]. cbn [Nat.eqb].
  rewrite reader_step. cbv zeta.
  replace (Nat.min (S cs) (List.length file)) with (List.length file) by lia.
  assert (Hlen : List.length file <> 0%nat) by (destruct file; [congruence|cbn; lia]).
  destruct (Nat.eqb (List.length file) 0) eqn:E; [apply Nat.eqb_eq in E; contradiction|].
  cbn [andb app]. rewrite firstn_all. rewrite Hf. reflexivity.
Qed.

Lemma parse_ranges_length (parse : list N -> outcome rpu) (chunk : list N) (ranges : list (nat * nat)) :
  forall (acc0 : list rpu) (err0 : bool),
  let '(p, e) := fold_left (fun '(acc, err) '(a, b) =>
                 match parse (slice chunk a b) with
                 | Ok x => (acc ++ [x], err)
                 | _ => (acc, true)
                 end) ranges (acc0, err0) in
  e = false -> List.length p = (List.length acc0 + List.length ranges)%nat /\ err0 = false.
Proof.
  induction ranges as [|[a b] t IH]; intros acc0 err0; cbn [fold_left].
  - intros ->. split; [cbn; lia|reflexivity].
  - destruct (parse (slice chunk a b)) as [x| |s].
    + specialize (IH (acc0 ++ [x]) err0).
      destruct (fold_left _ t (acc0 ++ [x], err0)) as [p e]. intros He. destruct (IH He) as [H1 H2].
      split; [rewrite H1, app_length; cbn; lia|exact H2].
    + specialize (IH acc0 true). destruct (fold_left _ t (acc0, true)) as [p e]. intros He.
      destruct (IH He) as [_ H2]. discriminate.
    + specialize (IH acc0 true). destruct (fold_left _ t (acc0, true)) as [p e]. intros He.
      destruct (IH He) as [_ H2]. discriminate.
Qed.

Lemma nal_ranges_length clen offs last : List.length (nal_ranges clen offs last) = List.length offs.
Proof. induction offs as [|o t IH]; cbn; [reflexivity|]. rewrite IH. reflexivity. Qed.

(* whenever the reader returns a list, every start code it counted produced exactly one RPU:
   the invariant |acc| = offsets_count is kept by every iteration and required at the exit *)
Lemma reader_ok_counts parse fuel : forall cs rest chunk acc n l,
  reader_loop parse fuel cs rest chunk acc n = Ok l -> List.length acc = n ->
  exists k, List.length l = (n + k)%nat.
Proof.
  induction fuel as [|f IH]; intros cs rest chunk acc n l H Hacc; [discriminate|].
  rewrite reader_step in H. cbv zeta in H.
  destruct ((Nat.eqb (Nat.min cs (List.length rest)) 0) && match chunk with [] => true | _ => false end).
  - destruct ((Nat.ltb 0 n) && (Nat.eqb (List.length acc) n)); [|discriminate].
    inversion H; subst. exists 0%nat. lia.
  - destruct (find_offsets _) as [|o offs] eqn:Eo; [discriminate|].
    set (use := if negb (Nat.ltb _ cs) then removelast_n (o :: offs) else o :: offs) in *.
    pose proof (parse_ranges_length parse
                  (chunk ++ firstn (Nat.min cs (List.length rest)) rest)
                  (nal_ranges (List.length (chunk ++ firstn (Nat.min cs (List.length rest)) rest)) use (last (o :: offs) 0%nat))
                  [] false) as Hpr.
    unfold parse_ranges in H.
    destruct (fold_left _ _ ([], false)) as [parsed err]. destruct err; [discriminate|].
    destruct (Hpr eq_refl) as [Hlen _]. rewrite nal_ranges_length in Hlen. cbn in Hlen.
    destruct (acc ++ parsed) eqn:Eacc; [discriminate|]. rewrite <- Eacc in H.
    apply IH in H; [|rewrite app_length; lia].
    destruct H as [k Hk]. exists (List.length use + k)%nat. lia.
Qed.
