(* Facts about the chunked RPU file reader (C14). *)
From Coq Require Import List NArith ZArith Lia Bool.
From DV Require Import Outcome Bits Escape BitIO Rpu RpuFile.
Import ListNotations.
Open Scope N_scope.

Lemma empty_file_error parse cs : parse_rpu_file parse cs [] = Err.
Proof. unfold parse_rpu_file. destruct cs as [|cs]; [reflexivity|]. cbn. reflexivity. Qed.

Lemma reader_step parse f cs rest chunk acc offsets_count :
  reader_loop parse (S f) cs rest chunk acc offsets_count =
  let n := Nat.min cs (List.length rest) in
  if (Nat.eqb n 0) && (match chunk with [] => true | _ => false end) then
    if (Nat.ltb 0 offsets_count) && (Nat.eqb (List.length acc) offsets_count) then Ok acc else Err
  else
    let chunk := chunk ++ firstn n rest in
    let rest := skipn n rest in
    let offs := find_offsets chunk in
    match offs with
    | [] => Err
    | _ =>
        let last := List.last offs 0%nat in
        let full := negb (Nat.ltb n cs) in
        let use := if full then removelast_n offs else offs in
        let carry := if full then skipn last chunk else [] in
        let '(parsed, err) := parse_ranges parse chunk (nal_ranges (List.length chunk) use last) in
        let acc' := acc ++ parsed in
        if err then Err
        else if (match acc' with [] => true | _ => false end) then Err
        else reader_loop parse f cs rest carry acc' (offsets_count + List.length use)
    end.
Proof. reflexivity. Qed.

Lemma no_start_code_error parse cs file :
  find_offsets file = [] -> file <> [] -> (List.length file < cs)%nat -> parse_rpu_file parse cs file = Err.
Proof.
  intros Hf Hne Hl. unfold parse_rpu_file.
  destruct cs as [|cs]; [reflexivity|]. cbn [Nat.eqb].
  rewrite reader_step. cbv zeta.
  replace (Nat.min (S cs) (List.length file)) with (List.length file) by lia.
  assert (Hlen : List.length file <> 0%nat) by (destruct file; [congruence|cbn; lia]).
  destruct (Nat.eqb (List.length file) 0) eqn:E; [apply Nat.eqb_eq in E; contradiction|].
  cbn [andb app]. rewrite firstn_all. rewrite Hf. reflexivity.
Qed.

Lemma parse_ranges_length (parse : list N -> outcome rpu) (chunk : list N) (ranges : list (nat * nat)) :
  forall (acc0 : list rpu) (err0 : bool),
  let '(p, e) := fold_left (fun '(acc, err) '(a, b) =>
                 match parse (slice chunk a b) with
                 | Ok x => (acc ++ [x], err)
                 | _ => (acc, true)
                 end) ranges (acc0, err0) in
  e = false -> List.length p = (List.length acc0 + List.length ranges)%nat /\ err0 = false.
Proof.
  induction ranges as [|[a b] t IH]; intros acc0 err0; cbn [fold_left].
  - intros ->. split; [cbn; lia|reflexivity].
  - destruct (parse (slice chunk a b)) as [x| |s].
    + specialize (IH (acc0 ++ [x]) err0).
      destruct (fold_left _ t (acc0 ++ [x], err0)) as [p e]. intros He. destruct (IH He) as [H1 H2].
      split; [rewrite H1, app_length; cbn; lia|exact H2].
    + specialize (IH acc0 true). destruct (fold_left _ t (acc0, true)) as [p e]. intros He.
      destruct (IH He) as [_ H2]. discriminate.
    + specialize (IH acc0 true). destruct (fold_left _ t (acc0, true)) as [p e]. intros He.
      destruct (IH He) as [_ H2]. discriminate.
Qed.

Lemma nal_ranges_length clen offs last : List.length (nal_ranges clen offs last) = List.length offs.
Proof. induction offs as [|o t IH]; cbn; [reflexivity|]. rewrite IH. reflexivity. Qed.

(* whenever the reader returns a list, every start code it counted produced exactly one RPU:
   the invariant |acc| = offsets_count is kept by every iteration and required at the exit *)
Lemma reader_ok_counts parse fuel : forall cs rest chunk acc n l,
  reader_loop parse fuel cs rest chunk acc n = Ok l -> List.length acc = n ->
  exists k, List.length l = (n + k)%nat.
Proof.
  induction fuel as [|f IH]; intros cs rest chunk acc n l H Hacc; [discriminate|].
  rewrite reader_step in H. cbv zeta in H.
  destruct ((Nat.eqb (Nat.min cs (List.length rest)) 0) && match chunk with [] => true | _ => false end).
  - destruct ((Nat.ltb 0 n) && (Nat.eqb (List.length acc) n)); [|discriminate].
    inversion H; subst. exists 0%nat. lia.
  - destruct (find_offsets _) as [|o offs] eqn:Eo; [discriminate|].
    set (use := if negb (Nat.ltb _ cs) then removelast_n (o :: offs) else o :: offs) in *.
    pose proof (parse_ranges_length parse
                  (chunk ++ firstn (Nat.min cs (List.length rest)) rest)
                  (nal_ranges (List.length (chunk ++ firstn (Nat.min cs (List.length rest)) rest)) use (last (o :: offs) 0%nat))
                  [] false) as Hpr.
    unfold parse_ranges in H.
    destruct (fold_left _ _ ([], false)) as [parsed err]. destruct err; [discriminate|].
    destruct (Hpr eq_refl) as [Hlen _]. rewrite nal_ranges_length in Hlen. cbn in Hlen.
    destruct (acc ++ parsed) eqn:Eacc; [discriminate|]. rewrite <- Eacc in H.
    apply IH in H; [|rewrite app_length; lia].
    destruct H as [k Hk]. exists (List.length use + k)%nat. lia.
Qed.

(* ------------------------------------------------------------------------------------------
   Chunk invariance: for a file whose start codes sit exactly at the entry boundaries, the reader
   returns the parse of every entry, in order, for every chunk size (C14, and the file half of C01).
   ------------------------------------------------------------------------------------------ *)
Open Scope nat_scope.

Definition total (l : list (list N)) : nat := List.length (concat l).

Lemma total_cons e l : total (e :: l) = List.length e + total l.
Proof. unfold total. cbn. rewrite app_length. reflexivity. Qed.

(* start offsets, relative to r, of the leading entries whose start code lies inside the first c bytes *)
Fixpoint rel_starts (l : list (list N)) (r c : nat) : list nat :=
  match l with
  | [] => []
  | e :: t => if r + 4 <=? c then r :: rel_starts t (r + List.length e) c else []
  end.

Fixpoint exp_ranges (l : list (list N)) (r : nat) : list (nat * nat) :=
  match l with
  | [] => []
  | e :: t => (r, r + List.length e) :: exp_ranges t (r + List.length e)
  end.

(* start codes occur exactly at the entry boundaries, in every tail of the file *)
Definition well_delimited (es : list (list N)) : Prop :=
  forall m c, find_offsets (firstn c (concat (skipn m es))) = rel_starts (skipn m es) 0 c.

Fixpoint map_ok (parse : list N -> outcome rpu) (l : list (list N)) : option (list rpu) :=
  match l with
  | [] => Some []
  | e :: t => match parse e, map_ok parse t with
              | Ok x, Some r => Some (x :: r)
              | _, _ => None
              end
  end.

Lemma map_ok_app parse l1 : forall l2 a b,
  map_ok parse l1 = Some a -> map_ok parse l2 = Some b -> map_ok parse (l1 ++ l2) = Some (a ++ b).
Proof.
  induction l1 as [|e t IH]; intros l2 a b H1 H2; cbn in *.
  - inversion H1. exact H2.
  - destruct (parse e) as [x| |s]; try discriminate. destruct (map_ok parse t) as [r|] eqn:E; try discriminate.
    inversion H1; subst. rewrite (IH l2 r b eq_refl H2). reflexivity.
Qed.

Lemma map_ok_length parse l : forall a, map_ok parse l = Some a -> List.length a = List.length l.
Proof.
  induction l as [|e t IH]; intros a H; cbn in H.
  - inversion H. reflexivity.
  - destruct (parse e); try discriminate. destruct (map_ok parse t) eqn:E; try discriminate.
    inversion H; subst. cbn. f_equal. auto.
Qed.

Lemma map_ok_firstn parse l : forall a u, map_ok parse l = Some a -> map_ok parse (firstn u l) = Some (firstn u a).
Proof.
  induction l as [|e t IH]; intros a u H; cbn in H.
  - inversion H. destruct u; reflexivity.
  - destruct (parse e) as [x| |s] eqn:Ep; try discriminate. destruct (map_ok parse t) as [r|] eqn:E; try discriminate.
    inversion H; subst. destruct u; cbn; [reflexivity|]. rewrite Ep, (IH r u eq_refl). reflexivity.
Qed.

Lemma map_ok_skipn parse l : forall a u, map_ok parse l = Some a -> map_ok parse (skipn u l) = Some (skipn u a).
Proof.
  induction l as [|e t IH]; intros a u H; cbn in H.
  - inversion H. destruct u; reflexivity.
  - destruct (parse e) as [x| |s] eqn:Ep; try discriminate. destruct (map_ok parse t) as [r|] eqn:E; try discriminate.
    inversion H; subst. destruct u; cbn; [rewrite Ep, E; reflexivity|]. apply IH. reflexivity.
Qed.

Lemma skipn_skipn' {A} (x y : nat) (l : list A) : skipn x (skipn y l) = skipn (y + x) l.
Proof. revert l. induction y as [|y IH]; intros l; cbn [skipn plus]; auto. destruct l; [destruct x; reflexivity|]. apply IH. Qed.

(* parse_ranges over the exact ranges of a run of entries present in the chunk *)
Lemma parse_ranges_entries parse chunk : forall l r acc0 a,
  firstn (total l) (skipn r chunk) = concat l ->
  map_ok parse l = Some a ->
  fold_left (fun '(acc, err) '(x, y) =>
               match parse (slice chunk x y) with
               | Ok v => (acc ++ [v], err)
               | _ => (acc, true)
               end) (exp_ranges l r) (acc0, false) = (acc0 ++ a, false).
Proof.
  induction l as [|e t IH]; intros r acc0 a Hc Hm; cbn in Hm.
  - inversion Hm. cbn. rewrite app_nil_r. reflexivity.
  - destruct (parse e) as [x| |s] eqn:Ep; try discriminate. destruct (map_ok parse t) as [b|] eqn:E; try discriminate.
    inversion Hm; subst a. cbn [exp_ranges fold_left].
    assert (Hs : slice chunk r (r + List.length e) = e).
    { unfold slice. replace (r + List.length e - r) with (List.length e) by lia.
      rewrite total_cons in Hc. cbn [concat] in Hc.
      assert (H1 : firstn (List.length e) (firstn (List.length e + total t) (skipn r chunk)) = firstn (List.length e) (e ++ concat t)) by (rewrite Hc; reflexivity).
      rewrite firstn_firstn in H1. replace (Init.Nat.min (List.length e) (List.length e + total t)) with (List.length e) in H1 by lia.
      rewrite H1. rewrite firstn_app, Nat.sub_diag, firstn_all. cbn. rewrite app_nil_r. reflexivity. }
    rewrite Hs, Ep.
    rewrite (IH (r + List.length e) (acc0 ++ [x]) b); [rewrite <- app_assoc; reflexivity| |reflexivity].
    rewrite total_cons in Hc. cbn [concat] in Hc.
    assert (H2 : skipn (List.length e) (firstn (List.length e + total t) (skipn r chunk)) = skipn (List.length e) (e ++ concat t)) by (rewrite Hc; reflexivity).
    rewrite skipn_firstn_comm in H2. replace (List.length e + total t - List.length e) with (total t) in H2 by lia.
    rewrite skipn_skipn' in H2. rewrite skipn_app, skipn_all, Nat.sub_diag in H2. cbn in H2.
    exact H2.
Qed.

(* the rel_starts list: shape facts *)
Lemma rel_starts_head l r c o t : rel_starts l r c = o :: t -> o = r.
Proof. destruct l as [|e l']; cbn; [discriminate|]. destruct (r + 4 <=? c); [|discriminate]. intros H. inversion H. reflexivity. Qed.

Lemma rel_starts_length l : forall r c, List.length (rel_starts l r c) <= List.length l.
Proof. induction l as [|e t IH]; intros r c; cbn; [lia|]. destruct (r + 4 <=? c); cbn; [specialize (IH (r + List.length e) c); lia|lia]. Qed.

Lemma rel_starts_ge l : forall r c, Forall (fun o => r <= o) (rel_starts l r c).
Proof.
  induction l as [|e t IH]; intros r c; cbn; [constructor|].
  destruct (r + 4 <=? c); constructor; [lia|].
  eapply Forall_impl; [|apply IH]. cbn. intros; lia.
Qed.

Lemma last_forall {A} (P : A -> Prop) l d : l <> [] -> Forall P l -> P (last l d).
Proof.
  induction l as [|x t IH]; intros Hne Hf; [congruence|].
  inversion Hf; subst. destruct t as [|y t']; [exact H1|]. apply IH; [discriminate|assumption].
Qed.

Lemma nal_ranges_cons clen o t lst :
  nal_ranges clen (o :: t) lst = (o, if o =? lst then clen else match t with n :: _ => n | [] => lst end) :: nal_ranges clen t lst.
Proof. reflexivity. Qed.

Lemma last_cons_ne {A} (x y : A) l d : last (x :: y :: l) d = last (y :: l) d.
Proof. reflexivity. Qed.

(* the ranges computed by the reader when the last start code is popped (full chunk) *)
Lemma ranges_full clen : forall l r c,
  Forall (fun e => 1 <= List.length e) l ->
  rel_starts l r c <> [] ->
  let R := rel_starts l r c in
  let u := List.length R - 1 in
  nal_ranges clen (removelast_n R) (last R 0) = exp_ranges (firstn u l) r /\
  last R 0 = r + total (firstn u l).
Proof.
  induction l as [|e t IH]; intros r c Hne Hnz; cbn [rel_starts] in *; [congruence|].
  destruct (r + 4 <=? c) eqn:E; [|congruence].
  inversion Hne as [|? ? He Ht]; subst.
  destruct (rel_starts t (r + List.length e) c) as [|o R'] eqn:ER.
  - cbn. split; [reflexivity|]. unfold total. cbn. lia.
  - assert (Ho : o = r + List.length e) by (eapply rel_starts_head; eauto). subst o.
    assert (Hnz' : rel_starts t (r + List.length e) c <> []) by (rewrite ER; discriminate).
    destruct (IH (r + List.length e) c Ht Hnz') as [H1 H2]. rewrite ER in H1, H2. cbn zeta in H1, H2.
    cbn [List.length] in H1, H2. rewrite Nat.sub_succ, Nat.sub_0_r in H1, H2.
    cbn zeta. cbn [List.length]. rewrite Nat.sub_succ, Nat.sub_0_r.
    rewrite last_cons_ne. cbn [firstn]. rewrite total_cons. cbn [exp_ranges].
    change (removelast_n (r :: (r + List.length e) :: R')) with (r :: removelast_n ((r + List.length e) :: R')).
    split; [|lia].
    assert (Hlast_ge : r + List.length e <= last ((r + List.length e) :: R') 0) by lia.
    cbn [nal_ranges].
    replace (r =? last ((r + List.length e) :: R') 0) with false by (symmetry; apply Nat.eqb_neq; lia).
    rewrite H1. f_equal. f_equal.
    destruct R' as [|o2 R2]; cbn [removelast_n]; reflexivity.
Qed.

(* the ranges when the chunk holds the rest of the file and every start code is used *)
Lemma ranges_all : forall l r,
  Forall (fun e => 4 <= List.length e) l -> l <> [] ->
  let R := rel_starts l r (r + total l) in
  R <> [] /\ List.length R = List.length l /\
  nal_ranges (r + total l) R (last R 0) = exp_ranges l r.
Proof.
  induction l as [|e t IH]; intros r Hne Hnz; [congruence|].
  inversion Hne as [|? ? He Ht]; subst. cbn [rel_starts]. rewrite total_cons.
  replace (r + 4 <=? r + (List.length e + total t)) with true by (symmetry; apply Nat.leb_le; lia).
  destruct t as [|e2 t2].
  - cbn. unfold total. cbn. rewrite Nat.eqb_refl. repeat split; try discriminate. f_equal. f_equal. lia.
  - assert (Hnz' : e2 :: t2 <> []) by discriminate.
    destruct (IH (r + List.length e) Ht Hnz') as (H0 & H1 & H2). cbn zeta in H0, H1, H2.
    replace (r + (List.length e + total (e2 :: t2))) with (r + List.length e + total (e2 :: t2)) by lia.
    set (R' := rel_starts (e2 :: t2) (r + List.length e) (r + List.length e + total (e2 :: t2))) in *.
    cbn zeta. split; [discriminate|]. split; [cbn [List.length]; rewrite H1; reflexivity|].
    destruct R' as [|o R2] eqn:ER; [congruence|].
    assert (Ho : o = r + List.length e) by (unfold R' in ER; eapply rel_starts_head; eauto). subst o.
    rewrite last_cons_ne. rewrite nal_ranges_cons.
    change (exp_ranges (e :: e2 :: t2) r) with ((r, r + List.length e) :: exp_ranges (e2 :: t2) (r + List.length e)).
    assert (Hge : r + List.length e <= last ((r + List.length e) :: R2) 0).
    { apply (last_forall (fun o => r + List.length e <= o)); [discriminate|].
      rewrite <- ER. unfold R'. apply rel_starts_ge. }
    replace (r =? last ((r + List.length e) :: R2) 0) with false by (symmetry; apply Nat.eqb_neq; lia).
    rewrite H2. reflexivity.
Qed.

Lemma concat_firstn_skipn (l : list (list N)) u :
  firstn (total (firstn u l)) (concat l) = concat (firstn u l) /\
  skipn (total (firstn u l)) (concat l) = concat (skipn u l).
Proof.
  unfold total.
  assert (E : concat l = concat (firstn u l) ++ concat (skipn u l)) by (rewrite <- concat_app, firstn_skipn; reflexivity).
  rewrite E. split.
  - rewrite firstn_app, Nat.sub_diag, firstn_all. cbn. rewrite app_nil_r. reflexivity.
  - rewrite skipn_app, skipn_all, Nat.sub_diag. reflexivity.
Qed.

Lemma rel_starts_fit l : forall r c, Forall (fun o => o + 4 <= c) (rel_starts l r c).
Proof.
  induction l as [|e t IH]; intros r c; cbn; [constructor|].
  destruct (r + 4 <=? c) eqn:E; constructor; [apply Nat.leb_le in E; lia|apply IH].
Qed.

Lemma rel_starts_two e0 e1 t c : List.length e0 + 4 <= c -> 2 <= List.length (rel_starts (e0 :: e1 :: t) 0 c).
Proof.
  intros H. cbn [rel_starts].
  replace (0 + 4 <=? c) with true by (symmetry; apply Nat.leb_le; lia).
  replace (0 + List.length e0 + 4 <=? c) with true by (symmetry; apply Nat.leb_le; lia).
  cbn [List.length]. lia.
Qed.

Lemma removelast_n_length l : List.length (removelast_n l) = List.length l - 1.
Proof. induction l as [|x t IH]; cbn; [reflexivity|]. destruct t; cbn in *; lia. Qed.

Lemma concat_nil_entries (l : list (list N)) :
  Forall (fun e => 4 <= List.length e) l -> concat l = [] -> l = [].
Proof. destruct l as [|e t]; auto. intros Hf H. inversion Hf; subst. cbn in H. destruct e; cbn in *; [lia|discriminate]. Qed.

Lemma skipn_forall {A} (P : A -> Prop) u l : Forall P l -> Forall P (skipn u l).
Proof. revert l. induction u; intros l H; cbn; auto. destruct l; auto. inversion H; auto. Qed.
Lemma firstn_forall {A} (P : A -> Prop) u l : Forall P l -> Forall P (firstn u l).
Proof. revert l. induction u; intros l H; cbn; auto. destruct l; auto. inversion H; constructor; auto. Qed.

(* the loop invariant *)
Lemma reader_invariant parse cs es rpus :
  well_delimited es -> Forall (fun e => 4 <= List.length e) es -> 4 <= cs -> es <> [] ->
  map_ok parse es = Some rpus ->
  forall fuel m chunk rest,
    m <= List.length es ->
    chunk ++ rest = concat (skipn m es) ->
    (chunk = [] \/ 4 <= List.length chunk) ->
    (m = 0 -> chunk = [] /\ (List.length (hd [] es) + 4 <= cs \/ total es < cs)) ->
    List.length rest + (match chunk with [] => 1 | _ => 2 end) <= fuel ->
    reader_loop parse fuel cs rest chunk (firstn m rpus) m = Ok rpus.
Proof.
  intros WD Hlen Hcs Hne Hall.
  pose proof (map_ok_length _ _ _ Hall) as Hrl.
  induction fuel as [|f IH]; intros m chunk rest Hm Hsplit Hchunk Hfirst Hfuel; [destruct chunk; lia|].
  rewrite reader_step. cbv zeta.
  set (n := Nat.min cs (List.length rest)).
  remember (skipn m es) as l eqn:Heql.
  assert (Hl4 : Forall (fun e => 4 <= List.length e) l) by (rewrite Heql; apply skipn_forall; exact Hlen).
  destruct ((n =? 0) && match chunk with [] => true | _ => false end) eqn:Eexit.
  - (* exit *)
    apply andb_prop in Eexit. destruct Eexit as [En Ec]. apply Nat.eqb_eq in En.
    destruct chunk; [|discriminate].
    assert (Hrest : rest = []) by (destruct rest; [reflexivity|cbn in n; unfold n in En; cbn in En; lia]).
    subst rest. cbn in Hsplit. symmetry in Hsplit. apply concat_nil_entries in Hsplit; [|exact Hl4].
    assert (Hm' : m = List.length es).
    { assert (List.length (skipn m es) = 0) by (rewrite <- Heql, Hsplit; reflexivity). rewrite skipn_length in H. lia. }
    subst m. rewrite <- Hrl, firstn_all.
    assert (0 < List.length rpus) by (rewrite Hrl; destruct es; [congruence|cbn; lia]).
    replace (0 <? List.length rpus) with true by (symmetry; apply Nat.ltb_lt; lia).
    rewrite Nat.eqb_refl. reflexivity.
  - (* one read *)
    assert (Hchunk' : chunk ++ firstn n rest = firstn (List.length chunk + n) (concat l)).
    { rewrite <- Hsplit. rewrite firstn_app_2. reflexivity. }
    rewrite Hchunk'. pose proof (WD m (List.length chunk + n)) as HWD. rewrite <- Heql in HWD. rewrite HWD. clear HWD.
    set (c := List.length chunk + n).
    assert (Hclen : List.length (firstn c (concat l)) = c).
    { rewrite firstn_length. rewrite <- Hsplit, app_length. unfold c, n. lia. }
    (* there is something to read: l is not empty and its first start code fits *)
    assert (Hlne : l <> []).
    { intros E. rewrite E in Hsplit. cbn in Hsplit. apply app_eq_nil in Hsplit. destruct Hsplit as [-> ->].
      cbn in n. unfold n in Eexit. rewrite Nat.min_0_r in Eexit. cbn in Eexit. discriminate. }
    assert (Hc4 : 4 <= c).
    { destruct Hchunk as [->|H4]; [|unfold c; lia].
      cbn [List.length plus] in *. unfold c. cbn. cbn in Hsplit. subst rest.
      destruct l as [|e0 l']; [congruence|]. inversion Hl4; subst. unfold n. cbn [concat]. rewrite app_length. lia. }
    assert (HRne : rel_starts l 0 c <> []).
    { destruct l as [|e0 l']; [congruence|]. cbn [rel_starts].
      replace (0 + 4 <=? c) with true by (symmetry; apply Nat.leb_le; lia). discriminate. }
    destruct (rel_starts l 0 c) as [|o0 Rt] eqn:ER0; [congruence|]. rewrite <- ER0 in *.
    destruct (n <? cs) eqn:Efull; cbn [negb].
    + (* short read: the chunk holds the whole rest of the file *)
      apply Nat.ltb_lt in Efull.
      assert (Hn : n = List.length rest) by (unfold n in *; lia).
      assert (Hc : c = 0 + total l).
      { unfold c, total. rewrite <- Hsplit, app_length, Hn. reflexivity. }
      destruct (ranges_all l 0 Hl4 Hlne) as (_ & HRl & HRr). cbn zeta in HRl, HRr. rewrite <- Hc in HRl, HRr.
      rewrite Hclen, HRr.
      unfold parse_ranges.
      pose proof (map_ok_skipn parse es rpus m Hall) as Hrest. rewrite <- Heql in Hrest.
      rewrite (parse_ranges_entries parse (firstn c (concat l)) l 0 [] (skipn m rpus)); [| |exact Hrest].
      2:{ cbn [skipn]. rewrite Hc. cbn [plus]. unfold total. rewrite firstn_firstn, Nat.min_id. apply firstn_all. }
      cbn [app]. rewrite firstn_skipn.
      assert (Hnn : match rpus with [] => true | _ :: _ => false end = false)
        by (destruct rpus; [destruct es; [congruence|cbn in Hrl; lia]|reflexivity]).
      rewrite Hnn.
      (* next iteration: nothing left *)
      assert (Hskip : skipn n rest = []) by (rewrite Hn; apply skipn_all).
      rewrite Hskip, HRl.
      assert (Hmm : m + List.length l = List.length es) by (rewrite Heql, skipn_length; lia).
      rewrite Hmm.
      replace rpus with (firstn (List.length es) rpus) at 1 by (rewrite <- Hrl; apply firstn_all).
      apply IH.
      * lia.
      * cbn. rewrite skipn_all. reflexivity.
      * left. reflexivity.
      * intros H0. destruct es; [congruence|cbn in H0; lia].
      * cbn. destruct chunk; cbn in Hfuel; [|lia].
        cbn in Eexit. rewrite andb_true_r in Eexit. apply Nat.eqb_neq in Eexit. unfold n in *. lia.
    + (* full read: the last start code is carried over *)
      apply Nat.ltb_ge in Efull.
      assert (Hn : n = cs) by (unfold n in *; lia).
      assert (Hl1 : Forall (fun e => 1 <= List.length e) l) by (eapply Forall_impl; [|exact Hl4]; cbn; intros; lia).
      destruct (ranges_full c l 0 c Hl1 HRne) as [HF1 HF2]. cbn zeta in HF1, HF2.
      set (R := rel_starts l 0 c) in *.
      set (u := List.length R - 1) in *.
      rewrite Hclen, HF1.
      assert (Hu : u <= List.length l) by (unfold u, R; pose proof (rel_starts_length l 0 c); lia).
      assert (Hlast4 : last R 0 + 4 <= c).
      { apply (last_forall (fun o => o + 4 <= c)); [exact HRne|apply rel_starts_fit]. }
      unfold parse_ranges.
      pose proof (map_ok_skipn parse es rpus m Hall) as Hrest. rewrite <- Heql in Hrest.
      pose proof (map_ok_firstn parse l (skipn m rpus) u Hrest) as Hpart.
      rewrite (parse_ranges_entries parse (firstn c (concat l)) (firstn u l) 0 [] (firstn u (skipn m rpus))); [| |exact Hpart].
      2:{ cbn [skipn]. rewrite firstn_firstn.
          replace (Init.Nat.min (total (firstn u l)) c) with (total (firstn u l)) by (cbn in HF2; lia).
          apply (concat_firstn_skipn l u). }
      cbn [app].
      (* acc' = firstn (m + u) rpus *)
      assert (Hacc : firstn m rpus ++ firstn u (skipn m rpus) = firstn (m + u) rpus).
      { rewrite <- (firstn_skipn m rpus) at 3. rewrite firstn_app.
        rewrite firstn_length. replace (Init.Nat.min m (List.length rpus)) with m by lia.
        replace (m + u - m) with u by lia.
        rewrite firstn_firstn. replace (Init.Nat.min (m + u) m) with m by lia. reflexivity. }
      rewrite Hacc.
      assert (Hmu : 1 <= m + u).
      { destruct m as [|m']; [|lia].
        destruct (Hfirst eq_refl) as [Hc0 [Hfit|Hsmall]].
        - subst chunk. cbn in Hsplit. cbn [skipn] in Heql. subst l.
          (* a second entry exists because the file is at least cs long *)
          assert (Hrest_len : cs <= List.length rest) by (unfold n in Hn; lia).
          destruct es as [|a es']; [congruence|]. cbn [hd] in Hfit.
          destruct es' as [|b es''].
          + exfalso. subst rest. cbn in Hrest_len. rewrite app_nil_r in Hrest_len. lia.
          + unfold u, R. pose proof (rel_starts_two a b es'' c) as H2.
            assert (List.length a + 4 <= c) by (unfold c; cbn; lia). specialize (H2 H). lia.
        - exfalso. subst chunk. cbn in Hsplit. unfold total in Hsmall. cbn [skipn] in Heql. subst l.
          rewrite <- Hsplit in Hsmall. unfold n in Hn. lia. }
      destruct (firstn (m + u) rpus) as [|y0 yt] eqn:Eacc.
      { exfalso. assert (List.length (firstn (m + u) rpus) = 0) by (rewrite Eacc; reflexivity).
        rewrite firstn_length in H. rewrite Heql, skipn_length in Hu. lia. }
      rewrite <- Eacc.
      rewrite removelast_n_length. fold u.
      apply IH.
      * rewrite Heql, skipn_length in Hu. lia.
      * (* carry ++ rest' = tail from entry m + u *)
        rewrite HF2. cbn [plus].
        assert (Hsk : skipn (total (firstn u l)) (concat l) = concat (skipn u l)) by apply (concat_firstn_skipn l u).
        assert (Htail : concat (skipn (m + u) es) = skipn (total (firstn u l)) (concat l)).
        { rewrite Hsk. rewrite Heql. rewrite skipn_skipn'. reflexivity. }
        rewrite Htail. rewrite <- Hsplit.
        (* skipn t (firstn c (chunk ++ rest)) ++ skipn n rest = skipn t (chunk ++ rest) *)
        unfold c. rewrite firstn_app_2.
        assert (Htl : total (firstn u l) <= List.length (chunk ++ firstn n rest)).
        { rewrite app_length, firstn_length. cbn in HF2. unfold c, n in *. lia. }
        rewrite <- (firstn_skipn n rest) at 3. rewrite app_assoc.
        rewrite (skipn_app (total (firstn u l)) (chunk ++ firstn n rest)).
        replace (total (firstn u l) - List.length (chunk ++ firstn n rest)) with 0 by lia. reflexivity.
      * right. rewrite skipn_length, Hclen. cbn in HF2. lia.
      * intros H0. lia.
      * rewrite skipn_length.
        destruct (skipn (last R 0) (firstn c (concat l))); destruct chunk; cbn in Hfuel |- *; lia.
Qed.

(* for every chunk size: a file whose start codes sit exactly at its entry boundaries is read back
   as the parse of every entry, in order, provided the first read reaches the second start code
   (or the whole file fits in one read) - which a 100 000 byte chunk always does for RPUs *)
Theorem reader_chunk_invariance parse cs es rpus :
  well_delimited es -> Forall (fun e => 4 <= List.length e) es -> 4 <= cs -> es <> [] ->
  (List.length (hd [] es) + 4 <= cs \/ total es < cs) ->
  map_ok parse es = Some rpus ->
  parse_rpu_file parse cs (concat es) = Ok rpus.
Proof.
  intros WD Hlen Hcs Hne Hfirst Hall. unfold parse_rpu_file.
  replace (cs =? 0) with false by (symmetry; apply Nat.eqb_neq; lia).
  change (@nil rpu) with (firstn 0 rpus).
  apply (reader_invariant parse cs es rpus WD Hlen Hcs Hne Hall); auto.
  - lia.
  - cbn. lia.
Qed.

(* the file written by write_rpu_file is the concatenation of its entries *)
Lemma write_rpu_file_entries nals : write_rpu_file nals = concat (map (fun nal => SC ++ skipn 2 nal) nals).
Proof. unfold write_rpu_file. apply flat_map_concat_map. Qed.

(* a decidable check of well-delimitedness, for concrete files *)
Fixpoint nat_list_eqb (a b : list nat) : bool :=
  match a, b with
  | [], [] => true
  | x :: a', y :: b' => (x =? y) && nat_list_eqb a' b'
  | _, _ => false
  end.
Lemma nat_list_eqb_eq a : forall b, nat_list_eqb a b = true -> a = b.
Proof.
  induction a as [|x a' IH]; intros [|y b']; cbn; try discriminate; auto.
  intros H. apply andb_prop in H. destruct H as [H1 H2]. apply Nat.eqb_eq in H1. f_equal; auto.
Qed.

Definition wd_check (es : list (list N)) : bool :=
  forallb (fun m => forallb (fun c => nat_list_eqb (find_offsets (firstn c (concat (skipn m es)))) (rel_starts (skipn m es) 0 c))
                            (seq 0 (S (total es))))
          (seq 0 (S (List.length es))).

Lemma rel_starts_beyond l : forall r c c', r + total l <= c -> r + total l <= c' ->
  Forall (fun e => 4 <= List.length e) l -> rel_starts l r c = rel_starts l r c'.
Proof.
  induction l as [|e t IH]; intros r c c' H1 H2 Hf; cbn; [reflexivity|].
  inversion Hf; subst. rewrite total_cons in H1, H2.
  replace (r + 4 <=? c) with true by (symmetry; apply Nat.leb_le; lia).
  replace (r + 4 <=? c') with true by (symmetry; apply Nat.leb_le; lia).
  f_equal. apply IH; auto; lia.
Qed.

Lemma total_skipn_le es m : total (skipn m es) <= total es.
Proof.
  unfold total. rewrite <- (firstn_skipn m es) at 2. rewrite concat_app, app_length. lia.
Qed.

Lemma wd_check_sound es : Forall (fun e => 4 <= List.length e) es -> wd_check es = true -> well_delimited es.
Proof.
  intros Hf H m c. unfold wd_check in H. rewrite forallb_forall in H.
  destruct (Nat.le_gt_cases m (List.length es)) as [Hm|Hm].
  - specialize (H m). rewrite in_seq in H. specialize (H ltac:(lia)). rewrite forallb_forall in H.
    destruct (Nat.le_gt_cases c (total es)) as [Hc|Hc].
    + apply nat_list_eqb_eq. apply H. rewrite in_seq. lia.
    + (* beyond the end: the same as at c = total es *)
      pose proof (total_skipn_le es m) as Ht.
      assert (E1 : firstn c (concat (skipn m es)) = firstn (total es) (concat (skipn m es))).
      { rewrite !firstn_all2; [reflexivity| |]; unfold total in *; lia. }
      rewrite E1.
      rewrite (rel_starts_beyond (skipn m es) 0 c (total es)); [| lia | lia | apply skipn_forall; exact Hf].
      apply nat_list_eqb_eq. apply H. rewrite in_seq. lia.
  - rewrite skipn_all2 by lia. cbn. destruct c; reflexivity.
Qed.

(* non-vacuity: a concrete three-entry file (one body longer than the chunk) meets the hypotheses,
   and the reader returns its three entries for chunk sizes 4, 7 and 1000 *)
Definition ex_entries : list (list N) :=
  [[0; 0; 0; 1; 25; 8; 9; 128]; [0; 0; 0; 1; 25; 0; 0; 3; 1; 77; 78; 79; 80; 81; 128]; [0; 0; 0; 1; 9; 128]]%N.

Example ex_entries_well_delimited : well_delimited ex_entries.
Proof. apply wd_check_sound; [repeat constructor; cbn; lia|vm_compute; reflexivity]. Qed.

Example ex_entries_read_back (x : rpu) (cs : nat) :
  12 <= cs -> parse_rpu_file (fun _ => Ok x) cs (concat ex_entries) = Ok [x; x; x].
Proof.
  intros H. apply reader_chunk_invariance.
  - exact ex_entries_well_delimited.
  - repeat constructor; cbn; lia.
  - lia.
  - discriminate.
  - left. cbn. lia.
  - reflexivity.
Qed.
