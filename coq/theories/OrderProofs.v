(* Ordering lemmas (C07). *)
From Coq Require Import List NArith ZArith Lia Bool Sorting.Permutation Sorting.Sorted.
From DV Require Import Outcome Bits BitIO Rpu Stream Order.
Import ListNotations.
Open Scope N_scope.

Definition poc_le (a b : frame) : Prop := f_poc a <= f_poc b.
Definition poc_sorted (l : list frame) : Prop := Sorted poc_le l.

Lemma insert_frame_perm x l : Permutation (insert_frame x l) (x :: l).
Proof.
  induction l as [|y t IH]; cbn [insert_frame]; [apply Permutation_refl|].
  destruct (f_poc x <=? f_poc y); [apply Permutation_refl|].
  eapply Permutation_trans; [apply perm_skip; exact IH|apply perm_swap].
Qed.

Lemma sort_frames_perm l : Permutation (sort_frames l) l.
Proof.
  unfold sort_frames. induction l as [|x t IH]; cbn [fold_right]; [apply Permutation_refl|].
  eapply Permutation_trans; [apply insert_frame_perm|apply perm_skip; exact IH].
Qed.

Lemma insert_frame_hdrel a x l : poc_le a x -> HdRel poc_le a l -> HdRel poc_le a (insert_frame x l).
Proof.
  intros Hax Hl. destruct l as [|y t]; cbn [insert_frame]; [constructor; exact Hax|].
  destruct (f_poc x <=? f_poc y); constructor; [exact Hax|]. inversion Hl; assumption.
Qed.

Lemma insert_frame_sorted x l : Sorted poc_le l -> Sorted poc_le (insert_frame x l).
Proof.
  induction l as [|y t IH]; intros Hs; cbn [insert_frame].
  - constructor; constructor.
  - destruct (f_poc x <=? f_poc y) eqn:E.
    + constructor; [exact Hs|constructor; apply N.leb_le; exact E].
    + inversion Hs; subst. constructor; [apply IH; assumption|].
      apply insert_frame_hdrel; [unfold poc_le; apply N.leb_gt in E; lia|assumption].
Qed.

Lemma sort_frames_sorted l : poc_sorted (sort_frames l).
Proof.
  unfold poc_sorted, sort_frames. induction l as [|x t IH]; cbn [fold_right]; [constructor|].
  apply insert_frame_sorted. exact IH.
Qed.

Lemma renumber_pres off l : map f_pres (renumber off l) = map (fun k => off + N.of_nat k) (seq 0 (List.length l)).
Proof.
  revert off. induction l as [|f t IH]; intros off; cbn [renumber map List.length seq]; [reflexivity|].
  cbn [f_pres]. f_equal; [lia|]. rewrite IH. rewrite <- seq_shift, map_map. apply map_ext. intros k. lia.
Qed.

Lemma renumber_dec off l : map f_dec (renumber off l) = map f_dec l.
Proof. revert off. induction l as [|f t IH]; intros off; cbn; [reflexivity|]. rewrite IH. reflexivity. Qed.

Lemma period_numbering off l :
  map f_pres (renumber off (sort_frames l)) = map (fun k => off + N.of_nat k) (seq 0 (List.length l)) /\
  Permutation (map f_dec (renumber off (sort_frames l))) (map f_dec l).
Proof.
  split.
  - rewrite renumber_pres. rewrite (Permutation_length (sort_frames_perm l)). reflexivity.
  - rewrite renumber_dec. apply Permutation_map. apply sort_frames_perm.
Qed.

(* ---- key/value sorting ---- *)
Lemma insert_kv_perm {A} (x : N * A) l : Permutation (insert_kv x l) (x :: l).
Proof.
  induction l as [|y t IH]; cbn [insert_kv]; [apply Permutation_refl|].
  destruct (fst x <=? fst y); [apply Permutation_refl|].
  eapply Permutation_trans; [apply perm_skip; exact IH|apply perm_swap].
Qed.
Lemma sort_kv_perm {A} (l : list (N * A)) : Permutation (sort_kv l) l.
Proof.
  unfold sort_kv. induction l as [|x t IH]; cbn [fold_right]; [apply Permutation_refl|].
  eapply Permutation_trans; [apply insert_kv_perm|apply perm_skip; exact IH].
Qed.

Definition key_le {A} (a b : N * A) : Prop := fst a <= fst b.
Lemma insert_kv_hdrel {A} (a x : N * A) l : key_le a x -> HdRel key_le a l -> HdRel key_le a (insert_kv x l).
Proof.
  intros Hax Hl. destruct l as [|y t]; cbn [insert_kv]; [constructor; exact Hax|].
  destruct (fst x <=? fst y); constructor; [exact Hax|]. inversion Hl; assumption.
Qed.
Lemma insert_kv_sorted {A} (x : N * A) l : Sorted key_le l -> Sorted key_le (insert_kv x l).
Proof.
  induction l as [|y t IH]; intros Hs; cbn [insert_kv].
  - constructor; constructor.
  - destruct (fst x <=? fst y) eqn:E.
    + constructor; [exact Hs|constructor; apply N.leb_le; exact E].
    + inversion Hs; subst. constructor; [apply IH; assumption|].
      apply insert_kv_hdrel; [unfold key_le; apply N.leb_gt in E; lia|assumption].
Qed.
Lemma sort_kv_sorted {A} (l : list (N * A)) : Sorted key_le (sort_kv l).
Proof.
  unfold sort_kv. induction l as [|x t IH]; cbn [fold_right]; [constructor|].
  apply insert_kv_sorted. exact IH.
Qed.

Lemma sorted_map_fst {A} (l : list (N * A)) : Sorted key_le l -> Sorted N.le (map fst l).
Proof.
  induction 1 as [|a l Hs IH Hh]; cbn; constructor; [exact IH|].
  destruct Hh; cbn; constructor. assumption.
Qed.

(* a sorted list is determined by its elements *)
Lemma sorted_perm_unique (l1 : list N) : forall l2,
  Sorted N.le l1 -> Sorted N.le l2 -> Permutation l1 l2 -> l1 = l2.
Proof.
  induction l1 as [|a t1 IH]; intros l2 H1 H2 Hp.
  - apply Permutation_nil in Hp. congruence.
  - destruct l2 as [|b t2]; [apply Permutation_sym, Permutation_nil in Hp; discriminate|].
    apply Sorted_StronglySorted in H1; [|intros x y z; apply N.le_trans].
    apply Sorted_StronglySorted in H2; [|intros x y z; apply N.le_trans].
    inversion H1 as [|? ? Hs1 Hf1]; subst. inversion H2 as [|? ? Hs2 Hf2]; subst.
    assert (Hab : a = b).
    { assert (Ha : In a (b :: t2)) by (eapply Permutation_in; [exact Hp|left; reflexivity]).
      assert (Hb : In b (a :: t1)) by (eapply Permutation_in; [apply Permutation_sym; exact Hp|left; reflexivity]).
      rewrite Forall_forall in Hf1, Hf2.
      destruct Ha as [Ha|Ha]; [congruence|]. destruct Hb as [Hb|Hb]; [congruence|].
      specialize (Hf1 _ Hb). specialize (Hf2 _ Ha). lia. }
    subst b. f_equal. apply IH; [apply StronglySorted_Sorted; assumption|apply StronglySorted_Sorted; assumption|].
    eapply Permutation_cons_inv. exact Hp.
Qed.

Lemma seq_sorted n : forall s, Sorted N.le (map N.of_nat (seq s n)).
Proof.
  induction n as [|n IH]; intros s; cbn; constructor; [apply IH|].
  destruct n; cbn; constructor. lia.
Qed.

Lemma sort_kv_positions (A : Type) (kv : list (N * A)) :
  Permutation (map fst kv) (map N.of_nat (seq 0 (List.length kv))) ->
  map fst (sort_kv kv) = map N.of_nat (seq 0 (List.length kv)).
Proof.
  intros Hp. apply sorted_perm_unique.
  - apply sorted_map_fst. apply sort_kv_sorted.
  - apply seq_sorted.
  - eapply Permutation_trans; [apply Permutation_map; apply sort_kv_perm|exact Hp].
Qed.

(* ------------------------------------------------------------------------------------------
   EXTRACTION ORDER (C07, first half): the k-th extracted RPU is the RPU of the frame displayed
   k-th.  RPUs are collected in decode order (the d-th collected RPU belongs to the frame with
   decoded index d) and written sorted by the presentation number of that frame.
   ------------------------------------------------------------------------------------------ *)
Definition pres_of (fs : list frame) (d : N) : N :=
  match frame_of_dec fs d with Some f => f_pres f | None => 0 end.

Lemma sort_kv_value {A} (kv : list (N * A)) :
  Permutation (map fst kv) (map N.of_nat (seq 0 (List.length kv))) ->
  forall k v, In (k, v) kv -> nth_error (map snd (sort_kv kv)) (N.to_nat k) = Some v.
Proof.
  intros Hp k v Hin.
  pose proof (sort_kv_positions A kv Hp) as Hpos.
  assert (Hin' : In (k, v) (sort_kv kv)) by (eapply Permutation_in; [apply Permutation_sym, sort_kv_perm|exact Hin]).
  apply In_nth_error in Hin'. destruct Hin' as [i Hi].
  assert (Hk : nth_error (map fst (sort_kv kv)) i = Some k) by (rewrite nth_error_map, Hi; reflexivity).
  rewrite Hpos in Hk.
  assert (Hil : (i < List.length kv)%nat).
  { assert (nth_error (map N.of_nat (seq 0 (List.length kv))) i <> None) by congruence.
    apply nth_error_Some in H. rewrite map_length, seq_length in H. exact H. }
  rewrite nth_error_map, nth_error_nth' with (d := 0%nat) in Hk by (rewrite seq_length; exact Hil).
  rewrite seq_nth in Hk by exact Hil. cbn in Hk. inversion Hk; subst k.
  rewrite Nat2N.id. rewrite nth_error_map, Hi. reflexivity.
Qed.

Lemma keyed_spec {A} fs : forall (l : list A) k kv, keyed fs k l = Ok kv ->
  List.length kv = List.length l /\
  map fst kv = map (fun i => pres_of fs (k + N.of_nat i)) (seq 0 (List.length l)) /\
  forall i r, nth_error l i = Some r -> In (pres_of fs (k + N.of_nat i), r) kv.
Proof.
  induction l as [|x t IH]; intros k kv H; cbn [keyed] in H.
  - inversion H; subst. split; [reflexivity|]. split; [reflexivity|]. intros i r Hi. destruct i; discriminate.
  - destruct (frame_of_dec fs k) as [f|] eqn:Ef; [|discriminate].
    destruct (keyed fs (k + 1) t) as [r0| |s] eqn:Er; cbn [bind] in H; try discriminate.
    inversion H; subst kv. destruct (IH _ _ Er) as (Hl & Hm & Hin).
    assert (Hp : pres_of fs k = f_pres f) by (unfold pres_of; rewrite Ef; reflexivity).
    split; [cbn; lia|]. split.
    + cbn [List.length seq map fst]. rewrite N.add_0_r, Hp. f_equal. rewrite Hm.
      rewrite <- seq_shift, map_map. apply map_ext. intros i. f_equal. lia.
    + intros [|i] r Hi; cbn [nth_error] in Hi.
      * inversion Hi; subst. left. rewrite N.add_0_r, Hp. reflexivity.
      * right. replace (k + N.of_nat (S i)) with (k + 1 + N.of_nat i) by lia. apply Hin. exact Hi.
Qed.

Theorem extract_order_correct {A} (fs : list frame) (rpus out : list A) :
  extract_order fs rpus = Ok out ->
  Permutation (map (fun i => pres_of fs (N.of_nat i)) (seq 0 (List.length rpus))) (map N.of_nat (seq 0 (List.length rpus))) ->
  List.length out = List.length rpus /\
  forall d r, nth_error rpus d = Some r -> nth_error out (N.to_nat (pres_of fs (N.of_nat d))) = Some r.
Proof.
  unfold extract_order. destruct fs as [|f0 fs0]; [discriminate|]. set (fs := f0 :: fs0).
  destruct (keyed fs 0 rpus) as [kv| |s] eqn:Ek; cbn [bind]; try discriminate.
  intros H Hp. inversion H; subst out. clear H.
  destruct (keyed_spec fs _ _ _ Ek) as (Hl & Hm & Hin).
  assert (Hperm : Permutation (map fst kv) (map N.of_nat (seq 0 (List.length kv)))).
  { rewrite Hm, Hl. erewrite map_ext; [exact Hp|]. intros i. reflexivity. }
  split.
  - rewrite map_length. erewrite Permutation_length; [|apply sort_kv_perm]. exact Hl.
  - intros d r Hd. apply sort_kv_value; [exact Hperm|]. specialize (Hin d r Hd). rewrite N.add_0_l in Hin. exact Hin.
Qed.

(* ------------------------------------------------------------------------------------------
   INJECTION (C07, second half): when a frame is flushed it gets the RPU whose position in the
   input list is the frame's presentation number, placed after every NAL of the frame except a
   trailing run of EOS / EOB NALs; the other NALs keep their order.
   ------------------------------------------------------------------------------------------ *)
Lemma ok_inj_o {A} (a b : A) : Ok a = Ok b -> a = b.
Proof. intros H; inversion H; reflexivity. Qed.

Lemma rposition_spec : forall l k, rposition_non_eos l = Some k ->
  (k < List.length l)%nat /\
  (exists y, nth_error l k = Some y /\ is_eos (fst y) = false) /\
  Forall (fun x => is_eos (fst x) = true) (skipn (S k) l).
Proof.
  induction l as [|x t IH]; intros k H; cbn [rposition_non_eos] in H; [discriminate|].
  destruct (rposition_non_eos t) as [k'|] eqn:E.
  - inversion H; subst k. destruct (IH k' eq_refl) as (Hl & Hy & Hf). split; [cbn; lia|]. split; [exact Hy|exact Hf].
  - destruct (is_eos (fst x)) eqn:Ex; [discriminate|]. inversion H; subst k. split; [cbn; lia|]. split.
    + exists x. split; [reflexivity|exact Ex].
    + cbn [skipn]. clear -E. induction t as [|y t IHt]; [constructor|]. cbn [rposition_non_eos] in E.
      destruct (rposition_non_eos t); [discriminate|]. destruct (is_eos (fst y)) eqn:Ey; [|discriminate].
      constructor; [exact Ey|apply IHt; reflexivity].
Qed.

Lemma insert_at_split {A} (x : A) : forall k l, (k <= List.length l)%nat -> insert_at k x l = firstn k l ++ x :: skipn k l.
Proof.
  induction k as [|k IH]; intros l H; [reflexivity|]. destruct l as [|y t]; [cbn in H; lia|].
  cbn [insert_at firstn skipn app]. f_equal. apply IH. cbn in H. lia.
Qed.

Lemma framing_keeps_data (g : nat -> N -> N) : forall (l : list (N * list N)) n,
  map snd (map (fun '(i, (t, d)) => (g i t, d)) (combine (seq n (List.length l)) l)) = map snd l.
Proof.
  induction l as [|[t0 d0] l IH]; intros n; cbn [List.length seq combine map]; [reflexivity|]. cbn [snd]. f_equal. apply IH.
Qed.

Theorem flush_frame_correct p io fs rpus s s' f :
  flush_frame p io fs rpus false s = Ok s' ->
  frame_of_dec fs (fb_number s) = Some f ->
  exists x d pre post,
    (* the RPU is the one at the frame's presentation position *)
    nth_error rpus (N.to_nat (f_pres f)) = Some x /\ write_hevc_unspec62_nalu p src_sw x = Ok d /\
    (* the frame's NALs (behind the AUD when one is added) split around it *)
    (if io_no_add_aud io then fb_nals s else (35, aud_for f) :: fb_nals s) = pre ++ post /\
    pre <> [] /\
    Forall (fun n => is_eos (fst n) = true) post /\
    (exists y t, pre = t ++ [y] /\ is_eos (fst y) = false) /\
    map snd (skipn (List.length (written s)) (written s')) = map snd (pre ++ (62, d) :: post) /\
    firstn (List.length (written s)) (written s') = written s.
Proof.
  unfold flush_frame. intros H Hf. rewrite Hf in H.
  set (buf := if io_no_add_aud io then fb_nals s else (35, aud_for f) :: fb_nals s).
  assert (Hbuf : (if io_no_add_aud io then Ok (fb_nals s) else Ok ((35, aud_for f) :: fb_nals s)) = Ok buf)
    by (unfold buf; destruct (io_no_add_aud io); reflexivity).
  rewrite Hbuf in H. cbn [bind] in H.
  destruct (nth_error rpus (N.to_nat (f_pres f))) as [x|] eqn:Ex; [|discriminate].
  destruct (write_hevc_unspec62_nalu p src_sw x) as [d| |e] eqn:Ed; cbn [bind] in H; try discriminate.
  destruct (rposition_non_eos buf) as [k|] eqn:Ek; [|discriminate].
  apply ok_inj_o in H. subst s'. cbn [written].
  destruct (rposition_spec _ _ Ek) as (Hl & (y & Hy & Hne) & Hpost).
  rewrite (insert_at_split _ (S k) buf) by lia.
  exists x, d, (firstn (S k) buf), (skipn (S k) buf).
  split; [reflexivity|]. split; [exact Ed|]. split; [symmetry; apply firstn_skipn|].
  assert (Hpre : firstn (S k) buf = firstn k buf ++ [y]).
  { clear -Hy. revert k Hy. induction buf as [|z t IH]; intros [|k] Hy; cbn in *; try discriminate.
    - inversion Hy. reflexivity.
    - f_equal. apply IH. exact Hy. }
  split; [rewrite Hpre; destruct (firstn k buf); discriminate|].
  split; [exact Hpost|].
  split; [exists y, (firstn k buf); split; [exact Hpre|exact Hne]|].
  split.
  - rewrite skipn_app, skipn_all, Nat.sub_diag. cbn [app skipn].
    apply (framing_keeps_data (fun i t => sc_len (io_annexb io) t (Nat.eqb i 0))).
  - rewrite firstn_app, Nat.sub_diag, firstn_all. cbn [firstn]. apply app_nil_r.
Qed.
