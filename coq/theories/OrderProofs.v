(* Ordering lemmas (C07). *)
From Coq Require Import List NArith ZArith Lia Bool Sorting.Permutation Sorting.Sorted.
From DV Require Import Outcome Bits BitIO Rpu Stream Order.
Import ListNotations.
Open Scope N_scope.

Definition poc_le (a b : frame) : Prop := f_poc a <= f_poc b.
Definition poc_sorted (l : list frame) : Prop := Sorted poc_le l.

Lemma insert_frame_perm x l : Permutation (insert_frame x l) (x :: l).
Proof.
  induction l as [|y t IH]; cbn [insert_frame]; [apply Permutation_refl|].
  destruct (f_poc x <=? f_poc y); [apply Permutation_refl|].
  eapply Permutation_trans; [apply perm_skip; exact IH|apply perm_swap].
Qed.

Lemma sort_frames_perm l : Permutation (sort_frames l) l.
Proof.
  unfold sort_frames. induction l as [|x t IH]; cbn [fold_right]; [apply Permutation_refl|].
  eapply Permutation_trans; [apply insert_frame_perm|apply perm_skip; exact IH].
Qed.

Lemma insert_frame_hdrel a x l : poc_le a x -> HdRel poc_le a l -> HdRel poc_le a (insert_frame x l).
Proof.
  intros Hax Hl. destruct l as [|y t]; cbn [insert_frame]; [constructor; exact Hax|].
  destruct (f_poc x <=? f_poc y); constructor; [exact Hax|]. inversion Hl; assumption.
Qed.

Lemma insert_frame_sorted x l : Sorted poc_le l -> Sorted poc_le (insert_frame x l).
Proof.
  induction l as [|y t IH]; intros Hs; cbn [insert_frame].
  - constructor; constructor.
  - destruct (f_poc x <=? f_poc y) eqn:E.
    + constructor; [exact Hs|constructor; apply N.leb_le; exact E].
    + inversion Hs; subst. constructor; [apply IH; assumption|].
      apply insert_frame_hdrel; [unfold poc_le; apply N.leb_gt in E; lia|assumption].
Qed.

Lemma sort_frames_sorted l : poc_sorted (sort_frames l).
Proof.
  unfold poc_sorted, sort_frames. induction l as [|x t IH]; cbn [fold_right]; [constructor|].
  apply insert_frame_sorted. exact IH.
Qed.

Lemma renumber_pres off l : map f_pres (renumber off l) = map (fun k => off + N.of_nat k) (seq 0 (List.length l)).
Proof.
  revert off. induction l as [|f t IH]; intros off; cbn [renumber map List.length seq]; [reflexivity|].
  cbn [f_pres]. f_equal; [lia|]. rewrite IH. rewrite <- seq_shift, map_map. apply map_ext. intros k. lia.
Qed.

Lemma renumber_dec off l : map f_dec (renumber off l) = map f_dec l.
Proof. revert off. induction l as [|f t IH]; intros off; cbn; [reflexivity|]. rewrite IH. reflexivity. Qed.

Lemma period_numbering off l :
  map f_pres (renumber off (sort_frames l)) = map (fun k => off + N.of_nat k) (seq 0 (List.length l)) /\
  Permutation (map f_dec (renumber off (sort_frames l))) (map f_dec l).
Proof.
  split.
  - rewrite renumber_pres. rewrite (Permutation_length (sort_frames_perm l)). reflexivity.
  - rewrite renumber_dec. apply Permutation_map. apply sort_frames_perm.
Qed.

(* ---- key/value sorting ---- *)
Lemma insert_kv_perm {A} (x : N * A) l : Permutation (insert_kv x l) (x :: l).
Proof.
  induction l as [|y t IH]; cbn [insert_kv]; [apply Permutation_refl|].
  destruct (fst x <=? fst y); [apply Permutation_refl|].
  eapply Permutation_trans; [apply perm_skip; exact IH|apply perm_swap].
Qed.
Lemma sort_kv_perm {A} (l : list (N * A)) : Permutation (sort_kv l) l.
Proof.
  unfold sort_kv. induction l as [|x t IH]; cbn [fold_right]; [apply Permutation_refl|].
  eapply Permutation_trans; [apply insert_kv_perm|apply perm_skip; exact IH].
Qed.

Definition key_le {A} (a b : N * A) : Prop := fst a <= fst b.
Lemma insert_kv_hdrel {A} (a x : N * A) l : key_le a x -> HdRel key_le a l -> HdRel key_le a (insert_kv x l).
Proof.
  intros Hax Hl. destruct l as [|y t]; cbn [insert_kv]; [constructor; exact Hax|].
  destruct (fst x <=? fst y); constructor; [exact Hax|]. inversion Hl; assumption.
Qed.
Lemma insert_kv_sorted {A} (x : N * A) l : Sorted key_le l -> Sorted key_le (insert_kv x l).
Proof.
  induction l as [|y t IH]; intros Hs; cbn [insert_kv].
  - constructor; constructor.
  - destruct (fst x <=? fst y) eqn:E.
    + constructor; [exact Hs|constructor; apply N.leb_le; exact E].
    + inversion Hs; subst. constructor; [apply IH; assumption|].
      apply insert_kv_hdrel; [unfold key_le; apply N.leb_gt in E; lia|assumption].
Qed.
Lemma sort_kv_sorted {A} (l : list (N * A)) : Sorted key_le (sort_kv l).
Proof.
  unfold sort_kv. induction l as [|x t IH]; cbn [fold_right]; [constructor|].
  apply insert_kv_sorted. exact IH.
Qed.

Lemma sorted_map_fst {A} (l : list (N * A)) : Sorted key_le l -> Sorted N.le (map fst l).
Proof.
  induction 1 as [|a l Hs IH Hh]; cbn; constructor; [exact IH|].
  destruct Hh; cbn; constructor. assumption.
Qed.

(* a sorted list is determined by its elements *)
Lemma sorted_perm_unique (l1 : list N) : forall l2,
  Sorted N.le l1 -> Sorted N.le l2 -> Permutation l1 l2 -> l1 = l2.
Proof.
  induction l1 as [|a t1 IH]; intros l2 H1 H2 Hp.
  - apply Permutation_nil in Hp. congruence.
  - destruct l2 as [|b t2]; [apply Permutation_sym, Permutation_nil in Hp; discriminate|].
    apply Sorted_StronglySorted in H1; [|intros x y z; apply N.le_trans].
    apply Sorted_StronglySorted in H2; [|intros x y z; apply N.le_trans].
    inversion H1 as [|? ? Hs1 Hf1]; subst. inversion H2 as [|? ? Hs2 Hf2]; subst.
    assert (Hab : a = b).
    { assert (Ha : In a (b :: t2)) by (eapply Permutation_in; [exact Hp|left; reflexivity]).
      assert (Hb : In b (a :: t1)) by (eapply Permutation_in; [apply Permutation_sym; exact Hp|left; reflexivity]).
      rewrite Forall_forall in Hf1, Hf2.
      destruct Ha as [Ha|Ha]; [congruence|]. destruct Hb as [Hb|Hb]; [congruence|].
      specialize (Hf1 _ Hb). specialize (Hf2 _ Ha). lia. }
    subst b. f_equal. apply IH; [apply StronglySorted_Sorted; assumption|apply StronglySorted_Sorted; assumption|].
    eapply Permutation_cons_inv. exact Hp.
Qed.

Lemma seq_sorted n : forall s, Sorted N.le (map N.of_nat (seq s n)).
Proof.
  induction n as [|n IH]; intros s; cbn; constructor; [apply IH|].
  destruct n; cbn; constructor. lia.
Qed.

Lemma sort_kv_positions (A : Type) (kv : list (N * A)) :
  Permutation (map fst kv) (map N.of_nat (seq 0 (List.length kv))) ->
  map fst (sort_kv kv) = map N.of_nat (seq 0 (List.length kv)).
Proof.
  intros Hp. apply sorted_perm_unique.
  - apply sorted_map_fst. apply sort_kv_sorted.
  - apply seq_sorted.
  - eapply Permutation_trans; [apply Permutation_map; apply sort_kv_perm|exact Hp].
Qed.
