(* Alignment of the two layers in the muxer (C06): the stateful EL side (frame queue refilled on
   demand by a resumable, batched reader) delivers, at the w-th successful pop, exactly the w-th EL
   frame of the whole EL stream - complete, whatever the batching.  Part A: pure list facts about
   the frame queue fed with NALs whose frame indices never decrease. *)
From Coq Require Import List NArith ZArith Lia Bool.
From DV Require Import Outcome Bits Escape BitIO Rpu Ops Stream StreamProofs Order Mux MuxProofs.
Import ListNotations.
Open Scope N_scope.

(* an EL NAL after ElHandler's per-NAL treatment: (frame index, kept buffer if any) *)
Definition enal := (N * option bnal)%type.
Definition queue := list (N * list bnal).

Definition feed (q : queue) (c : list enal) : queue := fold_left (fun q e => el_add q (fst e) (snd e)) c q.
Definition groups_of (c : list enal) : queue := feed [] c.

Lemma feed_app q c d : feed q (c ++ d) = feed (feed q c) d.
Proof. unfold feed. apply fold_left_app. Qed.

Definition keys_lt (q : queue) (m : N) : Prop := Forall (fun x => fst x < m) q.

Fixpoint last_key (q : queue) (d : N) : N :=
  match q with [] => d | [(k, _)] => k | _ :: t => last_key t d end.

(* the queue is well formed for a stream whose last index is m *)
Definition wf (q : queue) (m : N) : Prop := keys_inc q /\ keys_le q m.

Lemma keys_inc_app_one q k l : keys_inc q -> keys_lt q k -> keys_inc (q ++ [(k, l)]).
Proof.
  induction q as [|[i li] t IH]; intros Hi Hl; cbn; auto.
  cbn in Hi. destruct Hi as [Hh Ht]. inversion Hl as [|? ? Hik Hlt]; subst. cbn in Hik.
  split; [|apply IH; auto].
  destruct t as [|[j lj] t2]; cbn; [exact Hik|exact Hh].
Qed.

(* adding a NAL whose index is at least every key: it lands in the last frame or opens a new one;
   everything before the last frame is untouched *)
Lemma el_add_tail (q : queue) i x :
  keys_inc q -> keys_le q i ->
  (exists q0 l, q = q0 ++ [(i, l)] /\ el_add q i x = q0 ++ [(i, l ++ olist x)]) \/
  (keys_lt q i /\ el_add q i x = q ++ [(i, olist x)]).
Proof.
  induction q as [|[k l] t IH]; intros Hinc Hle.
  - right. split; [constructor|reflexivity].
  - cbn [el_add]. inversion Hle as [|? ? Hk Hle2]; subst. cbn in Hk.
    cbn in Hinc. destruct Hinc as [Hh Hinc2].
    destruct (N.eqb_spec k i) as [->|Hne].
    + left. assert (Ht : t = []).
      { destruct t as [|[j lj] t2]; auto. inversion Hle2 as [|? ? Hj _]; subst. cbn in Hj. lia. }
      subst t. exists [], l. split; reflexivity.
    + destruct (IH Hinc2 Hle2) as [(q0 & l0 & E1 & E2)|[Hlt E2]].
      * left. exists ((k, l) :: q0), l0. rewrite E2, E1. split; reflexivity.
      * right. split; [constructor; [cbn; lia|exact Hlt]|rewrite E2; reflexivity].
Qed.

Lemma el_add_wf q i x : wf q i -> wf (el_add q i x) i.
Proof. intros [H1 H2]. destruct (el_add_spec q i x H1 H2) as (_ & A & B & _). split; auto. Qed.

Lemma wf_mono q a b : wf q a -> a <= b -> wf q b.
Proof. intros [H1 H2] H. split; auto. eapply keys_le_mono; eauto. Qed.

Lemma el_add_length q i x : keys_inc q -> keys_le q i ->
  (List.length q <= List.length (el_add q i x) <= S (List.length q))%nat.
Proof.
  intros H1 H2. destruct (el_add_tail q i x H1 H2) as [(q0 & l & E1 & E2)|[_ E2]]; rewrite E2.
  - rewrite E1, !app_length. cbn. lia.
  - rewrite app_length. cbn. lia.
Qed.

(* all frames but the last one are final: later NALs (indices never decreasing) cannot touch them *)
Lemma el_add_prefix q i x : keys_inc q -> keys_le q i ->
  firstn (List.length q - 1) (el_add q i x) = firstn (List.length q - 1) q.
Proof.
  intros H1 H2. destruct (el_add_tail q i x H1 H2) as [(q0 & l & E1 & E2)|[_ E2]]; rewrite E2.
  - rewrite E1, app_length. cbn [List.length]. replace (List.length q0 + 1 - 1)%nat with (List.length q0) by lia.
    rewrite !firstn_app, Nat.sub_diag, !firstn_all. cbn. reflexivity.
  - rewrite firstn_app. replace (List.length q - 1 - List.length q)%nat with 0%nat by lia. cbn. rewrite app_nil_r. reflexivity.
Qed.

(* monotone stream *)
Fixpoint mono_from (m : N) (c : list enal) : Prop :=
  match c with [] => True | e :: t => m <= fst e /\ mono_from (fst e) t end.

Definition last_idx (c : list enal) (d : N) : N := fold_left (fun _ e => fst e) c d.

Lemma feed_wf : forall c q m, wf q m -> mono_from m c -> wf (feed q c) (last_idx c m).
Proof.
  induction c as [|e t IH]; intros q m Hq Hm; cbn; [exact Hq|].
  destruct Hm as [Hme Hmt].
  assert (Hq' : wf (el_add q (fst e) (snd e)) (fst e)) by (apply el_add_wf; eapply wf_mono; eauto).
  exact (IH _ _ Hq' Hmt).
Qed.

Lemma last_idx_ge : forall c m, mono_from m c -> m <= last_idx c m.
Proof.
  induction c as [|e t IH]; intros m H; cbn; [lia|]. destruct H as [H1 H2]. specialize (IH _ H2). unfold last_idx in IH. lia.
Qed.

Lemma feed_prefix : forall c q m, wf q m -> mono_from m c ->
  (List.length q <= List.length (feed q c))%nat /\
  firstn (List.length q - 1) (feed q c) = firstn (List.length q - 1) q.
Proof.
  induction c as [|e t IH]; intros q m Hq Hm; cbn [feed fold_left]; [split; [lia|reflexivity]|].
  destruct Hm as [Hme Hmt]. destruct Hq as [Hq1 Hq2].
  assert (Hle : keys_le q (fst e)) by (eapply keys_le_mono; eauto).
  assert (Hq' : wf (el_add q (fst e) (snd e)) (fst e)) by (apply el_add_wf; split; auto).
  destruct (IH _ _ Hq' Hmt) as [IH1 IH2].
  pose proof (el_add_length q (fst e) (snd e) Hq1 Hle) as Hl.
  pose proof (el_add_prefix q (fst e) (snd e) Hq1 Hle) as Hp.
  split; [fold (feed (el_add q (fst e) (snd e)) t); lia|].
  fold (feed (el_add q (fst e) (snd e)) t).
  (* firstn (|q|-1) of the final queue: go through the intermediate queue *)
  set (a := (List.length q - 1)%nat) in *.
  set (q1 := el_add q (fst e) (snd e)) in *.
  set (b := (List.length q1 - 1)%nat) in *.
  assert (Hab : (a <= b)%nat) by (unfold a, b; lia).
  assert (E : firstn a (feed q1 t) = firstn a (firstn b (feed q1 t))).
  { rewrite firstn_firstn. f_equal. lia. }
  rewrite E, IH2, firstn_firstn. replace (Init.Nat.min a b) with a by lia. exact Hp.
Qed.

(* a NAL whose index is above every key opens a new frame *)
Lemma el_add_new (q : queue) m i x : wf q m -> m < i -> el_add q i x = q ++ [(i, olist x)].
Proof.
  intros [H1 H2] Hmi.
  assert (Hle : keys_le q i) by (eapply keys_le_mono; eauto; lia).
  destruct (el_add_tail q i x H1 Hle) as [(q0 & l & E1 & _)|[_ E2]]; [|exact E2].
  exfalso. subst q. unfold keys_le in H2. rewrite Forall_app in H2. destruct H2 as [_ H2].
  inversion H2; subst. cbn in *. lia.
Qed.

(* the frames before position w are not looked at when the index is none of their keys *)
Lemma el_add_skip : forall (w : nat) (q : queue) i x,
  Forall (fun f => fst f <> i) (firstn w q) ->
  el_add q i x = firstn w q ++ el_add (skipn w q) i x.
Proof.
  induction w as [|w IH]; intros q i x H; [reflexivity|].
  destruct q as [|[k l] t]; [reflexivity|].
  cbn [firstn skipn] in *. inversion H as [|? ? Hk Ht]; subst. cbn in Hk.
  cbn [el_add]. apply N.eqb_neq in Hk. rewrite Hk. cbn [app]. f_equal. apply IH. exact Ht.
Qed.

Lemma feed_skip : forall (c : list enal) (w : nat) (q : queue),
  (w <= List.length q)%nat ->
  Forall (fun f => Forall (fun e => fst f <> fst e) c) (firstn w q) ->
  feed q c = firstn w q ++ feed (skipn w q) c.
Proof.
  induction c as [|e t IH]; intros w q Hw H; cbn [feed fold_left]; [rewrite firstn_skipn; reflexivity|].
  assert (H1 : Forall (fun f => fst f <> fst e) (firstn w q)).
  { eapply Forall_impl; [|exact H]. cbn. intros f Hf. inversion Hf; auto. }
  rewrite (el_add_skip w q (fst e) (snd e) H1).
  fold (feed (firstn w q ++ el_add (skipn w q) (fst e) (snd e)) t).
  fold (feed (el_add (skipn w q) (fst e) (snd e)) t).
  assert (Hlen : List.length (firstn w q) = w) by (rewrite firstn_length; lia).
  rewrite (IH w (firstn w q ++ el_add (skipn w q) (fst e) (snd e))).
  - rewrite firstn_app, Hlen, Nat.sub_diag, firstn_all2 by lia. cbn. rewrite app_nil_r.
    rewrite skipn_app, Hlen, Nat.sub_diag, skipn_all2 by lia. reflexivity.
  - rewrite app_length, Hlen. lia.
  - rewrite firstn_app, Hlen, Nat.sub_diag, firstn_all2 by lia. cbn. rewrite app_nil_r.
    eapply Forall_impl; [|exact H]. cbn. intros f Hf. inversion Hf; auto.
Qed.

(* last frame's key is the index of the last NAL fed *)
Lemma el_add_last_key q i x : keys_inc q -> keys_le q i -> last_key (el_add q i x) 0 = i /\ el_add q i x <> [].
Proof.
  intros H1 H2. destruct (el_add_tail q i x H1 H2) as [(q0 & l & E1 & E2)|[_ E2]]; rewrite E2.
  - split; [|destruct q0; discriminate]. clear. induction q0 as [|[k lk] t IH]; cbn; auto. destruct (t ++ [(i, l ++ olist x)]) eqn:E; [destruct t; discriminate|]. exact IH.
  - split; [|destruct q; discriminate]. clear. induction q as [|[k lk] t IH]; cbn; auto. destruct (t ++ [(i, olist x)]) eqn:E; [destruct t; discriminate|]. exact IH.
Qed.

Lemma feed_last_key : forall c q m, wf q m -> mono_from m c -> c <> [] ->
  last_key (feed q c) 0 = last_idx c m /\ feed q c <> [].
Proof.
  induction c as [|e t IH]; intros q m Hq Hm Hne; [congruence|].
  destruct Hm as [Hme Hmt]. destruct Hq as [Hq1 Hq2].
  assert (Hle : keys_le q (fst e)) by (eapply keys_le_mono; eauto).
  cbn [feed fold_left last_idx]. fold (feed (el_add q (fst e) (snd e)) t). fold (last_idx t (fst e)).
  destruct t as [|e2 t2].
  - cbn. apply el_add_last_key; auto.
  - apply IH; [apply el_add_wf; split; auto|exact Hmt|discriminate].
Qed.

(* keys are strictly increasing: every key before the last is below it *)
Lemma keys_inc_lt_last : forall (q : queue) (t : nat) f, keys_inc q -> nth_error q t = Some f -> (S t < List.length q)%nat ->
  fst f < last_key q 0.
Proof.
  induction q as [|[k l] r IH]; intros t f Hi Hn Hl; [destruct t; discriminate|].
  cbn in Hi. destruct Hi as [Hh Hr].
  destruct r as [|[k2 l2] r2]; [cbn in Hl; lia|].
  destruct t as [|t].
  - cbn in Hn. inversion Hn; subst f. cbn [fst].
    (* k < k2 <= last key *)
    assert (Hk2 : k2 <= last_key ((k2, l2) :: r2) 0).
    { clear - Hr. revert k2 l2 Hr. induction r2 as [|[k3 l3] r3 IH2]; intros k2 l2 Hr; cbn; [lia|].
      cbn in Hr. destruct Hr as [H23 Hr3]. specialize (IH2 k3 l3 Hr3). cbn in IH2. lia. }
    change (last_key ((k, l) :: (k2, l2) :: r2) 0) with (last_key ((k2, l2) :: r2) 0). lia.
  - change (last_key ((k, l) :: (k2, l2) :: r2) 0) with (last_key ((k2, l2) :: r2) 0).
    apply (IH t f Hr); [exact Hn|cbn in Hl |- *; lia].
Qed.

(* ---------------- Part B: the reader ---------------- *)
Local Open Scope out_scope.

(* per-NAL treatment of a batch, when it succeeds for every NAL *)
Fixpoint to_enals (p : profile) (o : mopts) (b : list (nal * N)) : outcome (list enal) :=
  match b with
  | [] => Ok []
  | (n, i) :: t => let* x := el_buf p o n in let* r := to_enals p o t in Ok ((i, x) :: r)
  end.

Lemma el_process_feed p o : forall b q eb, to_enals p o b = Ok eb -> el_process p o q b = Ok (feed q eb).
Proof.
  induction b as [|[n i] t IH]; intros q eb H; cbn in H.
  - inversion H. reflexivity.
  - destruct (el_buf p o n) as [x| |s] eqn:Ex; cbn [bind] in H; try discriminate.
    destruct (to_enals p o t) as [r| |s] eqn:Et; cbn [bind] in H; try discriminate.
    inversion H; subst eb. cbn [el_process]. rewrite Ex. cbn [bind]. rewrite (IH _ r eq_refl). reflexivity.
Qed.

Lemma to_enals_idx p o : forall b eb, to_enals p o b = Ok eb -> map fst eb = map snd b.
Proof.
  induction b as [|[n i] t IH]; intros eb H; cbn in H.
  - inversion H. reflexivity.
  - destruct (el_buf p o n); cbn [bind] in H; try discriminate.
    destruct (to_enals p o t) as [r| |s] eqn:Et; cbn [bind] in H; try discriminate.
    inversion H; subst. cbn. f_equal. apply IH. reflexivity.
Qed.

(* batch_max is the largest index of the batch; for a batch whose indices never decrease (and are
   at least m), that is its last index *)
Lemma batch_max_last p o : forall b eb m a,
  to_enals p o b = Ok eb -> mono_from m eb -> a <= m ->
  fold_left (fun a x => N.max a (snd x)) b a = last_idx eb (N.max a m) \/ b = [].
Proof.
  induction b as [|[n i] t IH]; intros eb m a H Hm Ha; [right; reflexivity|left].
  cbn in H. destruct (el_buf p o n) as [x| |s]; cbn [bind] in H; try discriminate.
  destruct (to_enals p o t) as [r| |s] eqn:Et; cbn [bind] in H; try discriminate.
  inversion H; subst eb. cbn in Hm. destruct Hm as [Hmi Hmt].
  cbn [fold_left snd last_idx fst]. fold (last_idx r i).
  destruct (IH r i (N.max a i) eq_refl Hmt ltac:(lia)) as [E|E].
  - rewrite E. replace (N.max (N.max a i) i) with i by lia. reflexivity.
  - subst t. cbn in Et. inversion Et; subst r. cbn. lia.
Qed.

Lemma batch_max_some p o b eb m :
  to_enals p o b = Ok eb -> mono_from m eb -> b <> [] -> batch_max b = Some (last_idx eb m).
Proof.
  intros H Hm Hne. unfold batch_max. destruct b as [|x t] eqn:Eb; [congruence|]. rewrite <- Eb in *.
  f_equal. destruct (batch_max_last p o b eb m 0 H Hm ltac:(lia)) as [E|E]; [|congruence].
  rewrite E. f_equal. lia.
Qed.

Lemma to_enals_nil p o b : to_enals p o b = Ok [] -> b = [].
Proof. destruct b as [|[n i] t]; auto. cbn. destruct (el_buf p o n); cbn; try discriminate. destruct (to_enals p o t); cbn; discriminate. Qed.

Lemma mono_from_app : forall c d m, mono_from m (c ++ d) <-> mono_from m c /\ mono_from (last_idx c m) d.
Proof.
  induction c as [|e t IH]; intros d m; cbn [app mono_from last_idx fold_left]; [tauto|].
  fold (last_idx t (fst e)). rewrite IH. tauto.
Qed.

Lemma last_idx_app c d m : last_idx (c ++ d) m = last_idx d (last_idx c m).
Proof. unfold last_idx. apply fold_left_app. Qed.

Lemma mono_from_weaken : forall c m m', m' <= m -> mono_from m c -> mono_from m' c.
Proof. destruct c as [|e t]; cbn; auto. intros m m' H [H1 H2]. split; [lia|exact H2]. Qed.

Lemma mono_all_ge : forall c m, mono_from m c -> Forall (fun e => m <= fst e) c.
Proof.
  induction c as [|e t IH]; intros m H; constructor.
  - destruct H; auto.
  - destruct H as [H1 H2]. eapply Forall_impl; [|apply (IH _ H2)]. cbn. intros; lia.
Qed.

(* invariant of the EL side: C consumed so far, D still to read, w frames already written *)
Record rinv (p : profile) (o : mopts) (s : elstate) (C D : list enal) (w : nat) : Prop := mkRinv {
  ri_rest : exists rest_e, Forall2 (fun b eb => to_enals p o b = Ok eb) (el_rest s) rest_e /\ concat rest_e = D;
  ri_frames : el_frames s = skipn w (groups_of C);
  ri_last : el_last s = last_idx C 0;
  ri_mono : mono_from 0 (C ++ D);
  ri_w : (w <= List.length (groups_of C))%nat;
  ri_done : Forall (fun f => Forall (fun e => fst f <> fst e) D) (firstn w (groups_of C)) }.

Lemma groups_skip_feed C eb w :
  (w <= List.length (groups_of C))%nat ->
  Forall (fun f => Forall (fun e => fst f <> fst e) eb) (firstn w (groups_of C)) ->
  groups_of (C ++ eb) = firstn w (groups_of C) ++ feed (skipn w (groups_of C)) eb.
Proof. intros Hw H. unfold groups_of at 1. rewrite feed_app. fold (groups_of C). apply feed_skip; auto. Qed.

Lemma forall_app_l {A} (P : A -> Prop) l1 l2 : Forall P (l1 ++ l2) -> Forall P l1.
Proof. rewrite Forall_app. tauto. Qed.
Lemma forall_app_r {A} (P : A -> Prop) l1 l2 : Forall P (l1 ++ l2) -> Forall P l2.
Proof. rewrite Forall_app. tauto. Qed.

Lemma el_read_inv p o : forall fuel s C D w,
  rinv p o s C D w -> (List.length (el_rest s) < fuel)%nat ->
  exists s' C' D', el_read p o fuel s = Ok s' /\ rinv p o s' C' D' w /\ C' ++ D' = C ++ D /\
    (exists X, C' = C ++ X) /\
    ((el_rest s' = [] /\ D' = []) \/ last_idx C 0 < last_idx C' 0).
Proof.
  induction fuel as [|f IH]; intros s C D w Hinv Hfuel; [lia|].
  destruct Hinv as [(rest_e & Hrest & Hcat) Hfr Hla Hmo Hw Hdone].
  cbn [el_read]. destruct (el_rest s) as [|b rest] eqn:Er.
  - (* end of the EL file *)
    inversion Hrest; subst rest_e. cbn in Hcat. subst D.
    exists s, C, []. split; [reflexivity|]. split.
    + constructor; auto. exists []. rewrite Er. split; [constructor|reflexivity].
    + split; [reflexivity|]. split; [exists []; rewrite app_nil_r; reflexivity|]. left. auto.
  - inversion Hrest as [|? eb ? reste' Hb Hrest']; subst. cbn [concat] in Hmo, Hdone.
    rewrite (el_process_feed p o b (el_frames s) eb Hb). cbn [bind].
    set (G := groups_of C) in *.
    assert (Hdone_eb : Forall (fun f => Forall (fun e => fst f <> fst e) eb) (firstn w G)).
    { eapply Forall_impl; [|exact Hdone]. cbn. intros fr Hf. eapply forall_app_l; eauto. }
    assert (Hdone_rest : Forall (fun f => Forall (fun e => fst f <> fst e) (concat reste')) (firstn w G)).
    { eapply Forall_impl; [|exact Hdone]. cbn. intros fr Hf. eapply forall_app_r; eauto. }
    pose proof (groups_skip_feed C eb w Hw Hdone_eb) as HG. fold G in HG.
    assert (Hlenw : List.length (firstn w G) = w) by (rewrite firstn_length; lia).
    assert (Hfr' : feed (el_frames s) eb = skipn w (groups_of (C ++ eb))).
    { rewrite HG, Hfr. rewrite skipn_app, Hlenw, Nat.sub_diag. rewrite (skipn_all2 (firstn w G)) by (rewrite Hlenw; lia). reflexivity. }
    assert (Hfirst' : firstn w (groups_of (C ++ eb)) = firstn w G).
    { rewrite HG. rewrite firstn_app, Hlenw, Nat.sub_diag. rewrite (firstn_all2 (firstn w G)) by (rewrite Hlenw; lia). cbn. rewrite app_nil_r. reflexivity. }
    assert (Hw' : (w <= List.length (groups_of (C ++ eb)))%nat) by (rewrite HG, app_length, Hlenw; lia).
    rewrite app_assoc in Hmo.
    pose proof (proj1 (mono_from_app _ _ _) Hmo) as [HmoCe _].
    pose proof (proj1 (mono_from_app _ _ _) HmoCe) as [_ Hmoe].
    (* the state after this batch, with either value of last_buffered_frame *)
    assert (Hstate : forall lastv, lastv = last_idx (C ++ eb) 0 ->
              rinv p o (mkEl rest (feed (el_frames s) eb) lastv) (C ++ eb) (concat reste') w).
    { intros lastv Hl. constructor; cbn [el_rest el_frames el_last]; auto.
      - exists reste'. split; auto.
      - rewrite Hfirst'. exact Hdone_rest. }
    destruct (batch_max b) as [mx|] eqn:Ebm.
    + assert (Hbne : b <> []) by (intros ->; discriminate).
      pose proof (batch_max_some p o b eb (last_idx C 0) Hb Hmoe Hbne) as Hmx. rewrite Ebm in Hmx. assert (Hmx' : mx = last_idx eb (last_idx C 0)) by congruence. clear Hmx.
      assert (Hlast : last_idx (C ++ eb) 0 = mx) by (rewrite last_idx_app; symmetry; exact Hmx').
      rewrite Hla. destruct (last_idx C 0 <? mx) eqn:Elt.
      * (* a later frame showed up: stop *)
        apply N.ltb_lt in Elt.
        exists (mkEl rest (feed (el_frames s) eb) mx), (C ++ eb), (concat reste').
        split; [reflexivity|]. split; [apply Hstate; auto|]. split; [rewrite <- app_assoc; reflexivity|].
        split; [exists eb; reflexivity|]. right. rewrite Hlast. exact Elt.
      * apply N.ltb_ge in Elt.
        assert (Hge : last_idx C 0 <= mx) by (rewrite Hmx'; apply last_idx_ge; exact Hmoe).
        assert (Heq : last_idx C 0 = last_idx (C ++ eb) 0) by lia.
        destruct (IH (mkEl rest (feed (el_frames s) eb) (last_idx C 0)) (C ++ eb) (concat reste') w (Hstate _ Heq))
          as (s' & C' & D' & H1 & H2 & H3 & (X & H4) & H5); [cbn; cbn in Hfuel; lia|].
        exists s', C', D'. split; [exact H1|]. split; [exact H2|]. split; [rewrite H3, <- app_assoc; reflexivity|].
        split; [exists (eb ++ X); rewrite H4, app_assoc; reflexivity|].
        destruct H5 as [H5|H5]; [left; exact H5|right; rewrite Heq; exact H5].
    + (* empty batch *)
      assert (Hbe : b = []) by (destruct b; [reflexivity|discriminate]). subst b. cbn in Hb. inversion Hb; subst eb.
      rewrite app_nil_r in *.
      destruct (IH (mkEl rest (feed (el_frames s) []) (el_last s)) C (concat reste') w)
        as (s' & C' & D' & H1 & H2 & H3 & H4 & H5); [|cbn; cbn in Hfuel; lia|].
      { apply Hstate. exact Hla. }
      exists s', C', D'. cbn [concat app]. auto.
Qed.

(* ---------------- Part C: what a flush writes from the EL ---------------- *)
Lemma feed_length_ge : forall c q m, wf q m -> mono_from m c -> (List.length q <= List.length (feed q c))%nat.
Proof. intros c q m H1 H2. apply (feed_prefix c q m H1 H2). Qed.

(* a NAL with a larger index than everything fed so far opens a new frame *)
Lemma feed_grows : forall c q m, wf q m -> mono_from m c -> m < last_idx c m ->
  (S (List.length q) <= List.length (feed q c))%nat.
Proof.
  induction c as [|e t IH]; intros q m Hq Hm Hlt; cbn [last_idx fold_left] in Hlt; [lia|].
  fold (last_idx t (fst e)) in Hlt. destruct Hm as [Hme Hmt].
  cbn [feed fold_left]. fold (feed (el_add q (fst e) (snd e)) t).
  destruct (N.eq_dec (fst e) m) as [Heq|Hne].
  - assert (Hq' : wf (el_add q (fst e) (snd e)) (fst e)) by (apply el_add_wf; rewrite Heq; exact Hq).
    destruct Hq as [Hq1 Hq2]. rewrite Heq in *.
    pose proof (el_add_length q m (snd e) Hq1 Hq2) as Hl.
    specialize (IH _ _ Hq' Hmt Hlt). lia.
  - assert (Hgt : m < fst e) by lia.
    rewrite (el_add_new q m (fst e) (snd e) Hq Hgt).
    assert (Hq' : wf (q ++ [(fst e, olist (snd e))]) (fst e)).
    { rewrite <- (el_add_new q m (fst e) (snd e) Hq Hgt). apply el_add_wf. eapply wf_mono; [exact Hq|lia]. }
    pose proof (feed_length_ge t _ _ Hq' Hmt) as Hl. rewrite app_length in Hl. cbn in Hl. lia.
Qed.

Lemma groups_wf C : mono_from 0 C -> wf (groups_of C) (last_idx C 0).
Proof. intros H. apply feed_wf; [split; [exact I|constructor]|exact H]. Qed.

(* frames of a prefix are frames of the whole stream, except possibly the last one *)
Lemma groups_prefix C D : mono_from 0 (C ++ D) ->
  (List.length (groups_of C) <= List.length (groups_of (C ++ D)))%nat /\
  firstn (List.length (groups_of C) - 1) (groups_of (C ++ D)) = firstn (List.length (groups_of C) - 1) (groups_of C).
Proof.
  intros H. apply mono_from_app in H. destruct H as [HC HD].
  unfold groups_of at 2 4. rewrite feed_app. fold (groups_of C).
  apply (feed_prefix D (groups_of C) (last_idx C 0)); [apply groups_wf; exact HC|exact HD].
Qed.

Lemma nth_error_firstn' {A} : forall (k t : nat) (l : list A), (t < k)%nat -> nth_error (firstn k l) t = nth_error l t.
Proof.
  induction k as [|k IH]; intros t l H; [lia|]. destruct l as [|x r]; [destruct t; reflexivity|].
  destruct t as [|t]; [reflexivity|]. cbn. apply IH. lia.
Qed.

Lemma groups_complete C D (t : nat) : mono_from 0 (C ++ D) -> (S t < List.length (groups_of C))%nat ->
  nth_error (groups_of (C ++ D)) t = nth_error (groups_of C) t.
Proof.
  intros H Ht. destruct (groups_prefix C D H) as [_ Hp].
  assert (E : forall (l : queue), nth_error l t = nth_error (firstn (List.length (groups_of C) - 1) l) t).
  { intros l. symmetry. apply nth_error_firstn'. lia. }
  rewrite (E (groups_of (C ++ D))), (E (groups_of C)), Hp. reflexivity.
Qed.

Lemma groups_last_key C : mono_from 0 C -> C <> [] -> last_key (groups_of C) 0 = last_idx C 0 /\ groups_of C <> [].
Proof. intros H Hne. apply feed_last_key; auto. split; [exact I|constructor]. Qed.

Lemma groups_grow C X : mono_from 0 (C ++ X) -> last_idx C 0 < last_idx (C ++ X) 0 ->
  (S (List.length (groups_of C)) <= List.length (groups_of (C ++ X)))%nat.
Proof.
  intros H Hlt. apply mono_from_app in H. destruct H as [HC HX].
  unfold groups_of at 2. rewrite feed_app. fold (groups_of C).
  apply (feed_grows X (groups_of C) (last_idx C 0)); [apply groups_wf; exact HC|exact HX|].
  rewrite last_idx_app in Hlt. exact Hlt.
Qed.

(* a stream that starts in frame 0 and reaches a later frame has at least two frames *)
Lemma groups_two X : mono_from 0 X -> (match X with [] => True | e :: _ => fst e = 0 end) -> 0 < last_idx X 0 ->
  (2 <= List.length (groups_of X))%nat.
Proof.
  intros Hm H0 Hlt. destruct X as [|e t]; [cbn in Hlt; lia|].
  destruct Hm as [_ Hmt]. rewrite H0 in *.
  unfold groups_of. cbn [feed fold_left]. fold (feed (el_add [] (fst e) (snd e)) t). rewrite H0.
  cbn [el_add]. cbn [last_idx fold_left] in Hlt. fold (last_idx t (fst e)) in Hlt. rewrite H0 in Hlt.
  assert (Hq : wf [(0, olist (snd e))] 0) by (split; [cbn; auto|constructor; [cbn; lia|constructor]]).
  pose proof (feed_grows t _ 0 Hq Hmt Hlt) as Hg. cbn in Hg. exact Hg.
Qed.

Section Align.
  Context (p : profile) (o : mopts) (all : list enal).
  Context (Hmono : mono_from 0 all).
  Context (Hzero : match all with [] => True | e :: _ => fst e = 0 end).

  Let G := groups_of all.
  Let NG := List.length G.

  (* consumed prefix C, unread rest D, w frames written: the queue is never empty once something was read *)
  Definition ainv (s : elstate) (C D : list enal) (w : nat) : Prop :=
    rinv p o s C D w /\ C ++ D = all /\ (C = [] \/ (w < List.length (groups_of C))%nat).

  Lemma prefix_zero C D : C ++ D = all -> match C with [] => True | e :: _ => fst e = 0 end.
  Proof. intros H. destruct C as [|e t]; auto. rewrite <- H in Hzero. exact Hzero. Qed.

  Lemma ainv_mono s C D w : ainv s C D w -> mono_from 0 (C ++ D).
  Proof. intros (_ & H & _). rewrite H. exact Hmono. Qed.

  (* after the optional refill of a non-final flush: at least two frames queued iff the EL still
     has a frame after the next one; the front frame is then the w-th frame of the whole EL *)
  Lemma refill_spec s C D w : ainv s C D w ->
    exists s1 C1 D1,
      (if (List.length (el_frames s) <? 2)%nat then el_read p o (S (List.length (el_rest s))) s else Ok s) = Ok s1 /\
      ainv s1 C1 D1 w /\
      ((2 <= List.length (el_frames s1))%nat <-> (S w < NG)%nat) /\
      ((2 <= List.length (el_frames s1))%nat -> nth_error (groups_of C1) w = nth_error G w /\ (S w < List.length (groups_of C1))%nat).
  Proof.
    intros (Hr & Hall & Hne).
    assert (HG : G = groups_of (C ++ D)) by (unfold G; rewrite Hall; reflexivity).
    assert (HmCD : mono_from 0 (C ++ D)) by (rewrite Hall; exact Hmono).
    destruct (List.length (el_frames s) <? 2)%nat eqn:Elen.
    - apply Nat.ltb_lt in Elen.
      destruct (el_read_inv p o (S (List.length (el_rest s))) s C D w Hr ltac:(lia))
        as (s1 & C1 & D1 & H1 & H2 & H3 & (X & H4) & H5).
      exists s1, C1, D1. split; [exact H1|].
      assert (Hall1 : C1 ++ D1 = all) by (rewrite H3; exact Hall).
      assert (HmC1D1 : mono_from 0 (C1 ++ D1)) by (rewrite Hall1; exact Hmono).
      assert (HG1 : G = groups_of (C1 ++ D1)) by (unfold G; rewrite Hall1; reflexivity).
      pose proof (ri_frames _ _ _ _ _ _ Hr) as Hfr. pose proof (ri_frames _ _ _ _ _ _ H2) as Hfr1.
      pose proof (ri_w _ _ _ _ _ _ Hr) as Hw.
      rewrite Hfr, skipn_length in Elen.
      destruct (groups_prefix C1 D1 HmC1D1) as [Hle1 _]. rewrite <- HG1 in Hle1. fold NG in Hle1.
      assert (HmC1 : mono_from 0 C1) by (apply mono_from_app in HmC1D1; tauto).
      assert (HgeC : (List.length (groups_of C) <= List.length (groups_of C1))%nat).
      { subst C1. apply (groups_prefix C X HmC1). }
      destruct H5 as [[_ HD1]|Hprog].
      + (* end of the EL reached *)
        subst D1.
        assert (HC1 : C1 = all) by (rewrite <- Hall1, app_nil_r; reflexivity).
        assert (HGC1 : groups_of C1 = G) by (rewrite HC1; reflexivity).
        assert (Hlen1 : List.length (el_frames s1) = (NG - w)%nat) by (rewrite Hfr1, skipn_length, HGC1; reflexivity).
        split; [|split].
        * split; [exact H2|]. split; [exact Hall1|].
          destruct Hne as [HCe|Hlt]; [|right; lia].
          destruct C1 as [|e0 t0] eqn:EC1; [left; reflexivity|]. right.
          subst C. cbn in Hw. assert (w = 0)%nat by lia. subst w.
          destruct (groups_last_key (e0 :: t0) HmC1 ltac:(discriminate)) as [_ Hnn].
          destruct (groups_of (e0 :: t0)); [congruence|cbn; lia].
        * rewrite Hlen1. lia.
        * intros H2l. rewrite Hlen1 in H2l. split; [rewrite HGC1; reflexivity|rewrite HGC1; fold NG; lia].
      + (* a later frame showed up *)
        assert (Hgrow : (S (List.length (groups_of C)) <= List.length (groups_of C1))%nat).
        { subst C1. apply groups_grow; [exact HmC1|exact Hprog]. }
        assert (H2fr : (S (S w) <= List.length (groups_of C1))%nat).
        { destruct Hne as [HC|Hlt]; [|lia].
          subst C. cbn [app] in H4. subst C1. cbn in Hw. assert (w = 0)%nat by lia. subst w.
          apply groups_two; [exact HmC1|exact (prefix_zero X D1 Hall1)|]. cbn in Hprog. exact Hprog. }
        split; [|split].
        * split; [exact H2|]. split; [exact Hall1|]. right. lia.
        * rewrite Hfr1, skipn_length. lia.
        * intros _. split; [|lia]. rewrite HG1. symmetry. apply groups_complete; [exact HmC1D1|lia].
    - apply Nat.ltb_ge in Elen. exists s, C, D. split; [reflexivity|].
      pose proof (ri_frames _ _ _ _ _ _ Hr) as Hfr. rewrite Hfr, skipn_length in Elen.
      destruct (groups_prefix C D HmCD) as [Hle _]. rewrite <- HG in Hle. fold NG in Hle.
      split; [split; [exact Hr|split; [exact Hall|right; lia]]|]. split.
      + rewrite Hfr, skipn_length. lia.
      + intros _. split; [|lia]. rewrite HG. symmetry. apply groups_complete; [exact HmCD|lia].
  Qed.

  Lemma skipn_nth {A} : forall (w : nat) (l : list A) f, nth_error l w = Some f -> skipn w l = f :: skipn (S w) l.
  Proof. induction w as [|w IH]; intros [|x r] f H; cbn in *; try discriminate; [inversion H; reflexivity|apply IH; exact H]. Qed.

  Lemma firstn_nth {A} : forall (w : nat) (l : list A) f, nth_error l w = Some f -> firstn (S w) l = firstn w l ++ [f].
  Proof. induction w as [|w IH]; intros [|x r] f H; cbn in *; try discriminate; [inversion H; reflexivity|f_equal; apply IH; exact H]. Qed.

  (* what a non-final flush takes from the EL: the w-th frame of the whole EL stream, complete, iff
     the EL has a frame after it; the invariant is kept *)
  Lemma el_part_nonfinal s C D w : ainv s C D w ->
    exists elw s' C' D' w', el_part p o false s = Ok (elw, s') /\ ainv s' C' D' w' /\
      (((S w < NG)%nat /\ w' = S w /\ exists f, nth_error G w = Some f /\ elw = el_write o (snd f)) \/
       (~ (S w < NG)%nat /\ w' = w /\ elw = [])).
  Proof.
    intros Hinv. destruct (refill_spec s C D w Hinv) as (s1 & C1 & D1 & Hread & Hinv1 & Hiff & Hfront).
    unfold el_part. cbn [orb]. rewrite Hread. cbn [bind].
    destruct Hinv1 as (Hr1 & Hall1 & Hne1).
    pose proof (ri_frames _ _ _ _ _ _ Hr1) as Hfr1.
    destruct (1 <? List.length (el_frames s1))%nat eqn:E1.
    - apply Nat.ltb_lt in E1. assert (H2 : (2 <= List.length (el_frames s1))%nat) by lia.
      destruct (Hfront H2) as [Hnth Hlen]. apply Hiff in H2.
      destruct (nth_error (groups_of C1) w) as [f|] eqn:Ef; [|apply nth_error_None in Ef; lia].
      rewrite Hfr1, (skipn_nth w _ f Ef). destruct f as [k l].
      exists (el_write o l), (mkEl (el_rest s1) (skipn (S w) (groups_of C1)) (el_last s1)), C1, D1, (S w).
      split; [reflexivity|]. split.
      + split; [|split; [exact Hall1|right; lia]].
        assert (HmC1D1 : mono_from 0 (C1 ++ D1)) by (rewrite Hall1; exact Hmono).
        assert (HmC1 : mono_from 0 C1) by (apply mono_from_app in HmC1D1; tauto).
        assert (HmD1 : mono_from (last_idx C1 0) D1) by (apply mono_from_app in HmC1D1; tauto).
        assert (HC1ne : C1 <> []) by (intros ->; cbn in Hlen; lia).
        destruct (groups_last_key C1 HmC1 HC1ne) as [Hlk _].
        pose proof (groups_wf C1 HmC1) as [Hkinc _].
        pose proof (keys_inc_lt_last (groups_of C1) w (k, l) Hkinc Ef Hlen) as Hklt. cbn [fst] in Hklt. rewrite Hlk in Hklt.
        destruct Hr1 as [Hrest _ Hla Hmo Hw Hdone].
        constructor; cbn [el_rest el_frames el_last]; auto; [lia|].
        rewrite (firstn_nth w _ (k, l) Ef). apply Forall_app. split; [exact Hdone|].
        constructor; [|constructor]. cbn [fst].
        eapply Forall_impl; [|apply (mono_all_ge D1 _ HmD1)]. cbn. intros e He. lia.
      + left. split; [exact H2|]. split; [reflexivity|]. exists (k, l). rewrite <- Hnth. split; [reflexivity|reflexivity].
    - apply Nat.ltb_ge in E1.
      exists [], s1, C1, D1, w. split; [reflexivity|]. split; [split; [exact Hr1|split; [exact Hall1|exact Hne1]]|].
      right. split; [|split; reflexivity]. intros Hlt. apply Hiff in Hlt. lia.
  Qed.

  Lemma skipn_nonempty {A} (k : nat) (l : list A) : skipn k l <> [] <-> (k < List.length l)%nat.
  Proof.
    split.
    - intros H. destruct (Nat.lt_ge_cases k (List.length l)); auto. rewrite skipn_all2 in H by lia. congruence.
    - intros H E. assert (List.length (skipn k l) = 0%nat) by (rewrite E; reflexivity). rewrite skipn_length in H0. lia.
  Qed.

  (* the final flush: the w-th EL frame if there is one; frames left over afterwards iff the EL is longer *)
  Lemma el_part_final s C D w : ainv s C D w ->
    exists elw s', el_part p o true s = Ok (elw, s') /\
      (((w < NG)%nat /\ exists f, nth_error G w = Some f /\ elw = el_write o (snd f)) \/ (~ (w < NG)%nat /\ elw = [])) /\
      (el_frames s' <> [] <-> (S w < NG)%nat).
  Proof.
    intros (Hr & Hall & Hne).
    destruct (el_read_inv p o (S (List.length (el_rest s))) s C D w Hr ltac:(lia))
      as (s1 & C1 & D1 & H1 & H2 & H3 & (X & H4) & H5).
    unfold el_part. cbn [orb]. rewrite H1. cbn [bind].
    assert (Hall1 : C1 ++ D1 = all) by (rewrite H3; exact Hall).
    assert (HmC1D1 : mono_from 0 (C1 ++ D1)) by (rewrite Hall1; exact Hmono).
    assert (HmC1 : mono_from 0 C1) by (apply mono_from_app in HmC1D1; tauto).
    assert (HG1 : G = groups_of (C1 ++ D1)) by (unfold G; rewrite Hall1; reflexivity).
    pose proof (ri_frames _ _ _ _ _ _ H2) as Hfr1. pose proof (ri_w _ _ _ _ _ _ Hr) as Hw.
    destruct (groups_prefix C1 D1 HmC1D1) as [Hle1 _]. rewrite <- HG1 in Hle1. fold NG in Hle1.
    (* in both cases the front of the queue, if any, is frame w of the whole EL *)
    assert (Hfront : (w < List.length (groups_of C1))%nat ->
                     nth_error (groups_of C1) w = nth_error G w /\
                     ((S w < List.length (groups_of C1))%nat <-> (S w < NG)%nat)).
    { intros Hlt. destruct H5 as [[_ HD1]|Hprog].
      - subst D1. assert (HC1 : C1 = all) by (rewrite <- Hall1, app_nil_r; reflexivity).
        assert (HGC1 : groups_of C1 = G) by (rewrite HC1; reflexivity). rewrite HGC1. fold NG. tauto.
      - assert (Hgrow : (S (List.length (groups_of C)) <= List.length (groups_of C1))%nat).
        { subst C1. apply groups_grow; [exact HmC1|exact Hprog]. }
        assert (H2fr : (S (S w) <= List.length (groups_of C1))%nat).
        { destruct Hne as [HC|Hl]; [|lia].
          subst C. cbn [app] in H4. subst C1. cbn in Hw. assert (w = 0)%nat by lia. subst w.
          apply groups_two; [exact HmC1|exact (prefix_zero X D1 Hall1)|]. cbn in Hprog. exact Hprog. }
        split; [rewrite HG1; symmetry; apply groups_complete; [exact HmC1D1|lia]|]. split; lia. }
    destruct (Nat.lt_ge_cases w (List.length (groups_of C1))) as [Hlt|Hge].
    - destruct (Hfront Hlt) as [Hnth Hiff].
      destruct (nth_error (groups_of C1) w) as [f|] eqn:Ef; [|apply nth_error_None in Ef; lia].
      rewrite Hfr1, (skipn_nth w _ f Ef). destruct f as [k l].
      exists (el_write o l), (mkEl (el_rest s1) (skipn (S w) (groups_of C1)) (el_last s1)).
      split; [reflexivity|]. split.
      + left. split; [lia|]. exists (k, l). rewrite <- Hnth. split; reflexivity.
      + cbn [el_frames]. rewrite skipn_nonempty. exact Hiff.
    - (* nothing queued: the EL is exhausted (it has at most w frames) *)
      assert (Hempty : skipn w (groups_of C1) = []) by (apply skipn_all2; lia).
      rewrite Hfr1, Hempty. exists [], s1. split; [reflexivity|].
      assert (HNG : (NG <= w)%nat).
      { destruct H5 as [[_ HD1]|Hprog].
        - subst D1. assert (HC1 : C1 = all) by (rewrite <- Hall1, app_nil_r; reflexivity).
          assert (HGC1 : groups_of C1 = G) by (rewrite HC1; reflexivity). rewrite HGC1 in Hge. exact Hge.
        - exfalso.
          assert (Hgrow : (S (List.length (groups_of C)) <= List.length (groups_of C1))%nat).
          { subst C1. apply groups_grow; [exact HmC1|exact Hprog]. }
          destruct Hne as [HC|Hl]; [|lia].
          subst C. cbn [app] in H4. subst C1. cbn in Hw. assert (w = 0)%nat by lia. subst w. lia. }
      split; [right; split; [lia|reflexivity]|]. rewrite Hfr1, Hempty. split; [congruence|lia].
  Qed.

  (* ---------------- Part D: the specification instance and the simulation ---------------- *)
  (* EL side of the specification: a counter w into the frames of the whole EL stream *)
  Definition spec_el (final : bool) (w : nat) : outcome (list wnal * nat) :=
    Ok (if final || (S w <? NG)%nat
        then match nth_error G w with Some f => (el_write o (snd f), S w) | None => ([], w) end
        else ([], w)).

  Definition Rel (e : elstate) (w : nat) : Prop := exists C D, ainv e C D w.

  Lemma elpart_sim_nonfinal e w : Rel e w ->
    osim (fun a b => fst a = fst b /\ Rel (snd a) (snd b)) (el_part p o false e) (spec_el false w).
  Proof.
    intros (C & D & Hinv).
    destruct (el_part_nonfinal e C D w Hinv) as (elw & e' & C' & D' & w' & H1 & H2 & H3).
    rewrite H1. unfold spec_el. cbn [orb osim fst snd].
    destruct H3 as [(Hlt & -> & f & Hf & ->)|(Hnlt & -> & ->)].
    - replace (S w <? NG)%nat with true by (symmetry; apply Nat.ltb_lt; exact Hlt). rewrite Hf. cbn. split; [reflexivity|exists C', D'; exact H2].
    - replace (S w <? NG)%nat with false by (symmetry; apply Nat.ltb_ge; lia). cbn. split; [reflexivity|exists C', D'; exact H2].
  Qed.

  Lemma elpart_sim_final e w : Rel e w ->
    osim (fun a b => fst a = fst b /\ (el_frames (snd a) <> [] <-> (S w < NG)%nat)) (el_part p o true e) (spec_el true w).
  Proof.
    intros (C & D & Hinv).
    destruct (el_part_final e C D w Hinv) as (elw & e' & H1 & H2 & H3).
    rewrite H1. unfold spec_el. cbn [orb osim fst snd].
    destruct H2 as [(Hlt & f & Hf & ->)|(Hnlt & ->)].
    - rewrite Hf. cbn. split; [reflexivity|exact H3].
    - assert (Hnone : nth_error G w = None) by (apply nth_error_None; fold NG; lia). rewrite Hnone. cbn. split; [reflexivity|exact H3].
  Qed.

  Definition Rms (s1 : @mstate elstate) (s2 : @mstate nat) : Prop :=
    m_fb_number s1 = m_fb_number s2 /\ m_fb s1 = m_fb s2 /\ m_out s1 = m_out s2 /\ Rel (m_el s1) (m_el s2).

  Lemma flush_sim_nonfinal fs s1 s2 : Rms s1 s2 ->
    osim Rms (mux_flush (el_part p o) o fs false s1) (mux_flush spec_el o fs false s2).
  Proof.
    intros (H1 & H2 & H3 & H4). unfold mux_flush. rewrite H1, H2, H3.
    apply (osim_bind eq); [apply osim_same; reflexivity|]. intros buf ? <-.
    eapply osim_bind; [apply elpart_sim_nonfinal; exact H4|].
    intros [elw e'] [elw' w'] [Ha Hb]. cbn [fst snd] in *. subst elw'. cbn.
    repeat split; auto.
  Qed.

  Lemma step_sim fs s1 s2 ni : Rms s1 s2 ->
    osim Rms (mux_step (el_part p o) o fs s1 ni) (mux_step spec_el o fs s2 ni).
  Proof.
    intros HR. destruct ni as [n idx]. unfold mux_step.
    apply (osim_bind eq); [apply osim_same; reflexivity|]. intros [has40 repl] ? <-.
    destruct (has40 && negb (is_some repl)); [exact HR|].
    pose proof HR as (H1 & H2 & H3 & H4).
    eapply osim_bind with (R := Rms).
    - rewrite H1. destruct (negb (m_fb_number s2 =? idx)); [|exact HR].
      eapply osim_bind; [apply flush_sim_nonfinal; exact HR|].
      intros a b (Ha & Hb & Hc & Hd). cbn. repeat split; auto.
    - intros a b (Ha & Hb & Hc & Hd).
      destruct ((ntype n =? 62) || (ntype n =? 63)); [cbn; repeat split; auto|].
      destruct (negb (mo_no_add_aud o) && (ntype n =? 35)); [cbn; repeat split; auto|].
      cbn. rewrite Ha, Hb, Hc. repeat split; auto.
  Qed.

  Lemma nals_sim fs : forall l s1 s2, Rms s1 s2 ->
    osim Rms (mux_nals (el_part p o) o fs s1 l) (mux_nals spec_el o fs s2 l).
  Proof.
    induction l as [|x t IH]; intros s1 s2 HR; cbn [mux_nals]; [exact HR|].
    eapply osim_bind; [apply step_sim; exact HR|]. intros a b Hab. apply IH. exact Hab.
  Qed.

  Lemma flush_sim_final fs s1 s2 : Rms s1 s2 ->
    osim (fun a b => m_out a = m_out b /\ (el_frames (m_el a) <> [] <-> (m_el b < NG)%nat))
         (mux_flush (el_part p o) o fs true s1) (mux_flush spec_el o fs true s2).
  Proof.
    intros (H1 & H2 & H3 & H4). unfold mux_flush. rewrite H1, H2, H3.
    apply (osim_bind eq); [apply osim_same; reflexivity|]. intros buf ? <-.
    pose proof (elpart_sim_final (m_el s1) (m_el s2) H4) as Hsim.
    destruct (el_part p o true (m_el s1)) as [[elw e']| |sx]; unfold spec_el in *; cbn [orb] in *;
      destruct (nth_error G (m_el s2)) as [f|] eqn:Ef; cbn in Hsim |- *; try contradiction.
    - destruct Hsim as [-> Hiff]. split; [reflexivity|]. rewrite Hiff. reflexivity.
    - destruct Hsim as [-> Hiff]. split; [reflexivity|]. rewrite Hiff.
      apply nth_error_None in Ef. fold NG in Ef. lia.
  Qed.

  (* the whole run: the implementation (stateful queue, resumable batched reader) and the
     specification (a counter into the EL frames) write the same NALs; frames are left in the EL
     queue at the end exactly when the EL has more frames than were written *)
  Theorem run_sim fs ix e0 : Rel e0 0%nat ->
    osim (fun a b => fst a = fst b /\
                     match snd a, snd b with
                     | Some e, Some w' => (el_frames e <> [] <-> (w' < NG)%nat)
                     | None, None => True
                     | _, _ => False
                     end)
         (mux_run (el_part p o) o fs ix e0) (mux_run spec_el o fs ix 0%nat).
  Proof.
    intros HR. unfold mux_run.
    eapply osim_bind with (R := Rms).
    - apply nals_sim. repeat split; auto.
    - intros s1 s2 HRs. pose proof HRs as (H1 & H2 & H3 & H4). rewrite H1, H2.
      destruct (negb (m_fb_number s2 =? N.of_nat (List.length fs)) && negb match m_fb s2 with [] => true | _ :: _ => false end).
      + eapply osim_bind; [apply flush_sim_final; exact HRs|]. intros a b [Ha Hb]. cbn. split; auto.
      + cbn. split; auto.
  Qed.
End Align.

(* ---------------- Part E: the muxer of Mux.v against the aligned specification ---------------- *)
Local Open Scope out_scope.

Lemma index_step_props st n : let '(st', i) := index_step st n in decoded_index st <= i /\ decoded_index st' = i.
Proof.
  unfold index_step. destruct (0 <? nlayer n); [cbn; lia|].
  destruct (is_slice_type (ntype n)).
  - destruct (has_first st && nfirst n); cbn; lia.
  - destruct (attaches (ntype n)); [cbn; lia|]. destruct (has_first st); cbn; lia.
Qed.

Fixpoint nmono (m : N) (l : list N) : Prop := match l with [] => True | x :: t => m <= x /\ nmono x t end.

Lemma assign_indices_mono : forall l st, nmono (decoded_index st) (map snd (assign_indices st l)).
Proof.
  induction l as [|n t IH]; intros st; cbn [assign_indices]; [exact I|].
  pose proof (index_step_props st n) as H. destruct (index_step st n) as [st' i]. destruct H as [H1 H2].
  cbn [map snd nmono]. split; [exact H1|]. rewrite <- H2. apply IH.
Qed.

Lemma assign_indices_first l : match map snd (assign_indices ps0 l) with [] => True | x :: _ => x = 0 end.
Proof.
  destruct l as [|n t]; cbn [assign_indices]; [exact I|].
  destruct (index_step ps0 n) as [st' i] eqn:E. cbn [map snd].
  unfold index_step, ps0 in E. cbn [decoded_index has_first andb] in E.
  destruct (0 <? nlayer n); [inversion E; reflexivity|].
  destruct (is_slice_type (ntype n)); [inversion E; reflexivity|].
  destruct (attaches (ntype n)); inversion E; reflexivity.
Qed.

Lemma mono_from_nmono : forall (c : list enal) m, nmono m (map fst c) -> mono_from m c.
Proof. induction c as [|e t IH]; intros m H; cbn in *; auto. destruct H; split; auto. Qed.

Lemma to_enals_app p o : forall l1 l2 a,
  to_enals p o (l1 ++ l2) = Ok a ->
  exists a1 a2, to_enals p o l1 = Ok a1 /\ to_enals p o l2 = Ok a2 /\ a = a1 ++ a2.
Proof.
  induction l1 as [|[n i] t IH]; intros l2 a H; cbn [app to_enals] in *.
  - exists [], a. auto.
  - destruct (el_buf p o n) as [x| |s]; cbn [bind] in *; try discriminate.
    destruct (to_enals p o (t ++ l2)) as [r| |s] eqn:E; cbn [bind] in H; try discriminate.
    inversion H; subst a. destruct (IH l2 r E) as (a1 & a2 & H1 & H2 & H3).
    exists ((i, x) :: a1), a2. rewrite H1. cbn [bind]. subst r. auto.
Qed.

Lemma rebatch_enals p o : forall (bs : list (list nal)) (fl : list (nal * N)) a,
  List.length fl = List.length (concat bs) ->
  to_enals p o fl = Ok a ->
  exists rest_e, Forall2 (fun b eb => to_enals p o b = Ok eb) (rebatch bs fl) rest_e /\ concat rest_e = a.
Proof.
  induction bs as [|b t IH]; intros fl a Hlen H; cbn [rebatch].
  - cbn in Hlen. destruct fl; [|discriminate]. cbn in H. inversion H. exists []. split; [constructor|reflexivity].
  - cbn [concat] in Hlen. rewrite app_length in Hlen.
    rewrite <- (firstn_skipn (List.length b) fl) in H.
    destruct (to_enals_app p o _ _ a H) as (a1 & a2 & H1 & H2 & H3).
    destruct (IH (skipn (List.length b) fl) a2) as (re & Hf & Hc); [rewrite skipn_length; lia|exact H2|].
    exists (a1 :: re). split; [constructor; auto|]. cbn. rewrite Hc. symmetry. exact H3.
Qed.

(* the aligned specification of mux: the EL as the list of its frames, a counter, no batching *)
Definition mux_aligned (p : profile) (o : mopts) (bl el : list nal) : outcome (list wnal * bool) :=
  let ix := assign_indices ps0 bl in
  let fs := ordered_frames ix in
  let* all := to_enals p o (assign_indices ps0 el) in
  let* '(out, e) := mux_run (spec_el o all) o fs ix 0%nat in
  Ok (out, match e with Some w' => (w' <? List.length (groups_of all))%nat | None => false end).

(* for every way the EL reader hands its NALs over in batches, the muxer writes what the aligned
   specification says: access unit after access unit, the w-th complete EL frame with the w-th
   flushed BL frame, and the mismatch error exactly when the EL has frames left *)
Theorem mux_refines_aligned p o bl batches all :
  to_enals p o (assign_indices ps0 (concat batches)) = Ok all ->
  mux p o bl batches = mux_aligned p o bl (concat batches).
Proof.
  intros Hall. unfold mux, mux_aligned. rewrite Hall. cbn [bind].
  set (ix := assign_indices ps0 bl). set (fs := ordered_frames ix).
  set (elix := assign_indices ps0 (concat batches)) in *.
  assert (Hmono : mono_from 0 all).
  { apply mono_from_nmono. rewrite (to_enals_idx p o elix all Hall). apply (assign_indices_mono (concat batches) ps0). }
  assert (Hzero : match all with [] => True | e :: _ => fst e = 0 end).
  { pose proof (assign_indices_first (concat batches)) as H. fold elix in H.
    rewrite <- (to_enals_idx p o elix all Hall) in H. destruct all; cbn in *; auto. }
  assert (HR : Rel p o all (mkEl (rebatch batches elix) [] 0) 0%nat).
  { exists [], all. split; [|split; [reflexivity|left; reflexivity]].
    constructor; cbn [el_rest el_frames el_last app]; auto.
    - apply rebatch_enals; [apply assign_indices_length|exact Hall].
    - constructor. }
  pose proof (run_sim p o all Hmono Hzero fs ix _ HR) as Hsim.
  destruct (mux_run (el_part p o) o fs ix (mkEl (rebatch batches elix) [] 0)) as [[out e]| |s1];
    destruct (mux_run (spec_el o all) o fs ix 0%nat) as [[out' w]| |s2]; cbn in Hsim |- *; try contradiction; auto.
  - destruct Hsim as [-> Hm]. f_equal. f_equal.
    destruct e as [e|], w as [w|]; try contradiction; auto.
    destruct (el_frames e) eqn:Ee; cbn.
    + symmetry. apply Nat.ltb_ge. destruct (Nat.lt_ge_cases w (List.length (groups_of all))); auto.
      exfalso. apply Hm in H. congruence.
    + symmetry. apply Nat.ltb_lt. apply Hm. discriminate.
  - subst. reflexivity.
Qed.

(* corollary: the result does not depend on how the EL file is cut into read batches *)
Corollary mux_batching_irrelevant p o bl b1 b2 all :
  concat b1 = concat b2 -> to_enals p o (assign_indices ps0 (concat b1)) = Ok all ->
  mux p o bl b1 = mux p o bl b2.
Proof.
  intros Hc H. rewrite (mux_refines_aligned p o bl b1 all H). rewrite Hc in H.
  rewrite (mux_refines_aligned p o bl b2 all H). rewrite Hc. reflexivity.
Qed.
