(* The C view of an RPU (dolby_vision/src/c_structs, capi.rs): field copies, sentinels for absent
   values, block lists. *)
From Coq Require Import List NArith ZArith Lia Bool String.
From DV Require Import Outcome Bits BitIO Fields Blocks Rpu Ops.
From DVgen Require Import CStructs_gen.
Import ListNotations.
Open Scope N_scope.

(* ---------------- field copies ---------------- *)
(* every field of the repr(C) mirrors is a copy of the Rust field of the same name, except the
   few computed ones, which the translator marks with <...> *)
Definition pair_ok (p : string * string) : bool :=
  String.eqb (fst p) (snd p) || String.prefix "<" (snd p).
Definition all_pairs_ok : bool := forallb (fun g => forallb pair_ok (snd g)) c_all_pairs.

Lemma fields_copied : all_pairs_ok = true.
Proof. vm_compute. reflexivity. Qed.

(* no C field is fed from two different Rust fields and no Rust field feeds two C fields *)
Fixpoint nodup_str (l : list string) : bool :=
  match l with [] => true | x :: t => negb (existsb (String.eqb x) t) && nodup_str t end.
Definition pairs_injective : bool :=
  forallb (fun g => nodup_str (map fst (snd g)) && nodup_str (filter (fun s => negb (String.prefix "<" s)) (map snd (snd g)))) c_all_pairs.
Lemma fields_injective : pairs_injective = true.
Proof. vm_compute. reflexivity. Qed.

(* ---------------- sentinels ---------------- *)
(* Option<u64> -> i32 with -1 for None (nlq_method_idc, nlq_num_pivots_minus2) *)
Definition c_opt (v : option N) : Z := match v with None => (-1)%Z | Some x => Z.of_N x end.

Lemma c_opt_injective a b : c_opt a = c_opt b -> a = b.
Proof. destruct a, b; cbn; intros H; try lia; auto. f_equal. lia. Qed.

Lemma c_opt_none v : c_opt v = (-1)%Z <-> v = None.
Proof. destruct v; cbn; split; intros H; try discriminate; auto; lia. Qed.

(* ---------------- block lists and single levels ---------------- *)
Definition all_blocks (d : dmdata) : list block :=
  (match cmv29 d with Some c => cblocks c | None => [] end) ++ (match cmv40 d with Some c => cblocks c | None => [] end).

Definition c_list (level : N) (d : dmdata) : list block := filter (fun b => blevel b =? level) (all_blocks d).
Definition c_single (level : N) (d : dmdata) : option block := last (map Some (c_list level d)) None.
Definition c_num_ext_blocks (d : dmdata) : N :=
  (match cmv29 d with Some c => cnum c | None => 0 end) + (match cmv40 d with Some c => cnum c | None => 0 end).

Lemma c_list_complete level d b : In b (c_list level d) <-> In b (all_blocks d) /\ blevel b = level.
Proof. unfold c_list. rewrite filter_In, N.eqb_eq. tauto. Qed.

(* order preserved: the list is the subsequence of the blocks of that level *)
Lemma c_list_in_order level d : c_list level d = filter (fun b => blevel b =? level) (all_blocks d).
Proof. reflexivity. Qed.

Lemma last_map_some_ne {A} (l : list A) x : last (map Some (x :: l)) None <> None.
Proof.
  revert x. induction l as [|y t IH]; intros x; cbn [map last]; [discriminate|]. apply (IH y).
Qed.

Lemma last_map_some {A} (l : list A) : last (map Some l) None = None <-> l = [].
Proof.
  split; [|intros ->; reflexivity].
  destruct l as [|x t]; auto. intros H. exfalso. eapply last_map_some_ne. exact H.
Qed.

(* a null pointer exactly when the level is absent *)
Lemma c_single_null_iff level d : c_single level d = None <-> c_list level d = [].
Proof. unfold c_single. apply last_map_some. Qed.
