(* C14 / C13 link: the file written by write_rpu_file from escaped NALs is well delimited - its
   00 00 00 01 start codes sit exactly at the entry boundaries - so the chunk-invariance theorem
   applies to every file the tool writes. *)
From Coq Require Import List NArith ZArith Lia Bool.
From DV Require Import Outcome Bits Escape BitIO Rpu RpuFile RpuFileProofs.
Import ListNotations.
Open Scope N_scope.

Definition is_sc (l : list N) : bool := match l with 0 :: 0 :: 0 :: 1 :: _ => true | _ => false end.

Lemma fo_step i x t : find_offsets_from i (x :: t) =
  if is_sc (x :: t) then i :: find_offsets_from (S i) t else find_offsets_from (S i) t.
Proof.
  destruct x; [|reflexivity]. destruct t as [|y t]; [reflexivity|]. destruct y; [|reflexivity].
  destruct t as [|z t]; [reflexivity|]. destruct z; [|reflexivity].
  destruct t as [|w t]; [reflexivity|]. destruct w as [|[p|p|]]; reflexivity.
Qed.

Lemma is_sc_true l : is_sc l = true -> exists t, l = 0 :: 0 :: 0 :: 1 :: t.
Proof.
  destruct l as [|[|?] [|[|?] [|[|?] [|[|[?|?|]] t]]]]; cbn; try discriminate. intros _. exists t. reflexivity.
Qed.

(* the first three bytes of what follows an entry are zero (it is the next start code, a prefix of
   it, or nothing) *)
Definition zero3 (Y : list N) : Prop := forall j, (j < 3)%nat -> nth j Y 0 = 0.

Lemma cl_tail p2 p1 x l : cl p2 p1 (x :: l) = true -> cl p1 x l = true.
Proof. cbn [cl]. intros H. apply andb_prop in H. apply H. Qed.

Lemma cl_no_sc p2 p1 t : cl p2 p1 (0 :: 0 :: 0 :: t) = false.
Proof. cbn [cl]. change (0 =? 0) with true. change (0 <=? 2) with true. cbn [andb negb]. rewrite !andb_false_r. reflexivity. Qed.

Lemma cl_firstn k : forall p2 p1 l, cl p2 p1 l = true -> cl p2 p1 (firstn k l) = true.
Proof.
  induction k as [|k IH]; intros p2 p1 l H; [reflexivity|]. destruct l as [|x l]; [reflexivity|].
  cbn [firstn cl] in *. apply andb_prop in H. destruct H as [H1 H2]. rewrite H1. cbn [andb]. apply IH. exact H2.
Qed.

(* scanning across a clean body finds nothing, whatever zero-led bytes follow *)
Lemma scan_clean : forall l p2 p1 i Y, cl p2 p1 l = true -> zero3 Y ->
  find_offsets_from i (l ++ Y) = find_offsets_from (i + List.length l) Y.
Proof.
  induction l as [|x l IH]; intros p2 p1 i Y Hcl HY.
  - cbn. rewrite Nat.add_0_r. reflexivity.
  - cbn [app]. rewrite fo_step. destruct (is_sc (x :: l ++ Y)) eqn:E.
    + exfalso. apply is_sc_true in E. destruct E as [t E].
      destruct l as [|a [|b [|c l']]]; cbn [app] in E.
      * inversion E as [[Hx HYe]]. pose proof (HY 2%nat ltac:(lia)) as H2. rewrite HYe in H2. cbn in H2. discriminate.
      * inversion E as [[Hx Ha HYe]]. pose proof (HY 1%nat ltac:(lia)) as H2. rewrite HYe in H2. cbn in H2. discriminate.
      * inversion E as [[Hx Ha Hb HYe]]. pose proof (HY 0%nat ltac:(lia)) as H2. rewrite HYe in H2. cbn in H2. discriminate.
      * inversion E; subst. apply cl_tail in Hcl. cbn [cl] in Hcl.
        change (0 =? 0) with true in Hcl. change (0 <=? 2) with true in Hcl. cbn [andb negb] in Hcl.
        rewrite !andb_false_r in Hcl. cbn [andb] in Hcl. rewrite ?andb_false_r in Hcl. discriminate.
    + rewrite (IH p1 x (S i) Y (cl_tail _ _ _ _ Hcl) HY). cbn [List.length]. f_equal. lia.
Qed.

(* an entry: the start code followed by a body without byte-aligned 00 00 {00,01,02} *)
Definition good_entry (e : list N) : Prop := exists body p2 p1, e = SC ++ body /\ cl p2 p1 body = true.

Lemma zero3_firstn_concat k (t : list (list N)) : Forall good_entry t -> zero3 (firstn k (concat t)).
Proof.
  intros H j Hj. destruct t as [|e t]; [cbn; rewrite firstn_nil; destruct j; reflexivity|].
  inversion H as [|? ? (body & p2 & p1 & -> & _) _]; subst. cbn [concat]. unfold SC. cbn [app].
  destruct k as [|[|[|[|k]]]]; destruct j as [|[|[|j]]]; try lia; reflexivity.
Qed.

Lemma rel_starts_nil l r c : (c < r + 4)%nat -> rel_starts l r c = [].
Proof. intros H. destruct l as [|e t]; [reflexivity|]. cbn [rel_starts]. replace (r + 4 <=? c)%nat with false by (symmetry; apply Nat.leb_gt; lia). reflexivity. Qed.

Lemma scan_entries : forall es i c, Forall good_entry es ->
  find_offsets_from i (firstn c (concat es)) = rel_starts es i (i + c).
Proof.
  induction es as [|e t IH]; intros i c H.
  - cbn. rewrite firstn_nil. reflexivity.
  - inversion H as [|? ? (body & p2 & p1 & He & Hcl) Ht]; subst. cbn [concat rel_starts].
    destruct (i + 4 <=? i + c)%nat eqn:E4.
    + apply Nat.leb_le in E4. destruct c as [|[|[|[|c']]]]; try lia.
      unfold SC. rewrite <- !app_assoc. cbn [app firstn].
      rewrite fo_step. cbn [is_sc]. rewrite fo_step. cbn [is_sc]. rewrite fo_step. cbn [is_sc]. rewrite fo_step. cbn [is_sc].
      f_equal. rewrite firstn_app.
      rewrite (scan_clean _ p2 p1 _ _ (cl_firstn c' _ _ _ Hcl) (zero3_firstn_concat _ _ Ht)).
      rewrite IH by exact Ht. rewrite firstn_length. cbn [List.length].
      destruct (Nat.le_gt_cases (List.length body) c') as [Hle|Hgt].
      * f_equal; lia.
      * rewrite !rel_starts_nil by lia. reflexivity.
    + apply Nat.leb_gt in E4. destruct c as [|[|[|[|c']]]]; try lia; unfold SC; rewrite <- !app_assoc; cbn [app firstn];
        repeat (rewrite fo_step; cbn [is_sc]); reflexivity.
Qed.

Theorem good_entries_well_delimited es : Forall good_entry es -> well_delimited es.
Proof.
  intros H m c. unfold find_offsets. rewrite scan_entries by (apply skipn_forall; exact H). reflexivity.
Qed.

(* every NAL the tool writes (7C 01 ++ escaped payload, payload starting with the non-zero 0x19
   prefix) gives a good entry in the RPU file *)
Lemma written_entry_good payload : hd 1 payload <> 0 -> good_entry (SC ++ skipn 2 (124 :: 1 :: escape payload)).
Proof.
  intros H. exists (escape payload), 124, 1. split; [reflexivity|].
  pose proof (nal_no_start_code_emulation payload H) as Hc. unfold no_start_code_emulation in Hc.
  apply cl_tail in Hc. apply cl_tail in Hc. exact Hc.
Qed.

Definition nal_of (payload : list N) : list N := 124 :: 1 :: escape payload.

Theorem written_file_well_delimited payloads :
  Forall (fun p => hd 1 p <> 0) payloads ->
  well_delimited (map (fun nal => SC ++ skipn 2 nal) (map nal_of payloads)).
Proof.
  intros H. apply good_entries_well_delimited. rewrite map_map. apply Forall_forall. intros e He.
  apply in_map_iff in He. destruct He as (p & <- & Hp). apply written_entry_good.
  rewrite Forall_forall in H. apply H. exact Hp.
Qed.

(* WRITE THEN READ: for every list of payloads and every chunk size that reaches the second start
   code in its first read (or covers the file), reading the written file gives the parse of every
   entry, in order *)
Theorem write_then_read parse cs payloads rpus :
  payloads <> [] -> Forall (fun p => hd 1 p <> 0) payloads -> (4 <= cs)%nat ->
  let es := map (fun nal => SC ++ skipn 2 nal) (map nal_of payloads) in
  (List.length (hd [] es) + 4 <= cs \/ total es < cs)%nat ->
  map_ok parse es = Some rpus ->
  parse_rpu_file parse cs (write_rpu_file (map nal_of payloads)) = Ok rpus.
Proof.
  intros Hne Hp Hcs es Hfirst Hall. rewrite write_rpu_file_entries. fold es.
  apply reader_chunk_invariance; auto.
  - apply written_file_well_delimited. exact Hp.
  - unfold es. rewrite map_map. apply Forall_forall. intros e He. apply in_map_iff in He.
    destruct He as (p & <- & _). rewrite app_length. cbn. lia.
  - unfold es. destruct payloads; [congruence|discriminate].
Qed.
