(* List-level facts about the editor skeleton (Editor.v), for every frame type and every per-frame
   function: frame accounting, frames outside a range are untouched, invalid ranges are errors. *)
From Coq Require Import List NArith ZArith Lia Bool String Permutation.
From DV Require Import Outcome SortUnique Bits BitIO Fields Blocks Rpu Ops Editor.
Import ListNotations.
Open Scope N_scope.
Local Open Scope out_scope.

Section Facts.
  Context {A B : Type}.

  Fixpoint count_some (l : list (option A)) : nat :=
    match l with [] => O | Some _ :: t => S (count_some t) | None :: t => count_some t end.

  (* positions of the removed frames are the same in both lists *)
  Fixpoint same_shape (l l' : list (option A)) : Prop :=
    match l, l' with
    | [], [] => True
    | None :: t, None :: t' => same_shape t t'
    | Some _ :: t, Some _ :: t' => same_shape t t'
    | _, _ => False
    end.

  Lemma same_shape_refl l : same_shape l l.
  Proof. induction l as [|[x|] t IH]; cbn; auto. Qed.

  Lemma same_shape_trans l1 : forall l2 l3, same_shape l1 l2 -> same_shape l2 l3 -> same_shape l1 l3.
  Proof.
    induction l1 as [|[x|] t IH]; intros [|[y|] t2] [|[z|] t3]; cbn; try tauto; eauto.
  Qed.

  Lemma same_shape_count l : forall l', same_shape l l' -> count_some l = count_some l'.
  Proof. induction l as [|[x|] t IH]; intros [|[y|] t']; cbn; try tauto; intros H; auto. Qed.

  Lemma same_shape_length l : forall l', same_shape l l' -> List.length l = List.length l'.
  Proof. induction l as [|[x|] t IH]; intros [|[y|] t']; cbn; try tauto; intros H; f_equal; auto. Qed.

  (* ---------------- map_range ---------------- *)
  Lemma map_range_shape (f : A -> outcome A) a b : forall l i l',
    map_range f a b i l = Ok l' -> same_shape l l'.
  Proof.
    induction l as [|x t IH]; intros i l' H; cbn in H.
    - inversion H. exact I.
    - destruct x as [v|].
      + destruct (in_range a b i).
        * destruct (f v) as [v'| |s]; cbn in H; try discriminate.
          destruct (map_range f a b (i + 1) t) as [t'| |s] eqn:Ht; cbn in H; try discriminate.
          inversion H; subst. cbn. eauto.
        * cbn in H. destruct (map_range f a b (i + 1) t) as [t'| |s] eqn:Ht; cbn in H; try discriminate.
          inversion H; subst. cbn. eauto.
      + cbn in H. destruct (map_range f a b (i + 1) t) as [t'| |s] eqn:Ht; cbn in H; try discriminate.
        inversion H; subst. cbn. eauto.
  Qed.

  (* a frame outside [a, b] is left as it was *)
  Lemma map_range_outside (f : A -> outcome A) a b : forall l i l' (j : nat),
    map_range f a b i l = Ok l' ->
    in_range a b (i + N.of_nat j) = false ->
    nth_error l' j = nth_error l j.
  Proof.
    induction l as [|x t IH]; intros i l' j H Hout; cbn in H.
    - inversion H. reflexivity.
    - destruct j as [|j].
      + rewrite N.add_0_r in Hout.
        destruct x as [v|].
        * rewrite Hout in H. cbn in H.
          destruct (map_range f a b (i + 1) t) as [t'| |s]; cbn in H; try discriminate.
          inversion H. reflexivity.
        * cbn in H. destruct (map_range f a b (i + 1) t) as [t'| |s]; cbn in H; try discriminate.
          inversion H. reflexivity.
      + assert (Hj : in_range a b (i + 1 + N.of_nat j) = false).
        { rewrite <- Hout. f_equal. lia. }
        destruct x as [v|].
        * destruct (if in_range a b i then let* v' := f v in Ok (Some v') else Ok (Some v)) as [x'| |s]; cbn in H; try discriminate.
          destruct (map_range f a b (i + 1) t) as [t'| |s] eqn:Ht; cbn in H; try discriminate.
          inversion H; subst. cbn. eapply IH; eauto.
        * cbn in H. destruct (map_range f a b (i + 1) t) as [t'| |s] eqn:Ht; cbn in H; try discriminate.
          inversion H; subst. cbn. eapply IH; eauto.
  Qed.

  (* a frame inside [a, b] is exactly f of what it was *)
  Lemma map_range_inside (f : A -> outcome A) a b : forall l i l' (j : nat) v,
    map_range f a b i l = Ok l' ->
    in_range a b (i + N.of_nat j) = true ->
    nth_error l j = Some (Some v) ->
    exists v', f v = Ok v' /\ nth_error l' j = Some (Some v').
  Proof.
    induction l as [|x t IH]; intros i l' j v H Hin Hn; cbn in H.
    - destruct j; discriminate.
    - destruct j as [|j].
      + rewrite N.add_0_r in Hin. cbn in Hn. inversion Hn; subst x. rewrite Hin in H.
        destruct (f v) as [v'| |s]; cbn in H; try discriminate.
        destruct (map_range f a b (i + 1) t) as [t'| |s]; cbn in H; try discriminate.
        inversion H. exists v'. split; reflexivity.
      + assert (Hj : in_range a b (i + 1 + N.of_nat j) = true).
        { rewrite <- Hin. f_equal. lia. }
        cbn in Hn.
        destruct (match x with
                  | Some v0 => if in_range a b i then let* v' := f v0 in Ok (Some v') else Ok (Some v0)
                  | None => Ok None end) as [x'| |s]; cbn in H; try discriminate.
        destruct (map_range f a b (i + 1) t) as [t'| |s] eqn:Ht; cbn in H; try discriminate.
        inversion H; subst. cbn. eapply IH; eauto.
  Qed.

  Lemma map_range_no_panic (f : A -> outcome A) a b :
    (forall v s, f v <> Panic s) -> forall l i s, map_range f a b i l <> Panic s.
  Proof.
    intros Hf. induction l as [|x t IH]; intros i s H; cbn in H; try discriminate.
    destruct x as [v|].
    - destruct (in_range a b i).
      + destruct (f v) as [v'| |s'] eqn:Hv; cbn in H; try discriminate.
        * destruct (map_range f a b (i + 1) t) as [t'| |s'] eqn:Ht; cbn in H; try discriminate.
          inversion H; subst. eapply IH; eauto.
        * eapply Hf; eauto.
      + cbn in H. destruct (map_range f a b (i + 1) t) as [t'| |s'] eqn:Ht; cbn in H; try discriminate.
        inversion H; subst. eapply IH; eauto.
    - cbn in H. destruct (map_range f a b (i + 1) t) as [t'| |s'] eqn:Ht; cbn in H; try discriminate.
      inversion H; subst. eapply IH; eauto.
  Qed.

  (* ---------------- set_none / remove_frames ---------------- *)
  Lemma set_none_length a b : forall (l : list (option A)) i, List.length (set_none a b i l) = List.length l.
  Proof. induction l as [|x t IH]; intros i; cbn; auto. Qed.

  Lemma set_none_nth a b : forall (l : list (option A)) i (j : nat),
    nth_error (set_none a b i l) j =
    match nth_error l j with
    | Some x => Some (if in_range a b (i + N.of_nat j) then None else x)
    | None => None
    end.
  Proof.
    induction l as [|x t IH]; intros i j.
    - destruct j; reflexivity.
    - destruct j as [|j]; cbn [set_none nth_error].
      + rewrite N.add_0_r. reflexivity.
      + rewrite IH. replace (i + 1 + N.of_nat j) with (i + N.of_nat (S j)) by lia. reflexivity.
  Qed.

  Lemma remove_frames_length : forall ranges (l l' : list (option A)),
    remove_frames ranges l = Ok l' -> List.length l' = List.length l.
  Proof.
    induction ranges as [|r t IH]; intros l l' H; cbn [remove_frames] in H.
    - inversion H. reflexivity.
    - destruct (has_dash r).
      + destruct (checked_range r (N.of_nat (List.length l))) as [[a b]| |s]; cbn in H; try discriminate.
        apply IH in H. rewrite H. apply set_none_length.
      + destruct (parse_usize r) as [i|].
        * destruct (ensure (i <? N.of_nat (List.length l))); cbn in H; try discriminate.
          apply IH in H. rewrite H. apply set_none_length.
        * eauto.
  Qed.

  (* ---------------- checked ranges ---------------- *)
  Lemma checked_range_valid k n a b : checked_range k n = Ok (a, b) -> a <= b /\ b < n.
  Proof.
    unfold checked_range. destruct (range_tuple k) as [[x y]| |s]; cbn; try discriminate.
    destruct (x <=? y) eqn:H1; cbn; try discriminate.
    destruct (y <? n) eqn:H2; cbn; try discriminate.
    intros H. inversion H; subst. apply N.leb_le in H1. apply N.ltb_lt in H2. auto.
  Qed.

  Lemma checked_range_invalid k n a b :
    range_tuple k = Ok (a, b) -> (b < a \/ n <= b) -> checked_range k n = Err.
  Proof.
    unfold checked_range. intros -> H. cbn.
    destruct (a <=? b) eqn:H1; cbn; auto.
    destruct (b <? n) eqn:H2; cbn; auto.
    apply N.leb_le in H1. apply N.ltb_lt in H2. lia.
  Qed.

  Lemma checked_range_no_panic k n s : checked_range k n <> Panic s.
  Proof.
    unfold checked_range, range_tuple. destruct (has_dash k); cbn; try discriminate.
    destruct (split_dash k EmptyString) as [|a [|b t]]; cbn; try discriminate.
    destruct (_ <=? _); cbn; try discriminate. destruct (_ <? _); cbn; discriminate.
  Qed.

  (* ---------------- range_pass ---------------- *)
  Lemma range_pass_shape {V} (f : V -> outcome (A -> outcome A)) : forall entries l l',
    range_pass f entries l = Ok l' -> same_shape l l'.
  Proof.
    induction entries as [|[k v] t IH]; intros l l' H; cbn [range_pass] in H.
    - inversion H. apply same_shape_refl.
    - destruct (is_all k); eauto.
      destruct (checked_range k (N.of_nat (List.length l))) as [[a b]| |s]; cbn in H; try discriminate.
      destruct (f v) as [g| |s]; cbn in H; try discriminate.
      destruct (map_range g a b 0 l) as [l1| |s] eqn:Hm; cbn in H; try discriminate.
      eapply same_shape_trans; [eapply map_range_shape; eauto|eauto].
  Qed.

  (* an entry whose range is inverted or ends past the last frame makes the pass an error,
     whatever precedes it succeeded *)
  Lemma range_pass_invalid {V} (f : V -> outcome (A -> outcome A)) k v a b : forall pre post l l1,
    range_pass f pre l = Ok l1 ->
    is_all k = false -> range_tuple k = Ok (a, b) -> (b < a \/ N.of_nat (List.length l) <= b) ->
    range_pass f (pre ++ (k, v) :: post) l = Err.
  Proof.
    induction pre as [|[k0 v0] t IH]; intros post l l1 Hpre Hall Hk Hbad.
    - cbn [app range_pass]. rewrite Hall. erewrite checked_range_invalid; eauto.
    - cbn [app range_pass] in *. destruct (is_all k0); eauto.
      destruct (checked_range k0 (N.of_nat (List.length l))) as [[a0 b0]| |s]; cbn in *; try discriminate.
      destruct (f v0) as [g| |s]; cbn in *; try discriminate.
      destruct (map_range g a0 b0 0 l) as [l2| |s] eqn:Hm; cbn in *; try discriminate.
      eapply IH; eauto.
      apply map_range_shape in Hm. apply same_shape_length in Hm. rewrite <- Hm. exact Hbad.
  Qed.

  (* a frame outside every range of the pass is untouched *)
  Fixpoint outside_all {V} (entries : list (string * V)) (j : N) : Prop :=
    match entries with
    | [] => True
    | (k, _) :: t =>
        (is_all k = true \/ forall a b, range_tuple k = Ok (a, b) -> in_range a b j = false) /\ outside_all t j
    end.

  Lemma range_pass_outside {V} (f : V -> outcome (A -> outcome A)) : forall entries l l' (j : nat),
    range_pass f entries l = Ok l' -> outside_all entries (N.of_nat j) -> nth_error l' j = nth_error l j.
  Proof.
    induction entries as [|[k v] t IH]; intros l l' j H Hout; cbn [range_pass] in H.
    - inversion H. reflexivity.
    - cbn in Hout. destruct Hout as [Hk Hout].
      destruct (is_all k) eqn:Hall; eauto.
      destruct Hk as [Hk|Hk]; try discriminate.
      unfold checked_range in H.
      destruct (range_tuple k) as [[a b]| |s] eqn:Hr; cbn in H; try discriminate.
      destruct (ensure (a <=? b)); cbn in H; try discriminate.
      destruct (ensure (b <? _)); cbn in H; try discriminate.
      destruct (f v) as [g| |s]; cbn in H; try discriminate.
      destruct (map_range g a b 0 l) as [l1| |s] eqn:Hm; cbn in H; try discriminate.
      rewrite (IH _ _ _ H Hout).
      eapply map_range_outside; [exact Hm|]. cbn. apply Hk. reflexivity.
  Qed.

  (* ---------------- zip_remaining ---------------- *)
  Lemma zip_remaining_shape {S} (f : A -> S -> outcome A) : forall l src l',
    zip_remaining f l src = Ok l' -> same_shape l l'.
  Proof.
    induction l as [|[v|] t IH]; intros src l' H; cbn in H.
    - inversion H. exact I.
    - destruct src as [|s st].
      + inversion H. cbn. apply same_shape_refl.
      + destruct (f v s) as [v'| |e]; cbn in H; try discriminate.
        destruct (zip_remaining f t st) as [t'| |e] eqn:Ht; cbn in H; try discriminate.
        inversion H; subst. cbn. eauto.
    - destruct (zip_remaining f t src) as [t'| |e] eqn:Ht; cbn in H; try discriminate.
      inversion H; subst. cbn. eauto.
  Qed.

  (* ---------------- encode_remaining ---------------- *)
  Lemma encode_remaining_length (enc : A -> outcome B) : forall l out,
    encode_remaining enc l = Ok out -> List.length out = count_some l.
  Proof.
    induction l as [|[v|] t IH]; intros out H; cbn in H.
    - inversion H. reflexivity.
    - destruct (enc v) as [e| |s]; cbn in H; try discriminate.
      destruct (encode_remaining enc t) as [r| |s] eqn:Hr; cbn in H; try discriminate.
      inversion H; subst. cbn. f_equal. auto.
    - cbn. auto.
  Qed.

  (* ---------------- duplicates ---------------- *)
  Definition dup_total (ds : list dup) : nat := fold_right (fun d acc => (N.to_nat (snd d) + acc)%nat) O ds.

  Lemma dup_apply_length : forall ds (data out : list B),
    dup_apply ds data = Ok out -> List.length out = (List.length data + dup_total ds)%nat.
  Proof.
    induction ds as [|[[src off] len] t IH]; intros data out H; cbn [dup_apply] in H.
    - inversion H. cbn. lia.
    - destruct ((src <? N.of_nat (List.length data)) && (off <=? N.of_nat (List.length data))) eqn:Hc; cbn in H; try discriminate.
      destruct (nth_error data (N.to_nat src)) as [x|]; try discriminate.
      apply IH in H. rewrite H. cbn [dup_total fold_right snd].
      rewrite !app_length, repeat_length.
      assert (Hlen : (List.length (firstn (N.to_nat off) data) + List.length (skipn (N.to_nat off) data) = List.length data)%nat).
      { rewrite <- app_length, firstn_skipn. reflexivity. }
      fold (dup_total t). lia.
  Qed.

  Lemma dup_insert_perm x : forall l, Permutation (dup_insert x l) (x :: l).
  Proof.
    induction l as [|y t IH]; cbn; auto.
    destruct (dup_off x <? dup_off y); auto.
    eapply perm_trans; [apply perm_skip; exact IH|apply perm_swap].
  Qed.

  Lemma dup_fold_perm : forall l acc, Permutation (fold_left (fun acc x => dup_insert x acc) l acc) (l ++ acc).
  Proof.
    induction l as [|x t IH]; intros acc; cbn; auto.
    eapply perm_trans; [apply IH|].
    eapply perm_trans; [apply Permutation_app_head; apply dup_insert_perm|].
    apply Permutation_sym, Permutation_middle.
  Qed.

  Lemma dup_order_perm l : Permutation (dup_order l) l.
  Proof.
    unfold dup_order. eapply perm_trans; [apply Permutation_sym, Permutation_rev|].
    eapply perm_trans; [apply dup_fold_perm|]. rewrite app_nil_r. auto.
  Qed.

  Lemma dup_total_perm l l' : Permutation l l' -> dup_total l = dup_total l'.
  Proof. unfold dup_total. induction 1; cbn [fold_right]; lia. Qed.

  Lemma dup_total_order l : dup_total (dup_order l) = dup_total l.
  Proof. apply dup_total_perm, dup_order_perm. Qed.
End Facts.

(* ---------------- remove_frames: invalid entries are errors ---------------- *)
Lemma remove_frames_invalid_range {A} k a b : forall pre post (l l1 : list (option A)),
  remove_frames pre l = Ok l1 ->
  has_dash k = true -> range_tuple k = Ok (a, b) -> (b < a \/ N.of_nat (List.length l) <= b) ->
  remove_frames (pre ++ k :: post) l = Err.
Proof.
  induction pre as [|r t IH]; intros post l l1 Hpre Hd Hk Hbad.
  - cbn [app remove_frames]. rewrite Hd. erewrite checked_range_invalid; eauto.
  - cbn [app remove_frames] in *. destruct (has_dash r).
    + destruct (checked_range r (N.of_nat (List.length l))) as [[a0 b0]| |s]; cbn in *; try discriminate.
      eapply IH; eauto. rewrite set_none_length. exact Hbad.
    + destruct (parse_usize r) as [i|].
      * destruct (ensure (i <? N.of_nat (List.length l))); cbn in *; try discriminate.
        eapply IH; eauto. rewrite set_none_length. exact Hbad.
      * eapply IH; eauto.
Qed.

Lemma remove_frames_invalid_index {A} k i : forall pre post (l l1 : list (option A)),
  remove_frames pre l = Ok l1 ->
  has_dash k = false -> parse_usize k = Some i -> N.of_nat (List.length l) <= i ->
  remove_frames (pre ++ k :: post) l = Err.
Proof.
  induction pre as [|r t IH]; intros post l l1 Hpre Hd Hk Hbad.
  - cbn [app remove_frames]. rewrite Hd, Hk.
    destruct (i <? N.of_nat (List.length l)) eqn:Hlt; cbn; auto. apply N.ltb_lt in Hlt. lia.
  - cbn [app remove_frames] in *. destruct (has_dash r).
    + destruct (checked_range r (N.of_nat (List.length l))) as [[a0 b0]| |s]; cbn in *; try discriminate.
      eapply IH; eauto. rewrite set_none_length. exact Hbad.
    + destruct (parse_usize r) as [i0|].
      * destruct (ensure (i0 <? N.of_nat (List.length l))); cbn in *; try discriminate.
        eapply IH; eauto. rewrite set_none_length. exact Hbad.
      * eapply IH; eauto.
Qed.

(* ---------------- the editor instance ---------------- *)
Definition removed_list (c : econfig) (rpus : list rpu) : outcome (list (option rpu)) :=
  match e_remove c with Some r => remove_frames r (map Some rpus) | None => Ok (map Some rpus) end.

Lemma execute_shape c l l' :
  execute c l = Ok l' ->
  exists l1, (match e_remove c with Some r => remove_frames r l | None => Ok l end) = Ok l1 /\ same_shape l1 l'.
Proof.
  unfold execute. intros H.
  destruct (match e_remove c with Some r => remove_frames r l | None => Ok l end) as [l1| |s]; cbn [bind] in H; try discriminate.
  exists l1. split; auto.
  unfold map_all in H.
  destruct (map_range (single c) 0 (N.of_nat (List.length l1)) 0 l1) as [l2| |s] eqn:H2; cbn [bind] in H; try discriminate.
  apply map_range_shape in H2.
  match type of H with (let* l := ?X in _) = _ => destruct X as [l3| |s] eqn:H3 end; cbn [bind] in H; try discriminate.
  assert (S3 : same_shape l2 l3).
  { destruct (e_cuts c); [eapply range_pass_shape; eauto|inversion H3; apply same_shape_refl]. }
  match type of H with (let* l := ?X in _) = _ => destruct X as [l4| |s] eqn:H4 end; cbn [bind] in H; try discriminate.
  assert (S4 : same_shape l3 l4).
  { destruct (e_has_aa c); [|inversion H4; apply same_shape_refl].
    destruct (e_edits c) as [ed|]; [|inversion H4; apply same_shape_refl].
    destruct ed as [|e0 ed]; [inversion H4; apply same_shape_refl|].
    destruct (e_presets c); [eapply range_pass_shape; eauto|inversion H4; apply same_shape_refl]. }
  assert (S5 : same_shape l4 l').
  { destruct (e_source c) as [src|]; [|inversion H; apply same_shape_refl].
    destruct src as [s| |e]; cbn [bind] in H; try discriminate.
    destruct (ensure (Nat.eqb (List.length l4) (List.length s))); cbn [bind] in H; try discriminate.
    destruct (e_levels c); try discriminate. eapply zip_remaining_shape; eauto. }
  eapply same_shape_trans; [exact H2|]. eapply same_shape_trans; [exact S3|].
  eapply same_shape_trans; [exact S4|exact S5].
Qed.

(* no frame disappears silently: the output has one NAL per frame that `remove` left, plus the
   configured duplicates *)
Lemma edit_sorted_length p c rpus out :
  edit_sorted p c rpus = Ok out ->
  exists l1, removed_list c rpus = Ok l1 /\ List.length l1 = List.length rpus /\
    List.length out = (count_some l1 + match e_dups c with Some ds => dup_total ds | None => O end)%nat.
Proof.
  unfold edit_sorted. intros H.
  destruct (execute c (map Some rpus)) as [l| |s] eqn:He; cbn [bind] in H; try discriminate.
  destruct (encode_remaining (write_hevc_unspec62_nalu p src_sw) l) as [data| |s] eqn:Hd; cbn [bind] in H; try discriminate.
  apply execute_shape in He. destruct He as (l1 & Hr & Hs).
  exists l1. unfold removed_list. split; [exact Hr|]. split.
  - destruct (e_remove c) as [r|].
    + apply remove_frames_length in Hr. rewrite Hr, map_length. reflexivity.
    + inversion Hr. rewrite map_length. reflexivity.
  - apply encode_remaining_length in Hd. rewrite (same_shape_count _ _ Hs).
    destruct (e_dups c) as [ds|].
    + apply dup_apply_length in H. rewrite H, Hd, dup_total_order. reflexivity.
    + inversion H; subst. lia.
Qed.

Theorem edit_length p c rpus out :
  edit p c rpus = Ok out ->
  exists l1, removed_list c rpus = Ok l1 /\ List.length l1 = List.length rpus /\
    List.length out = (count_some l1 + match e_dups c with Some ds => dup_total ds | None => O end)%nat.
Proof. unfold edit. intros H. apply edit_sorted_length in H. exact H. Qed.

(* the removed frames are exactly the configured ones *)
Lemma removed_nth_single_range {A} a b (l : list (option A)) (j : nat) x :
  nth_error l j = Some x ->
  nth_error (set_none a b 0 l) j = Some (if in_range a b (N.of_nat j) then None else x).
Proof. intros H. rewrite set_none_nth, H. reflexivity. Qed.

(* ---------------- a frame outside every range, with no per-frame operation configured ---------------- *)
Definition no_all {V} (entries : list (string * V)) : bool := forallb (fun e => negb (is_all (fst e))) entries.

Definition light (c : econfig) : Prop :=
  e_remove_cmv4 c = false /\ e_mode c = 0 /\ e_min_pq c = None /\ e_max_pq c = None /\
  e_remove_mapping c = false /\ e_l6 c = None /\ e_l9 c = None /\ e_l11 c = None /\ e_l255 c = None /\
  e_crop c = false /\ e_drop_l5 c = None /\
  (match e_cuts c with Some cuts => no_all cuts = true | None => True end) /\
  (match e_edits c with Some ed => no_all ed = true | None => True end) /\
  e_source c = None.

Lemma all_cuts_none cuts x : no_all cuts = true -> all_cuts cuts x = Ok x.
Proof.
  induction cuts as [|[k b] t IH]; cbn [all_cuts no_all forallb fst]; auto. intros H. apply andb_prop in H. destruct H as [H1 H2].
  destruct (is_all k); [cbn in H1; discriminate H1|]. apply IH. exact H2.
Qed.

Lemma all_presets_none ps ed x : no_all ed = true -> all_presets ps ed x = Ok x.
Proof.
  induction ed as [|[k b] t IH]; cbn [all_presets no_all forallb fst]; auto. intros H. apply andb_prop in H. destruct H as [H1 H2].
  destruct (is_all k); [cbn in H1; discriminate H1|]. apply IH. exact H2.
Qed.

Lemma single_light c x : light c -> single c x = Ok x.
Proof.
  intros (H1 & H2 & H3 & H4 & H5 & H6 & H7 & H8 & H9 & H10 & H11 & H12 & H13 & H14).
  unfold single. rewrite H1, H2, H3, H4, H5, H6, H7, H8, H9. cbn.
  destruct (e_cuts c) as [cuts|].
  - rewrite all_cuts_none by exact H12. cbn.
    destruct (e_has_aa c); auto. unfold aa_single. rewrite H10, H11. cbn.
    destruct (e_presets c); auto. destruct (e_edits c); auto. apply all_presets_none. exact H13.
  - cbn. destruct (e_has_aa c); auto. unfold aa_single. rewrite H10, H11. cbn.
    destruct (e_presets c); auto. destruct (e_edits c); auto. apply all_presets_none. exact H13.
Qed.

Lemma map_range_id {A} (f : A -> outcome A) a b : (forall v, f v = Ok v) ->
  forall l i, map_range f a b i l = Ok l.
Proof.
  intros Hf. induction l as [|[v|] t IH]; intros i; cbn; auto.
  - rewrite Hf. destruct (in_range a b i); cbn; rewrite IH; reflexivity.
  - rewrite IH. reflexivity.
Qed.

(* with only list-wide range passes configured, a frame that is not removed and lies outside
   every scene-cut and active-area range comes out of `execute` exactly as it went in *)
Theorem execute_untouched c rpus l' (j : nat) :
  light c ->
  execute c (map Some rpus) = Ok l' ->
  (match e_cuts c with Some cuts => outside_all cuts (N.of_nat j) | None => True end) ->
  (match e_edits c with Some ed => outside_all ed (N.of_nat j) | None => True end) ->
  exists l1, removed_list c rpus = Ok l1 /\ nth_error l' j = nth_error l1 j.
Proof.
  intros Hl H Hc He. pose proof Hl as Hl2.
  destruct Hl2 as (_ & _ & _ & _ & _ & _ & _ & _ & _ & _ & _ & _ & _ & Hsrc).
  unfold execute in H. unfold removed_list.
  destruct (match e_remove c with Some r => remove_frames r (map Some rpus) | None => Ok (map Some rpus) end) as [l1| |s]; cbn [bind] in H; try discriminate.
  exists l1. split; auto.
  unfold map_all in H. rewrite (map_range_id (single c)) in H by (intros v; apply single_light; exact Hl).
  cbn [bind] in H.
  match type of H with (let* l := ?X in _) = _ => destruct X as [l3| |s] eqn:H3 end; cbn [bind] in H; try discriminate.
  match type of H with (let* l := ?X in _) = _ => destruct X as [l4| |s] eqn:H4 end; cbn [bind] in H; try discriminate.
  rewrite Hsrc in H. inversion H; subst l'.
  assert (E3 : nth_error l3 j = nth_error l1 j).
  { destruct (e_cuts c); [eapply range_pass_outside; eauto|inversion H3; reflexivity]. }
  rewrite <- E3.
  destruct (e_has_aa c); [|inversion H4; reflexivity].
  destruct (e_edits c) as [ed|]; [|inversion H4; reflexivity].
  destruct ed as [|e0 ed]; [inversion H4; reflexivity|].
  destruct (e_presets c); [eapply range_pass_outside; eauto|inversion H4; reflexivity].
Qed.

(* ---------------- C17: the result depends only on the content of the maps ---------------- *)
Lemma ascii_compare_spec a b :
  CompareSpec (a = b) (Ascii.N_of_ascii a < Ascii.N_of_ascii b) (Ascii.N_of_ascii b < Ascii.N_of_ascii a) (Ascii.compare a b).
Proof.
  unfold Ascii.compare. destruct (N.compare_spec (Ascii.N_of_ascii a) (Ascii.N_of_ascii b)) as [H|H|H]; constructor; auto.
  rewrite <- (Ascii.ascii_N_embedding a), <- (Ascii.ascii_N_embedding b), H. reflexivity.
Qed.

Lemma string_compare_trans_le : forall a b c,
  String.compare a b <> Gt -> String.compare b c <> Gt -> String.compare a c <> Gt.
Proof.
  induction a as [|x a IH]; intros [|y b] [|z c]; cbn; try congruence.
  destruct (ascii_compare_spec x y) as [Hxy|Hxy|Hxy]; try congruence;
  destruct (ascii_compare_spec y z) as [Hyz|Hyz|Hyz]; try congruence;
  destruct (ascii_compare_spec x z) as [Hxz|Hxz|Hxz]; subst; try congruence; try lia; intros; try apply (IH b c); auto.
Qed.

Lemma string_leb_trans a b c : String.leb a b = true -> String.leb b c = true -> String.leb a c = true.
Proof.
  unfold String.leb. intros H1 H2.
  pose proof (string_compare_trans_le a b c) as H.
  destruct (String.compare a b); try discriminate; destruct (String.compare b c); try discriminate;
  destruct (String.compare a c); auto; exfalso; apply H; congruence.
Qed.

Lemma string_leb_total' a b : String.leb a b = false -> String.leb b a = true.
Proof. intros H. destruct (String.leb_total a b) as [H1|H1]; congruence. Qed.

Lemma nodup_keys_eq {V} (l : list (string * V)) x y :
  NoDup (map fst l) -> In x l -> In y l -> fst x = fst y -> x = y.
Proof.
  induction l as [|e t IH]; intros Hnd Hx Hy Hk; [destruct Hx|].
  cbn in Hnd. inversion Hnd as [|? ? Hnot Hnd']; subst.
  destruct Hx as [->|Hx], Hy as [->|Hy]; auto.
  - exfalso. apply Hnot. rewrite Hk. apply in_map. exact Hy.
  - exfalso. apply Hnot. rewrite <- Hk. apply in_map. exact Hx.
Qed.

Lemma sort_entries_canonical {V} (l1 l2 : list (string * V)) :
  NoDup (map fst l1) -> Permutation l1 l2 -> sort_entries l1 = sort_entries l2.
Proof.
  intros Hnd P. unfold sort_entries. apply isort_canonical; auto.
  - intros a b. unfold entry_le. apply string_leb_total'.
  - intros a b c. unfold entry_le. apply string_leb_trans.
  - intros x y Hx Hy H1 H2. unfold entry_le in *.
    eapply nodup_keys_eq; eauto. apply String.leb_antisym; auto.
Qed.

Definition same_but_maps (c1 c2 : econfig) : Prop :=
  e_mode c1 = e_mode c2 /\ e_remove_cmv4 c1 = e_remove_cmv4 c2 /\ e_remove_mapping c1 = e_remove_mapping c2 /\
  e_min_pq c1 = e_min_pq c2 /\ e_max_pq c1 = e_max_pq c2 /\ e_has_aa c1 = e_has_aa c2 /\ e_crop c1 = e_crop c2 /\
  e_drop_l5 c1 = e_drop_l5 c2 /\ e_presets c1 = e_presets c2 /\ e_remove c1 = e_remove c2 /\ e_dups c1 = e_dups c2 /\
  e_l6 c1 = e_l6 c2 /\ e_l9 c1 = e_l9 c2 /\ e_l11 c1 = e_l11 c2 /\ e_l255 c1 = e_l255 c2 /\
  e_source c1 = e_source c2 /\ e_levels c1 = e_levels c2.

Definition same_map {V} (m1 m2 : option (list (string * V))) : Prop :=
  match m1, m2 with
  | Some l1, Some l2 => NoDup (map fst l1) /\ Permutation l1 l2
  | None, None => True
  | _, _ => False
  end.

(* two listings of the same configuration (same scalar fields, the two maps listed in any order,
   keys distinct as in any map) give the same result, error or not *)
Theorem edit_order_independent p c1 c2 rpus :
  same_but_maps c1 c2 -> same_map (e_cuts c1) (e_cuts c2) -> same_map (e_edits c1) (e_edits c2) ->
  edit p c1 rpus = edit p c2 rpus.
Proof.
  intros (H1 & H2 & H3 & H4 & H5 & H6 & H7 & H8 & H9 & H10 & H11 & H12 & H13 & H14 & H15 & H16 & H17) Hc He.
  unfold edit. f_equal. unfold canon.
  rewrite H1, H2, H3, H4, H5, H6, H7, H8, H9, H10, H11, H12, H13, H14, H15, H16, H17.
  assert (Ec : option_map sort_entries (e_cuts c1) = option_map sort_entries (e_cuts c2)).
  { unfold same_map in Hc. destruct (e_cuts c1), (e_cuts c2); try tauto. cbn. f_equal.
    destruct Hc. apply sort_entries_canonical; auto. }
  assert (Ee : option_map sort_entries (e_edits c1) = option_map sort_entries (e_edits c2)).
  { unfold same_map in He. destruct (e_edits c1), (e_edits c2); try tauto. cbn. f_equal.
    destruct He. apply sort_entries_canonical; auto. }
  rewrite Ec, Ee. reflexivity.
Qed.
