(* export (src/dovi/exporter.rs) and the info summary (src/dovi/rpu_info.rs): views over a parsed RPU list *)
From Coq Require Import List NArith ZArith Lia Bool String.
From DV Require Import Outcome Bits BitIO Fields Blocks Rpu Ops Editor.
From DVgen Require Import Consts_gen Blocks_gen DmData_gen.
Import ListNotations.
Open Scope N_scope.

(* ---------------- scenes ---------------- *)
Definition scene_flag (x : rpu) : bool :=
  match rdm x with
  | Some d => match dm_ids d with _ :: _ :: f :: _ => f =? 1 | _ => false end
  | None => false
  end.

Fixpoint scenes_from (i : N) (l : list rpu) : list N :=
  match l with
  | [] => []
  | x :: t => (if scene_flag x then [i] else []) ++ scenes_from (i + 1) t
  end.
Definition scenes (l : list rpu) : list N := scenes_from 0 l.

(* ---------------- level5 export ---------------- *)
Definition l5key := (Z * Z * Z * Z)%type.
Definition l5zero : l5key := (0, 0, 0, 0)%Z.
Definition key_eqb (a b : l5key) : bool :=
  let '(a1, a2, a3, a4) := a in let '(b1, b2, b3, b4) := b in
  ((a1 =? b1) && (a2 =? b2) && (a3 =? b3) && (a4 =? b4))%Z.

Definition l5_of (x : rpu) : l5key :=
  match rdm x with
  | Some d => match level_blocks d 5 with
              | b :: _ => match bvals b with [l; r; t; bo] => (l, r, t, bo) | _ => l5zero end
              | [] => l5zero
              end
  | None => l5zero
  end.

(* chunk_by: (key, index of the first frame) of every run of equal consecutive keys *)
Fixpoint runs (l : list l5key) (i : N) (prev : option l5key) : list (l5key * N) :=
  match l with
  | [] => []
  | k :: t =>
      if match prev with Some p => key_eqb p k | None => false end
      then runs t (i + 1) prev
      else (k, i) :: runs t (i + 1) (Some k)
  end.

Fixpoint add_presets (ps : list l5key) (rs : list (l5key * N)) : list l5key :=
  match rs with
  | [] => ps
  | (k, _) :: t => add_presets (if existsb (key_eqb k) ps then ps else ps ++ [k]) t
  end.

Fixpoint pos_of (k : l5key) (ps : list l5key) : nat :=
  match ps with
  | [] => O
  | p :: t => if key_eqb p k then O else S (pos_of k t)
  end.

(* (start, end, preset id) *)
Fixpoint edits_of (ps : list l5key) (rs : list (l5key * N)) (n : N) : list (N * N * nat) :=
  match rs with
  | [] => []
  | (k, s) :: t => (s, match t with (_, s') :: _ => s' - 1 | [] => n - 1 end, pos_of k ps) :: edits_of ps t n
  end.

Definition l5_export (l : list rpu) : list l5key * list (N * N * nat) :=
  let keys := map l5_of l in
  let rs := runs keys 0 None in
  let ps := add_presets [] rs in
  (ps, edits_of ps rs (N.of_nat (List.length l))).

(* the editor applying such a config: every edit, in any order, sets the frames of its range to its
   preset; the offsets a frame ends with are those of the last edit whose range contains it *)
Fixpoint last_match (edits : list (N * N * nat)) (j : N) (acc : option nat) : option nat :=
  match edits with
  | [] => acc
  | (a, b, id) :: t => last_match t j (if in_range a b j then Some id else acc)
  end.

(* ---------------- summary ---------------- *)
Definition count_if {A} (f : A -> bool) (l : list A) : N := N.of_nat (List.length (filter f l)).

Definition has_cmv29 (x : rpu) : bool := match rdm x with Some d => is_some (cmv29 d) | None => false end.
Definition has_cmv40 (x : rpu) : bool := match rdm x with Some d => is_some (cmv40 d) | None => false end.

Fixpoint uniq_n (l : list N) (seen : list N) : list N :=
  match l with
  | [] => []
  | x :: t => if existsb (N.eqb x) seen then uniq_n t seen else x :: uniq_n t (x :: seen)
  end.

Fixpoint insert_n (x : N) (l : list N) : list N :=
  match l with [] => [x] | y :: t => if x <=? y then x :: l else y :: insert_n x t end.
Definition sort_n (l : list N) : list N := fold_right insert_n [] l.

Definition profiles (l : list rpu) : list N := sort_n (uniq_n (map dovi_profile l) []).

(* 0 = "2 (CM v4.0)", 1 = "1 (CM v2.9)", 2 = "1 + 2" with counts *)
Definition dm_version (l : list rpu) : N * option (N * N) :=
  let c1 := count_if has_cmv29 l in
  let c2 := count_if has_cmv40 l in
  if c2 =? c1 then (0, None) else if c2 =? 0 then (1, None) else (2, Some (c1, c2)).

Definition scene_count (l : list rpu) : N := count_if scene_flag l.

Definition first_block_val (x : rpu) (level : N) (name : string) : option Z :=
  match rdm x with
  | Some d => match level_blocks d level with
              | b :: _ => match desc_of level with
                          | Some ds => field_val (b_parse ds) (bvals b) name
                          | None => None
                          end
              | [] => None
              end
  | None => None
  end.

(* L1 max_pq / avg_pq per frame; a frame without an L1 block counts as
   ExtMetadataBlockLevel1::from_stats_cm_version(0, 0, 0, cm_version): the clamped minimum values,
   CM v4.0 as soon as one frame of the list carries CM v4.0 metadata *)
Definition any_cmv40 (l : list rpu) : bool := 0 <? count_if has_cmv40 l.
Definition l1_default_max : Z := Z.of_N l1_max_pq_min.
Definition l1_default_avg (v40 : bool) : Z :=
  let lo := Z.of_N (if v40 then l1_avg_pq_min_cmv40 else l1_avg_pq_min) in
  Z.max lo (Z.min 0 (l1_default_max - 1)).        (* 0.clamp(lo, max_pq - 1) *)
Definition l1_max (x : rpu) : Z := match first_block_val x 1 "max_pq" with Some v => v | None => l1_default_max end.
Definition l1_avg (v40 : bool) (x : rpu) : Z :=
  match first_block_val x 1 "avg_pq" with Some v => v | None => l1_default_avg v40 end.
Definition zmax_list (l : list Z) : Z := fold_right Z.max 0%Z l.
Definition maxcll_pq (l : list rpu) : Z := zmax_list (map l1_max l).
Definition maxfall_pq (l : list rpu) : Z := zmax_list (map (l1_avg (any_cmv40 l)) l).

Fixpoint uniq_z (l : list Z) (seen : list Z) : list Z :=
  match l with
  | [] => []
  | x :: t => if existsb (Z.eqb x) seen then uniq_z t seen else x :: uniq_z t (x :: seen)
  end.

(* L2 target_max_pq values in order of first appearance *)
Definition l2_targets (l : list rpu) : list Z :=
  uniq_z (flat_map (fun x => match rdm x with
                             | Some d => match desc_of 2 with
                                         | Some ds => flat_map (fun b => match field_val (b_parse ds) (bvals b) "target_max_pq" with Some v => [v] | None => [] end) (level_blocks d 2)
                                         | None => []
                                         end
                             | None => []
                             end) l) [].

(* distinct L6 blocks in order of first appearance *)
Fixpoint uniq_lz (l : list (list Z)) (seen : list (list Z)) : list (list Z) :=
  match l with
  | [] => []
  | x :: t => if existsb (fun y => if list_eq_dec Z.eq_dec x y then true else false) seen then uniq_lz t seen
              else x :: uniq_lz t (x :: seen)
  end.
Definition l6_list (l : list rpu) : list (list Z) :=
  uniq_lz (flat_map (fun x => match rdm x with
                              | Some d => match level_blocks d 6 with b :: _ => [bvals b] | [] => [] end
                              | None => []
                              end) l) [].

(* distinct (source_min_pq, source_max_pq), sorted *)
Definition mastering (l : list rpu) : list (Z * Z) :=
  flat_map (fun x => match rdm x with Some d => [(dm_field d "source_min_pq", dm_field d "source_max_pq")] | None => [] end) l.
