(* Invariants of the container operations (C12). *)
From Coq Require Import List NArith ZArith Lia Bool String Sorting.Permutation Sorting.Sorted.
From DV Require Import Outcome Bits BitIO Fields Blocks Rpu Ops Tables.
From DVgen Require Import Blocks_gen.
Import ListNotations.
Open Scope N_scope.

Definition block_le (a b : block) : Prop := key_le (sort_key a) (sort_key b) = true.

Lemma key_le_total a b : key_le a b = false -> key_le b a = true.
Proof.
  unfold key_le. destruct a as [a1 a2], b as [b1 b2]. cbn [fst snd]. intros H.
  apply orb_false_iff in H as [H1 H2]. apply N.ltb_ge in H1.
  destruct (N.eq_dec a1 b1) as [->|Hne].
  - rewrite N.eqb_refl in H2. cbn [andb] in H2. apply Z.leb_gt in H2.
    rewrite N.ltb_irrefl, N.eqb_refl. cbn. apply Z.leb_le. lia.
  - replace (b1 <? a1) with true by (symmetry; apply N.ltb_lt; lia). reflexivity.
Qed.

Lemma insert_sorted_perm x l : Permutation (insert_sorted x l) (x :: l).
Proof.
  induction l as [|y t IH]; cbn [insert_sorted]; [apply Permutation_refl|].
  destruct (key_le (sort_key x) (sort_key y)); [apply Permutation_refl|].
  eapply Permutation_trans; [apply perm_skip; exact IH|apply perm_swap].
Qed.

Lemma sort_blocks_perm l : Permutation (sort_blocks l) l.
Proof.
  unfold sort_blocks. induction l as [|x t IH]; cbn [fold_right]; [apply Permutation_refl|].
  eapply Permutation_trans; [apply insert_sorted_perm|apply perm_skip; exact IH].
Qed.

Lemma insert_sorted_hdrel a x l :
  block_le a x -> HdRel block_le a l -> HdRel block_le a (insert_sorted x l).
Proof.
  intros Hax Hl. destruct l as [|y t]; cbn [insert_sorted]; [constructor; exact Hax|].
  destruct (key_le (sort_key x) (sort_key y)); constructor; [exact Hax|].
  inversion Hl; assumption.
Qed.

Lemma insert_sorted_sorted x l : Sorted block_le l -> Sorted block_le (insert_sorted x l).
Proof.
  induction l as [|y t IH]; intros Hs; cbn [insert_sorted].
  - constructor; constructor.
  - destruct (key_le (sort_key x) (sort_key y)) eqn:E.
    + constructor; [exact Hs|constructor; exact E].
    + inversion Hs; subst. constructor; [apply IH; assumption|].
      apply insert_sorted_hdrel; [apply key_le_total; exact E|assumption].
Qed.

Lemma sort_blocks_sorted l : Sorted block_le (sort_blocks l).
Proof.
  unfold sort_blocks. induction l as [|x t IH]; cbn [fold_right]; [constructor|].
  apply insert_sorted_sorted. exact IH.
Qed.

Lemma update_info_count c : cnum (update_info c) = N.of_nat (List.length (cblocks (update_info c))).
Proof.
  unfold update_info. cbn [cnum cblocks]. f_equal. symmetry. apply Permutation_length. apply sort_blocks_perm.
Qed.
Lemma update_info_sorted c : Sorted block_le (cblocks (update_info c)).
Proof. unfold update_info. cbn [cblocks]. apply sort_blocks_sorted. Qed.
Lemma update_info_perm c : Permutation (cblocks (update_info c)) (cblocks c).
Proof. unfold update_info. cbn [cblocks]. apply sort_blocks_perm. Qed.

(* ---------------- routing ---------------- *)
Definition c_routed (v : cmver) (c : container) : bool :=
  forallb (fun b => mem (blevel b) (allowed v)) (cblocks c).
Definition dm_routed (d : dmdata) : bool :=
  match cmv29 d with Some c => c_routed V29 c | None => true end &&
  match cmv40 d with Some c => c_routed V40 c | None => true end.

Lemma forallb_perm {A} (f : A -> bool) l l' : Permutation l l' -> forallb f l = forallb f l'.
Proof.
  intros H. induction H as [|x l l' H IH|x y l|l l' l'' H1 IH1 H2 IH2]; cbn.
  - reflexivity.
  - rewrite IH. reflexivity.
  - destruct (f x), (f y); reflexivity.
  - congruence.
Qed.

Lemma c_routed_update v c : c_routed v (update_info c) = c_routed v c.
Proof. unfold c_routed. apply forallb_perm. apply update_info_perm. Qed.

Lemma container_of_level_allowed d l v c :
  container_of_level d l = Some (v, c) ->
  mem l (allowed v) = true /\ match v with V29 => cmv29 d = Some c | V40 => cmv40 d = Some c end.
Proof.
  unfold container_of_level. destruct (mem l cmv29_allowed) eqn:E1.
  - destruct (cmv29 d); cbn; [|discriminate]. intros H. inversion H; subst. auto.
  - destruct (mem l cmv40_allowed) eqn:E2; [|discriminate].
    destruct (cmv40 d); cbn; [|discriminate]. intros H. inversion H; subst. auto.
Qed.

Lemma set_container_routed d v c c' :
  dm_routed d = true -> match v with V29 => cmv29 d = Some c | V40 => cmv40 d = Some c end ->
  c_routed v c' = true -> dm_routed (set_container d v c') = true.
Proof.
  unfold dm_routed. intros Hr Hc Hc'. apply andb_true_iff in Hr as [H1 H2].
  destruct v; cbn [set_container cmv29 cmv40]; rewrite Hc'; [rewrite H2|rewrite H1]; reflexivity.
Qed.

Lemma routed_get d v c :
  dm_routed d = true -> match v with V29 => cmv29 d = Some c | V40 => cmv40 d = Some c end ->
  c_routed v c = true.
Proof.
  unfold dm_routed. intros Hr Hc. apply andb_true_iff in Hr as [H1 H2].
  destruct v; rewrite Hc in *; assumption.
Qed.

Lemma dm_add_block_routed d b d' :
  dm_routed d = true -> dm_add_block d b = Ok d' -> dm_routed d' = true.
Proof.
  unfold dm_add_block. intros Hr H.
  destruct (container_of_level d (blevel b)) as [[v c]|] eqn:E; [|inversion H; subst; exact Hr].
  apply container_of_level_allowed in E as [Ha Hc].
  unfold c_add_block in H. rewrite Ha in H. cbn [ensure bind] in H. inversion H; subst. clear H.
  eapply set_container_routed; [exact Hr|exact Hc|].
  rewrite c_routed_update. unfold c_routed. cbn [cblocks]. rewrite forallb_app. cbn [forallb].
  rewrite Ha. cbn [andb]. rewrite andb_true_r. eapply routed_get; eassumption.
Qed.

Lemma forallb_filter {A} (f g : A -> bool) l : forallb f l = true -> forallb f (filter g l) = true.
Proof.
  induction l as [|x t IH]; cbn; [reflexivity|]. intros H. apply andb_true_iff in H as [H1 H2].
  destruct (g x); cbn; [rewrite H1; cbn|]; apply IH; exact H2.
Qed.

Lemma dm_remove_level_routed d l : dm_routed d = true -> dm_routed (dm_remove_level d l) = true.
Proof.
  unfold dm_remove_level. intros Hr.
  destruct (container_of_level d l) as [[v c]|] eqn:E; [|exact Hr].
  apply container_of_level_allowed in E as [Ha Hc].
  eapply set_container_routed; [exact Hr|exact Hc|].
  unfold c_remove_level. rewrite c_routed_update. unfold c_routed. cbn [cblocks].
  apply forallb_filter. eapply routed_get; eassumption.
Qed.

Lemma container_of_level_remove d l l' :
  container_of_level (dm_remove_level d l) l' = None <-> container_of_level d l' = None.
Proof.
  unfold dm_remove_level. destruct (container_of_level d l) as [[v c]|] eqn:E; [|tauto].
  apply container_of_level_allowed in E as [Ha Hc].
  unfold container_of_level. destruct v; cbn [set_container cmv29 cmv40].
  - destruct (mem l' cmv29_allowed); [rewrite Hc; cbn; split; discriminate|tauto].
  - destruct (mem l' cmv29_allowed); [tauto|]. destruct (mem l' cmv40_allowed); [rewrite Hc; cbn; split; discriminate|tauto].
Qed.

Lemma replace_first_routed v level target nb l l' :
  forallb (fun b => mem (blevel b) (allowed v)) l = true -> mem (blevel nb) (allowed v) = true ->
  replace_first level target nb l = Some l' ->
  forallb (fun b => mem (blevel b) (allowed v)) l' = true.
Proof.
  revert l'. induction l as [|b t IH]; intros l' Hl Hn H; cbn in H; [discriminate|].
  cbn in Hl. apply andb_true_iff in Hl as [H1 H2].
  destruct ((blevel b =? level) && (target_of b =? target)%Z).
  - inversion H; subst. cbn. rewrite Hn, H2. reflexivity.
  - destruct (replace_first level target nb t) as [t'|]; cbn in H; [|discriminate].
    inversion H; subst. cbn. rewrite H1. cbn. apply IH; auto.
Qed.

Lemma dm_replace_block_routed d b d' :
  dm_routed d = true -> dm_replace_block d b = Ok d' -> dm_routed d' = true.
Proof.
  unfold dm_replace_block. intros Hr H.
  destruct (keyed_level (blevel b)).
  - destruct (container_of_level d (blevel b)) as [[v c]|] eqn:E; [|discriminate].
    apply container_of_level_allowed in E as [Ha Hc]. inversion H; subst. clear H.
    eapply set_container_routed; [exact Hr|exact Hc|].
    pose proof (routed_get d v c Hr Hc) as Hrc.
    unfold c_upsert. destruct (replace_first _ _ _ _) as [l'|] eqn:Er; rewrite c_routed_update; unfold c_routed; cbn [cblocks].
    + eapply replace_first_routed; eassumption.
    + rewrite forallb_app. cbn [forallb]. rewrite Ha. cbn [andb]. rewrite andb_true_r. exact Hrc.
  - destruct (is_some (desc_of (blevel b))); [|discriminate].
    unfold dm_replace_level in H. eapply dm_add_block_routed; [|exact H].
    apply dm_remove_level_routed. exact Hr.
Qed.

Lemma dm_replace_blocks_routed bs : forall d d',
  dm_routed d = true -> dm_replace_blocks d bs = Ok d' -> dm_routed d' = true.
Proof.
  induction bs as [|b t IH]; intros d d' Hr H; cbn in H; [inversion H; subst; exact Hr|].
  apply bind_ok_inv in H as [d1 [H1 H2]]. eapply IH; [|exact H2].
  eapply dm_replace_block_routed; eassumption.
Qed.

(* operation histories *)
Inductive dmop :=
| OAdd (b : block) | ORemove (l : N) | OReplLevel (b : block) | ORepl (b : block)
| OReplBlocks (bs : list block) | ORemoveCmv40.

Definition run_dm_op (d : dmdata) (o : dmop) : outcome dmdata :=
  match o with
  | OAdd b => dm_add_block d b
  | ORemove l => Ok (dm_remove_level d l)
  | OReplLevel b => dm_replace_level d b
  | ORepl b => dm_replace_block d b
  | OReplBlocks bs => dm_replace_blocks d bs
  | ORemoveCmv40 => Ok (mkDm (dm_compressed d) (dm_ids d) (dm_main d) (cmv29 d) None)
  end.

Fixpoint run_dm_ops (d : dmdata) (ops : list dmop) : outcome dmdata :=
  match ops with
  | [] => Ok d
  | o :: t => bind (run_dm_op d o) (fun d' => run_dm_ops d' t)
  end.

Lemma run_dm_op_routed d o d' : dm_routed d = true -> run_dm_op d o = Ok d' -> dm_routed d' = true.
Proof.
  intros Hr H. destruct o; cbn in H.
  - eapply dm_add_block_routed; eassumption.
  - inversion H; subst. apply dm_remove_level_routed. exact Hr.
  - unfold dm_replace_level in H. eapply dm_add_block_routed; [|exact H]. apply dm_remove_level_routed. exact Hr.
  - eapply dm_replace_block_routed; eassumption.
  - eapply dm_replace_blocks_routed; eassumption.
  - inversion H; subst. unfold dm_routed in *. cbn [cmv29 cmv40]. apply andb_true_iff in Hr as [H1 _].
    rewrite H1. reflexivity.
Qed.

Lemma run_dm_ops_routed ops : forall d d',
  dm_routed d = true -> run_dm_ops d ops = Ok d' -> dm_routed d' = true.
Proof.
  induction ops as [|o t IH]; intros d d' Hr H; cbn in H; [inversion H; subst; exact Hr|].
  apply bind_ok_inv in H as [d1 [H1 H2]]. eapply IH; [|exact H2]. eapply run_dm_op_routed; eassumption.
Qed.

Lemma absent_container_noop d b :
  container_of_level d (blevel b) = None ->
  dm_add_block d b = Ok d /\ (keyed_level (blevel b) = true -> dm_replace_block d b = Err).
Proof.
  intros H. unfold dm_add_block, dm_replace_block. rewrite H. split; [reflexivity|].
  intros Hk. rewrite Hk. reflexivity.
Qed.

(* ---------------- upsert ---------------- *)
Definition same_key (nb b : block) : bool :=
  (blevel b =? blevel nb) && (target_of b =? target_of nb)%Z.

Lemma same_key_refl nb : same_key nb nb = true.
Proof. unfold same_key. rewrite N.eqb_refl, Z.eqb_refl. reflexivity. Qed.

Lemma filter_perm {A} (f : A -> bool) l l' : Permutation l l' -> Permutation (filter f l) (filter f l').
Proof.
  intros H. induction H as [|x l l' H IH|x y l|l l' l'' H1 IH1 H2 IH2]; cbn.
  - constructor.
  - destruct (f x); [constructor|]; assumption.
  - destruct (f x), (f y); try apply Permutation_refl. apply perm_swap.
  - eapply Permutation_trans; eassumption.
Qed.

Lemma replace_first_spec nb l : forall l',
  replace_first (blevel nb) (target_of nb) nb l = Some l' ->
  filter (fun b => negb (same_key nb b)) l' = filter (fun b => negb (same_key nb b)) l /\
  List.length (filter (same_key nb) l') = List.length (filter (same_key nb) l) /\
  (1 <= List.length (filter (same_key nb) l))%nat.
Proof.
  induction l as [|b t IH]; intros l' H; cbn in H; [discriminate|].
  fold (same_key nb b) in H.
  destruct (same_key nb b) eqn:E.
  - inversion H; subst. cbn. rewrite same_key_refl, E. cbn. repeat split; lia.
  - destruct (replace_first _ _ nb t) as [t'|] eqn:Er; cbn in H; [|discriminate].
    inversion H; subst. destruct (IH t' eq_refl) as [H1 [H2 H3]].
    cbn. rewrite E. cbn. rewrite H1. repeat split; assumption.
Qed.

Lemma replace_first_none nb l :
  replace_first (blevel nb) (target_of nb) nb l = None -> filter (same_key nb) l = [].
Proof.
  induction l as [|b t IH]; intros H; cbn in H; [reflexivity|].
  fold (same_key nb b) in H. destruct (same_key nb b) eqn:E; [discriminate|].
  destruct (replace_first _ _ nb t); cbn in H; [discriminate|]. cbn. rewrite E. apply IH. reflexivity.
Qed.

Lemma upsert_others c nb :
  Permutation (filter (fun b => negb (same_key nb b)) (cblocks (c_upsert c nb)))
              (filter (fun b => negb (same_key nb b)) (cblocks c)).
Proof.
  unfold c_upsert. destruct (replace_first _ _ _ _) as [l'|] eqn:E.
  - eapply Permutation_trans; [apply filter_perm; apply update_info_perm|]. cbn [cblocks].
    apply replace_first_spec in E as [H1 _]. rewrite H1. apply Permutation_refl.
  - eapply Permutation_trans; [apply filter_perm; apply update_info_perm|]. cbn [cblocks].
    rewrite filter_app. cbn. rewrite same_key_refl. cbn. rewrite app_nil_r. apply Permutation_refl.
Qed.

Lemma upsert_count c nb :
  List.length (filter (same_key nb) (cblocks (c_upsert c nb))) =
  Nat.max 1 (List.length (filter (same_key nb) (cblocks c))).
Proof.
  unfold c_upsert. destruct (replace_first _ _ _ _) as [l'|] eqn:E.
  - rewrite (Permutation_length (filter_perm _ _ _ (update_info_perm _))). cbn [cblocks].
    apply replace_first_spec in E as [_ [H2 H3]]. rewrite H2. lia.
  - rewrite (Permutation_length (filter_perm _ _ _ (update_info_perm _))). cbn [cblocks].
    rewrite filter_app, app_length. cbn. rewrite same_key_refl. cbn.
    rewrite (replace_first_none _ _ E). reflexivity.
Qed.
