(* Sanity laws of the XML formulas (XmlFormulas.v): clamps, neutral values, L8 length rule, shot order. *)
From Coq Require Import List NArith ZArith Lia Bool String Sorting.Permutation Sorting.Sorted.
From Flocq Require Import Core BinarySingleNaN.
From DV Require Import Outcome SortUnique Bits BitIO Fields Blocks Rpu Ops Editor Generator XmlFormulas.
Import ListNotations.
Open Scope Z_scope.

(* every saturating cast stays in its integer type, for every float incl. NaN and infinities *)
Lemma sat_cast_range lo hi x : lo <= 0 <= hi -> lo <= sat_cast lo hi x <= hi.
Proof. intros H. unfold sat_cast. destruct x as [s|s| |s m e]; try destruct s; lia. Qed.

Lemma u12_of_range v : 0 <= u12_of v <= 4095.
Proof. unfold u12_of. pose proof (sat_cast_range 0 65535 (lin2048 v)). unfold to_u16. lia. Qed.
Lemma i12_of_range v : -32768 <= i12_of v <= 4095.
Proof. unfold i12_of. pose proof (sat_cast_range (-32768) 32767 (lin2048 v)). unfold to_i16. lia. Qed.
Lemma slope_of_range g l : 0 <= slope_of g l <= 4095.
Proof. unfold slope_of, to_u16. match goal with |- context [sat_cast 0 65535 ?x] => pose proof (sat_cast_range 0 65535 x) end. lia. Qed.
Lemma offset_of_range g l : 0 <= offset_of g l <= 4095.
Proof. unfold offset_of, to_u16. match goal with |- context [sat_cast 0 65535 ?x] => pose proof (sat_cast_range 0 65535 x) end. lia. Qed.
Lemma power_of_range g : 0 <= power_of g <= 4095.
Proof. unfold power_of, to_u16. match goal with |- context [sat_cast 0 65535 ?x] => pose proof (sat_cast_range 0 65535 x) end. lia. Qed.
Lemma vec_of_range v : 0 <= vec_of v <= 255.
Proof. unfold vec_of, to_u8. match goal with |- context [sat_cast 0 255 ?x] => pose proof (sat_cast_range 0 255 x) end. lia. Qed.
Lemma pq12_of_range v : 0 <= pq12_of v <= 65535.
Proof. unfold pq12_of, to_u16. apply sat_cast_range. lia. Qed.

(* neutral inputs give the neutral codes *)
Lemma neutral_codes :
  u12_of (d2f (0, 0%nat)) = 2048 /\ i12_of (d2f (0, 0%nat)) = 2048 /\ vec_of (d2f (0, 0%nat)) = 128 /\
  slope_of (d2f (0, 0%nat)) (d2f (0, 0%nat)) = 2048 /\ offset_of (d2f (0, 0%nat)) (d2f (0, 0%nat)) = 2048 /\
  power_of (d2f (0, 0%nat)) = 2048 /\ pq12_of (d2f (1, 0%nat)) = 4095 /\ pq12_of (d2f (0, 0%nat)) = 0.
Proof. vm_compute. repeat split; reflexivity. Qed.

(* extremes: +1 and -1 and values far beyond the clamp *)
Lemma extreme_codes :
  u12_of (d2f (1, 0%nat)) = 4095 /\ u12_of (d2f (-1, 0%nat)) = 0 /\ u12_of (d2f (99999, 0%nat)) = 4095 /\
  u12_of (d2f (-99999, 0%nat)) = 0 /\ vec_of (d2f (1, 0%nat)) = 255 /\ vec_of (d2f (-1, 0%nat)) = 0 /\
  power_of (d2f (5, 0%nat)) = power_of (d2f (1, 0%nat)) /\ power_of (d2f (-5, 0%nat)) = power_of (d2f (-1, 0%nat)) /\
  i12_of (d2f (-2, 0%nat)) = -2048.
Proof. vm_compute. repeat split; reflexivity. Qed.

(* shots are generated in order of their start frame, every shot kept, equal starts in document order *)
Lemma shot_le_total a b : shot_le a b = false -> shot_le b a = true.
Proof. unfold shot_le. rewrite N.leb_gt, N.leb_le. lia. Qed.
Lemma shot_le_trans a b c : shot_le a b = true -> shot_le b c = true -> shot_le a c = true.
Proof. unfold shot_le. rewrite !N.leb_le. lia. Qed.

Lemma sort_shots_sorted l : StronglySorted (fun a b => (fst a <= fst b)%N) (sort_shots l).
Proof.
  pose proof (isort_sorted shot_le shot_le_total shot_le_trans l) as H.
  unfold sort_shots. induction H; constructor; auto.
  eapply Forall_impl; [|eassumption]. intros x Hx. unfold leP, shot_le in Hx. apply N.leb_le. exact Hx.
Qed.

Lemma sort_shots_perm l : Permutation (sort_shots l) l.
Proof. apply isort_perm. Qed.
