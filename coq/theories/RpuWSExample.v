(* Decidable forms of the canonical-state predicates of the write-soundness theorems, their
   soundness, and the repository's FEL sample as an instance (non-vacuity). *)
From Coq Require Import List NArith ZArith Lia Bool String.
From DV Require Import Outcome Bits BitIO Fields Blocks Rpu Tables FieldsProofs C03Proofs HeaderRT MappingRT RpuRT RpuRTExample DmWS DmWSExample HeaderWS MappingWS RpuWS.
From DVgen Require Import Consts_gen Blocks_gen DmData_gen Switches_gen.
Import ListNotations.
Open Scope N_scope.

Definition lenb {A} (l : list A) (k : nat) : bool := Nat.eqb (List.length l) k.
Lemma lenb_ok {A} (l : list A) k : lenb l k = true -> List.length l = k.
Proof. apply Nat.eqb_eq. Qed.

Definition nilb {A} (l : list A) : bool := match l with [] => true | _ => false end.
Lemma nilb_ok {A} (l : list A) : nilb l = true -> l = [].
Proof. destruct l; [reflexivity|discriminate]. Qed.

Section Checkers.
  Context (sw : src_switches) (h : header).
  Let t0 := coefficient_data_type h =? 0.

  Definition poly_entryb (pc : poly_curve) (i : nat) : bool :=
    match nth_error (poly_order_minus1 pc) i, nth_error (linear_interp_flag pc) i,
          nth_error (poly_coef_int pc) i, nth_error (poly_coef pc) i with
    | Some o, Some false, Some ints, Some fracs =>
        (o <=? 1) && lenb fracs (N.to_nat o + 2) &&
        (if t0 then lenb ints (N.to_nat o + 2) && forallb se_smallb ints else nilb ints)
    | _, _, _, _ => false
    end.

  Lemma poly_entryb_ok pc i : poly_entryb pc i = true -> exists order ints fracs, poly_entry_ok h pc i order ints fracs.
  Proof.
    unfold poly_entryb, poly_entry_ok. fold t0.
    destruct (nth_error (poly_order_minus1 pc) i) as [o|]; [|discriminate].
    destruct (nth_error (linear_interp_flag pc) i) as [[|]|]; try discriminate.
    destruct (nth_error (poly_coef_int pc) i) as [ints|]; [|discriminate].
    destruct (nth_error (poly_coef pc) i) as [fracs|]; [|discriminate].
    intros H. repeat (apply andb_prop in H; destruct H as [H ?]).
    exists o, ints, fracs. repeat split; auto; try (apply N.leb_le; assumption); try (apply lenb_ok; assumption).
    destruct t0.
    - match goal with Hx : _ && _ = true |- _ => apply andb_prop in Hx; destruct Hx as [A B] end.
      split; [apply lenb_ok; exact A|apply se_smallb_sound; exact B].
    - apply nilb_ok. assumption.
  Qed.

  Definition rowb (irow : list Z) (frow : list N) : bool :=
    lenb frow 7 && (if t0 then lenb irow 7 && forallb se_smallb irow else nilb irow).
  Lemma rowb_ok irow frow : rowb irow frow = true -> row_ok h irow frow.
  Proof.
    unfold rowb, row_ok. fold t0. intros H. apply andb_prop in H. destruct H as [A B]. split; [apply lenb_ok; exact A|].
    destruct t0; [apply andb_prop in B; destruct B as [B1 B2]; split; [apply lenb_ok; exact B1|apply se_smallb_sound; exact B2]|apply nilb_ok; exact B].
  Qed.

  Definition mmr_entryb (mc : mmr_curve) (i : nat) : bool :=
    match nth_error (mmr_order_minus1 mc) i, nth_error (mmr_constant mc) i,
          nth_error (mmr_coef_int mc) i, nth_error (mmr_coef mc) i with
    | Some o, Some cst, Some irows, Some frows =>
        (o <=? 2) &&
        (if t0 then match nth_error (mmr_constant_int mc) i with Some v => se_smallb v | None => false end else true) &&
        lenb frows (N.to_nat o + 1) && lenb irows (N.to_nat o + 1) &&
        forallb (fun q => match nth_error irows q, nth_error frows q with
                          | Some ir, Some fr => rowb ir fr | _, _ => false end) (seq 0 (N.to_nat o + 1))
    | _, _, _, _ => false
    end.

  Lemma mmr_entryb_ok mc i : mmr_entryb mc i = true ->
    exists order ci cst irows frows, mmr_entry_ok h mc i order ci cst irows frows.
  Proof.
    unfold mmr_entryb, mmr_entry_ok. fold t0.
    destruct (nth_error (mmr_order_minus1 mc) i) as [o|]; [|discriminate].
    destruct (nth_error (mmr_constant mc) i) as [cst|]; [|discriminate].
    destruct (nth_error (mmr_coef_int mc) i) as [irows|]; [|discriminate].
    destruct (nth_error (mmr_coef mc) i) as [frows|]; [|discriminate].
    intros H. repeat (apply andb_prop in H; destruct H as [H ?]).
    exists o, (if t0 then nth_error (mmr_constant_int mc) i else None), cst, irows, frows.
    split; [reflexivity|]. split; [apply N.leb_le; exact H|]. split; [reflexivity|]. split.
    { destruct t0; [|reflexivity]. destruct (nth_error (mmr_constant_int mc) i) as [v|]; [|discriminate].
      exists v. repeat split. unfold se_smallb in *. apply Z.ltb_lt. assumption. }
    split; [reflexivity|]. split; [reflexivity|]. split; [apply lenb_ok; assumption|]. split; [apply lenb_ok; assumption|].
    intros q Hq. match goal with Hx : forallb _ (seq 0 _) = true |- _ => rewrite forallb_forall in Hx; specialize (Hx q ltac:(apply in_seq; lia)) end.
    destruct (nth_error irows q) as [ir|]; [|discriminate]. destruct (nth_error frows q) as [fr|]; [|discriminate].
    exists ir, fr. split; [reflexivity|]. split; [reflexivity|]. apply rowb_ok. assumption.
  Qed.

  Definition curve_canonicalb (c : curve) : bool :=
    let n := num_pivots_minus2 c in
    let k := N.to_nat (n + 1) in
    (n + 1 <? two64) &&
    match sw_pivots_bound sw with Some b => n <=? b | None => n <=? 1000000 end &&
    lenb (pivots c) (N.to_nat (n + 2)) &&
    match polynomial c, mmr c with
    | Some pc, None =>
        (mapping_idc c =? 0) && lenb (poly_order_minus1 pc) k && lenb (linear_interp_flag pc) k &&
        lenb (poly_coef_int pc) k && lenb (poly_coef pc) k && forallb (poly_entryb pc) (seq 0 k)
    | None, Some mc =>
        (mapping_idc c =? 1) && lenb (mmr_order_minus1 mc) k && lenb (mmr_constant mc) k &&
        lenb (mmr_coef_int mc) k && lenb (mmr_coef mc) k &&
        (if t0 then lenb (mmr_constant_int mc) k else nilb (mmr_constant_int mc)) && forallb (mmr_entryb mc) (seq 0 k)
    | _, _ => false
    end.

  Lemma curve_canonicalb_ok c : curve_canonicalb c = true -> curve_canonical sw h c.
  Proof.
    unfold curve_canonicalb, curve_canonical. cbv zeta. fold t0. intros H.
    repeat (apply andb_prop in H; destruct H as [H ?]).
    split; [apply N.ltb_lt; exact H|]. split.
    { destruct (sw_pivots_bound sw); apply N.leb_le; assumption. }
    split; [apply lenb_ok; assumption|].
    destruct (polynomial c) as [pc|], (mmr c) as [mc|]; try discriminate.
    - left. exists pc. match goal with Hx : _ = true |- _ => repeat (apply andb_prop in Hx; destruct Hx as [Hx ?]) end.
      repeat split; auto; try (apply lenb_ok; assumption); try (apply N.eqb_eq; assumption).
      intros q Hq. apply poly_entryb_ok. match goal with Hx : forallb _ (seq 0 _) = true |- _ => rewrite forallb_forall in Hx; apply Hx end. apply in_seq. lia.
    - right. exists mc. match goal with Hx : _ = true |- _ => repeat (apply andb_prop in Hx; destruct Hx as [Hx ?]) end.
      repeat split; auto; try (apply lenb_ok; assumption); try (apply N.eqb_eq; assumption).
      + destruct t0; [apply lenb_ok|apply nilb_ok]; assumption.
      + intros q Hq. apply mmr_entryb_ok. match goal with Hx : forallb _ (seq 0 _) = true |- _ => rewrite forallb_forall in Hx; apply Hx end. apply in_seq. lia.
  Qed.

  Definition nlq_canonicalb (q : nlq) : bool :=
    lenb (nlq_offset q) 3 && lenb (vdr_in_max q) 3 && lenb (ld_slope q) 3 && lenb (ld_threshold q) 3 &&
    lenb (vdr_in_max_int q) 3 && lenb (ld_slope_int q) 3 && lenb (ld_threshold_int q) 3 &&
    forallb (fun v => if t0 then v + 1 <? two64 else v =? 0) (vdr_in_max_int q ++ ld_slope_int q ++ ld_threshold_int q).

  Lemma nlq_canonicalb_ok q : nlq_canonicalb q = true -> nlq_canonical h q.
  Proof.
    unfold nlq_canonicalb. intros H. repeat (apply andb_prop in H; destruct H as [H ?]).
    constructor; unfold three; try (apply lenb_ok; assumption).
    apply Forall_forall. intros v Hv. match goal with Hx : forallb _ _ = true |- _ => rewrite forallb_forall in Hx; specialize (Hx v Hv) end.
    fold t0. destruct t0; [apply N.ltb_lt|apply N.eqb_eq]; assumption.
  Qed.

  Definition mapping_canonicalb (m : mapping) : bool :=
    (vdr_rpu_id m + 1 <? two64) && (mapping_color_space m + 1 <? two64) && (mapping_chroma_format_idc m + 1 <? two64) &&
    (num_x_partitions_minus1 m + 1 <? two64) && (num_y_partitions_minus1 m + 1 <? two64) &&
    match curves m with
    | [c0; c1; c2] => curve_canonicalb c0 && curve_canonicalb c1 && curve_canonicalb c2
    | _ => false
    end &&
    (if has_nlq h
     then match nlq_method_idc m, nlq_num_pivots_minus2 m, nlq_pred_pivot_value m, mnlq m with
          | Some 0, Some 0, Some [_; _], Some q => nlq_canonicalb q
          | _, _, _, _ => false
          end
     else match nlq_method_idc m, nlq_num_pivots_minus2 m, nlq_pred_pivot_value m, mnlq m with
          | None, None, None, None => true
          | _, _, _, _ => false
          end).

  Lemma mapping_canonicalb_ok m : mapping_canonicalb m = true -> mapping_canonical sw h m.
  Proof.
    unfold mapping_canonicalb. intros H. repeat (apply andb_prop in H; destruct H as [H ?]).
    constructor.
    - repeat split; apply N.ltb_lt; assumption.
    - destruct (curves m) as [|c0 [|c1 [|c2 [|]]]]; try discriminate.
      match goal with Hx : _ && _ && _ = true |- _ =>
        apply andb_prop in Hx; destruct Hx as [Hx Hk2]; apply andb_prop in Hx; destruct Hx as [Hk0 Hk1] end.
      exists c0, c1, c2. split; [reflexivity|]. split; [apply curve_canonicalb_ok; exact Hk0|]. split; apply curve_canonicalb_ok; assumption.
    - destruct (has_nlq h).
      + destruct (nlq_method_idc m) as [[|]|]; try discriminate. destruct (nlq_num_pivots_minus2 m) as [[|]|]; try discriminate.
        destruct (nlq_pred_pivot_value m) as [[|a [|b [|]]]|]; try discriminate. destruct (mnlq m) as [q|]; try discriminate.
        repeat split; eauto. exists q. split; [reflexivity|apply nlq_canonicalb_ok; assumption].
      + destruct (nlq_method_idc m), (nlq_num_pivots_minus2 m), (nlq_pred_pivot_value m), (mnlq m); try discriminate. auto.
  Qed.
End Checkers.

Definition header_canonicalb (h : header) : bool :=
  (rpu_type h =? 2) && (rpu_format h <? 65536) && (vdr_rpu_profile h <? 256) && (vdr_rpu_level h <? 256) &&
  (if vdr_seq_info_present_flag h then
     (coefficient_data_type h <=? 1) &&
     (coefficient_log2_denom_length h =? (if coefficient_data_type h =? 0 then coefficient_log2_denom h mod 4294967296 else 32)) &&
     (if coefficient_data_type h =? 0 then coefficient_log2_denom h + 1 <? two64 else coefficient_log2_denom h =? 0) &&
     (vdr_rpu_normalized_idc h <? 256) &&
     (if seq_info_ok h then
        (bl_bit_depth_minus8 h + 1 <? two64) && (el_bit_depth_minus8 h <? 256) && (ext_mapping_idc_0_4 h <? 32) &&
        (ext_mapping_idc_5_7 h <? 8) && (vdr_bit_depth_minus8 h + 1 <? two64) && (reserved_zero_3bits h <? 256)
      else
        (bl_bit_depth_minus8 h =? 0) && (el_bit_depth_minus8 h =? 0) && (ext_mapping_idc_0_4 h =? 0) &&
        (ext_mapping_idc_5_7 h =? 0) && (vdr_bit_depth_minus8 h =? 0) && negb (spatial_resampling_filter_flag h) &&
        (reserved_zero_3bits h =? 0) && negb (el_spatial_resampling_filter_flag h) && negb (disable_residual_flag h))
   else
     negb (chroma_resampling_explicit_filter_flag h) && (coefficient_data_type h =? 0) && (coefficient_log2_denom h =? 0) &&
     (coefficient_log2_denom_length h =? 0) && (vdr_rpu_normalized_idc h =? 0) && negb (bl_video_full_range_flag h) &&
     (bl_bit_depth_minus8 h =? 0) && (el_bit_depth_minus8 h =? 0) && (ext_mapping_idc_0_4 h =? 0) &&
     (ext_mapping_idc_5_7 h =? 0) && (vdr_bit_depth_minus8 h =? 0) && negb (spatial_resampling_filter_flag h) &&
     (reserved_zero_3bits h =? 0) && negb (el_spatial_resampling_filter_flag h) && negb (disable_residual_flag h)) &&
  (if use_prev_vdr_rpu_flag h then prev_vdr_rpu_id h + 1 <? two64 else prev_vdr_rpu_id h =? 0).

Ltac breakb H := repeat (apply andb_prop in H; let H' := fresh "B" in destruct H as [H H']).
Ltac solveb := first [apply N.eqb_eq; assumption | apply N.ltb_lt; assumption | apply N.leb_le; assumption
                     | apply Bool.negb_true_iff; assumption | assumption].

Lemma header_canonicalb_ok h : header_canonicalb h = true -> header_canonical h.
Proof.
  unfold header_canonicalb. intros H.
  apply andb_prop in H. destruct H as [H Hprev]. apply andb_prop in H. destruct H as [H Hseq].
  apply andb_prop in H. destruct H as [H Hlvl]. apply andb_prop in H. destruct H as [H Hprof].
  apply andb_prop in H. destruct H as [Hty Hfmt].
  constructor; try solveb.
  - destruct (vdr_seq_info_present_flag h).
    + destruct (coefficient_data_type h =? 0); destruct (seq_info_ok h);
        repeat match goal with Hx : _ && _ = true |- _ => apply andb_prop in Hx; destruct Hx end; repeat split; solveb.
    + repeat match goal with Hx : _ && _ = true |- _ => apply andb_prop in Hx; destruct Hx end; repeat split; solveb.
  - destruct (use_prev_vdr_rpu_flag h); solveb.
Qed.

Fixpoint dm_eqb_blocks (a b : list block) : bool :=
  match a, b with
  | [], [] => true
  | x :: a', y :: b' => (blevel x =? blevel y) && (blen x =? blen y) && zlist_eqb (bvals x) (bvals y) &&
                        Bool.eqb (bflag x) (bflag y) && dm_eqb_blocks a' b'
  | _, _ => false
  end.
Lemma dm_eqb_blocks_ok a : forall b, dm_eqb_blocks a b = true -> a = b.
Proof.
  induction a as [|x a IH]; intros [|y b] H; cbn in H; try discriminate; [reflexivity|].
  breakb H. apply N.eqb_eq in H, B2. apply zlist_eqb_eq in B1. apply Bool.eqb_prop in B0.
  destruct x, y; cbn in *; subst. f_equal. auto.
Qed.

Definition canon_containerb (c : container) : bool := dm_eqb_blocks (map canon_block (cblocks c)) (cblocks c).
Lemma canon_containerb_ok c : canon_containerb c = true -> canon_container c = c.
Proof. unfold canon_containerb, canon_container. intros H. apply dm_eqb_blocks_ok in H. destruct c; cbn in *. congruence. Qed.

Definition rpu_canonicalb (sw : src_switches) (x : rpu) : bool :=
  let h := hdr x in
  header_canonicalb h && (dovi_profile x =? get_dovi_profile h) &&
  match el_type x, el_type_of (rmapping x) with Some a, Some b => a =? b | None, None => true | _, _ => false end &&
  (coefficient_log2_denom_length h <? 64) && (el_bit_depth_minus8 h + 8 <? 16) &&
  ((bl_bit_depth_minus8 h + 8) mod 4294967296 <? 16) && (1 <=? (bl_bit_depth_minus8 h + 8) mod 4294967296) &&
  (if negb (use_prev_vdr_rpu_flag h) then match rmapping x with Some m => mapping_canonicalb sw h m | None => false end
   else match rmapping x with None => true | _ => false end) &&
  (if vdr_dm_metadata_present_flag h
   then match rdm x with
        | Some d => dm_okb h d &&
                    match cmv29 d with Some c => canon_containerb c | None => true end &&
                    match cmv40 d with Some c => canon_containerb c && negb (nilb (cblocks c)) | None => true end
        | None => false end
   else match rdm x with None => true | _ => false end) &&
  match remaining x with Some bs => negb (nilb bs) && Nat.eqb (List.length bs mod 8) 0 | None => true end &&
  match sw_rpu_end_min sw with Some k => k <=? 6 | None => true end.

Ltac allb := repeat match goal with Hx : _ && _ = true |- _ => apply andb_prop in Hx; destruct Hx end.

Lemma rpu_canonicalb_ok sw x : rpu_canonicalb sw x = true -> rpu_canonical sw x.
Proof.
  unfold rpu_canonicalb. cbv zeta. intros H. allb.
  constructor.
  - apply header_canonicalb_ok. assumption.
  - solveb.
  - destruct (el_type x) as [a|], (el_type_of (rmapping x)) as [b|]; try discriminate; [f_equal; solveb|reflexivity].
  - solveb.
  - solveb.
  - split; solveb.
  - destruct (negb (use_prev_vdr_rpu_flag (hdr x))).
    + destruct (rmapping x) as [m|]; [|discriminate]. exists m. split; [reflexivity|apply mapping_canonicalb_ok; assumption].
    + destruct (rmapping x); [discriminate|reflexivity].
  - destruct (vdr_dm_metadata_present_flag (hdr x)).
    + destruct (rdm x) as [d|]; [|discriminate]. allb. exists d. split; [reflexivity|]. split; [apply dm_okb_sound; assumption|].
      split.
      * unfold canon_dm. destruct d as [dc di dmn c29 c40]. cbn [dm_compressed dm_ids dm_main cmv29 cmv40] in *. f_equal.
        -- destruct c29 as [c|]; [cbn; f_equal; apply canon_containerb_ok; assumption|reflexivity].
        -- destruct c40 as [c|]; [|reflexivity]. allb. cbn. f_equal. apply canon_containerb_ok; assumption.
      * destruct (cmv40 d) as [c|]; [|exact I]. allb.
        match goal with Hx : negb (nilb (cblocks c)) = true |- _ => apply Bool.negb_true_iff in Hx; intros Hn; rewrite Hn in Hx; discriminate end.
    + destruct (rdm x); [discriminate|reflexivity].
  - destruct (remaining x) as [bs|]; [|exact I]. allb.
    split; [match goal with Hx : negb (nilb bs) = true |- _ => apply Bool.negb_true_iff in Hx; intros Hn; rewrite Hn in Hx; discriminate end
           |apply Nat.eqb_eq; assumption].
  - destruct (sw_rpu_end_min sw); [solveb|exact I].
Qed.

(* the FEL sample of the repository, parsed, is canonical: the hypotheses of the write-soundness
   theorem are satisfiable on a profile 7 RPU with polynomial and MMR curves, NLQ and DM blocks *)
Example fel_sample_is_canonical :
  match parse_inner Debug src_sw fel_sample with
  | Ok x => rpu_canonicalb src_sw x = true
  | _ => False
  end.
Proof. vm_compute. reflexivity. Qed.
