(* SMPTE ST 2084 (PQ) as real functions; constants come from the regenerated Consts_gen
   (dolby_vision/src/utils.rs).  x^p is written exp (p * ln x) so that Interval can bound it. *)
From Coq Require Import Reals ZArith List.
From DVgen Require Import Consts_gen.
Import ListNotations.
Open Scope R_scope.

Definition qc (n d : Z) : R := IZR n / IZR d.
Definition pq_m1 : R := qc st2084_m1_num st2084_m1_den.
Definition pq_m2 : R := qc st2084_m2_num st2084_m2_den.
Definition pq_c1 : R := qc st2084_c1_num st2084_c1_den.
Definition pq_c2 : R := qc st2084_c2_num st2084_c2_den.
Definition pq_c3 : R := qc st2084_c3_num st2084_c3_den.
Definition pq_ymax : R := qc st2084_y_max_num st2084_y_max_den.

(* nits_to_pq for y = nits / Y_MAX > 0 *)
Definition pq_of_y (y : R) : R :=
  let yp := exp (pq_m1 * ln y) in
  exp (pq_m2 * ln ((pq_c1 + pq_c2 * yp) / (1 + pq_c3 * yp))).
(* nits_to_pq 0: 0^m1 = 0 *)
Definition pq_of_zero : R := exp (pq_m2 * ln pq_c1).

(* pq_to_nits for 0 < x <= 1 (x^(1/m2) > c1 on every positive 12-bit code) *)
Definition eotf (x : R) : R :=
  let xp := exp (1 / pq_m2 * ln x) in
  exp (1 / pq_m1 * ln ((xp - pq_c1) / (pq_c2 - pq_c3 * xp))) * pq_ymax.

(* a table entry (integer nits L, code c) is certified when c is a correct rounding of 4095 * PQ(L) *)
Definition cert_nits (p : Z * Z) : Prop :=
  if Z.eqb (fst p) 0 then Rabs (4095 * pq_of_zero - IZR (snd p)) <= 1 / 2
  else Rabs (4095 * pq_of_y (IZR (fst p) / pq_ymax) - IZR (snd p)) <= 1 / 2.
(* minimum-luminance entries: k / 10000 nits *)
Definition cert_min (p : Z * Z) : Prop :=
  if Z.eqb (fst p) 0 then Rabs (4095 * pq_of_zero - IZR (snd p)) <= 1 / 2
  else Rabs (4095 * pq_of_y (IZR (fst p) / 10000 / pq_ymax) - IZR (snd p)) <= 1 / 2.
(* code -> nits: the f64 result num/den of pq_to_nits(c / 4095) is within 1e-9 relative of the real EOTF *)
Definition cert_code (p : Z * (Z * Z)) : Prop :=
  let v := IZR (fst (snd p)) / IZR (snd (snd p)) in
  if Z.eqb (fst p) 0 then fst (snd p) = 0%Z
  else Rabs (eotf (IZR (fst p) / 4095) - v) <= v / 1000000000 + 1 / 1000000000000.

Ltac cert_unfold :=
  cbv [cert_nits cert_min cert_code pq_of_y pq_of_zero eotf qc pq_m1 pq_m2 pq_c1 pq_c2 pq_c3 pq_ymax
       st2084_m1_num st2084_m1_den st2084_m2_num st2084_m2_den st2084_c1_num st2084_c1_den
       st2084_c2_num st2084_c2_den st2084_c3_num st2084_c3_den st2084_y_max_num st2084_y_max_den
       fst snd Z.eqb Pos.eqb].
