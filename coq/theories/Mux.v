(* mux: interleaving an enhancement-layer stream into a base-layer stream (src/dovi/muxer.rs).
   BL side: Muxer::process_nals / finalize with its frame buffer; EL side: ElHandler fed by a
   resumable reader (HevcProcessor::parse_nalus with buffer_frame = true), modelled over an explicit
   list of EL batches; and the specification `interleave_spec`. *)
From Coq Require Import List NArith ZArith Lia Bool.
From DV Require Import Outcome Bits Escape BitIO Rpu Ops Stream Order.
Import ListNotations.
Open Scope N_scope.
Local Open Scope out_scope.

Record mopts := mkMo {
  mo_no_add_aud : bool; mo_eos_before_el : bool; mo_discard : bool; mo_annexb : bool;
  mo_drop : bool; mo_mode : option N; mo_crop : bool }.

Definition ropts (o : mopts) : opts := mkOpts (mo_mode o) (mo_crop o) (mo_discard o) (mo_drop o) (mo_annexb o).

(* one buffered NAL: (type to write with, bytes) *)
Definition bnal := (N * list N)%type.

(* ---------------- EL handler ---------------- *)
Record elstate := mkEl {
  el_rest : list (list (nal * N));        (* unread EL batches *)
  el_frames : list (N * list bnal);       (* buffered_frames queue: (frame number, nals) *)
  el_last : N }.                          (* last_buffered_frame *)

(* ElHandler::process_nals on one batch: group by frame index, wrap, append to the queue *)
Definition el_buf (p : profile) (o : mopts) (n : nal) : outcome (option bnal) :=
  if mo_discard o && negb (ntype n =? 62) then Ok None
  else if negb (ntype n =? 62) then Ok (Some (ntype n, 126 :: 1 :: ndata n))
  else if is_some (mo_mode o) then
    match convert_rpu_nal p (ropts o) (ndata n) with
    | Ok d => Ok (Some (62, d))
    | Err => Panic site_arith            (* .unwrap() on the conversion result *)
    | Panic s => Panic s
    end
  else Ok (Some (62, ndata n)).

Fixpoint el_add (q : list (N * list bnal)) (idx : N) (b : option bnal) : list (N * list bnal) :=
  let add := match b with Some x => [x] | None => [] end in
  match q with
  | [] => [(idx, add)]
  | (i, l) :: t => if i =? idx then (i, l ++ add) :: t else (i, l) :: el_add t idx b
  end.

Fixpoint el_process (p : profile) (o : mopts) (q : list (N * list bnal)) (b : list (nal * N))
  : outcome (list (N * list bnal)) :=
  match b with
  | [] => Ok q
  | (n, idx) :: t => let* x := el_buf p o n in el_process p o (el_add q idx x) t
  end.

Definition batch_max (b : list (nal * N)) : option N :=
  match b with
  | [] => None
  | _ => Some (fold_left (fun a x => N.max a (snd x)) b 0)
  end.

(* parse_nalus with buffer_frame: consume batches until one shows a frame index above el_last *)
Fixpoint el_read (p : profile) (o : mopts) (fuel : nat) (s : elstate) : outcome elstate :=
  match fuel with
  | O => Ok s
  | S f =>
      match el_rest s with
      | [] => Ok s
      | b :: rest =>
          let* q := el_process p o (el_frames s) b in
          match batch_max b with
          | Some m => if el_last s <? m then Ok (mkEl rest q m)
                      else el_read p o f (mkEl rest q (el_last s))
          | None => el_read p o f (mkEl rest q (el_last s))
          end
      end
  end.

(* write_next_frame: EL NALs are written as UNSPEC63 (3-byte start code under annex-b), RPU as 62 *)
Definition el_write (o : mopts) (l : list bnal) : list wnal :=
  map (fun '(t, d) => (sc_len (mo_annexb o) (if t =? 62 then 62 else 63) false, d)) l.

(* ---------------- BL side ---------------- *)
(* the EL side of a flush: resume the reader if fewer than two frames are queued (always at the end),
   then write the front frame if it is known to be complete (more than one queued) or at the end *)
Definition el_part (p : profile) (o : mopts) (final : bool) (e : elstate) : outcome (list wnal * elstate) :=
  let* el := if final then el_read p o (S (List.length (el_rest e))) e
             else if (List.length (el_frames e) <? 2)%nat
                  then el_read p o (S (List.length (el_rest e))) e else Ok e in
  Ok (if final || (1 <? List.length (el_frames el))%nat then
        match el_frames el with
        | (_, l) :: t => (el_write o l, mkEl (el_rest el) t (el_last el))
        | [] => ([], el)
        end
      else ([], el)).

Definition write_buffers (o : mopts) (frame_start : bool) (l : list bnal) : list wnal :=
  map (fun '(i, (t, d)) => (sc_len (mo_annexb o) t (Nat.eqb i 0 && frame_start && negb (t =? 35)), d))
      (combine (seq 0 (List.length l)) l).

Definition is_eos_b (b : bnal) : bool := is_eos (fst b).

(* The BL side is written once, generically in the type E of the EL side's state and in the
   function that produces the EL part of an access unit: the implementation instance is the
   stateful reader / queue above, the specification instance (MuxAlign.v) a plain counter into
   the list of EL frames. *)
Section MuxGen.
  Context {E : Type}.
  Context (elpart : bool -> E -> outcome (list wnal * E)).

  Record mstate := mkMs {
    m_fb_number : N; m_fb : list bnal;       (* frame buffer *)
    m_el : E;
    m_out : list wnal }.

  (* flush of the buffered BL frame when the first NAL of the next frame arrives (or at the end) *)
  Definition mux_flush (o : mopts) (fs : list frame) (final : bool) (s : mstate) : outcome mstate :=
    let* buf := if mo_no_add_aud o then Ok (m_fb s)
                else match frame_of_dec fs (m_fb_number s) with
                     | Some f => Ok ((35, aud_for f) :: m_fb s)
                     | None => if final then Panic site_arith else Err
                     end in
    let bl_part := if mo_eos_before_el o then buf else filter (fun b => negb (is_eos_b b)) buf in
    let tail := if mo_eos_before_el o then [] else filter is_eos_b buf in
    let out1 := m_out s ++ write_buffers o true bl_part in
    let* '(elw, el') := elpart final (m_el s) in
    Ok (mkMs (m_fb_number s) [] el' (out1 ++ elw ++ write_buffers o false tail)).

  Definition mux_step (o : mopts) (fs : list frame) (s : mstate) (ni : nal * N) : outcome mstate :=
    let '(n, idx) := ni in
    let t := ntype n in
    let* hd := if mo_drop o && (t =? 39) then remove_hdr10plus (ndata n) else Ok (false, None) in
    let '(has40, repl) := hd in
    if has40 && negb (is_some repl) then Ok s
    else
      let* s := if negb (m_fb_number s =? idx)
                then (let* s' := mux_flush o fs false s in Ok (mkMs idx [] (m_el s') (m_out s')))
                else Ok s in
      if (t =? 62) || (t =? 63) then Ok s
      else if negb (mo_no_add_aud o) && (t =? 35) then Ok s
      else
        let data := match repl with Some d => d | None => ndata n end in
        Ok (mkMs (m_fb_number s) (m_fb s ++ [(t, data)]) (m_el s) (m_out s)).

  Fixpoint mux_nals (o : mopts) (fs : list frame) (s : mstate) (l : list (nal * N)) : outcome mstate :=
    match l with
    | [] => Ok s
    | x :: t => let* s' := mux_step o fs s x in mux_nals o fs s' t
    end.

  (* process_nals over the whole BL, then finalize: (output, EL state after the last flush if any) *)
  Definition mux_run (o : mopts) (fs : list frame) (ix : list (nal * N)) (e0 : E) : outcome (list wnal * option E) :=
    let* s := mux_nals o fs (mkMs 0 [] e0 []) ix in
    if negb (m_fb_number s =? N.of_nat (List.length fs)) && negb (match m_fb s with [] => true | _ => false end)
    then
      let* s' := mux_flush o fs true s in
      Ok (m_out s', Some (m_el s'))
    else Ok (m_out s, None).
End MuxGen.

(* (output, error flag for a BL/EL frame count mismatch) *)
Definition mux (p : profile) (o : mopts) (bl : list nal) (el_batches : list (list nal))
  : outcome (list wnal * bool) :=
  let ix := assign_indices ps0 bl in
  let fs := ordered_frames ix in
  let elix := assign_indices ps0 (concat el_batches) in
  let* '(out, e) := mux_run (el_part p o) o fs ix (mkEl (rebatch el_batches elix) [] 0) in
  Ok (out, match e with
           | Some el => negb (match el_frames el with [] => true | _ => false end)
           | None => false
           end).

(* ---------------- specification ---------------- *)
(* NALs of one frame index, in order *)
Definition nals_of_frame (ix : list (nal * N)) (k : N) : list nal :=
  map fst (filter (fun x => snd x =? k) ix).

Definition spec_au (p : profile) (o : mopts) (fs : list frame) (blx elx : list (nal * N)) (k : N)
  : outcome (list (list N)) :=
  let bl := filter (fun n => negb ((ntype n =? 62) || (ntype n =? 63) || (negb (mo_no_add_aud o) && (ntype n =? 35))))
                   (nals_of_frame blx k) in
  let aud := if mo_no_add_aud o then []
             else match frame_of_dec fs k with Some f => [aud_for f] | None => [] end in
  let body := map ndata (filter (fun n => negb (is_eos (ntype n))) bl) in
  let eos := map ndata (filter (fun n => is_eos (ntype n)) bl) in
  let* el := (fix go (l : list nal) : outcome (list (list N)) :=
                match l with
                | [] => Ok []
                | n :: t => let* x := el_buf p o n in
                            let* r := go t in
                            Ok (match x with Some (_, d) => d :: r | None => r end)
                end) (nals_of_frame elx k) in
  if mo_eos_before_el o then Ok (aud ++ map ndata bl ++ el) else Ok (aud ++ body ++ el ++ eos).

(* the muxed stream for equal frame counts: access unit k = [AUD] BL(k) EL(k) RPU(k) [EOS/EOB] *)
Fixpoint interleave_spec (p : profile) (o : mopts) (fs : list frame) (blx elx : list (nal * N))
         (ks : list N) : outcome (list (list N)) :=
  match ks with
  | [] => Ok []
  | k :: t => let* a := spec_au p o fs blx elx k in
              let* r := interleave_spec p o fs blx elx t in Ok (a ++ r)
  end.

Definition mux_spec (p : profile) (o : mopts) (bl el : list nal) : outcome (list (list N)) :=
  let blx := assign_indices ps0 bl in
  let elx := assign_indices ps0 el in
  let fs := ordered_frames blx in
  interleave_spec p o fs blx elx (map N.of_nat (seq 0 (List.length fs))).
