(* Non-vacuity of the DM write-soundness theorem on the repository's FEL sample. *)
From Coq Require Import List NArith ZArith Lia Bool String.
From DV Require Import Outcome Bits BitIO Fields Blocks Rpu Tables FieldsProofs C03Proofs HeaderRT RpuRT RpuRTExample DmWS.
From DVgen Require Import Consts_gen Blocks_gen DmData_gen Switches_gen.
Import ListNotations.
Open Scope N_scope.

Definition dm_okb (h : header) (d : dmdata) : bool :=
  match dm_ids d with
  | [a; c; s] => (a + 1 <? two64) && (c + 1 <? two64) && (s + 1 <? two64)
  | _ => false
  end &&
  Bool.eqb (dm_compressed d) (reserved_zero_3bits h =? dm_compressed_marker) &&
  (if dm_compressed d then zlist_eqb (dm_main d) (map (fun _ => 0%Z) dm_main_prog)
   else all_in_type dm_main_prog (dm_main d)) &&
  match cmv29 d with Some c => container_okb V29 c && (cnum c + 1 <? two64) | None => false end &&
  match cmv40 d with Some c => container_okb V40 c && (cnum c + 1 <? two64) | None => true end.

Lemma dm_okb_sound h d : dm_okb h d = true -> dm_ok h d.
Proof.
  unfold dm_okb. intros H. repeat (apply andb_prop in H; destruct H as [H ?]).
  constructor.
  - destruct (dm_ids d) as [|a [|c [|s [|x t]]]]; try discriminate.
    repeat (apply andb_prop in H; destruct H as [H ?]). exists a, c, s.
    repeat split; try apply N.ltb_lt; assumption.
  - apply Bool.eqb_prop. assumption.
  - destruct (dm_compressed d); [apply zlist_eqb_eq|]; assumption.
  - destruct (cmv29 d) as [c|]; [|discriminate]. apply andb_prop in H1. destruct H1 as [Ha Hb].
    exists c. split; [reflexivity|]. split; [apply container_okb_sound; exact Ha|apply N.ltb_lt; exact Hb].
  - destruct (cmv40 d) as [c|]; [|exact I]. apply andb_prop in H0. destruct H0 as [Ha Hb].
    split; [apply container_okb_sound; exact Ha|apply N.ltb_lt; exact Hb].
Qed.

Example fel_sample_dm_ok :
  match parse_inner Debug src_sw fel_sample with
  | Ok x => match rdm x with Some d => dm_okb (hdr x) d = true | None => False end
  | _ => False
  end.
Proof. vm_compute. reflexivity. Qed.
