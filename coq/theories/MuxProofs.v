(* Facts about the muxer model (Mux.v): the specification's access-unit shape. *)
From Coq Require Import List NArith ZArith Lia Bool.
From DV Require Import Outcome Bits Escape BitIO Rpu Ops Stream Order Mux.
Import ListNotations.
Open Scope N_scope.
Local Open Scope out_scope.

(* the EL part of an access unit never carries anything but wrapped NALs and RPUs:
   a wrapped NAL starts with the UNSPEC63 header 7E 01 *)
Lemma el_buf_wrapped p o n t d :
  el_buf p o n = Ok (Some (t, d)) -> ntype n <> 62 -> t = ntype n /\ d = 126 :: 1 :: ndata n.
Proof.
  unfold el_buf. intros H Hn. apply N.eqb_neq in Hn. rewrite Hn in H. cbn [negb] in H.
  rewrite andb_true_r in H. destruct (mo_discard o); cbn in H; inversion H; auto.
Qed.

Lemma el_buf_discard p o n : mo_discard o = true -> ntype n <> 62 -> el_buf p o n = Ok None.
Proof. unfold el_buf. intros Hd Hn. apply N.eqb_neq in Hn. rewrite Hd, Hn. reflexivity. Qed.

Lemma el_buf_rpu_passthrough p o n :
  ntype n = 62 -> mo_mode o = None -> el_buf p o n = Ok (Some (62, ndata n)).
Proof.
  unfold el_buf. intros Hn Hm. rewrite Hn, Hm. cbn. rewrite andb_false_r. reflexivity.
Qed.

(* ---------------- the EL queue neither loses nor reorders NALs ---------------- *)
Definition olist {A} (x : option A) : list A := match x with Some a => [a] | None => [] end.

(* keys strictly increasing and bounded by m *)
Fixpoint keys_inc (q : list (N * list bnal)) : Prop :=
  match q with
  | [] => True
  | (i, _) :: t => match t with [] => True | (j, _) :: _ => i < j end /\ keys_inc t
  end.
Definition keys_le (q : list (N * list bnal)) (m : N) : Prop := Forall (fun x => fst x <= m) q.

Lemma el_add_spec q idx b :
  keys_inc q -> keys_le q idx ->
  concat (map snd (el_add q idx b)) = concat (map snd q) ++ olist b /\
  keys_inc (el_add q idx b) /\ keys_le (el_add q idx b) idx /\
  (List.length q <= List.length (el_add q idx b))%nat.
Proof.
  induction q as [|[i l] t IH]; intros Hinc Hle.
  - cbn. rewrite app_nil_r. repeat split; auto. constructor; [cbn; lia|constructor].
  - cbn [el_add]. destruct (N.eqb_spec i idx) as [He|Hne].
    + subst i. assert (Ht : t = []).
      { destruct t as [|[j l2] t2]; auto. cbn in Hinc. destruct Hinc as [Hlt _].
        inversion Hle as [|? ? _ Hle2]; subst. inversion Hle2 as [|? ? Hj _]; subst. cbn in Hj. lia. }
      subst t. cbn. rewrite !app_nil_r. repeat split; auto. constructor; [cbn; lia|constructor].
    + inversion Hle as [|? ? Hi Hle2]; subst. cbn in Hi.
      cbn in Hinc. destruct Hinc as [Hhd Hinc2].
      destruct (IH Hinc2 Hle2) as (Hc & Hk & Hl & Hn).
      cbn [map concat snd]. rewrite Hc, app_assoc. repeat split.
      * destruct t as [|[j l2] t2].
        -- cbn. lia.
        -- cbn [el_add]. destruct (j =? idx); cbn; exact Hhd.
      * exact Hk.
      * constructor; [cbn; lia|exact Hl].
      * cbn. lia.
Qed.

(* the NALs kept from a batch, in order *)
Fixpoint el_kept (p : profile) (o : mopts) (b : list (nal * N)) : outcome (list bnal) :=
  match b with
  | [] => Ok []
  | (n, _) :: t => let* x := el_buf p o n in let* r := el_kept p o t in Ok (olist x ++ r)
  end.

Fixpoint idx_sorted_from (m : N) (b : list (nal * N)) : Prop :=
  match b with
  | [] => True
  | (_, i) :: t => m <= i /\ idx_sorted_from i t
  end.

Lemma keys_le_mono q a b : keys_le q a -> a <= b -> keys_le q b.
Proof. unfold keys_le. intros H Hab. eapply Forall_impl; [|exact H]. cbn. intros x Hx. lia. Qed.

Lemma el_process_concat p o b : forall q m q',
  keys_inc q -> keys_le q m -> idx_sorted_from m b ->
  el_process p o q b = Ok q' ->
  exists kept, el_kept p o b = Ok kept /\
    concat (map snd q') = concat (map snd q) ++ kept /\ keys_inc q' /\
    (List.length q <= List.length q')%nat.
Proof.
  induction b as [|[n i] t IH]; intros q m q' Hinc Hle Hs H.
  - cbn in H. inversion H; subst. exists []. cbn. rewrite app_nil_r. auto.
  - cbn [el_process] in H. cbn in Hs. destruct Hs as [Hmi Hs].
    destruct (el_buf p o n) as [x| |s] eqn:Hb; cbn [bind] in H; try discriminate.
    destruct (el_add_spec q i x Hinc (keys_le_mono _ _ _ Hle Hmi)) as (Hc & Hk & Hl & Hn).
    destruct (IH _ i q' Hk Hl Hs H) as (kept & Hkept & Hc2 & Hk2 & Hn2).
    exists (olist x ++ kept). cbn [el_kept]. rewrite Hb. cbn [bind]. rewrite Hkept. cbn [bind].
    repeat split; auto; [|lia]. rewrite Hc2, Hc, app_assoc. reflexivity.
Qed.
