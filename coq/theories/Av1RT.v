(* C15: the AV1 ITU-T T.35 / EMDF container, written then parsed, returns the RPU - every payload
   size below 65792 bytes, every payload content. *)
From Coq Require Import List NArith ZArith Lia Bool.
From DV Require Import Outcome Bits BitIO Av1 Av1Proofs FieldsProofs HeaderRT RpuRT DmWS RpuWS.
From DVgen Require Import Consts_gen.
Import ListNotations.
Open Scope N_scope.
Local Open Scope out_scope.
Require Import ZifyBool ZifyNat ZifyN.
Ltac Zify.zify_post_hook ::= Z.div_mod_to_equations.

Lemma write_variable_bits_wput v n w w' : write_variable_bits v n w = Ok w' -> exists bs, w' = wput w bs.
Proof.
  unfold write_variable_bits, write_bit.
  destruct (if vb_write_cmp_is_ge then 2 ^ n <=? v else 2 ^ n <? v).
  - unfold write_n. destruct (32 <? n); [discriminate|].
    destruct (_ && _); [discriminate|]. cbn [bind]. destruct (_ && _); [discriminate|]. cbn [bind].
    intros H. apply ok_inj in H. subst. rewrite !wput_app. eauto.
  - unfold write_n. destruct (32 <? n); [discriminate|]. destruct (_ && _); [discriminate|]. cbn [bind].
    intros H. apply ok_inj in H. subst. rewrite !wput_app. eauto.
Qed.

Lemma varbits_reads (n : N) (Hn1 : 1 <= n) (Hn32 : n <= 32) (Hpp : 2 ^ n + 2 ^ n * 2 ^ n < two32) v w w' :
  v < 2 ^ n + 2 ^ n * 2 ^ n -> write_variable_bits v n w = Ok w' ->
  exists bs, w' = wput w bs /\ forall prof, reads (parse_variable_bits prof n) bs v.
Proof.
  intros Hv H. destruct (write_variable_bits_wput _ _ _ _ H) as [bs ->].
  exists bs. split; [reflexivity|]. intros prof rest pos.
  destruct (variable_bits_roundtrip n Hn1 Hn32 Hpp eq_refl v w (wput w bs) rest Hv H) as (bs' & Hb & Hr).
  rewrite wbits_wput in Hb. apply app_inv_head in Hb. subst bs'. apply Hr.
Qed.

Lemma write_bytes_reads : forall l w w', forallb is_byte l = true -> write_bytes l w = Ok w' ->
  exists bs, w' = wput w bs /\ List.length bs = (8 * List.length l)%nat /\
    forall fuel, (List.length l <= fuel)%nat -> reads (get_bytes fuel (N.of_nat (List.length l))) bs l.
Proof.
  induction l as [|b t IH]; intros w w' Hb H; cbn [write_bytes] in H.
  - apply ok_inj in H. subst. exists []. split; [symmetry; apply wput_nil|]. split; [reflexivity|].
    intros fuel _ rest pos. destruct fuel; cbn; (f_equal; f_equal; f_equal; lia).
  - cbn [forallb] in Hb. apply andb_prop in Hb. destruct Hb as [Hb1 Hb2]. unfold is_byte in Hb1. apply N.ltb_lt in Hb1.
    destruct (write_n 8 8 b w) as [w1| |s] eqn:E1; cbn [bind] in H; try discriminate.
    destruct (write_n_reads 8 8 b w w1 E1 Hb1) as (b1 & -> & R1).
    assert (Hl1 : List.length b1 = 8%nat).
    { unfold write_n in E1. cbn [N.ltb N.compare Pos.compare Pos.compare_cont andb] in E1. apply ok_inj in E1. apply MappingWS.wput_inj in E1.
      rewrite <- E1. apply enc_length. }
    destruct (IH _ _ Hb2 H) as (b2 & -> & Hl2 & R2).
    exists (b1 ++ b2). split; [apply wput_app|]. split; [rewrite app_length; cbn [List.length]; lia|].
    intros fuel Hf rest pos. destruct fuel as [|f]; [cbn in Hf; lia|]. cbn [get_bytes List.length].
    replace (N.of_nat (S (List.length t)) =? 0) with false by (symmetry; apply N.eqb_neq; lia).
    rewrite <- app_assoc, R1. cbn [bind]. replace (N.of_nat (S (List.length t)) - 1) with (N.of_nat (List.length t)) by lia.
    rewrite (R2 f) by (cbn in Hf; lia). cbn [bind]. f_equal. f_equal. f_equal. rewrite app_length. lia.
Qed.

Lemma expect_n_enc tb n x rest pos : n <= tb -> x < 2 ^ n ->
  expect_n tb n x (mkR (enc (N.to_nat n) x ++ rest) pos) = Ok (mkR rest (pos + n)).
Proof. intros Hn Hx. unfold expect_n. rewrite get_n_enc by assumption. cbn [bind]. rewrite N.eqb_refl. reflexivity. Qed.

(* the EMDF container written for a payload is parsed back to the payload size, with the reader
   left at the payload, and the payload bytes are read back *)
Theorem emdf_container_roundtrip body w w' :
  forallb is_byte body = true -> N.of_nat (List.length body) < 65792 ->
  write_emdf_container body w = Ok w' ->
  exists hdr pay trl, w' = wput w (hdr ++ pay ++ trl) /\
    List.length pay = (8 * List.length body)%nat /\ List.length trl = 17%nat /\
    forall prof rest pos,
      parse_emdf_container prof (mkR (hdr ++ pay ++ trl ++ rest) pos)
      = Ok (N.of_nat (List.length body), mkR (pay ++ trl ++ rest) (pos + N.of_nat (List.length hdr))) /\
      forall fuel pos', (List.length body <= fuel)%nat ->
        get_bytes fuel (N.of_nat (List.length body)) (mkR (pay ++ trl ++ rest) pos')
        = Ok (body, mkR (trl ++ rest) (pos' + N.of_nat (List.length pay))).
Proof.
  intros Hb Hlen H. unfold write_emdf_container, write_dovi_rpu_emdf_header in H.
  rewrite (write_n_ok 32 2 emdf_version) in H by (cbv; first [discriminate | reflexivity]). cbn [bind] in H.
  rewrite (write_n_ok 32 3 emdf_key_id) in H by (cbv; first [discriminate | reflexivity]). cbn [bind] in H.
  rewrite (write_n_ok 32 5 emdf_payload_id) in H by (cbv; first [discriminate | reflexivity]). cbn [bind] in H.
  match type of H with bind (bind (write_variable_bits ?v ?n ?ww) _) _ = _ =>
    destruct (write_variable_bits v n ww) as [w1| |s] eqn:E1; cbn [bind] in H; try discriminate end.
  destruct (varbits_reads 5 ltac:(lia) ltac:(lia) ltac:(reflexivity) emdf_payload_id_ext _ _ ltac:(reflexivity) E1) as (b1 & -> & R1).
  rewrite (write_n_ok 32 4 0) in H by (cbv; first [discriminate | reflexivity]). cbn [bind] in H.
  unfold write_bit in H. cbn [bind] in H.
  assert (Hmod : N.of_nat (List.length body) mod two32 = N.of_nat (List.length body)) by (apply N.mod_small; unfold two32; lia).
  rewrite Hmod in H.
  match type of H with bind (write_variable_bits ?v ?n ?ww) _ = _ =>
    destruct (write_variable_bits v n ww) as [w2| |s] eqn:E2; cbn [bind] in H; try discriminate end.
  destruct (varbits_reads 8 ltac:(lia) ltac:(lia) ltac:(reflexivity) (N.of_nat (List.length body)) _ _ ltac:(exact Hlen) E2) as (b2 & -> & R2).
  match type of H with bind (write_bytes ?l ?ww) _ = _ =>
    destruct (write_bytes l ww) as [w3| |s] eqn:E3; cbn [bind] in H; try discriminate end.
  destruct (write_bytes_reads _ _ _ Hb E3) as (b3 & -> & Hl3 & R3).
  rewrite (write_n_ok 32 5 0) in H by (cbv; first [discriminate | reflexivity]). cbn [bind] in H.
  rewrite (write_n_ok 32 2 1) in H by (cbv; first [discriminate | reflexivity]). cbn [bind] in H.
  rewrite (write_n_ok 32 2 0) in H by (cbv; first [discriminate | reflexivity]). cbn [bind] in H.
  rewrite (write_n_ok 32 8 0) in H by (cbv; first [discriminate | reflexivity]).
  apply ok_inj in H. subst w'.
  set (h1 := enc (N.to_nat 2) emdf_version ++ enc (N.to_nat 3) emdf_key_id ++ enc (N.to_nat 5) emdf_payload_id).
  exists ((h1 ++ b1 ++ enc (N.to_nat 4) 0 ++ [true]) ++ b2), b3,
         (enc (N.to_nat 5) 0 ++ enc (N.to_nat 2) 1 ++ enc (N.to_nat 2) 0 ++ enc (N.to_nat 8) 0).
  split; [unfold h1; rewrite !wput_app, <- !app_assoc; reflexivity|].
  split; [exact Hl3|]. split; [reflexivity|].
  intros prof rest pos. split.
  - unfold parse_emdf_container, h1. rewrite <- !app_assoc.
    rewrite expect_n_enc by (cbv; first [discriminate | reflexivity]). cbn [bind].
    rewrite expect_n_enc by (cbv; first [discriminate | reflexivity]). cbn [bind].
    rewrite expect_n_enc by (cbv; first [discriminate | reflexivity]). cbn [bind].
    rewrite (R1 prof). cbn [bind]. rewrite N.eqb_refl. cbn [ensure bind].
    change (enc (N.to_nat 4) 0) with [false; false; false; false]. cbn [app].
    unfold expect_bit. rewrite !get_cons. cbn [bind Bool.eqb ensure].
    rewrite get_cons. cbn [bind Bool.eqb ensure]. rewrite get_cons. cbn [bind Bool.eqb ensure].
    rewrite get_cons. cbn [bind Bool.eqb ensure]. rewrite get_cons. cbn [bind Bool.eqb ensure].
    rewrite (R2 prof). f_equal. f_equal. f_equal.
    rewrite !app_length. cbn [List.length]. rewrite !enc_length. lia.
  - intros fuel pos' Hf. apply (R3 fuel Hf).
Qed.

Lemma strip_rev_skipn l : strip_trailing_zeros_rev l = skipn (Rpu.count_leading_zeros l) l.
Proof. induction l as [|[|p] t IH]; cbn [strip_trailing_zeros_rev Rpu.count_leading_zeros skipn]; auto. Qed.

Lemma strip_trailing_zeros_firstn data :
  strip_trailing_zeros data = firstn (List.length data - Rpu.count_leading_zeros (frev data)) data.
Proof.
  unfold strip_trailing_zeros. rewrite strip_rev_skipn, !frev_rev.
  rewrite skipn_rev, rev_involutive. reflexivity.
Qed.

Lemma in_firstn {A} (x : A) : forall k l, In x (firstn k l) -> In x l.
Proof.
  induction k as [|k IH]; intros [|y t] H; cbn in H; try contradiction.
  destruct H as [->|H]; [left; reflexivity|right; apply IH; exact H].
Qed.

Lemma byte_align_ones_bits bs : exists pad, byte_align_ones (wput wempty bs) = wput wempty (bs ++ pad) /\
  (List.length (bs ++ pad) mod 8 = 0)%nat.
Proof.
  unfold byte_align_ones. rewrite wpos_wput. cbn [wempty wpos]. rewrite N.add_0_l.
  exists (repeat true (N.to_nat (pad_len (N.of_nat (List.length bs))))). split; [apply wput_app|].
  rewrite app_length, repeat_length. unfold pad_len. lia.
Qed.

(* THE AV1 CONTAINER ROUND TRIP (C15): every RPU (prefix 0x19, final 0x80, any number of trailing
   zero bytes, payload below 65792 bytes) wrapped for AV1 and unwrapped again comes back as the RPU
   without its trailing zeros *)
Theorem av1_roundtrip data out :
  convert_regular_rpu_to_av1_payload data = Ok out -> forallb is_byte data = true ->
  N.of_nat (List.length (strip_trailing_zeros data)) <= 65792 ->
  forall prof, convert_av1_rpu_payload_to_regular prof out = Ok (strip_trailing_zeros data).
Proof.
  unfold convert_regular_rpu_to_av1_payload. intros H Hb Hlen prof.
  destruct data as [|d0 dt]; [discriminate|].
  destruct (d0 =? 25) eqn:E0; cbn [ensure bind] in H; [|discriminate]. apply N.eqb_eq in E0. subst d0.
  set (trimmed := strip_trailing_zeros (25 :: dt)) in *.
  destruct (frev trimmed) as [|lastb tr] eqn:Er; [discriminate|].
  destruct (negb (lastb =? 128)); [discriminate|].
  assert (Htrim : exists body, trimmed = 25 :: body).
  { unfold trimmed in *. rewrite strip_trailing_zeros_firstn in *.
    match type of Er with frev (firstn ?n _) = _ => destruct n as [|k] end; [cbn in Er; discriminate|].
    cbn [firstn]. eauto. }
  destruct Htrim as [body Hbody]. rewrite Hbody in H, Hlen |- *. cbn [tl] in H.
  assert (Hbb : forallb is_byte body = true).
  { assert (Hsub : forall x, In x body -> In x (25 :: dt)).
    { intros x Hx. assert (Hin : In x trimmed) by (rewrite Hbody; right; exact Hx).
      unfold trimmed in Hin. rewrite strip_trailing_zeros_firstn in Hin. eapply in_firstn. exact Hin. }
    rewrite forallb_forall in *. intros x Hx. apply Hb. apply Hsub. exact Hx. }
  assert (Hblen : N.of_nat (List.length body) < 65792) by (cbn [List.length] in Hlen; lia).
  rewrite (write_n_ok 32 16 t35_provider_code) in H by (cbv; first [discriminate | reflexivity]). cbn [bind] in H.
  rewrite (write_n_ok 32 32 t35_provider_oriented_code) in H by (cbv; first [discriminate | reflexivity]). cbn [bind] in H.
  match type of H with bind (write_emdf_container ?b ?ww) _ = _ =>
    destruct (write_emdf_container b ww) as [w1| |s] eqn:E1; cbn [bind] in H; try discriminate end.
  destruct (emdf_container_roundtrip _ _ _ Hbb Hblen E1) as (hdr & pay & trl & -> & Hlp & Hlt & Rc).
  apply ok_inj in H. rewrite !wput_app in H.
  match type of H with context [byte_align_ones (wput wempty ?bits)] =>
    destruct (byte_align_ones_bits bits) as (pad & Hba & Hm8); rewrite Hba in H; set (W := bits ++ pad) in * end.
  unfold wbytes in H. rewrite wbits_wput in H. cbn [wempty wbits wrev frev rev_append app] in H.
  destruct (bits_as_bytes (List.length W / 8) W ltac:(lia)) as (B & HB & HBb & HBl).
  assert (Hfuel : (List.length body <= List.length B)%nat) by (rewrite HBl; unfold W; rewrite !app_length; lia).
  assert (Hout : out = B) by (rewrite <- H, HB; apply bytes_of_bits_of_bytes; exact HBb). rewrite Hout. clear H Hout.
  unfold convert_av1_rpu_payload_to_regular, reader_of_bytes. rewrite <- HB. unfold W. rewrite <- !app_assoc.
  rewrite expect_n_enc by (cbv; first [discriminate | reflexivity]). cbn [bind].
  rewrite expect_n_enc by (cbv; first [discriminate | reflexivity]). cbn [bind].
  destruct (Rc prof pad (0 + 16 + 32)) as [Rp Rb]. rewrite Rp. cbn [bind].
  replace (avail_ge (N.of_nat (List.length body) * 8) _) with true.
  - cbn [ensure bind]. rewrite Rb by exact Hfuel. cbn [bind]. reflexivity.
  - symmetry. unfold avail_ge. cbn [rbits]. apply has_at_least_spec. rewrite !app_length. lia.
Qed.
