(* The RPU: header, mapping, NLQ, DM data, top-level parse / write.
   Models of dolby_vision/src/rpu/{dovi_rpu.rs, rpu_data_header.rs, rpu_data_mapping.rs,
   rpu_data_nlq.rs, vdr_dm_data.rs}. *)
From Coq Require Import List NArith ZArith Lia Bool String.
From DV Require Import Outcome Bits BitIO Fields Blocks Crc32 Escape Av1.
From DVgen Require Import Consts_gen Blocks_gen DmData_gen Switches_gen.
Import ListNotations.
Open Scope N_scope.
Local Open Scope out_scope.

(* ------------------------------------------------------------------ header *)
Record header := mkH {
  rpu_type : N; rpu_format : N; vdr_rpu_profile : N; vdr_rpu_level : N;
  vdr_seq_info_present_flag : bool; chroma_resampling_explicit_filter_flag : bool;
  coefficient_data_type : N; coefficient_log2_denom : N; coefficient_log2_denom_length : N;
  vdr_rpu_normalized_idc : N; bl_video_full_range_flag : bool;
  bl_bit_depth_minus8 : N; el_bit_depth_minus8 : N;
  ext_mapping_idc_0_4 : N; ext_mapping_idc_5_7 : N;
  vdr_bit_depth_minus8 : N; spatial_resampling_filter_flag : bool; reserved_zero_3bits : N;
  el_spatial_resampling_filter_flag : bool; disable_residual_flag : bool;
  vdr_dm_metadata_present_flag : bool; use_prev_vdr_rpu_flag : bool; prev_vdr_rpu_id : N }.

Definition seq_info_ok (h : header) : bool := N.land (rpu_format h) 1792 =? 0.   (* & 0x700 == 0 *)

(* RpuDataHeader::parse *)
Definition parse_header (p : profile) (r : reader) : outcome (header * reader) :=
  let* '(ty, r) := get_n 8 6 r in
  let* _ := ensure (ty =? 2) in
  let* '(fmt, r) := get_n 16 11 r in
  let* '(prf, r) := get_n 8 4 r in
  let* '(lvl, r) := get_n 8 4 r in
  let* '(seq, r) := get r in
  let h0 := mkH ty fmt prf lvl seq false 0 0 0 0 false 0 0 0 0 0 false 0 false false false false 0 in
  let* '(h1, r) :=
    if seq then
      let* '(chroma, r) := get r in
      let* '(cdt, r) := get_n 8 2 r in
      let* '(denom, r) := if cdt =? 0 then get_ue p r else Ok (0, r) in
      let* '(norm, r) := get_n 8 2 r in
      let* '(full, r) := get r in
      let* '(t, r) :=
        if N.land fmt 1792 =? 0 then
          let* '(bl, r) := get_ue p r in
          let* '(el, r) := get_ue p r in
          let* _ := ensure (el <? 65536) in      (* el_bit_depth_minus8 + ext_mapping_idc: 16 bits *)
          let ext := N.land (N.shiftr el 8) 255 in
          let* '(vdr, r) := get_ue p r in
          let* '(spatial, r) := get r in
          let* '(res3, r) := get_n 8 3 r in
          let* '(el_spatial, r) := get r in
          let* '(disable, r) := get r in
          Ok ((bl, N.land el 255, N.land ext 31, N.shiftr ext 5, vdr, spatial, res3, el_spatial, disable), r)
        else Ok ((0, 0, 0, 0, 0, false, 0, false, false), r) in
      let '(bl, el, e04, e57, vdr, spatial, res3, el_spatial, disable) := t in
      let* dlen := if cdt =? 0 then Ok (denom mod 4294967296)     (* as u32 *)
                   else if cdt =? 1 then Ok 32 else Err in
      Ok (mkH ty fmt prf lvl seq chroma cdt denom dlen norm full
              bl el e04 e57 vdr spatial res3 el_spatial disable false false 0, r)
    else Ok (h0, r) in
  let* '(dm, r) := get r in
  let* '(prev, r) := get r in
  let* '(prev_id, r) := if prev then get_ue p r else Ok (0, r) in
  Ok (mkH (rpu_type h1) (rpu_format h1) (vdr_rpu_profile h1) (vdr_rpu_level h1)
          (vdr_seq_info_present_flag h1) (chroma_resampling_explicit_filter_flag h1)
          (coefficient_data_type h1) (coefficient_log2_denom h1) (coefficient_log2_denom_length h1)
          (vdr_rpu_normalized_idc h1) (bl_video_full_range_flag h1)
          (bl_bit_depth_minus8 h1) (el_bit_depth_minus8 h1) (ext_mapping_idc_0_4 h1) (ext_mapping_idc_5_7 h1)
          (vdr_bit_depth_minus8 h1) (spatial_resampling_filter_flag h1) (reserved_zero_3bits h1)
          (el_spatial_resampling_filter_flag h1) (disable_residual_flag h1) dm prev prev_id, r).

(* RpuDataHeader::get_dovi_profile *)
Definition get_dovi_profile (h : header) : N :=
  if vdr_rpu_profile h =? 0 then (if bl_video_full_range_flag h then 5 else 0)
  else if vdr_rpu_profile h =? 1 then
    (if el_spatial_resampling_filter_flag h && negb (disable_residual_flag h)
     then (if vdr_bit_depth_minus8 h =? 4 then 7 else 4) else 8)
  else 0.

(* RpuDataHeader::validate(profile) *)
Definition header_valid (h : header) (profile : N) : bool :=
  (if profile =? 5 then (vdr_rpu_profile h =? 0) && bl_video_full_range_flag h
   else if (profile =? 7) || (profile =? 8) then vdr_rpu_profile h =? 1 else true) &&
  (vdr_rpu_level h =? 0) && (bl_bit_depth_minus8 h =? 2) && (el_bit_depth_minus8 h =? 2) &&
  (vdr_bit_depth_minus8 h <=? 6) && (coefficient_log2_denom h <=? 23).

(* RpuDataHeader::write_header *)
Definition write_header (p : profile) (h : header) (w : writer) : outcome writer :=
  let* w := write_n 8 6 (rpu_type h) w in
  let* w := write_n 16 11 (rpu_format h) w in
  let* w := write_n 8 4 (vdr_rpu_profile h) w in
  let* w := write_n 8 4 (vdr_rpu_level h) w in
  let* w := write_bit (vdr_seq_info_present_flag h) w in
  let* w :=
    if vdr_seq_info_present_flag h then
      let* w := write_bit (chroma_resampling_explicit_filter_flag h) w in
      let* w := write_n 8 2 (coefficient_data_type h) w in
      let* w := if coefficient_data_type h =? 0 then write_ue p (coefficient_log2_denom h) w else Ok w in
      let* w := write_n 8 2 (vdr_rpu_normalized_idc h) w in
      let* w := write_bit (bl_video_full_range_flag h) w in
      if seq_info_ok h then
        let* w := write_ue p (bl_bit_depth_minus8 h) w in
        (* ((5_7 << 5) | 0_4) in u8, then (ext << 8) | el_bit_depth_minus8 in u64 *)
        let ext := N.lor (N.land (N.shiftl (ext_mapping_idc_5_7 h) 5) 255) (ext_mapping_idc_0_4 h) in
        let* w := write_ue p (N.lor (N.shiftl ext 8) (el_bit_depth_minus8 h)) w in
        let* w := write_ue p (vdr_bit_depth_minus8 h) w in
        let* w := write_bit (spatial_resampling_filter_flag h) w in
        let* w := write_n 8 3 (reserved_zero_3bits h) w in
        let* w := write_bit (el_spatial_resampling_filter_flag h) w in
        write_bit (disable_residual_flag h) w
      else Ok w
    else Ok w in
  let* w := write_bit (vdr_dm_metadata_present_flag h) w in
  let* w := write_bit (use_prev_vdr_rpu_flag h) w in
  if use_prev_vdr_rpu_flag h then write_ue p (prev_vdr_rpu_id h) w else Ok w.

(* ------------------------------------------------------------------ mapping *)
Record poly_curve := mkPoly {
  poly_order_minus1 : list N; linear_interp_flag : list bool;
  poly_coef_int : list (list Z); poly_coef : list (list N) }.
Record mmr_curve := mkMmr {
  mmr_order_minus1 : list N; mmr_constant_int : list Z; mmr_constant : list N;
  mmr_coef_int : list (list (list Z)); mmr_coef : list (list (list N)) }.
(* mapping_idc: 0 = Polynomial, 1 = MMR, 255 = Invalid (Default) *)
Record curve := mkCurve {
  num_pivots_minus2 : N; pivots : list N; mapping_idc : N;
  polynomial : option poly_curve; mmr : option mmr_curve }.
Record nlq := mkNlq {
  nlq_offset : list N; vdr_in_max_int : list N; vdr_in_max : list N;
  ld_slope_int : list N; ld_slope : list N; ld_threshold_int : list N; ld_threshold : list N }.
Record mapping := mkMap {
  vdr_rpu_id : N; mapping_color_space : N; mapping_chroma_format_idc : N;
  num_x_partitions_minus1 : N; num_y_partitions_minus1 : N;
  curves : list curve;
  nlq_method_idc : option N; nlq_num_pivots_minus2 : option N;
  nlq_pred_pivot_value : option (list N); mnlq : option nlq }.

Definition empty_poly : poly_curve := mkPoly [] [] [] [].
Definition empty_mmr : mmr_curve := mkMmr [] [] [] [] [].

Fixpoint get_ns (tb w : N) (k : nat) (r : reader) : outcome (list N * reader) :=
  match k with
  | O => Ok ([], r)
  | S k' => let* '(v, r) := get_n tb w r in
            let* '(t, r) := get_ns tb w k' r in Ok (v :: t, r)
  end.

(* pivots: `vec![0; num_pivots]` then one get_n per entry; the loop is bounded by the input *)
Fixpoint get_pivots (fuel : nat) (k : N) (w : N) (r : reader) : outcome (list N * reader) :=
  if k =? 0 then Ok ([], r)
  else match fuel with
       | O => Err
       | S f => let* '(v, r) := get_n 16 w r in
                let* '(t, r) := get_pivots f (k - 1) w r in Ok (v :: t, r)
       end.

(* one (int, frac) coefficient pair: se() iff coefficient_data_type == 0, then get_n::<u64>(len) *)
Definition get_coef (p : profile) (h : header) (r : reader) : outcome ((option Z * N) * reader) :=
  let* '(i, r) := if coefficient_data_type h =? 0
                  then (let* '(v, r) := get_se p r in Ok (Some v, r)) else Ok (None, r) in
  let* '(c, r) := get_n 64 (coefficient_log2_denom_length h) r in
  Ok ((i, c), r).

Fixpoint get_coefs (p : profile) (h : header) (k : nat) (r : reader)
  : outcome (list (option Z * N) * reader) :=
  match k with
  | O => Ok ([], r)
  | S k' => let* '(c, r) := get_coef p h r in
            let* '(t, r) := get_coefs p h k' r in Ok (c :: t, r)
  end.

Definition ints_of (l : list (option Z * N)) : list Z :=
  flat_map (fun x => match fst x with Some v => [v] | None => [] end) l.
Definition fracs_of (l : list (option Z * N)) : list N := map snd l.

(* `strict` switches of the source, regenerated by the translator (Mapping_gen):
   map_idc_bail      : mapping_idc >= 2 is an error (true) or unreachable!() (false)
   interp_bail       : linear_interp_flag is an error (true) or unimplemented!() (false) *)
Section MappingParse.
  Context (p : profile) (h : header) (map_idc_bail interp_bail : bool).

  (* DoviPolynomialCurve::parse: appends one piece *)
  Definition parse_poly_piece (pc : poly_curve) (r : reader) : outcome (poly_curve * reader) :=
    let* '(order, r) := get_ue p r in
    let* _ := ensure (order <=? 1) in
    let* '(interp, r) := if order =? 0 then get r else Ok (false, r) in
    if (order =? 0) && interp then (if interp_bail then Err else Panic site_linear_interp)
    else
      let* '(cs, r) := get_coefs p h (N.to_nat order + 2) r in
      Ok (mkPoly (poly_order_minus1 pc ++ [order]) (linear_interp_flag pc ++ [interp])
                 (poly_coef_int pc ++ [ints_of cs]) (poly_coef pc ++ [fracs_of cs]), r).

  Fixpoint get_mmr_rows (k : nat) (r : reader) : outcome (list (list (option Z * N)) * reader) :=
    match k with
    | O => Ok ([], r)
    | S k' => let* '(row, r) := get_coefs p h 7 r in
              let* '(t, r) := get_mmr_rows k' r in Ok (row :: t, r)
    end.

  (* DoviMMRCurve::parse: appends one piece *)
  Definition parse_mmr_piece (mc : mmr_curve) (r : reader) : outcome (mmr_curve * reader) :=
    let* '(order, r) := get_n 8 2 r in
    let* _ := ensure (order <=? 2) in
    let* '((ci, c), r) := get_coef p h r in
    let* '(rows, r) := get_mmr_rows (N.to_nat order + 1) r in
    Ok (mkMmr (mmr_order_minus1 mc ++ [order])
              (mmr_constant_int mc ++ match ci with Some v => [v] | None => [] end)
              (mmr_constant mc ++ [c])
              (mmr_coef_int mc ++ [map ints_of rows]) (mmr_coef mc ++ [map fracs_of rows]), r).

  Fixpoint parse_pieces (fuel : nat) (k : N) (c : curve) (r : reader) : outcome (curve * reader) :=
    if k =? 0 then Ok (c, r)
    else match fuel with
         | O => Err
         | S f =>
             let* '(idc, r) := get_ue p r in
             if 2 <=? idc then (if map_idc_bail then Err else Panic site_mapping_idc)
             else if idc =? 0 then
               let pc := match polynomial c with Some x => x | None => empty_poly end in
               let* '(pc', r) := parse_poly_piece pc r in
               parse_pieces f (k - 1) (mkCurve (num_pivots_minus2 c) (pivots c) 0 (Some pc') (mmr c)) r
             else
               let mc := match mmr c with Some x => x | None => empty_mmr end in
               let* '(mc', r) := parse_mmr_piece mc r in
               parse_pieces f (k - 1) (mkCurve (num_pivots_minus2 c) (pivots c) 1 (polynomial c) (Some mc')) r
         end.
End MappingParse.

Record src_switches := mkSw {
  sw_map_idc_bail : bool; sw_interp_bail : bool;
  sw_pivots_bound : option N;          (* ensure!(num_pivots_minus2 <= k) before allocating *)
  sw_rpu_end_min : option N;           (* if rpu_end < k { bail! } *)
  sw_mixed_method_bail : bool;         (* write: mixed polynomial/MMR pieces is an error *)
  sw_write_interp_bail : bool
}.
(* the switches of the current source tree (regenerated) *)
Definition src_sw : src_switches :=
  mkSw g_map_idc_bail g_interp_bail g_pivots_bound g_rpu_end_min g_mixed_method_bail g_write_interp_bail.

Definition parse_curve_header (p : profile) (sw : src_switches) (bl_bits : N) (r : reader)
  : outcome (curve * reader) :=
  let* '(n, r) := get_ue p r in
  let* _ := match sw_pivots_bound sw with
            | Some k => ensure (n <=? k)
            | None => if 1000000 <? n then Panic site_alloc else Ok tt  (* vec![0; n + 2] *)
            end in
  let* '(pv, r) := get_pivots (S (List.length (rbits r))) (n + 2) bl_bits r in
  Ok (mkCurve n pv 255 None None, r).

Definition parse_nlq (p : profile) (h : header) (r : reader) : outcome (nlq * reader) :=
  let one (r : reader) :=
    let* '(off, r) := get_n 16 (el_bit_depth_minus8 h + 8) r in
    let t0 := coefficient_data_type h =? 0 in
    let len := coefficient_log2_denom_length h in
    let* '(a_i, r) := if t0 then get_ue p r else Ok (0, r) in
    let* '(a, r) := get_n 64 len r in
    let* '(s_i, r) := if t0 then get_ue p r else Ok (0, r) in
    let* '(s, r) := get_n 64 len r in
    let* '(t_i, r) := if t0 then get_ue p r else Ok (0, r) in
    let* '(t, r) := get_n 64 len r in
    Ok ((off, a_i, a, s_i, s, t_i, t), r) in
  let* '(c0, r) := one r in
  let* '(c1, r) := one r in
  let* '(c2, r) := one r in
  let cs := [c0; c1; c2] in
  Ok (mkNlq (map (fun '(o, _, _, _, _, _, _) => o) cs) (map (fun '(_, x, _, _, _, _, _) => x) cs)
            (map (fun '(_, _, x, _, _, _, _) => x) cs) (map (fun '(_, _, _, x, _, _, _) => x) cs)
            (map (fun '(_, _, _, _, x, _, _) => x) cs) (map (fun '(_, _, _, _, _, x, _) => x) cs)
            (map (fun '(_, _, _, _, _, _, x) => x) cs), r).

(* RpuDataMapping::parse *)
Definition parse_mapping (p : profile) (sw : src_switches) (h : header) (r : reader)
  : outcome (mapping * reader) :=
  let* '(id, r) := get_ue p r in
  let* '(cs, r) := get_ue p r in
  let* '(cf, r) := get_ue p r in
  let bl_bits := (bl_bit_depth_minus8 h + 8) mod 4294967296 in
  let* '(c0, r) := parse_curve_header p sw bl_bits r in
  let* '(c1, r) := parse_curve_header p sw bl_bits r in
  let* '(c2, r) := parse_curve_header p sw bl_bits r in
  let has_nlq := seq_info_ok h && negb (disable_residual_flag h) in
  let* '(nlqh, r) :=
    if has_nlq then
      let* '(m, r) := get_n 8 3 r in
      let* _ := ensure (m =? 0) in
      let* '(pv, r) := get_ns 16 bl_bits 2 r in
      Ok ((Some 0, Some 0, Some pv), r)
    else Ok ((None, None, None), r) in
  let '(nm, nnp, npv) := nlqh in
  let* '(nx, r) := get_ue p r in
  let* '(ny, r) := get_ue p r in
  let pp := parse_pieces p h (sw_map_idc_bail sw) (sw_interp_bail sw) in
  let* '(c0, r) := pp (S (List.length (rbits r))) (num_pivots_minus2 c0 + 1) c0 r in
  let* '(c1, r) := pp (S (List.length (rbits r))) (num_pivots_minus2 c1 + 1) c1 r in
  let* '(c2, r) := pp (S (List.length (rbits r))) (num_pivots_minus2 c2 + 1) c2 r in
  let* '(nq, r) := match nm with
                   | Some _ => let* '(q, r) := parse_nlq p h r in Ok (Some q, r)
                   | None => Ok (None, r)
                   end in
  Ok (mkMap id cs cf nx ny [c0; c1; c2] nm nnp npv nq, r).

Definition all_eqb (v : N) (l : list N) : bool := forallb (N.eqb v) l.

(* RpuDataNlq::is_mel; el_type: 0 = MEL, 1 = FEL *)
Definition nlq_is_mel (q : nlq) : bool :=
  all_eqb 0 (nlq_offset q) && all_eqb 1 (vdr_in_max_int q) && all_eqb 0 (vdr_in_max q) &&
  all_eqb 0 (ld_slope_int q) && all_eqb 0 (ld_slope q) &&
  all_eqb 0 (ld_threshold_int q) && all_eqb 0 (ld_threshold q).
Definition el_type_of (m : option mapping) : option N :=
  match m with
  | Some m => match mnlq m with Some q => Some (if nlq_is_mel q then 0 else 1) | None => None end
  | None => None
  end.

Definition is_some {A} (o : option A) : bool := match o with Some _ => true | None => false end.
Definition sum_n (l : list N) : N := fold_left N.add l 0.

(* RpuDataMapping::validate(profile) ; the pivot sum is a u16 sum (overflow panics in Debug) *)
Definition mapping_valid (m : mapping) (profile : N) : bool :=
  (if (profile =? 5) || (profile =? 8) then
     negb (is_some (nlq_method_idc m)) && negb (is_some (nlq_num_pivots_minus2 m)) &&
     negb (is_some (nlq_pred_pivot_value m))
   else if profile =? 7 then
     match nlq_pred_pivot_value m with Some pv => sum_n pv =? 1023 | None => false end
   else true) &&
  (mapping_color_space m =? 0) && (mapping_chroma_format_idc m =? 0).

(* ---- write ---- *)
Fixpoint write_ns (tb w : N) (l : list N) (wr : writer) : outcome writer :=
  match l with
  | [] => Ok wr
  | v :: t => let* wr := write_n tb w v wr in write_ns tb w t wr
  end.

Definition nth_or_panic {A} (l : list A) (i : nat) : outcome A :=
  match nth_error l i with Some x => Ok x | None => Panic site_write_index end.

Section MappingWrite.
  Context (p : profile) (h : header) (winterp_bail : bool).
  Let t0 := coefficient_data_type h =? 0.
  Let len := coefficient_log2_denom_length h.

  (* for j in 0..count: se(int[j]) if type 0, then write_n(frac[j], len) *)
  Fixpoint write_coefs (ints : list Z) (fracs : list N) (j : nat) (count : nat) (w : writer)
    : outcome writer :=
    match count with
    | O => Ok w
    | S c =>
        let* w := if t0 then (let* v := nth_or_panic ints j in write_se p v w) else Ok w in
        let* f := nth_or_panic fracs j in
        let* w := write_n 64 len f w in
        write_coefs ints fracs (S j) c w
    end.

  Definition write_poly_piece (pc : poly_curve) (i : nat) (w : writer) : outcome writer :=
    let* order := nth_or_panic (poly_order_minus1 pc) i in
    let* w := write_ue p order w in
    let* w := if order =? 0
              then (let* f := nth_or_panic (linear_interp_flag pc) i in write_bit f w) else Ok w in
    let* interp := if order =? 0 then nth_or_panic (linear_interp_flag pc) i else Ok false in
    if (order =? 0) && interp then (if winterp_bail then Err else Panic site_write_interp)
    else
      let* ints := if t0 then nth_or_panic (poly_coef_int pc) i else Ok [] in
      let* fracs := nth_or_panic (poly_coef pc) i in
      write_coefs ints fracs 0 (N.to_nat order + 2) w.

  Fixpoint write_mmr_rows (ints : list (list Z)) (fracs : list (list N)) (j : nat) (count : nat)
    (w : writer) : outcome writer :=
    match count with
    | O => Ok w
    | S c =>
        let* irow := if t0 then nth_or_panic ints j else Ok [] in
        let* frow := nth_or_panic fracs j in
        let* w := write_coefs irow frow 0 7 w in
        write_mmr_rows ints fracs (S j) c w
    end.

  Definition write_mmr_piece (mc : mmr_curve) (i : nat) (w : writer) : outcome writer :=
    let* order := nth_or_panic (mmr_order_minus1 mc) i in
    let* w := write_n 8 2 order w in
    let* w := if t0 then (let* v := nth_or_panic (mmr_constant_int mc) i in write_se p v w) else Ok w in
    let* c := nth_or_panic (mmr_constant mc) i in
    let* w := write_n 64 len c w in
    let* ints := if t0 then nth_or_panic (mmr_coef_int mc) i else Ok [] in
    let* fracs := nth_or_panic (mmr_coef mc) i in
    write_mmr_rows ints fracs 0 (N.to_nat order + 1) w.

  Fixpoint write_pieces (c : curve) (i : nat) (count : nat) (w : writer) : outcome writer :=
    match count with
    | O => Ok w
    | S k =>
        let* w := write_ue p (mapping_idc c) w in
        let* w := match polynomial c, mmr c with
                  | Some pc, _ => write_poly_piece pc i w
                  | None, Some mc => write_mmr_piece mc i w
                  | None, None => Err
                  end in
        write_pieces c (S i) k w
    end.

  Definition curve_consistent (c : curve) : bool :=
    match polynomial c, mmr c with
    | Some _, Some _ => false
    | _, _ => true
    end.
End MappingWrite.

Definition write_nlq (p : profile) (h : header) (m : mapping) (q : nlq) (w : writer) : outcome writer :=
  let t0 := coefficient_data_type h =? 0 in
  let len := coefficient_log2_denom_length h in
  let one (i : nat) (w : writer) :=
    let* off := nth_or_panic (nlq_offset q) i in
    let* w := write_n 16 ((el_bit_depth_minus8 h + 8) mod 4294967296) off w in
    let* w := if t0 then (let* v := nth_or_panic (vdr_in_max_int q) i in write_ue p v w) else Ok w in
    let* v := nth_or_panic (vdr_in_max q) i in
    let* w := write_n 64 len v w in
    if is_some (nlq_method_idc m) then
      let* w := if t0 then (let* v := nth_or_panic (ld_slope_int q) i in write_ue p v w) else Ok w in
      let* v := nth_or_panic (ld_slope q) i in
      let* w := write_n 64 len v w in
      let* w := if t0 then (let* v := nth_or_panic (ld_threshold_int q) i in write_ue p v w) else Ok w in
      let* v := nth_or_panic (ld_threshold q) i in
      write_n 64 len v w
    else Ok w in
  let* w := one 0%nat w in
  let* w := one 1%nat w in
  one 2%nat w.

(* RpuDataMapping::write *)
Definition write_mapping (p : profile) (sw : src_switches) (h : header) (m : mapping) (w : writer)
  : outcome writer :=
  let bl_bits := (bl_bit_depth_minus8 h + 8) mod 4294967296 in
  let* w := write_ue p (vdr_rpu_id m) w in
  let* w := write_ue p (mapping_color_space m) w in
  let* w := write_ue p (mapping_chroma_format_idc m) w in
  let wc (c : curve) (w : writer) :=
    let* w := write_ue p (num_pivots_minus2 c) w in write_ns 16 bl_bits (pivots c) w in
  let* c0 := nth_or_panic (curves m) 0 in
  let* c1 := nth_or_panic (curves m) 1 in
  let* c2 := nth_or_panic (curves m) 2 in
  let* w := wc c0 w in
  let* w := wc c1 w in
  let* w := wc c2 w in
  let* w :=
    if seq_info_ok h && negb (disable_residual_flag h) then
      let* w := match nlq_method_idc m with Some v => write_n 8 3 v w | None => Ok w end in
      match nlq_pred_pivot_value m with Some pv => write_ns 16 bl_bits pv w | None => Ok w end
    else Ok w in
  let* w := write_ue p (num_x_partitions_minus1 m) w in
  let* w := write_ue p (num_y_partitions_minus1 m) w in
  let wp (c : curve) (w : writer) :=
    if sw_mixed_method_bail sw && negb (curve_consistent c) then Err
    else write_pieces p h (sw_write_interp_bail sw) c 0 (N.to_nat ((num_pivots_minus2 c + 1) mod 18446744073709551616)) w in
  let* w := wp c0 w in
  let* w := wp c1 w in
  let* w := wp c2 w in
  match mnlq m with Some q => write_nlq p h m q w | None => Ok w end.

(* ------------------------------------------------------------------ DM data *)
Record dmdata := mkDm {
  dm_compressed : bool;
  dm_ids : list N;          (* affected_dm_metadata_id, current_dm_metadata_id, scene_refresh_flag *)
  dm_main : list Z;         (* aligned with skipn 3 dm_parse; zeros when compressed *)
  cmv29 : option container; cmv40 : option container }.

Definition dm_main_prog : list fld := skipn 3 dm_parse.
Definition dm_main_wprog : list fld := skipn 3 dm_write.

Definition dm_field (d : dmdata) (name : string) : Z :=
  match field_val dm_main_prog (dm_main d) name with Some v => v | None => 0%Z end.

(* vdr_dm_data_payload *)
Definition parse_dm (p : profile) (h : header) (r : reader) : outcome (dmdata * reader) :=
  let* '(a, r) := get_ue p r in
  let* '(c, r) := get_ue p r in
  let* '(s, r) := get_ue p r in
  let compressed := reserved_zero_3bits h =? dm_compressed_marker in
  let* '(mainv, r) := if compressed then Ok (map (fun _ => 0%Z) dm_main_prog, r)
                      else dec_fields p dm_main_prog 0 r in
  let* '(c29, r) := parse_container p V29 r in
  let* '(c40, r) :=
    if avail_ge dm_data_payload2_min_bits r
    then (let* '(c, r) := parse_container p V40 r in Ok (Some c, r))
    else Ok (None, r) in
  Ok (mkDm compressed [a; c; s] mainv (Some c29) c40, r).

(* VdrDmData::validate *)
Definition dm_valid (d : dmdata) : bool :=
  (match dm_ids d with a :: _ => a <=? 15 | [] => false end) &&
  (if dm_compressed d then true
   else
     let bd := dm_field d "signal_bit_depth" in
     ((8 <=? bd) && (bd <=? 16))%Z &&
     (if ((dm_field d "signal_eotf_param0" =? 0) && (dm_field d "signal_eotf_param1" =? 0) &&
          (dm_field d "signal_eotf_param2" =? 0))%Z
      then (dm_field d "signal_eotf" =? 65535)%Z else true)) &&
  (match cmv29 d with Some c => container_valid V29 c | None => true end) &&
  (match cmv40 d with Some c => container_valid V40 c | None => true end).

(* VdrDmData::write *)
Definition write_dm (p : profile) (d : dmdata) (w : writer) : outcome writer :=
  let* w := match dm_ids d with
            | [a; c; s] => let* w := write_ue p a w in let* w := write_ue p c w in write_ue p s w
            | _ => Err
            end in
  let* w := if dm_compressed d then Ok w else enc_fields p dm_main_wprog 0 (dm_main d) w in
  let* w := match cmv29 d with Some c => write_container p c w | None => Ok w end in
  match cmv40 d with Some c => write_container p c w | None => Ok w end.

(* ------------------------------------------------------------------ the RPU *)
Record rpu := mkRpu {
  dovi_profile : N; el_type : option N; hdr : header;
  rmapping : option mapping; rdm : option dmdata;
  remaining : option (list bool); rpu_crc : N; modified : bool; trailing_zeroes : N }.

Definition rpu_valid (x : rpu) : bool :=
  header_valid (hdr x) (dovi_profile x) &&
  (match rmapping x with Some m => mapping_valid m (dovi_profile x) | None => true end) &&
  (match rdm x with Some d => dm_valid d | None => true end).

Fixpoint get_bits (k : nat) (r : reader) : outcome (list bool * reader) :=
  match k with
  | O => Ok ([], r)
  | S k' => let* '(b, r) := get r in let* '(t, r) := get_bits k' r in Ok (b :: t, r)
  end.

(* DoviRpu::read_rpu_data *)
Definition read_rpu_data (p : profile) (sw : src_switches) (bytes : list N) : outcome rpu :=
  let r := reader_of_bytes bytes in
  let* '(prefix, r) := get_n 8 8 r in
  let* _ := ensure (prefix =? 25) in
  let* '(h, r) := parse_header p r in
  let prof := get_dovi_profile h in
  let* _ := ensure (header_valid h prof) in
  let* '(m, r) := if negb (use_prev_vdr_rpu_flag h)
                  then (let* '(m, r) := parse_mapping p sw h r in Ok (Some m, r)) else Ok (None, r) in
  let* '(d, r) := if vdr_dm_metadata_present_flag h
                  then (let* '(d, r) := parse_dm p h r in Ok (Some d, r)) else Ok (None, r) in
  let* r := align_zero 8 r in
  let* '(rem, r) :=
    if avail_gt crc32_terminator_bits r then
      let n := (List.length (rbits r) - N.to_nat crc32_terminator_bits)%nat in
      let* '(bs, r) := get_bits n r in Ok (Some bs, r)
    else Ok (None, r) in
  let* '(crc, r) := get_n 32 32 r in
  let* '(last, r) := get_n 8 8 r in
  let* _ := ensure (last =? final_byte) in
  Ok (mkRpu prof (el_type_of m) h m d rem crc false 0).

Fixpoint count_leading_zeros (l : list N) : nat :=
  match l with 0 :: t => S (count_leading_zeros t) | _ => O end.

(* DoviRpu::parse *)
Definition parse_inner (p : profile) (sw : src_switches) (data : list N) : outcome rpu :=
  let tz := count_leading_zeros (frev data) in
  let rpu_end := (List.length data - tz)%nat in
  if (match sw_rpu_end_min sw with Some k => N.of_nat rpu_end <? k | None => false end) then Err
  else if (rpu_end <? 6)%nat then Panic site_rpu_end
  else
    let body := firstn rpu_end data in
    let last := nth (rpu_end - 1) data 0 in
    let received := crc32 (firstn (rpu_end - 6) (tl data)) in
    if negb (last =? final_byte) then Err
    else
      let* x := read_rpu_data p sw body in
      if negb (received =? rpu_crc x) then Err
      else
        let x := mkRpu (dovi_profile x) (el_type x) (hdr x) (rmapping x) (rdm x) (remaining x)
                       (rpu_crc x) false (N.of_nat tz) in
        if rpu_valid x then Ok x else Err.

(* DoviRpu::validated_trimmed_data *)
Definition validated_trimmed_data (data : list N) : outcome (list N) :=
  if (List.length data <? 25)%nat then Err
  else match data with
       | 0 :: 0 :: 0 :: 1 :: 25 :: _ => Ok (skipn 4 data)
       | 0 :: 0 :: 1 :: 25 :: 8 :: _ => Ok (skipn 3 data)
       | 0 :: 1 :: 25 :: 8 :: 9 :: _ => Ok (skipn 2 data)
       | 124 :: 1 :: 25 :: 8 :: 9 :: _ => Ok (skipn 2 data)
       | 1 :: 25 :: 8 :: 9 :: _ :: _ => Ok (skipn 1 data)
       | 25 :: 8 :: 9 :: _ :: _ :: _ => Ok data
       | _ => Err
       end.

Definition parse_rpu (p : profile) (sw : src_switches) (data : list N) : outcome rpu :=
  let* d := validated_trimmed_data data in parse_inner p sw d.
Definition parse_unspec62_nalu (p : profile) (sw : src_switches) (data : list N) : outcome rpu :=
  let* d := validated_trimmed_data data in parse_inner p sw (unescape d).
Definition parse_av1 (p : profile) (sw : src_switches) (data : list N) : outcome rpu :=
  let* d := av1_validated_trimmed_data data in
  let* b := convert_av1_rpu_payload_to_regular p d in parse_inner p sw b.

(* DoviRpu::write_rpu_data *)
Definition write_rpu_data (p : profile) (sw : src_switches) (x : rpu) : outcome (list N) :=
  if negb (rpu_valid x) then Err
  else
    let* w := write_n 32 8 25 wempty in
    let* w := write_header p (hdr x) w in
    let* w :=
      if rpu_type (hdr x) =? 2 then
        let* w := if negb (use_prev_vdr_rpu_flag (hdr x))
                  then match rmapping x with Some m => write_mapping p sw (hdr x) m w | None => Ok w end
                  else Ok w in
        if vdr_dm_metadata_present_flag (hdr x)
        then match rdm x with Some d => write_dm p d w | None => Ok w end else Ok w
      else Ok w in
    let w := if align_before_remaining then byte_align w else w in
    (* data before the CRC that the parser would take for a CM v4.0 payload cannot be written *)
    let* _ := match remaining x, rdm x with
              | Some bs, Some d =>
                  if g_remaining_guard
                  then ensure (is_some (cmv40 d) ||
                               (N.of_nat (List.length bs) + crc32_terminator_bits <? dm_data_payload2_min_bits))
                  else Ok tt
              | _, _ => Ok tt
              end in
    let w := match remaining x with Some bs => wput w bs | None => w end in
    let w := byte_align w in
    let bytes := wbytes w in
    let computed := crc32 (tl bytes) in
    if negb (modified x) && negb (rpu_crc x =? computed) then Err
    else
      let* w := write_n 32 32 computed w in
      let* w := write_n 8 8 final_byte w in
      Ok (wbytes (wput w (zeros (8 * N.to_nat (trailing_zeroes x))))).

Definition write_rpu := write_rpu_data.
Definition write_hevc_unspec62_nalu (p : profile) (sw : src_switches) (x : rpu) : outcome (list N) :=
  let* out := write_rpu_data p sw x in Ok (124 :: 1 :: escape out).
Definition write_av1_payload (p : profile) (sw : src_switches) (x : rpu) : outcome (list N) :=
  let* out := write_rpu_data p sw x in convert_regular_rpu_to_av1_payload out.
Definition write_av1_complete (p : profile) (sw : src_switches) (x : rpu) : outcome (list N) :=
  let* out := write_av1_payload p sw x in Ok (181 :: out).
