(* Block precedence of the generator (C10): every override is an upsert keyed by (level, target) -
   the last writer of a key wins, every other key keeps its block. *)
From Coq Require Import List NArith ZArith Lia Bool Permutation String.
From DV Require Import Outcome Bits BitIO Fields Blocks Rpu Ops OpsProofs Editor Generator.
From DVgen Require Import Blocks_gen.
Import ListNotations.
Open Scope N_scope.
Local Open Scope out_scope.

(* the key of a block: its level, and its target for the levels that exist once per target display *)
Definition okey (b : block) : N * Z := (blevel b, if keyed_level (blevel b) then target_of b else 0%Z).
Definition key_eqb (a b : N * Z) : bool := (fst a =? fst b) && (snd a =? snd b)%Z.
Definition with_key (k : N * Z) (l : list block) : list block := filter (fun b => key_eqb (okey b) k) l.

Lemma key_eqb_eq a b : key_eqb a b = true <-> a = b.
Proof.
  unfold key_eqb. destruct a as [a1 a2], b as [b1 b2]. cbn. rewrite andb_true_iff, N.eqb_eq, Z.eqb_eq.
  split; [intros [-> ->]; reflexivity|intros H; inversion H; auto].
Qed.

Lemma key_eqb_refl a : key_eqb a a = true.
Proof. apply key_eqb_eq. reflexivity. Qed.

Lemma key_eqb_trans_l a b k : key_eqb a b = true -> key_eqb a k = key_eqb b k.
Proof. intros H. apply key_eqb_eq in H. subst. reflexivity. Qed.

Lemma same_key_okey nb b : keyed_level (blevel nb) = true ->
  ((blevel b =? blevel nb) && (target_of b =? target_of nb)%Z) = key_eqb (okey b) (okey nb).
Proof.
  intros Hk. unfold key_eqb, okey. cbn [fst snd]. rewrite Hk.
  destruct (blevel b =? blevel nb) eqn:E; [|reflexivity].
  apply N.eqb_eq in E. rewrite E, Hk. reflexivity.
Qed.

Lemma with_key_app k a b : with_key k (a ++ b) = with_key k a ++ with_key k b.
Proof. apply filter_app. Qed.

Lemma with_key_perm k l l' : Permutation l l' -> Permutation (with_key k l) (with_key k l').
Proof. apply filter_perm. Qed.

(* ---------------- replace_first on the keyed levels ---------------- *)
Lemma replace_first_with_key nb k (Hk : keyed_level (blevel nb) = true) : forall l l',
  replace_first (blevel nb) (target_of nb) nb l = Some l' ->
  with_key k l' = if key_eqb (okey nb) k then nb :: tl (with_key k l) else with_key k l.
Proof.
  induction l as [|b t IH]; intros l' H; cbn [replace_first] in H; [discriminate|].
  rewrite (same_key_okey nb b Hk) in H.
  destruct (key_eqb (okey b) (okey nb)) eqn:E.
  - inversion H; subst. unfold with_key. cbn [filter].
    rewrite (key_eqb_trans_l _ _ k E).
    destruct (key_eqb (okey nb) k); reflexivity.
  - destruct (replace_first _ _ nb t) as [t'|] eqn:Er; cbn in H; [|discriminate].
    inversion H; subst. specialize (IH t' eq_refl).
    unfold with_key in *. cbn [filter]. rewrite IH.
    destruct (key_eqb (okey nb) k) eqn:Ek; [|reflexivity].
    assert (Hb : key_eqb (okey b) k = false).
    { apply key_eqb_eq in Ek. subst k. exact E. }
    rewrite Hb. reflexivity.
Qed.

Lemma replace_first_none_with_key nb (Hk : keyed_level (blevel nb) = true) : forall l,
  replace_first (blevel nb) (target_of nb) nb l = None -> with_key (okey nb) l = [].
Proof.
  induction l as [|b t IH]; intros H; cbn [replace_first] in H; [reflexivity|].
  rewrite (same_key_okey nb b Hk) in H.
  destruct (key_eqb (okey b) (okey nb)) eqn:E; [discriminate|].
  destruct (replace_first _ _ nb t); cbn in H; [discriminate|].
  unfold with_key in *. cbn [filter]. rewrite E. apply IH. reflexivity.
Qed.

Lemma c_upsert_with_key c nb k : keyed_level (blevel nb) = true ->
  Permutation (with_key k (cblocks (c_upsert c nb)))
              (if key_eqb (okey nb) k then nb :: tl (with_key k (cblocks c)) else with_key k (cblocks c)).
Proof.
  intros Hk. unfold c_upsert. destruct (replace_first _ _ _ _) as [l'|] eqn:E.
  - eapply Permutation_trans; [apply with_key_perm, update_info_perm|]. cbn [cblocks].
    rewrite (replace_first_with_key nb k Hk _ _ E). apply Permutation_refl.
  - eapply Permutation_trans; [apply with_key_perm, update_info_perm|]. cbn [cblocks].
    rewrite with_key_app. unfold with_key at 2. cbn [filter].
    destruct (key_eqb (okey nb) k) eqn:Ek.
    + apply key_eqb_eq in Ek. subst k. rewrite (replace_first_none_with_key nb Hk _ E). apply Permutation_refl.
    + rewrite app_nil_r. apply Permutation_refl.
Qed.

(* ---------------- replace_metadata_level on the other levels: remove every block of the level, add ---------------- *)
Lemma with_key_level k l : Forall (fun b => blevel b = fst k) (with_key k l).
Proof.
  unfold with_key. apply Forall_forall. intros b Hb. apply filter_In in Hb as [_ Hb].
  unfold key_eqb, okey in Hb. cbn [fst] in Hb. apply andb_prop in Hb as [Hb _]. now apply N.eqb_eq in Hb.
Qed.

Lemma key_level_neq b k : blevel b <> fst k -> key_eqb (okey b) k = false.
Proof.
  intros H. unfold key_eqb, okey. cbn [fst]. apply N.eqb_neq in H. rewrite H. reflexivity.
Qed.

Lemma with_key_filter_level k L l :
  with_key k (filter (fun b => negb (blevel b =? L)) l) = if fst k =? L then [] else with_key k l.
Proof.
  unfold with_key. induction l as [|b t IH]; cbn [filter]; [destruct (fst k =? L); reflexivity|].
  destruct (blevel b =? L) eqn:E; cbn [negb filter].
  - rewrite IH. destruct (fst k =? L) eqn:Ek; [reflexivity|].
    rewrite key_level_neq; [reflexivity|].
    apply N.eqb_eq in E. apply N.eqb_neq in Ek. congruence.
  - rewrite IH. destruct (fst k =? L) eqn:Ek; [|reflexivity].
    rewrite key_level_neq; [reflexivity|].
    apply N.eqb_neq in E. apply N.eqb_eq in Ek. congruence.
Qed.

(* blocks of a level that exists once have the key (level, 0) *)
Lemma with_key_unkeyed k l : keyed_level (fst k) = false -> snd k <> 0%Z -> with_key k l = [].
Proof.
  intros Hk Hs. unfold with_key. induction l as [|b t IH]; [reflexivity|]. cbn [filter]. rewrite IH.
  destruct (key_eqb (okey b) k) eqn:E; [|reflexivity].
  exfalso. apply key_eqb_eq in E. subst k. unfold okey in *. cbn [fst snd] in *. rewrite Hk in Hs. congruence.
Qed.

Lemma with_key_single k b : with_key k [b] = if key_eqb (okey b) k then [b] else [].
Proof. unfold with_key. cbn [filter]. reflexivity. Qed.

Lemma replace_level_with_key c b k : keyed_level (blevel b) = false ->
  Permutation
    (with_key k (cblocks (update_info (mkC (cnum (c_remove_level c (blevel b))) (cblocks (c_remove_level c (blevel b)) ++ [b])))))
    (if key_eqb (okey b) k then [b] else with_key k (cblocks c)).
Proof.
  intros Hk.
  eapply Permutation_trans; [apply with_key_perm, update_info_perm|]. cbn [cblocks].
  rewrite with_key_app.
  eapply Permutation_trans.
  { apply Permutation_app_tail. unfold c_remove_level. apply with_key_perm, update_info_perm. }
  cbn [cblocks]. rewrite with_key_filter_level, with_key_single.
  destruct (key_eqb (okey b) k) eqn:Ek.
  - apply key_eqb_eq in Ek. subst k. unfold okey at 1. cbn [fst]. rewrite N.eqb_refl. apply Permutation_refl.
  - rewrite app_nil_r. destruct (fst k =? blevel b) eqn:El; [|apply Permutation_refl].
    apply N.eqb_eq in El.
    rewrite with_key_unkeyed; [apply Permutation_refl|rewrite El; exact Hk|].
    intros Hs.
    assert (key_eqb (okey b) k = true); [|congruence].
    apply key_eqb_eq. unfold okey. rewrite Hk. destruct k as [k1 k2]. cbn [fst snd] in *. subst. reflexivity.
Qed.

(* ---------------- the blocks of a key in the DM data ---------------- *)
Definition key_blocks (d : dmdata) (k : N * Z) : list block :=
  match container_of_level d (fst k) with Some (_, c) => with_key k (cblocks c) | None => [] end.
Definition has_cont (d : dmdata) (l : N) : bool :=
  match container_of_level d l with Some _ => true | None => false end.

Definition cmver_eqb (a b : cmver) : bool := match a, b with V29, V29 | V40, V40 => true | _, _ => false end.

Lemma col_set d v c c' L :
  match v with V29 => cmv29 d = Some c | V40 => cmv40 d = Some c end ->
  container_of_level (set_container d v c') L =
  match container_of_level d L with
  | Some (v2, c2) => Some (v2, if cmver_eqb v2 v then c' else c2)
  | None => None
  end.
Proof.
  intros Hc. unfold container_of_level.
  destruct (mem L cmv29_allowed).
  - destruct v; cbn [set_container cmv29 cmv40].
    + rewrite Hc. reflexivity.
    + destruct (cmv29 d); reflexivity.
  - destruct (mem L cmv40_allowed); [|reflexivity].
    destruct v; cbn [set_container cmv29 cmv40].
    + destruct (cmv40 d); reflexivity.
    + rewrite Hc. reflexivity.
Qed.

Lemma col_same_version d L1 L2 v1 c1 v2 c2 :
  container_of_level d L1 = Some (v1, c1) -> container_of_level d L2 = Some (v2, c2) ->
  cmver_eqb v2 v1 = true -> c2 = c1.
Proof.
  intros H1 H2 Hv.
  apply container_of_level_allowed in H1 as [_ H1]. apply container_of_level_allowed in H2 as [_ H2].
  destruct v1, v2; try discriminate; congruence.
Qed.

(* one override *)
Lemma replace_block_keys d b d' : dm_replace_block d b = Ok d' ->
  forall k, Permutation (key_blocks d' k)
    (if key_eqb (okey b) k
     then (if has_cont d (blevel b) then b :: (if keyed_level (blevel b) then tl (key_blocks d k) else []) else [])
     else key_blocks d k)
  /\ has_cont d' (fst k) = has_cont d (fst k).
Proof.
  unfold dm_replace_block. intros H k.
  destruct (keyed_level (blevel b)) eqn:Hk.
  - (* L2 / L8 / L10: upsert *)
    destruct (container_of_level d (blevel b)) as [[v c]|] eqn:Ec; [|discriminate].
    inversion H; subst d'; clear H.
    pose proof (container_of_level_allowed _ _ _ _ Ec) as [_ Hc].
    unfold key_blocks, has_cont. rewrite (col_set d v c _ (fst k) Hc).
    destruct (container_of_level d (fst k)) as [[v2 c2]|] eqn:E2.
    + split; [|reflexivity].
      destruct (cmver_eqb v2 v) eqn:Ev.
      * rewrite (col_same_version _ _ _ _ _ _ _ Ec E2 Ev).
        eapply Permutation_trans; [apply c_upsert_with_key; exact Hk|].
        rewrite Ec. destruct (key_eqb (okey b) k); apply Permutation_refl.
      * destruct (key_eqb (okey b) k) eqn:Ek; [|apply Permutation_refl].
        exfalso. apply key_eqb_eq in Ek. subst k. unfold okey in E2. cbn [fst] in E2.
        rewrite Ec in E2. assert (v2 = v) by congruence. subst v2. destruct v; discriminate.
    + split; [|reflexivity].
      destruct (key_eqb (okey b) k) eqn:Ek; [|apply Permutation_refl].
      exfalso. apply key_eqb_eq in Ek. subst k. unfold okey in E2. cbn [fst] in E2. congruence.
  - destruct (is_some (desc_of (blevel b))); [|discriminate].
    unfold dm_replace_level, dm_add_block, dm_remove_level in H.
    destruct (container_of_level d (blevel b)) as [[v c]|] eqn:Ec.
    + pose proof (container_of_level_allowed _ _ _ _ Ec) as [Ha Hc].
      rewrite (col_set d v c _ (blevel b) Hc), Ec in H. cbn [cmver_eqb] in H.
      replace (cmver_eqb v v) with true in H by (destruct v; reflexivity).
      unfold c_add_block in H. rewrite Ha in H. cbn [ensure bind] in H. inversion H; subst d'; clear H.
      assert (Hc1 : match v with
                    | V29 => cmv29 (set_container d v (c_remove_level c (blevel b))) = Some (c_remove_level c (blevel b))
                    | V40 => cmv40 (set_container d v (c_remove_level c (blevel b))) = Some (c_remove_level c (blevel b))
                    end) by (destruct v; reflexivity).
      unfold key_blocks, has_cont.
      rewrite (col_set _ v _ _ (fst k) Hc1), (col_set d v c _ (fst k) Hc).
      destruct (container_of_level d (fst k)) as [[v2 c2]|] eqn:E2.
      * split; [|reflexivity].
        destruct (cmver_eqb v2 v) eqn:Ev.
        -- rewrite (col_same_version _ _ _ _ _ _ _ Ec E2 Ev).
           eapply Permutation_trans; [apply replace_level_with_key; exact Hk|].
           rewrite Ec. destruct (key_eqb (okey b) k); apply Permutation_refl.
        -- destruct (key_eqb (okey b) k) eqn:Ek; [|apply Permutation_refl].
           exfalso. apply key_eqb_eq in Ek. subst k. unfold okey in E2. cbn [fst] in E2.
           rewrite Ec in E2. assert (v2 = v) by congruence. subst v2. destruct v; discriminate.
      * split; [|reflexivity].
        destruct (key_eqb (okey b) k) eqn:Ek; [|apply Permutation_refl].
        exfalso. apply key_eqb_eq in Ek. subst k. unfold okey in E2. cbn [fst] in E2. congruence.
    + (* no container for the level: silently nothing *)
      rewrite Ec in H. assert (Hd : d' = d) by (inversion H; reflexivity). subst d'. clear H. split; [|reflexivity].
      destruct (key_eqb (okey b) k) eqn:Ek; [|apply Permutation_refl].
      unfold has_cont. rewrite Ec.
      apply key_eqb_eq in Ek. subst k. unfold key_blocks, okey. cbn [fst]. rewrite Ec. apply Permutation_refl.
Qed.

(* ---------------- keys held once ---------------- *)
Definition uniq_keys (d : dmdata) : Prop := forall k, (List.length (key_blocks d k) <= 1)%nat.

Lemma perm_le1 {A} (a b : list A) : Permutation a b -> (List.length b <= 1)%nat -> a = b.
Proof.
  intros H Hl. destruct b as [|x [|y b]]; [| |cbn in Hl; lia].
  - apply Permutation_sym, Permutation_nil in H. exact H.
  - apply Permutation_sym, Permutation_length_1_inv in H. exact H.
Qed.

Lemma tl_le1 {A} (l : list A) : (List.length l <= 1)%nat -> tl l = [].
Proof. destruct l as [|x [|y l]]; cbn; intros; [reflexivity|reflexivity|lia]. Qed.

Lemma replace_block_step d b d' : uniq_keys d -> dm_replace_block d b = Ok d' ->
  uniq_keys d' /\
  forall k, key_blocks d' k = (if key_eqb (okey b) k then (if has_cont d (fst k) then [b] else []) else key_blocks d k)
            /\ has_cont d' (fst k) = has_cont d (fst k).
Proof.
  intros Hu H.
  assert (Hk : forall k, key_blocks d' k = (if key_eqb (okey b) k then (if has_cont d (fst k) then [b] else []) else key_blocks d k)
                        /\ has_cont d' (fst k) = has_cont d (fst k)).
  { intros k. destruct (replace_block_keys d b d' H k) as [Hp Hc]. split; [|exact Hc].
    destruct (key_eqb (okey b) k) eqn:Ek.
    - assert (Hf : fst k = blevel b) by (apply key_eqb_eq in Ek; subst k; reflexivity).
      rewrite Hf. rewrite (tl_le1 _ (Hu k)) in Hp.
      apply perm_le1; [|destruct (has_cont d (blevel b)); cbn; lia].
      destruct (has_cont d (blevel b)); [|exact Hp]. destruct (keyed_level (blevel b)); exact Hp.
    - apply perm_le1; [exact Hp|apply Hu]. }
  split; [|exact Hk].
  intros k. rewrite (proj1 (Hk k)).
  destruct (key_eqb (okey b) k); [destruct (has_cont d (fst k)); cbn; lia|apply Hu].
Qed.

(* the last block of the list with the key *)
Fixpoint last_writer (k : N * Z) (bs : list block) : option block :=
  match bs with
  | [] => None
  | b :: t => match last_writer k t with
              | Some x => Some x
              | None => if key_eqb (okey b) k then Some b else None
              end
  end.

Lemma last_writer_app k a b :
  last_writer k (a ++ b) = match last_writer k b with Some x => Some x | None => last_writer k a end.
Proof.
  induction a as [|x a IH]; cbn [app last_writer]; [destruct (last_writer k b); reflexivity|].
  rewrite IH. destruct (last_writer k b); reflexivity.
Qed.

(* LAST WRITER WINS: after a list of overrides applied in order, the block found under a key is the last one of
   the list with that key (provided its level has a container - otherwise it is stored nowhere), and every key no
   override names keeps its block *)
Theorem replace_blocks_last_writer bs : forall d d', uniq_keys d -> dm_replace_blocks d bs = Ok d' ->
  uniq_keys d' /\
  forall k, key_blocks d' k = match last_writer k bs with
                              | Some b => if has_cont d (fst k) then [b] else []
                              | None => key_blocks d k
                              end
            /\ has_cont d' (fst k) = has_cont d (fst k).
Proof.
  induction bs as [|b t IH]; intros d d' Hu H; cbn [dm_replace_blocks] in H.
  - inversion H; subst. split; [exact Hu|]. intros k. split; reflexivity.
  - destruct (dm_replace_block d b) as [d1| |] eqn:E1; cbn [bind] in H; try discriminate.
    destruct (replace_block_step d b d1 Hu E1) as [Hu1 H1].
    destruct (IH d1 d' Hu1 H) as [Hu' H'].
    split; [exact Hu'|]. intros k. destruct (H' k) as [Hk Hc]. destruct (H1 k) as [Hk1 Hc1].
    split; [|congruence].
    rewrite Hk. cbn [last_writer]. rewrite Hc1.
    destruct (last_writer k t); [reflexivity|]. rewrite Hk1.
    destruct (key_eqb (okey b) k); reflexivity.
Qed.

(* ---------------- operations that do not touch the containers ---------------- *)
Definition same_conts (d d' : dmdata) : Prop := cmv29 d' = cmv29 d /\ cmv40 d' = cmv40 d.

Lemma same_conts_keys d d' : same_conts d d' ->
  (forall k, key_blocks d' k = key_blocks d k) /\ (forall l, has_cont d' l = has_cont d l).
Proof.
  intros [H1 H2]. split; intros x; unfold key_blocks, has_cont, container_of_level; rewrite H1, H2; reflexivity.
Qed.

Lemma same_conts_uniq d d' : same_conts d d' -> uniq_keys d -> uniq_keys d'.
Proof. intros H Hu k. rewrite (proj1 (same_conts_keys d d' H) k). apply Hu. Qed.

Lemma set_scene_cut_conts b d : same_conts d (set_scene_cut b d).
Proof. split; reflexivity. Qed.

Lemma change_source_levels_conts mn mx d : same_conts d (change_source_levels mn mx d).
Proof.
  unfold change_source_levels, same_conts.
  destruct mn, mx; cbn [is_some negb andb];
    repeat match goal with
           | |- context [match ?x with _ => _ end] => destruct x; cbn [cmv29 cmv40]
           end; split; reflexivity.
Qed.

Lemma dm_replace_blocks_app a : forall b d,
  dm_replace_blocks d (a ++ b) = (let* d1 := dm_replace_blocks d a in dm_replace_blocks d1 b).
Proof.
  induction a as [|x a IH]; intros b d; cbn [app dm_replace_blocks bind]; [reflexivity|].
  destruct (dm_replace_block d x); cbn [bind]; [apply IH|reflexivity|reflexivity].
Qed.

(* the blocks of a level that exists once are the blocks of its key *)
Lemma level_blocks_key d L : keyed_level L = false -> level_blocks d L = key_blocks d (L, 0%Z).
Proof.
  intros Hk. unfold level_blocks, key_blocks. cbn [fst].
  destruct (container_of_level d L) as [[v c]|]; [|reflexivity].
  unfold with_key. apply filter_ext. intros b. unfold key_eqb, okey. cbn [fst snd].
  destruct (blevel b =? L) eqn:E; [|reflexivity].
  apply N.eqb_eq in E. rewrite E, Hk. reflexivity.
Qed.

(* re-applying the blocks a level already has changes nothing (the default L9 / L11 of set_static_metadata) *)
Lemma self_replace d L d' : keyed_level L = false -> uniq_keys d ->
  dm_replace_blocks d (level_blocks d L) = Ok d' ->
  uniq_keys d' /\ (forall k, key_blocks d' k = key_blocks d k) /\ (forall l, has_cont d' l = has_cont d l).
Proof.
  intros Hk Hu H. rewrite (level_blocks_key d L Hk) in H.
  destruct (replace_blocks_last_writer _ d d' Hu H) as [Hu' H'].
  split; [exact Hu'|]. split.
  - intros k. destruct (H' k) as [Hkk _]. rewrite Hkk.
    pose proof (Hu (L, 0%Z)) as Hl.
    destruct (key_blocks d (L, 0%Z)) as [|x [|y r]] eqn:E; [reflexivity| |cbn in Hl; lia].
    cbn [last_writer].
    destruct (key_eqb (okey x) k) eqn:Ek; [|reflexivity].
    (* x has the key (L, 0) and lives in the container of L *)
    assert (Hx : In x (key_blocks d (L, 0%Z))) by (rewrite E; left; reflexivity).
    unfold key_blocks in Hx. cbn [fst] in Hx.
    destruct (container_of_level d L) as [[v c]|] eqn:Ec; [|contradiction].
    apply filter_In in Hx as [_ Hx]. apply key_eqb_eq in Hx. apply key_eqb_eq in Ek.
    subst k. rewrite Hx.
    unfold has_cont. cbn [fst]. rewrite Ec. symmetry. exact E.
  - intros l. pose proof (H' (l, 0%Z)) as [_ Hc]. exact Hc.
Qed.

(* ---------------- the generator: static metadata, then the shot, then the frame edit ---------------- *)
Definition opt_list {A} (o : option A) : list A := match o with Some x => [x] | None => [] end.
Definition defaults_kept (c : gconfig) : list block :=
  filter (fun b => negb ((blevel b =? 5) || (blevel b =? 6))) (g_defaults c).
(* what the config writes before any shot: L5 (config or zero offsets), L6, the default blocks (not L5 / L6) *)
Definition static_list (c : gconfig) : list block := [g_l5 c] ++ opt_list (g_l6 c) ++ defaults_kept c.
Definition edit_blocks (s : gshot) (i : N) : list block :=
  match find_edit (s_edits s) i with Some bs => bs | None => [] end.

Definition writer_view (d0 : dmdata) (bs : list block) (k : N * Z) : list block :=
  match last_writer k bs with
  | Some b => if has_cont d0 (fst k) then [b] else []
  | None => key_blocks d0 k
  end.

Lemma static_dm_keys c d0 ds : uniq_keys d0 -> static_dm c d0 = Ok ds ->
  uniq_keys ds /\ (forall k, key_blocks ds k = writer_view d0 (static_list c) k) /\
  (forall l, has_cont ds l = has_cont d0 l).
Proof.
  unfold static_dm. intros Hu H.
  destruct (dm_replace_block d0 (g_l5 c)) as [d1| |] eqn:E1; cbn [bind] in H; try discriminate.
  destruct (replace_blocks_last_writer [g_l5 c] d0 d1 Hu) as [Hu1 H1]; [cbn [dm_replace_blocks]; rewrite E1; reflexivity|].
  destruct (match g_l6 c with Some b => dm_replace_block d1 b | None => Ok d1 end) as [d2| |] eqn:E2; cbn [bind] in H; try discriminate.
  destruct (replace_blocks_last_writer (opt_list (g_l6 c)) d1 d2 Hu1) as [Hu2 H2].
  { destruct (g_l6 c); cbn [opt_list dm_replace_blocks]; [rewrite E2; reflexivity|exact E2]. }
  destruct (dm_replace_blocks d2 (level_blocks d2 9)) as [d3| |] eqn:E3; cbn [bind] in H; try discriminate.
  destruct (self_replace d2 9 d3 eq_refl Hu2 E3) as [Hu3 [H3 Hc3]].
  destruct (dm_replace_blocks d3 (level_blocks d3 11)) as [d4| |] eqn:E4; cbn [bind] in H; try discriminate.
  destruct (self_replace d3 11 d4 eq_refl Hu3 E4) as [Hu4 [H4 Hc4]].
  destruct (dm_replace_blocks d4 _) as [d5| |] eqn:E5; cbn [bind] in H; try discriminate.
  destruct (replace_blocks_last_writer _ d4 d5 Hu4 E5) as [Hu5 H5].
  inversion H; subst ds; clear H.
  pose proof (change_source_levels_conts (g_min c) (g_max c) d5) as Hs.
  destruct (same_conts_keys _ _ Hs) as [Hsk Hsc].
  assert (Hc1 : forall l, has_cont d1 l = has_cont d0 l) by (intros l; exact (proj2 (H1 (l, 0%Z)))).
  assert (Hc2 : forall l, has_cont d2 l = has_cont d1 l) by (intros l; exact (proj2 (H2 (l, 0%Z)))).
  assert (Hc5 : forall l, has_cont d5 l = has_cont d4 l) by (intros l; exact (proj2 (H5 (l, 0%Z)))).
  split; [eapply same_conts_uniq; eassumption|]. split.
  - intros k. rewrite Hsk, (proj1 (H5 k)).
    unfold writer_view, static_list. fold (defaults_kept c).
    rewrite !last_writer_app.
    rewrite Hc4, Hc3, Hc2, Hc1.
    destruct (last_writer k (defaults_kept c)); [reflexivity|].
    rewrite H4, H3, (proj1 (H2 k)), Hc1.
    destruct (last_writer k (opt_list (g_l6 c))); [reflexivity|].
    rewrite (proj1 (H1 k)). reflexivity.
  - intros l. rewrite Hsc, Hc5, Hc4, Hc3, Hc2, Hc1. reflexivity.
Qed.

Lemma frame_dm_keys long s i ds d' : uniq_keys ds -> frame_dm long s i ds = Ok d' ->
  uniq_keys d' /\ (forall k, key_blocks d' k = writer_view ds (s_blocks s ++ edit_blocks s i) k).
Proof.
  unfold frame_dm. intros Hu H.
  set (d1 := if (i =? 0) || long then set_scene_cut true ds else ds) in H.
  assert (Hs : same_conts ds d1) by (unfold d1; destruct ((i =? 0) || long); [apply set_scene_cut_conts|split; reflexivity]).
  destruct (same_conts_keys _ _ Hs) as [Hsk Hsc].
  assert (Hu1 : uniq_keys d1) by (eapply same_conts_uniq; eassumption).
  assert (H' : dm_replace_blocks d1 (s_blocks s ++ edit_blocks s i) = Ok d').
  { rewrite dm_replace_blocks_app. unfold edit_blocks.
    destruct (dm_replace_blocks d1 (s_blocks s)) as [d2| |]; cbn [bind] in *; try discriminate.
    destruct (find_edit (s_edits s) i); [exact H|]. cbn [dm_replace_blocks]. exact H. }
  destruct (replace_blocks_last_writer _ d1 d' Hu1 H') as [Hu' Hk].
  split; [exact Hu'|]. intros k. destruct (Hk k) as [-> _].
  unfold writer_view. rewrite Hsc, Hsk. reflexivity.
Qed.

(* BLOCK PRECEDENCE OF A GENERATED FRAME (C10): frame i of shot s carries, under every key (level, target),
   the last block with that key in  static blocks ++ default blocks ++ shot blocks ++ the frame edit at offset i
   (stored only if the container of its level exists), and under every key none of them names the block of the
   profile's base DM data: an override replaces the block with the same key and leaves all others *)
Theorem frame_precedence c d0 ds long s i d' :
  uniq_keys d0 -> static_dm c d0 = Ok ds -> frame_dm long s i ds = Ok d' ->
  uniq_keys d' /\
  forall k, key_blocks d' k = writer_view d0 (static_list c ++ s_blocks s ++ edit_blocks s i) k.
Proof.
  intros Hu Hs Hf.
  destruct (static_dm_keys c d0 ds Hu Hs) as [Hus [Hks Hcs]].
  destruct (frame_dm_keys long s i ds d' Hus Hf) as [Hu' Hk].
  split; [exact Hu'|]. intros k. rewrite Hk. unfold writer_view.
  rewrite (last_writer_app k (static_list c)). rewrite Hcs.
  destruct (last_writer k (s_blocks s ++ edit_blocks s i)); [reflexivity|].
  rewrite Hks. reflexivity.
Qed.

(* ---------------- the hypothesis is decidable (and holds for the profiles' base DM data: checked on every run) ---------------- *)
Fixpoint nodup_keys (l : list block) : bool :=
  match l with
  | [] => true
  | b :: t => negb (existsb (fun x => key_eqb (okey x) (okey b)) t) && nodup_keys t
  end.
Definition uniq_check (d : dmdata) : bool :=
  match cmv29 d with Some c => nodup_keys (cblocks c) | None => true end &&
  match cmv40 d with Some c => nodup_keys (cblocks c) | None => true end.

Lemma nodup_with_key k l : nodup_keys l = true -> (List.length (with_key k l) <= 1)%nat.
Proof.
  induction l as [|b t IH]; intros H; [cbn; lia|].
  cbn [nodup_keys] in H. apply andb_prop in H as [Hb Ht]. specialize (IH Ht).
  unfold with_key in *. cbn [filter].
  destruct (key_eqb (okey b) k) eqn:E; [|exact IH].
  cbn [List.length].
  assert (Hn : filter (fun b0 : block => key_eqb (okey b0) k) t = []).
  { apply key_eqb_eq in E. subst k.
    apply negb_true_iff in Hb.
    clear -Hb. induction t as [|x t IHt]; [reflexivity|].
    cbn [existsb] in Hb. apply orb_false_iff in Hb as [Hx Ht].
    cbn [filter]. rewrite Hx. apply IHt. exact Ht. }
  rewrite Hn. cbn. lia.
Qed.

Lemma uniq_check_sound d : uniq_check d = true -> uniq_keys d.
Proof.
  unfold uniq_check. intros H k. apply andb_prop in H as [H1 H2].
  unfold key_blocks.
  destruct (container_of_level d (fst k)) as [[v c]|] eqn:E; [|cbn; lia].
  apply container_of_level_allowed in E as [_ Hc].
  apply nodup_with_key. destruct v; rewrite Hc in *; assumption.
Qed.

(* the hypotheses are met: a base with L5 / L6 and L9 / L11 / L254, two default L2 trims, a shot overriding one
   target, a frame edit overriding the other; the frame at the edit's offset holds the edit's and the shot's trim,
   the config's L5, and the base's L254 *)
Definition ex_l2 (target slope : Z) : block :=
  match desc_of 2 with
  | Some d => mkBlk 2 11 (set_field (b_parse d) (set_field (b_parse d) (map f_def (b_parse d)) "target_max_pq"%string target) "trim_slope"%string slope) false
  | None => mkBlk 2 11 [] false
  end.
Definition ex_d0 : dmdata :=
  mkDm false [0; 0; 0] (map f_def dm_main_prog)
       (Some (update_info (mkC 0 [l5_block 0 0 0 0; default_block 6])))
       (Some (update_info (mkC 0 [default_block 9; default_block 11; default_block 254]))).
Definition ex_shot : gshot := mkShot 2 [ex_l2 2081 7] [(1, [ex_l2 3079 8])].
Definition ex_cfg : gconfig :=
  mkG true false 2 None None None (l5_block 0 0 10 10) (Some (default_block 6)) [ex_l2 2081 5; ex_l2 3079 6] [ex_shot].

Example precedence_instance :
  uniq_check ex_d0 = true /\
  exists ds d', static_dm ex_cfg ex_d0 = Ok ds /\ frame_dm false ex_shot 1 ds = Ok d' /\
    key_blocks d' (2, 2081%Z) = [ex_l2 2081 7] /\ key_blocks d' (2, 3079%Z) = [ex_l2 3079 8] /\
    key_blocks d' (5, 0%Z) = [l5_block 0 0 10 10] /\ key_blocks d' (254, 0%Z) = [default_block 254] /\
    okey (ex_l2 3079 8) = (2, 3079%Z).
Proof. split; [vm_compute; reflexivity|]. eexists. eexists. vm_compute. repeat split; reflexivity. Qed.
