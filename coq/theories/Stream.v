(* HEVC stream layer: NAL frame indexing (hevc_parser parse_nal_internal / parse_slice /
   add_current_frame), SEI walking and HDR10+ removal (src/dovi/hdr10plus_utils.rs), and the
   routing function of convert / demux / remove / extract-rpu (general_read_write.rs write_nals).
   Slice-header bit parsing is an input of the model: a NAL carries its type, layer, first-slice
   flag and picture order count. *)
From Coq Require Import List NArith ZArith Lia Bool.
From DV Require Import Outcome Bits Escape BitIO Rpu Ops.
Import ListNotations.
Open Scope N_scope.
Local Open Scope out_scope.

Record nal := mkNal { ntype : N; nlayer : N; nfirst : bool; npoc : N; nstype : N; ndata : list N }.

Definition is_slice_type (t : N) : bool := (t <=? 9) || ((16 <=? t) && (t <=? 21)).
Definition is_irap (t : N) : bool := (16 <=? t) && (t <=? 23).
Definition attaches (t : N) : bool :=
  (t =? 40) || (t =? 62) || (t =? 63) || (t =? 36) || (t =? 37) || (t =? 38).

(* ---------------- frame indexing ---------------- *)
Record pstate := mkPs { decoded_index : N; has_first : bool }.
Definition ps0 : pstate := mkPs 0 false.

Definition index_step (st : pstate) (n : nal) : pstate * N :=
  if 0 <? nlayer n then (st, decoded_index st)
  else if is_slice_type (ntype n) then
    if has_first st && nfirst n then (mkPs (decoded_index st + 1) true, decoded_index st + 1)
    else (mkPs (decoded_index st) (has_first st || nfirst n), decoded_index st)
  else if attaches (ntype n) then (st, decoded_index st)
  else
    let d := if has_first st then decoded_index st + 1 else decoded_index st in
    (mkPs d false, d).

Fixpoint assign_indices (st : pstate) (l : list nal) : list (nal * N) :=
  match l with
  | [] => []
  | n :: t => let '(st', i) := index_step st n in (n, i) :: assign_indices st' t
  end.

(* ---------------- SEI ---------------- *)
Record seimsg := mkSei { m_off : nat; m_type : N; m_poff : nat; m_size : nat }.

(* FF-extension coding; the accumulated payload_type is a u8 in the code (overflow beyond 255 is
   outside the model: generated types stay below 255) *)
Fixpoint read_ff (fuel : nat) (l : list N) (acc : N) (used : nat) : option (N * nat * list N) :=
  match fuel with
  | O => None
  | S f => match l with
           | [] => None
           | b :: t => if b =? 255 then read_ff f t (acc + 255) (S used) else Some (acc + b, S used, t)
           end
  end.

(* one sei_message(): returns the message and the remaining bytes *)
Definition parse_sei_message (off : nat) (l : list N) : option (seimsg * list N) :=
  match read_ff (S (List.length l)) l 0 0 with
  | None => None
  | Some (pt, u1, r1) =>
      match read_ff (S (List.length r1)) r1 0 0 with
      | None => None
      | Some (sz, u2, r2) =>
          let size := N.to_nat sz in
          (* `payload_size > reader.available()` compares bytes with bits, then skip_n checks bits *)
          if (8 * List.length r2 <? size)%nat then None
          else if (List.length r2 <? size)%nat then None
          else Some (mkSei off pt (off + u1 + u2) size, skipn size r2)
      end
  end.

Fixpoint parse_sei_messages (fuel : nat) (off : nat) (l : list N) : option (list seimsg) :=
  match fuel with
  | O => None
  | S f =>
      match parse_sei_message off l with
      | None => None
      | Some (m, rest) =>
          if (List.length rest <=? 1)%nat then Some [m]
          else match parse_sei_messages f (m_poff m + m_size m) rest with
               | Some ms => Some (m :: ms)
               | None => None
               end
      end
  end.

(* SeiMessage::parse_sei_rbsp on an unescaped NAL (2-byte header first) *)
Definition parse_sei_rbsp (data : list N) : option (list seimsg) :=
  match data with
  | h0 :: h1 :: body =>
      let t := N.land (N.shiftr h0 1) 63 in
      if (t =? 39) || (t =? 40) then parse_sei_messages (S (List.length body)) 2 body else None
  | _ => None
  end.

Definition is_hdr10plus (data : list N) (m : seimsg) : bool :=
  (m_type m =? 4) && (7 <=? m_size m)%nat &&
  match firstn 7 (skipn (m_poff m) data) with
  | [c; p1; p2; o1; o2; ai; av] =>
      (c =? 181) && (p1 =? 0) && (p2 =? 60) && (o1 =? 0) && (o2 =? 1) && (ai =? 4) && (av =? 1)
  | _ => false
  end.

(* prefix_sei_removed_hdr10plus_nalu: (has_st2094_40, replacement NAL bytes) ; Err = parse error *)
Definition remove_hdr10plus (nalbytes : list N) : outcome (bool * option (list N)) :=
  let payload := unescape nalbytes in
  if (List.length payload <? 4)%nat then Ok (false, None)
  else
    match parse_sei_rbsp payload with
    | None => Err
    | Some msgs =>
        match find (is_hdr10plus payload) msgs with
        | None => Ok (false, None)
        | Some m =>
            if (1 <? List.length msgs)%nat then
              let out := firstn (m_off m) payload ++ skipn (m_poff m + m_size m) payload in
              Ok (true, Some (escape out))
            else Ok (true, None)
        end
    end.

(* ---------------- routing ---------------- *)
Inductive wcfg := WSingle | WDemux (with_bl : bool) | WRemove | WExtract.

Record opts := mkOpts {
  o_mode : option N;          (* ConversionMode after the CLI table *)
  o_crop : bool;
  o_discard : bool;
  o_drop_hdr10plus : bool;
  o_annexb : bool             (* --start-code annex-b *)
}.

(* one written NAL: start code length and payload *)
Definition wnal := (N * list N)%type.
Record outputs := mkOut { out_main : list wnal; out_el : list wnal; out_rpu : list (list N) }.

Definition four_sized (t : N) : bool := (t =? 32) || (t =? 33) || (t =? 34) || (t =? 35) || (t =? 62).

(* NALUnit::write_with_preset *)
Definition sc_len (annexb : bool) (t : N) (first_nal : bool) : N :=
  if annexb then (if four_sized t || first_nal then 4 else 3) else 4.

(* convert_encoded_from_opts: parse, convert / crop, write (NAL form) *)
Definition convert_rpu_nal (p : profile) (o : opts) (data : list N) : outcome (list N) :=
  let* x := parse_unspec62_nalu p src_sw data in
  let* x := match o_mode o with Some m => convert_with_mode x m | None => Ok x end in
  let* x := if o_crop o then crop x else Ok x in
  write_hevc_unspec62_nalu p src_sw x.

(* The routing function is written once, generically in the type W of what has been written so
   far and in the three emit functions; the implementation instance records start-code lengths,
   the specification instance (below) records payloads only. *)
Section Routing.
  Context {W : Type}.
  Context (emit_main : bool (* annexb *) -> N (* type *) -> bool (* first_nal *) -> list N -> W -> W).
  Context (emit_el : bool -> N -> bool -> bool (* fixed 4-byte *) -> list N -> W -> W).
  Context (emit_rpu : list N -> W -> W).

  Record rstate := mkRs { payload_count : N; prev_frame : N; prev_rpu : N; acc : W }.

  Definition with_acc (s : rstate) (w : W) : rstate := mkRs (payload_count s) (prev_frame s) (prev_rpu s) w.

  (* first-NAL-of-frame tracking: (first_nal, new previous_frame_index) *)
  Definition track (i0 : bool) (s : rstate) (idx : N) : bool * N :=
    if i0 && (payload_count s =? 0) && (prev_frame s =? 0) then (true, prev_frame s)
    else if negb (prev_frame s =? idx) then (true, idx) else (false, prev_frame s).

  (* one NAL through write_nals; `i0` = first NAL of the batch *)
  Definition route_step (p : profile) (cfg : wcfg) (o : opts) (i0 : bool) (s : rstate) (ni : nal * N)
    : outcome rstate :=
    let '(n, idx) := ni in
    let t := ntype n in
    let* hd := if o_drop_hdr10plus o && (t =? 39) then remove_hdr10plus (ndata n) else Ok (false, None) in
    let '(has40, repl) := hd in
    if has40 && negb (is_some repl) then Ok s              (* only message: NAL dropped *)
    else if (0 <? prev_rpu s) && (t =? 62) && (idx =? prev_rpu s) then Ok s   (* duplicate RPU *)
    else
      let '(first_nal, pf) := track i0 s idx in
      let s := mkRs (payload_count s) pf (prev_rpu s) (acc s) in
      let data := match repl with Some d => d | None => ndata n end in
      match cfg with
      | WSingle =>
          if (t =? 63) && o_discard o then Ok s
          else if (t =? 62) && is_some (o_mode o) then
            let* d := convert_rpu_nal p o (ndata n) in
            Ok (with_acc s (emit_main (o_annexb o) t first_nal d (acc s)))
          else Ok (with_acc s (emit_main (o_annexb o) t first_nal data (acc s)))
      | _ =>
          if t =? 63 then
            match cfg with
            | WDemux _ => Ok (with_acc s (emit_el (o_annexb o) t false true (skipn 2 (ndata n)) (acc s)))
            | _ => Ok s
            end
          else if t =? 62 then
            let s := mkRs (payload_count s) (prev_frame s) idx (acc s) in
            let* d := if is_some (o_mode o) then convert_rpu_nal p o (ndata n) else Ok (ndata n) in
            match cfg with
            | WExtract => Ok (with_acc s (emit_rpu (skipn 2 d) (acc s)))
            | WDemux _ => Ok (with_acc s (emit_el (o_annexb o) t false false d (acc s)))
            | _ => Ok s
            end
          else
            match cfg with
            | WDemux false | WExtract => Ok s
            | _ => Ok (with_acc s (emit_main (o_annexb o) t first_nal data (acc s)))
            end
      end.

  Fixpoint route_batch (p : profile) (cfg : wcfg) (o : opts) (i0 : bool) (s : rstate) (l : list (nal * N))
    : outcome rstate :=
    match l with
    | [] => Ok s
    | x :: t => let* s' := route_step p cfg o i0 s x in route_batch p cfg o false s' t
    end.

  (* process_nals per batch, then payload_count += 1 *)
  Fixpoint route_batches (p : profile) (cfg : wcfg) (o : opts) (s : rstate) (bs : list (list (nal * N)))
    : outcome rstate :=
    match bs with
    | [] => Ok s
    | b :: t =>
        let* s' := route_batch p cfg o true s b in
        route_batches p cfg o (mkRs (payload_count s' + 1) (prev_frame s') (prev_rpu s') (acc s')) t
    end.
End Routing.

(* implementation instance: what the writers receive, with start-code lengths *)
Definition impl_main (annexb : bool) (t : N) (first_nal : bool) (d : list N) (w : outputs) : outputs :=
  mkOut (out_main w ++ [(sc_len annexb t first_nal, d)]) (out_el w) (out_rpu w).
Definition impl_el (annexb : bool) (t : N) (first_nal fixed4 : bool) (d : list N) (w : outputs) : outputs :=
  mkOut (out_main w) (out_el w ++ [((if fixed4 then 4 else sc_len annexb t first_nal), d)]) (out_rpu w).
Definition impl_rpu (d : list N) (w : outputs) : outputs :=
  mkOut (out_main w) (out_el w) (out_rpu w ++ [d]).

Fixpoint rebatch {A} (ls : list (list nal)) (fl : list A) : list (list A) :=
  match ls with
  | [] => []
  | b :: t => firstn (List.length b) fl :: rebatch t (skipn (List.length b) fl)
  end.

Definition run_stream (p : profile) (cfg : wcfg) (o : opts) (batches : list (list nal)) : outcome outputs :=
  let flat := assign_indices ps0 (concat batches) in
  let* s := route_batches impl_main impl_el impl_rpu p cfg o (mkRs 0 0 0 (mkOut [] [] []))
                          (rebatch batches flat) in
  Ok (acc s).

(* specification instance: payload sequences only, one flat pass over the NAL list *)
Record pouts := mkPo { po_main : list (list N); po_el : list (list N); po_rpu : list (list N) }.
Definition spec_main (annexb : bool) (t : N) (first_nal : bool) (d : list N) (w : pouts) : pouts :=
  mkPo (po_main w ++ [d]) (po_el w) (po_rpu w).
Definition spec_el (annexb : bool) (t : N) (first_nal fixed4 : bool) (d : list N) (w : pouts) : pouts :=
  mkPo (po_main w) (po_el w ++ [d]) (po_rpu w).
Definition spec_rpu (d : list N) (w : pouts) : pouts := mkPo (po_main w) (po_el w) (po_rpu w ++ [d]).

Definition route_spec (p : profile) (cfg : wcfg) (o : opts) (nals : list nal) : outcome pouts :=
  let* s := route_batch spec_main spec_el spec_rpu p cfg o false (mkRs 0 0 0 (mkPo [] [] []))
                        (assign_indices ps0 nals) in
  Ok (acc s).

Definition erase (w : outputs) : pouts := mkPo (map snd (out_main w)) (map snd (out_el w)) (out_rpu w).
