(* CM XML -> generator config (dolby_vision/src/xml/parser.rs): the numeric formulas exactly as the
   code evaluates them in binary32 (Flocq), and the assembly of the generate config.
   XML tokenisation (roxmltree) is not modelled: the document arrives as a typed value tree whose
   decimals are (mantissa, digits after the point) pairs, converted to binary32 by one correctly
   rounded division of two exactly representable integers (|mantissa| < 2^24, <= 10 decimals),
   which is what a correctly rounded decimal parser returns. *)
From Coq Require Import List NArith ZArith Lia Bool String.
From Flocq Require Import Core BinarySingleNaN.
From DV Require Import Outcome SortUnique Bits BitIO Fields Blocks Rpu Ops Editor Generator.
From DVgen Require Import Consts_gen Blocks_gen DmData_gen PqTables_gen Prims_gen.
Import ListNotations.
Open Scope Z_scope.
Local Open Scope out_scope.

(* ---------------- binary32 ---------------- *)
Definition prec32 := 24%Z.
Definition emax32 := 128%Z.
Lemma Hprec32 : Prec_gt_0 prec32. Proof. reflexivity. Qed.
Lemma Hmax32 : Prec_lt_emax prec32 emax32. Proof. reflexivity. Qed.
Definition f32 := binary_float prec32 emax32.

Definition ofZ (z : Z) : f32 := binary_normalize prec32 emax32 Hprec32 Hmax32 mode_NE z 0 false.
Definition fadd : f32 -> f32 -> f32 := Bplus (prec_gt_0_ := Hprec32) (prec_lt_emax_ := Hmax32) mode_NE.
Definition fsub : f32 -> f32 -> f32 := Bminus (prec_gt_0_ := Hprec32) (prec_lt_emax_ := Hmax32) mode_NE.
Definition fmul : f32 -> f32 -> f32 := Bmult (prec_gt_0_ := Hprec32) (prec_lt_emax_ := Hmax32) mode_NE.
Definition fdiv : f32 -> f32 -> f32 := Bdiv (prec_gt_0_ := Hprec32) (prec_lt_emax_ := Hmax32) mode_NE.
Definition fround (x : f32) : f32 := Bnearbyint (prec_lt_emax_ := Hmax32) mode_NA x.   (* f32::round: half away from zero *)
Definition ftrunc (x : f32) : f32 := Bnearbyint (prec_lt_emax_ := Hmax32) mode_ZR x.
Definition flt (x y : f32) : bool := Bltb x y.
Definition fabs (x : f32) : f32 := Babs x.

Definition dec := (Z * nat)%type.
Definition d2f (d : dec) : f32 := fdiv (ofZ (fst d)) (ofZ (10 ^ Z.of_nat (snd d))).

(* `as uN` / `as iN` on a float: saturating, NaN -> 0 *)
Definition sat_cast (lo hi : Z) (x : f32) : Z :=
  match x with
  | B754_nan => 0
  | B754_infinity s => if s then lo else hi
  | _ => Z.max lo (Z.min hi (Btrunc x))
  end.
Definition to_u16 := sat_cast 0 65535.
Definition to_u8 := sat_cast 0 255.
Definition to_i16 := sat_cast (-32768) 32767.

Definition f2 := ofZ 2. Definition f1 := ofZ 1. Definition f2048 := ofZ 2048. Definition f128 := ofZ 128.
Definition f4095 := ofZ 4095. Definition f10000 := ofZ 10000.

(* f32::clamp(-1.0, 1.0) on a finite value *)
Definition fclamp1 (x : f32) : f32 :=
  if flt x (ofZ (-1)) then ofZ (-1) else if flt f1 x then f1 else x.

(* ---------------- the trim formulas ---------------- *)
Definition slope_of (gain lift : f32) : Z :=
  Z.min 4095 (to_u16 (fround (fadd (fmul (fsub (fmul (fadd gain f2) (fsub f1 (fdiv lift f2))) f2) f2048) f2048))).
Definition offset_of (gain lift : f32) : Z :=
  Z.min 4095 (to_u16 (fround (fadd (fmul (fmul (fadd gain f2) (fdiv lift f2)) f2048) f2048))).
Definition power_of (gamma : f32) : Z :=
  let g := fclamp1 gamma in
  Z.min 4095 (to_u16 (fround (fadd (fmul (fsub (fdiv f2 (fadd f1 (fdiv g f2))) f2) f2048) f2048))).
Definition lin2048 (v : f32) : f32 := fround (fadd (fmul v f2048) f2048).
Definition u12_of (v : f32) : Z := Z.min 4095 (to_u16 (lin2048 v)).
Definition i12_of (v : f32) : Z := Z.min 4095 (to_i16 (lin2048 v)).       (* L2 ms_weight: `as i16` *)
Definition u16_of_2048 (v : f32) : Z := to_u16 (lin2048 v).                (* L3: no min(4095) *)
Definition vec_of (v : f32) : Z := Z.min 255 (to_u8 (fround (fadd (fmul v f128) f128))).
Definition pq12_of (v : f32) : Z := to_u16 (fround (fmul v f4095)).        (* L1 *)

(* ---------------- the typed document ---------------- *)
Inductive xtrim :=
| XL1 (mn avg mx : dec)
| XL2 (tid : N) (lift gain gamma chroma sat ms : dec)
| XL3 (mn avg mx : dec)
| XL5 (canvas image : dec)
| XL8 (tid : N) (lift gain gamma chroma sat ms mid clip : dec) (satvec huevec : list dec)
| XL9 (prim : list dec).

Record xtarget := mkTarget { t_id : N; t_peak : Z; t_min : dec; t_prim : list dec; t_home : bool }.
Record xshot := mkXShot { x_start : N; x_dur : N; x_trims : list xtrim; x_frames : list (N * list xtrim) }.
Record xdoc := mkDoc {
  x_version : N;                         (* 0x205, 0x402, 0x500, 0x510 *)
  x_ars : option (dec * dec);            (* CanvasAspectRatio, ImageAspectRatio *)
  x_maxfall : option dec; x_maxcll : option dec;
  x_min_lum : option dec; x_max_lum : option Z;
  x_l254 : option (Z * Z);               (* DMMode, DMVersion *)
  x_l11 : option (Z * Z);                (* ContentType, IntendedWhitePoint *)
  x_targets : list xtarget;
  x_shots : list xshot }.

Definition is_cmv4 (d : xdoc) : bool := (1026 <=? x_version d)%N.          (* >= 0x402 *)

(* ---------------- L5 from aspect ratios ---------------- *)
Definition feps : f32 := binary_normalize prec32 emax32 Hprec32 Hmax32 mode_NE 1 (-23) false.   (* f32::EPSILON *)

Definition calc_l5 (canvas : option (Z * Z)) (c_ar i_ar : f32) : list Z :=        (* left right top bottom *)
  match canvas with
  | None => [0; 0; 0; 0]
  | Some (w, h) =>
      let cw := ofZ w in let ch := ofZ h in
      if flt (fabs (fsub c_ar i_ar)) feps then [0; 0; 0; 0]
      else if flt c_ar i_ar then
        let image_h := fround (fmul ch (fdiv c_ar i_ar)) in
        let diff := fsub ch image_h in
        let top := ftrunc (fdiv diff f2) in
        let bottom := fsub diff top in
        [0; 0; to_u16 top; to_u16 bottom]
      else
        let image_w := fround (fmul cw (fdiv i_ar c_ar)) in
        let diff := fsub cw image_w in
        let left := ftrunc (fdiv diff f2) in
        let right := fsub diff left in
        [to_u16 left; to_u16 right; 0; 0]
  end.

(* ---------------- primaries ---------------- *)
(* two decimals written in the document denote the same f64 iff they are the same rational; a
   differing decimal differs by far more than f64::EPSILON *)
Definition dec_eqb (a b : dec) : bool :=
  (fst a * 10 ^ Z.of_nat (snd b) =? fst b * 10 ^ Z.of_nat (snd a)).
Fixpoint find_index {A} (f : A -> bool) (l : list A) (i : Z) : option Z :=
  match l with [] => None | x :: t => if f x then Some i else find_index f t (i + 1) end.
Definition prim_match (p q : list dec) : bool :=
  Nat.eqb (List.length p) (List.length q) && forallb (fun ab => dec_eqb (fst ab) (snd ab)) (combine p q).

Definition primary_index (p : list dec) (realdevice : bool) : Z :=
  match find_index (prim_match p) colorspace_primaries 0 with
  | Some i => i
  | None =>
      if realdevice then
        match find_index (prim_match p) realdevice_primaries 0 with
        | Some i => i + Z.of_nat (List.length colorspace_primaries)
        | None => 255
        end
      else 255
  end.

(* (v / (1/32767)).round() as u16 on a decimal that is no multiple of 0.5 *)
Definition round_away_q (n d : Z) : Z :=        (* d > 0 *)
  if 0 <=? n then (2 * n + d) / (2 * d) else - ((2 * (- n) + d) / (2 * d)).
Definition prim_int (v : dec) : Z :=
  Z.max 0 (Z.min 65535 (round_away_q (fst v * primaries_scale) (10 ^ Z.of_nat (snd v)))).

(* ---------------- blocks ---------------- *)
Definition named_block (level : N) (len : N) (kv : list (string * Z)) : block :=
  match desc_of level with
  | Some d => mkBlk level len (set_fields (b_parse d) (map f_def (b_parse d)) kv) false
  | None => mkBlk level len [] false
  end.

Definition nits_pq (n : Z) : outcome Z := nits_code n.
Definition min_pq_code (k : Z) : outcome Z := match zlookup k min_table with Some c => Ok c | None => Err end.

Definition find_target (ts : list xtarget) (id : N) : option xtarget := find (fun t => N.eqb (t_id t) id) ts.

(* targets kept by parse_target_displays: all below v5.0, HOME only from v5.0; a later entry with
   the same id replaces an earlier one *)
Definition kept_targets (d : xdoc) : list xtarget :=
  let keep := filter (fun t => if (1280 <=? x_version d)%N then t_home t else true) (x_targets d) in
  fold_left (fun acc t => filter (fun u => negb (N.eqb (t_id u) (t_id t))) acc ++ [t]) keep [].

Open Scope string_scope.

Definition trim_block (d : xdoc) (canvas : option (Z * Z)) (t : xtrim) : outcome block :=
  let v40 := is_cmv4 d in
  match t with
  | XL1 mn avg mx =>
      Ok (l1_from_stats v40 (pq12_of (d2f mn)) (pq12_of (d2f mx)) (pq12_of (d2f avg)))
  | XL2 tid lift gain gamma chroma sat ms =>
      match find_target (kept_targets d) tid with
      | None => Panic site_arith                         (* .expect("No target display found for L2 trim") *)
      | Some tg =>
          let* tmax := nits_pq (t_peak tg) in
          Ok (named_block 2 11 [("target_max_pq", tmax);
                                ("trim_slope", slope_of (d2f gain) (d2f lift));
                                ("trim_offset", offset_of (d2f gain) (d2f lift));
                                ("trim_power", power_of (d2f gamma));
                                ("trim_chroma_weight", u12_of (d2f chroma));
                                ("trim_saturation_gain", u12_of (d2f sat));
                                ("ms_weight", i12_of (d2f ms))])
      end
  | XL3 mn avg mx =>
      Ok (named_block 3 2 [("min_pq_offset", u16_of_2048 (d2f mn)); ("max_pq_offset", u16_of_2048 (d2f mx));
                           ("avg_pq_offset", u16_of_2048 (d2f avg))])
  | XL5 c i =>
      match calc_l5 canvas (d2f c) (d2f i) with
      | [l; r; tp; b] => Ok (l5_block l r tp b)
      | _ => Err
      end
  | XL8 tid lift gain gamma chroma sat ms mid clip satvec huevec =>
      match find_target (kept_targets d) tid with
      | None => Panic site_arith
      | Some tg =>
          let* _ := ensure (Nat.eqb (List.length satvec) 6 && Nat.eqb (List.length huevec) 6) in
          let sv := map (fun v => vec_of (d2f v)) satvec in
          let hv := map (fun v => vec_of (d2f v)) huevec in
          let midc := u12_of (d2f mid) in
          let clipc := u12_of (d2f clip) in
          let len := if existsb (fun v => negb (v =? 128)%Z) hv then 25%N
                     else if existsb (fun v => negb (v =? 128)%Z) sv then 19%N
                     else if negb (clipc =? 2048)%Z then 13%N
                     else if negb (midc =? 2048)%Z then 12%N else 10%N in
          let* _ := ensure (N.ltb (t_id tg) 256) in       (* target_display.id.parse::<u8>()? *)
          let names_s := ["saturation_vector_field0"; "saturation_vector_field1"; "saturation_vector_field2";
                          "saturation_vector_field3"; "saturation_vector_field4"; "saturation_vector_field5"] in
          let names_h := ["hue_vector_field0"; "hue_vector_field1"; "hue_vector_field2";
                          "hue_vector_field3"; "hue_vector_field4"; "hue_vector_field5"] in
          Ok (named_block 8 len ([("target_display_index", Z.of_N (t_id tg));
                                  ("trim_slope", slope_of (d2f gain) (d2f lift));
                                  ("trim_offset", offset_of (d2f gain) (d2f lift));
                                  ("trim_power", power_of (d2f gamma));
                                  ("trim_chroma_weight", u12_of (d2f chroma));
                                  ("trim_saturation_gain", u12_of (d2f sat));
                                  ("ms_weight", u12_of (d2f ms));
                                  ("target_mid_contrast", midc); ("clip_trim", clipc)]
                                 ++ combine names_s sv ++ combine names_h hv))
      end
  | XL9 prim =>
      let* _ := ensure (Nat.eqb (List.length prim) 8) in
      let idx := primary_index prim true in
      if (idx =? 255)%Z then
        let names := ["source_primary_red_x"; "source_primary_red_y"; "source_primary_green_x"; "source_primary_green_y";
                      "source_primary_blue_x"; "source_primary_blue_y"; "source_primary_white_x"; "source_primary_white_y"] in
        Ok (named_block 9 17 (("source_primary_index", 255) :: combine names (map prim_int prim)))
      else Ok (named_block 9 1 [("source_primary_index", idx)])
  end.

Fixpoint trim_blocks (d : xdoc) (canvas : option (Z * Z)) (l : list xtrim) : outcome (list block) :=
  match l with
  | [] => Ok []
  | t :: r => let* b := trim_block d canvas t in let* bs := trim_blocks d canvas r in Ok (b :: bs)
  end.

Fixpoint frame_edits (d : xdoc) (canvas : option (Z * Z)) (l : list (N * list xtrim)) : outcome (list (N * list block)) :=
  match l with
  | [] => Ok []
  | (o, ts) :: r => let* bs := trim_blocks d canvas ts in let* rest := frame_edits d canvas r in Ok ((o, bs) :: rest)
  end.

Fixpoint shots_of (d : xdoc) (canvas : option (Z * Z)) (l : list xshot) : outcome (list (N * gshot)) :=
  match l with
  | [] => Ok []
  | s :: r =>
      let* bs := trim_blocks d canvas (x_trims s) in
      let* es := frame_edits d canvas (x_frames s) in
      let* rest := shots_of d canvas r in
      Ok ((x_start s, mkShot (x_dur s) bs es) :: rest)
  end.

(* sort_by_key(|s| s.start): stable insertion sort (equal keys keep their document order) *)
Definition shot_le (a b : N * gshot) : bool := N.leb (fst a) (fst b).
Definition sort_shots (l : list (N * gshot)) : list (N * gshot) := isort shot_le l.

(* parse_global_level10_targets: one L10 block per kept target whose id is not a preset *)
Definition l10_block (t : xtarget) : outcome block :=
  let idx := primary_index (t_prim t) false in
  let* tmax := nits_pq (t_peak t) in
  (* min_nits k/10000: the decimal is scaled to four places (more places are outside the table) *)
  let k := fst (t_min t) * 10 ^ (4 - Z.of_nat (snd (t_min t))) in
  let* _ := ensure (Nat.leb (snd (t_min t)) 4) in
  let* tmin := min_pq_code k in
  let names := ["target_primary_red_x"; "target_primary_red_y"; "target_primary_green_x"; "target_primary_green_y";
                "target_primary_blue_x"; "target_primary_blue_y"; "target_primary_white_x"; "target_primary_white_y"] in
  let base := [("target_display_index", Z.of_N (t_id t)); ("target_max_pq", Z.min 4095 tmax);
               ("target_min_pq", Z.min 4095 tmin); ("target_primary_index", idx)] in
  if (idx =? 255)%Z then Ok (named_block 10 21 (base ++ combine names (map prim_int (t_prim t))))
  else Ok (named_block 10 5 base).

Fixpoint l10_blocks (ts : list xtarget) : outcome (list block) :=
  match ts with
  | [] => Ok []
  | t :: r =>
      if N.leb 256 (t_id t) then Panic site_arith          (* target.id.parse::<u8>().unwrap() *)
      else
        let* b := l10_block t in
        let* rest := l10_blocks r in
        if existsb (N.eqb (t_id t)) preset_target_displays then Ok rest else Ok (b :: rest)
  end.

(* CmXmlParser::new -> GenerateConfig (plus the custom L254 block, if any) *)
Definition version_ok (v : N) : bool :=
  if (1026 <=? v)%N then (v =? 1026)%N || (v =? 1280)%N || (1296 <=? v)%N       (* 0x402, 0x500, >= 0x510 *)
  else (v =? 517)%N.                                                              (* 0x205 *)

Definition xml_config (d : xdoc) (canvas : option (Z * Z)) : outcome (gconfig * option block) :=
  let* _ := ensure (version_ok (x_version d)) in
  let v40 := is_cmv4 d in
  let l5 := match x_ars d with
            | Some (c, i) => match calc_l5 canvas (d2f c) (d2f i) with [l; r; t; b] => l5_block l r t b | _ => l5_block 0 0 0 0 end
            | None => l5_block 0 0 0 0
            end in
  let maxfall := match x_maxfall d with Some v => to_u16 (fround (d2f v)) | None => 0 end in
  let maxcll := match x_maxcll d with Some v => to_u16 (fround (d2f v)) | None => 0 end in
  let min_lum := match x_min_lum d with Some v => to_u16 (fmul (d2f v) f10000) | None => 0 end in
  let max_lum := match x_max_lum d with Some v => v | None => 0 end in
  let* smin := min_pq_code min_lum in
  let* smax := nits_pq max_lum in
  let l6 := named_block 6 8 [("max_display_mastering_luminance", max_lum); ("min_display_mastering_luminance", min_lum);
                             ("max_content_light_level", maxcll); ("max_frame_average_light_level", maxfall)] in
  let l254 := match x_l254 d with
              | Some (m, v) => Some (named_block 254 2 [("dm_mode", m); ("dm_version_index", v)])
              | None => None
              end in
  let l11 := match x_l11 d with
             | Some (ct, wp) => [named_block 11 4 [("content_type", ct); ("whitepoint", wp)]]
             | None => []
             end in
  let* shots := shots_of d canvas (x_shots d) in
  let shots := map snd (sort_shots shots) in
  let* l10 := if v40 then l10_blocks (kept_targets d) else Ok [] in
  Ok (mkG v40 false (sum_dur shots) (Some smin) (Some smax) None l5 (Some l6) (l11 ++ l10) shots, l254).

(* dovi_tool generate --xml: no fixup_l1; L254 from the document replaces the default one *)
Definition generate_xml (p : profile) (d : xdoc) (canvas : option (Z * Z)) (o_long : option bool) (base : rpu)
  : outcome (list (list N)) :=
  let* '(c, l254) := xml_config d canvas in
  let long := match o_long with Some b => b | None => false end in
  let c := mkG (g_cm40 c) long (g_length c) (g_min c) (g_max c) (g_l1cm c) (g_l5 c) (g_l6 c) (g_defaults c) (g_shots c) in
  let* base' := match l254, rdm base with
                | Some b, Some dm => let* dm' := dm_replace_block dm b in Ok (with_dm base (Some dm') true)
                | _, _ => Ok base
                end in
  let* l := generate_list c base' in
  encode_all p l.
