(* Reference syntax tables for the extension blocks and the DM data payload, transcribed from the
   published RPU syntax / the field documentation (docs/, ETSI TS 103 572 naming), NOT from the
   parser: (name, width in bits, signed?, present iff ext_block_length > k).  C02 compares the
   parse programs regenerated from the source against these tables. *)
From Coq Require Import List NArith ZArith String Bool.
From DV Require Import Fields Blocks Tables.
From DVgen Require Import Blocks_gen DmData_gen.
Import ListNotations.
Open Scope N_scope.

Definition gfield := (string * N * bool * N)%type.

Definition u (n : string) (w : N) : gfield := (n, w, false, 0).
Definition ug (n : string) (w : N) (k : N) : gfield := (n, w, false, k).
Definition s (n : string) (w : N) : gfield := (n, w, true, 0).

Definition grammar_block (level : N) : list gfield :=
  match level with
  | 1 => [u "min_pq" 12; u "max_pq" 12; u "avg_pq" 12]
  | 2 => [u "target_max_pq" 12; u "trim_slope" 12; u "trim_offset" 12; u "trim_power" 12;
          u "trim_chroma_weight" 12; u "trim_saturation_gain" 12; s "ms_weight" 13]
  | 3 => [u "min_pq_offset" 12; u "max_pq_offset" 12; u "avg_pq_offset" 12]
  | 4 => [u "anchor_pq" 12; u "anchor_power" 12]
  | 5 => [u "active_area_left_offset" 13; u "active_area_right_offset" 13;
          u "active_area_top_offset" 13; u "active_area_bottom_offset" 13]
  | 6 => [u "max_display_mastering_luminance" 16; u "min_display_mastering_luminance" 16;
          u "max_content_light_level" 16; u "max_frame_average_light_level" 16]
  | 8 => [u "target_display_index" 8; u "trim_slope" 12; u "trim_offset" 12; u "trim_power" 12;
          u "trim_chroma_weight" 12; u "trim_saturation_gain" 12; u "ms_weight" 12;
          ug "target_mid_contrast" 12 10; ug "clip_trim" 12 12;
          ug "saturation_vector_field0" 8 13; ug "saturation_vector_field1" 8 13;
          ug "saturation_vector_field2" 8 13; ug "saturation_vector_field3" 8 13;
          ug "saturation_vector_field4" 8 13; ug "saturation_vector_field5" 8 13;
          ug "hue_vector_field0" 8 19; ug "hue_vector_field1" 8 19; ug "hue_vector_field2" 8 19;
          ug "hue_vector_field3" 8 19; ug "hue_vector_field4" 8 19; ug "hue_vector_field5" 8 19]
  | 9 => [u "source_primary_index" 8;
          ug "source_primary_red_x" 16 1; ug "source_primary_red_y" 16 1;
          ug "source_primary_green_x" 16 1; ug "source_primary_green_y" 16 1;
          ug "source_primary_blue_x" 16 1; ug "source_primary_blue_y" 16 1;
          ug "source_primary_white_x" 16 1; ug "source_primary_white_y" 16 1]
  | 10 => [u "target_display_index" 8; u "target_max_pq" 12; u "target_min_pq" 12;
           u "target_primary_index" 8;
           ug "target_primary_red_x" 16 5; ug "target_primary_red_y" 16 5;
           ug "target_primary_green_x" 16 5; ug "target_primary_green_y" 16 5;
           ug "target_primary_blue_x" 16 5; ug "target_primary_blue_y" 16 5;
           ug "target_primary_white_x" 16 5; ug "target_primary_white_y" 16 5]
  | 11 => [u "content_type" 8; u "whitepoint" 8; u "reserved_byte2" 8; u "reserved_byte3" 8]
  | 254 => [u "dm_mode" 8; u "dm_version_index" 8]
  | 255 => [u "dm_run_mode" 8; u "dm_run_version" 8; u "dm_debug0" 8; u "dm_debug1" 8;
            u "dm_debug2" 8; u "dm_debug3" 8]
  | _ => []
  end.

(* (ext_block_length in bytes, payload bits) per level *)
Definition grammar_lengths (level : N) : list (N * N) :=
  match level with
  | 1 => [(5, 36)] | 2 => [(11, 85)] | 3 => [(5, 36)] | 4 => [(3, 24)] | 5 => [(7, 52)]
  | 6 => [(8, 64)] | 8 => [(25, 200); (19, 152); (13, 104); (12, 92); (10, 80)]
  | 9 => [(1, 8); (17, 136)] | 10 => [(5, 40); (21, 168)] | 11 => [(4, 32)]
  | 254 => [(2, 16)] | 255 => [(6, 48)] | _ => []
  end.

Definition grammar_dm : list gfield :=
  [u "affected_dm_metadata_id" 0; u "current_dm_metadata_id" 0; u "scene_refresh_flag" 0;
   s "ycc_to_rgb_coef0" 16; s "ycc_to_rgb_coef1" 16; s "ycc_to_rgb_coef2" 16; s "ycc_to_rgb_coef3" 16;
   s "ycc_to_rgb_coef4" 16; s "ycc_to_rgb_coef5" 16; s "ycc_to_rgb_coef6" 16; s "ycc_to_rgb_coef7" 16;
   s "ycc_to_rgb_coef8" 16; u "ycc_to_rgb_offset0" 32; u "ycc_to_rgb_offset1" 32; u "ycc_to_rgb_offset2" 32;
   s "rgb_to_lms_coef0" 16; s "rgb_to_lms_coef1" 16; s "rgb_to_lms_coef2" 16; s "rgb_to_lms_coef3" 16;
   s "rgb_to_lms_coef4" 16; s "rgb_to_lms_coef5" 16; s "rgb_to_lms_coef6" 16; s "rgb_to_lms_coef7" 16;
   s "rgb_to_lms_coef8" 16; u "signal_eotf" 16; u "signal_eotf_param0" 16; u "signal_eotf_param1" 16;
   u "signal_eotf_param2" 32; u "signal_bit_depth" 5; u "signal_color_space" 2; u "signal_chroma_format" 2;
   u "signal_full_range_flag" 2; u "source_min_pq" 12; u "source_max_pq" 12; u "source_diagonal" 10].

Definition gfield_of (f : fld) : gfield :=
  (f_name f, f_w f, match f_k f with FS => true | _ => false end, f_gt f).

Definition gfield_eqb (a b : gfield) : bool :=
  let '(n1, w1, s1, k1) := a in let '(n2, w2, s2, k2) := b in
  String.eqb n1 n2 && (w1 =? w2) && Bool.eqb s1 s2 && (k1 =? k2).
Fixpoint gfields_eqb (a b : list gfield) : bool :=
  match a, b with
  | [], [] => true
  | x :: a', y :: b' => gfield_eqb x y && gfields_eqb a' b'
  | _, _ => false
  end.
Fixpoint lens_eqb (a b : list (N * N)) : bool :=
  match a, b with
  | [], [] => true
  | (x1, y1) :: a', (x2, y2) :: b' => (x1 =? x2) && (y1 =? y2) && lens_eqb a' b'
  | _, _ => false
  end.

(* the parser's field programs are the grammar's tables, level by level *)
Definition parser_matches_grammar : bool :=
  forallb (fun d => gfields_eqb (map gfield_of (b_parse d)) (grammar_block (b_level d)) &&
                    lens_eqb (b_lengths d) (grammar_lengths (b_level d))) all_block_descs &&
  gfields_eqb (map gfield_of dm_parse) grammar_dm &&
  (N.of_nat (List.length all_block_descs) =? 12).

Lemma parser_refines_grammar_tables : parser_matches_grammar = true.
Proof. vm_compute. reflexivity. Qed.
