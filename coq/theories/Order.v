(* Frame ordering (hevc_parser reorder_frames / add_current_frame), RPU extraction order
   (general_read_write.rs flush_writer) and RPU injection (rpu_injector.rs). *)
From Coq Require Import List NArith ZArith Lia Bool.
From DV Require Import Outcome Bits Escape BitIO Rpu Ops Stream.
Import ListNotations.
Open Scope N_scope.
Local Open Scope out_scope.

Record frame := mkFrame { f_dec : N; f_poc : N; f_type : N; f_pres : N }.

(* stable insertion sort by POC *)
Fixpoint insert_frame (x : frame) (l : list frame) : list frame :=
  match l with
  | [] => [x]
  | y :: t => if f_poc x <=? f_poc y then x :: l else y :: insert_frame x t
  end.
Definition sort_frames (l : list frame) : list frame := fold_right insert_frame [] l.

Fixpoint renumber (off : N) (l : list frame) : list frame :=
  match l with
  | [] => []
  | f :: t => mkFrame (f_dec f) (f_poc f) (f_type f) off :: renumber (off + 1) t
  end.

Record ostate := mkOs {
  cur : option frame;            (* current frame once its first slice was seen *)
  period : list frame;           (* frames since the last reorder, in decode order *)
  ordered : list frame;          (* reordered frames *)
  pres_index : N }.
Definition os0 : ostate := mkOs None [] [] 0.

Definition add_current (s : ostate) : ostate :=
  match cur s with
  | Some f => mkOs None (period s ++ [f]) (ordered s) (pres_index s)
  | None => s
  end.

Definition reorder (s : ostate) : ostate :=
  let srt := renumber (pres_index s) (sort_frames (period s)) in
  mkOs (cur s) [] (ordered s ++ srt) (pres_index s + N.of_nat (List.length srt)).

Definition order_step (s : ostate) (ni : nal * N) : ostate :=
  let '(n, idx) := ni in
  if 0 <? nlayer n then s
  else if is_slice_type (ntype n) then
    let s := if is_some (cur s) && nfirst n then add_current s else s in
    let s := if is_irap (ntype n) then reorder s else s in
    if nfirst n then mkOs (Some (mkFrame idx (npoc n) (nstype n) 0)) (period s) (ordered s) (pres_index s) else s
  else if attaches (ntype n) then s
  else add_current s.

(* HevcParser::finish *)
Definition ordered_frames (l : list (nal * N)) : list frame :=
  ordered (reorder (add_current (fold_left order_step l os0))).

Definition frame_of_dec (fs : list frame) (d : N) : option frame := find (fun f => f_dec f =? d) fs.

(* ---------------- extract-rpu ---------------- *)
(* stable insertion sort of (key, value) by key *)
Fixpoint insert_kv {A} (x : N * A) (l : list (N * A)) : list (N * A) :=
  match l with
  | [] => [x]
  | y :: t => if fst x <=? fst y then x :: l else y :: insert_kv x t
  end.
Definition sort_kv {A} (l : list (N * A)) : list (N * A) := fold_right insert_kv [] l.

Fixpoint keyed {A} (fs : list frame) (k : N) (l : list A) : outcome (list (N * A)) :=
  match l with
  | [] => Ok []
  | x :: t =>
      match frame_of_dec fs k with
      | Some f => let* r := keyed fs (k + 1) t in Ok ((f_pres f, x) :: r)
      | None => Panic site_arith      (* panic!("Missing frame/slices for metadata") *)
      end
  end.

(* flush_writer: RPUs collected in decode order (ordinal = position), sorted by the
   presentation number of the frame with that decoded index *)
Definition extract_order {A} (fs : list frame) (rpus : list A) : outcome (list A) :=
  match fs with
  | [] => Err
  | _ => let* kv := keyed fs 0 rpus in Ok (map snd (sort_kv kv))
  end.

Definition extract_rpus (p : profile) (o : opts) (nals : list nal) : outcome (list (list N)) :=
  let ix := assign_indices ps0 nals in
  let* out := run_stream p WExtract o [nals] in
  extract_order (ordered_frames ix) (out_rpu out).

(* ---------------- inject-rpu ---------------- *)
Record iopts := mkIo { io_no_add_aud : bool; io_annexb : bool; io_drop : bool }.

Definition aud_for (f : frame) : list N :=
  let pt := if f_type f =? 2 then 0 else if f_type f =? 1 then 1 else if f_type f =? 0 then 2 else 7 in
  [70; 1; pt * 32 + 16].

Record istate := mkIs {
  fb_number : N; fb_nals : list (N * list N);       (* (nal type, bytes) *)
  last_written : option (list N);
  written : list wnal }.

Definition is_eos (t : N) : bool := (t =? 36) || (t =? 37).

Fixpoint rposition_non_eos (l : list (N * list N)) : option nat :=
  match l with
  | [] => None
  | x :: t => match rposition_non_eos t with
              | Some k => Some (S k)
              | None => if is_eos (fst x) then None else Some O
              end
  end.

Fixpoint insert_at {A} (k : nat) (x : A) (l : list A) : list A :=
  match k, l with
  | O, _ => x :: l
  | S k', y :: t => y :: insert_at k' x t
  | S _, [] => [x]
  end.

(* flush the buffered frame: [AUD] ++ nals with the RPU inserted after the last non-EOS/EOB NAL *)
Definition flush_frame (p : profile) (io : iopts) (fs : list frame) (rpus : list rpu) (mismatched : bool)
           (s : istate) : outcome istate :=
  let fr := frame_of_dec fs (fb_number s) in
  let* buf := if io_no_add_aud io then Ok (fb_nals s)
              else match fr with
                   | Some f => Ok ((35, aud_for f) :: fb_nals s)
                   | None => Panic site_arith                 (* .unwrap() *)
                   end in
  let* rp :=
    match fr with
    | Some f =>
        match nth_error rpus (N.to_nat (f_pres f)) with
        | Some x => let* d := write_hevc_unspec62_nalu p src_sw x in Ok d
        | None => if mismatched then (match last_written s with Some d => Ok d | None => Err end) else Err
        end
    | None => if mismatched then (match last_written s with Some d => Ok d | None => Err end) else Err
    end in
  match rposition_non_eos buf with
  | None => Err
  | Some k =>
      let buf' := insert_at (S k) (62, rp) buf in
      let out := map (fun '(i, (t, d)) => (sc_len (io_annexb io) t (Nat.eqb i 0), d))
                     (combine (seq 0 (List.length buf')) buf') in
      Ok (mkIs (fb_number s) [] (Some rp) (written s ++ out))
  end.

Definition inject_step (p : profile) (io : iopts) (fs : list frame) (rpus : list rpu) (mismatched : bool)
           (s : istate) (ni : nal * N) : outcome istate :=
  let '(n, idx) := ni in
  let t := ntype n in
  let* hd := if io_drop io && (t =? 39) then remove_hdr10plus (ndata n) else Ok (false, None) in
  let '(has40, repl) := hd in
  if has40 && negb (is_some repl) then Ok s
  else
    let newframe := negb (fb_number s =? idx) in
    if newframe && negb (io_no_add_aud io) && (t =? 35) then Ok s      (* existing AUD skipped *)
    else
      let* s := if newframe
                then (let* s' := flush_frame p io fs rpus mismatched s in
                      Ok (mkIs idx [] (last_written s') (written s')))
                else Ok s in
      if t =? 62 then Ok s
      else if negb (io_no_add_aud io) && (t =? 35) then Ok s
      else
        let data := match repl with Some d => d | None => ndata n end in
        Ok (mkIs (fb_number s) (fb_nals s ++ [(t, data)]) (last_written s) (written s)).

Fixpoint inject_nals (p : profile) (io : iopts) (fs : list frame) (rpus : list rpu) (mismatched : bool)
         (s : istate) (l : list (nal * N)) : outcome istate :=
  match l with
  | [] => Ok s
  | x :: t => let* s' := inject_step p io fs rpus mismatched s x in inject_nals p io fs rpus mismatched s' t
  end.

Definition inject_rpus (p : profile) (io : iopts) (nals : list nal) (rpus : list rpu) : outcome (list wnal) :=
  let ix := assign_indices ps0 nals in
  let fs := ordered_frames ix in
  let mismatched := negb (Nat.eqb (List.length fs) (List.length rpus)) in
  let* s := inject_nals p io fs rpus mismatched (mkIs 0 [] None []) ix in
  (* finalize: the last buffered frame *)
  if negb (fb_number s =? N.of_nat (List.length fs)) && negb (match fb_nals s with [] => true | _ => false end)
  then let* s' := flush_frame p io fs rpus mismatched s in Ok (written s')
  else Ok (written s).
