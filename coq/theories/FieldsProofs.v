(* Generic theorems about field programs (used by C01, C02, C03). *)
From Coq Require Import List NArith ZArith Lia Bool String.
From DV Require Import Outcome Bits BitIO Fields Tables.
From DVgen Require Import Blocks_gen.
Import ListNotations.
Open Scope N_scope.

Lemma wput_nil w : wput w [] = w.
Proof. destruct w as [wr wp]. unfold wput. cbn. f_equal. lia. Qed.

Lemma wput_app w a b : wput (wput w a) b = wput w (a ++ b).
Proof.
  destruct w as [wr wp]. unfold wput. cbn [wrev wpos]. f_equal.
  - rewrite !rev_append_rev. rewrite rev_app_distr. rewrite app_assoc. reflexivity.
  - rewrite app_length. lia.
Qed.

Lemma val_inj l1 l2 : List.length l1 = List.length l2 -> val l1 = val l2 -> l1 = l2.
Proof. intros Hl Hv. rewrite <- (enc_val l1), <- (enc_val l2). rewrite Hl, Hv. reflexivity. Qed.

Lemma get_n_inv tb n r v r' :
  get_n tb n r = Ok (v, r') ->
  n <= tb /\ exists h, rbits r = h ++ rbits r' /\ List.length h = N.to_nat n /\ v = val h /\
                       rpos r' = rpos r + n.
Proof.
  unfold get_n. destruct (n <=? tb) eqn:E; [|discriminate]. apply N.leb_le in E.
  destruct (take (N.to_nat n) (rbits r)) as [[h t]|] eqn:Et; [|discriminate].
  intros H. inversion H; subst. apply take_spec in Et as [Hr Hl].
  split; [exact E|]. exists h. cbn [rbits rpos]. auto.
Qed.

Lemma pow2_split k : 0 < k -> 2 ^ k = 2 * 2 ^ (k - 1).
Proof. intros H. rewrite <- N.pow_succ_r'. f_equal. lia. Qed.

(* MSB decomposition of enc *)
Lemma enc_msb k x : x < 2 ^ N.of_nat (S k) ->
  enc (S k) x = (2 ^ N.of_nat k <=? x) :: enc k (x mod 2 ^ N.of_nat k).
Proof.
  intros Hx. apply val_inj.
  - cbn [List.length]. rewrite !enc_length. reflexivity.
  - rewrite enc_val_small by exact Hx. rewrite val_cons, enc_length.
    assert (Hp : 2 ^ N.of_nat k <> 0) by (apply N.pow_nonzero; lia).
    rewrite enc_val_small by (apply N.mod_lt; exact Hp).
    rewrite Nat2N.inj_succ, N.pow_succ_r' in Hx.
    destruct (2 ^ N.of_nat k <=? x) eqn:E; cbn [b2n].
    + apply N.leb_le in E. rewrite (N.mod_eq x _ Hp).
      assert (x / 2 ^ N.of_nat k = 1).
      { symmetry. apply (N.div_unique _ _ _ (x - 2 ^ N.of_nat k)); lia. }
      rewrite H. lia.
    + apply N.leb_gt in E. rewrite N.mod_small by exact E. lia.
Qed.

(* one field: decode then encode reproduces the consumed bits *)
Lemma dec_enc_field p f len r v r' w :
  fld_wf f = true -> is_ue f = false ->
  dec_field p f len r = Ok (v, r') ->
  exists bs, rbits r = bs ++ rbits r' /\ rpos r' = rpos r + N.of_nat (List.length bs) /\
             enc_field p f len v w = Ok (wput w bs).
Proof.
  intros Hwf Hue H. unfold dec_field in H. unfold enc_field.
  destruct (present f len).
  2:{ inversion H; subst. exists []. cbn. rewrite wput_nil. repeat split; try reflexivity. lia. }
  unfold fld_wf, is_ue in *. destruct (f_k f); try discriminate.
  - (* unsigned *)
    apply bind_ok_inv in H as [[raw r1] [Hg H]]. inversion H; subst. clear H.
    apply get_n_inv in Hg as [Hle [h [Hr [Hl [Hv Hp]]]]].
    exists h. split; [exact Hr|]. split; [rewrite Hp, Hl, N2Nat.id; reflexivity|].
    rewrite N2Z.id. unfold write_n.
    replace (f_tb f <? f_w f) with false by (symmetry; apply N.ltb_ge; exact Hle).
    assert (Hb : raw < 2 ^ f_w f).
    { subst raw. pose proof (val_bound h) as Hb. rewrite Hl, N2Nat.id in Hb. exact Hb. }
    replace (2 ^ f_w f <=? raw) with false by (symmetry; apply N.leb_gt; exact Hb).
    rewrite andb_false_r. subst raw. rewrite <- Hl. rewrite enc_val. reflexivity.
  - (* signed, two's complement *)
    apply andb_true_iff in Hwf as [Hw1 Hw2]. apply N.leb_le in Hw1. apply N.leb_le in Hw2.
    apply bind_ok_inv in H as [[raw r1] [Hg H]]. inversion H; subst. clear H.
    apply get_n_inv in Hg as [Hle [h [Hr [Hl [Hv Hp]]]]].
    exists h. split; [exact Hr|]. split; [rewrite Hp, Hl, N2Nat.id; reflexivity|].
    assert (Hb : raw < 2 ^ f_w f).
    { subst raw. pose proof (val_bound h) as Hb. rewrite Hl, N2Nat.id in Hb. exact Hb. }
    set (wd := f_w f) in *.
    assert (Hwd0 : 0 < wd) by lia.
    pose proof (pow2_split wd Hwd0) as Hsplit.
    assert (Hhalf : 0 < 2 ^ (wd - 1)) by (apply N.neq_0_lt_0; apply N.pow_nonzero; lia).
    unfold write_signed_n, twos.
    replace (wd =? 0) with false by (symmetry; apply N.eqb_neq; lia).
    replace (f_tb f <? wd) with false by (symmetry; apply N.ltb_ge; exact Hle).
    (* the k with wd = S k *)
    assert (Hk : N.to_nat wd = S (N.to_nat (wd - 1))) by lia.
    assert (Hmsb : h = (2 ^ (wd - 1) <=? raw) :: enc (N.to_nat (wd - 1)) (raw mod 2 ^ (wd - 1))).
    { rewrite <- (enc_val h). rewrite Hl, Hk, <- Hv.
      rewrite enc_msb; rewrite ?N2Nat.id; [reflexivity|].
      rewrite <- Hk, N2Nat.id. exact Hb. }
    destruct (wd =? f_tb f) eqn:Eeq.
    + (* full width: raw bytes *)
      f_equal. f_equal.
      assert (Hz : (Z.of_N wd = Z.of_N wd)%Z) by reflexivity.
      assert (Hmod : Z.to_N ((if raw <? 2 ^ (wd - 1) then Z.of_N raw else (Z.of_N raw - 2 ^ Z.of_N wd)%Z)
                             mod 2 ^ Z.of_N wd) = raw).
      { assert (Hpz : (2 ^ Z.of_N wd = Z.of_N (2 ^ wd))%Z) by (rewrite N2Z.inj_pow; reflexivity).
        destruct (raw <? 2 ^ (wd - 1)).
        - rewrite Z.mod_small by lia. apply N2Z.id.
        - rewrite Hpz. replace (Z.of_N raw - Z.of_N (2 ^ wd))%Z with (Z.of_N raw + (-1) * Z.of_N (2 ^ wd))%Z by lia.
          rewrite Z.mod_add by lia. rewrite Z.mod_small by lia. apply N2Z.id. }
      rewrite Hmod. subst raw. rewrite <- Hl. apply enc_val.
    + apply N.eqb_neq in Eeq.
      assert (Hpz1 : (2 ^ Z.of_N (wd - 1) = Z.of_N (2 ^ (wd - 1)))%Z) by (rewrite N2Z.inj_pow; reflexivity).
      assert (Hpz : (2 ^ Z.of_N wd = Z.of_N (2 ^ wd))%Z) by (rewrite N2Z.inj_pow; reflexivity).
      destruct (raw <? 2 ^ (wd - 1)) eqn:El.
      * apply N.ltb_lt in El.
        replace (Z.of_N raw <? 0)%Z with false by (symmetry; apply Z.ltb_ge; lia).
        cbn [write_bit bind]. unfold write_n.
        replace (f_tb f <? wd - 1) with false by (symmetry; apply N.ltb_ge; lia).
        rewrite N2Z.id.
        replace (2 ^ (wd - 1) <=? raw) with false by (symmetry; apply N.leb_gt; exact El).
        rewrite andb_false_r. rewrite wput_app. f_equal. f_equal.
        rewrite Hmsb.
        replace (2 ^ (wd - 1) <=? raw) with false by (symmetry; apply N.leb_gt; exact El).
        rewrite N.mod_small by exact El. reflexivity.
      * apply N.ltb_ge in El.
        replace (Z.of_N raw - 2 ^ Z.of_N wd <? 0)%Z with true by (symmetry; apply Z.ltb_lt; lia).
        replace (Z.of_N raw - 2 ^ Z.of_N wd + 2 ^ Z.of_N (wd - 1) <? 0)%Z with false
          by (symmetry; apply Z.ltb_ge; lia).
        cbn [write_bit bind]. unfold write_n.
        replace (f_tb f <? wd - 1) with false by (symmetry; apply N.ltb_ge; lia).
        assert (Hu : Z.to_N (Z.of_N raw - 2 ^ Z.of_N wd + 2 ^ Z.of_N (wd - 1)) = raw - 2 ^ (wd - 1)) by lia.
        rewrite Hu.
        replace (2 ^ (wd - 1) <=? raw - 2 ^ (wd - 1)) with false by (symmetry; apply N.leb_gt; lia).
        rewrite andb_false_r. rewrite wput_app. f_equal. f_equal.
        rewrite Hmsb.
        replace (2 ^ (wd - 1) <=? raw) with true by (symmetry; apply N.leb_le; exact El).
        cbn [app]. f_equal. f_equal.
        assert (Hne : 2 ^ (wd - 1) <> 0) by lia.
        rewrite (N.mod_eq raw _ Hne).
        assert (Hq : raw / 2 ^ (wd - 1) = 1).
        { symmetry. apply (N.div_unique _ _ _ (raw - 2 ^ (wd - 1))); lia. }
        rewrite Hq. lia.
Qed.

Theorem dec_enc_fields p prog : forall len r vs r' w,
  forallb fld_wf prog = true -> forallb (fun f => negb (is_ue f)) prog = true ->
  dec_fields p prog len r = Ok (vs, r') ->
  exists bs, rbits r = bs ++ rbits r' /\ rpos r' = rpos r + N.of_nat (List.length bs) /\
             enc_fields p prog len vs w = Ok (wput w bs).
Proof.
  induction prog as [|f t IH]; intros len r vs r' w Hwf Hue H.
  - cbn in H. inversion H; subst. exists []. cbn. rewrite wput_nil. repeat split; try reflexivity. lia.
  - cbn [forallb] in Hwf, Hue. apply andb_true_iff in Hwf as [Hwf1 Hwf2].
    apply andb_true_iff in Hue as [Hue1 Hue2]. apply negb_true_iff in Hue1.
    cbn [dec_fields] in H.
    apply bind_ok_inv in H as [[v r1] [Hd H]].
    apply bind_ok_inv in H as [[vt r2] [Hdt H]]. inversion H; subst. clear H.
    destruct (dec_enc_field p f len r v r1 w Hwf1 Hue1 Hd) as [b1 [Hr1 [Hp1 He1]]].
    destruct (IH len r1 vt r' (wput w b1) Hwf2 Hue2 Hdt) as [b2 [Hr2 [Hp2 He2]]].
    exists (b1 ++ b2). split; [rewrite Hr1, Hr2, app_assoc; reflexivity|].
    split; [rewrite Hp2, Hp1, app_length; lia|].
    cbn [enc_fields]. rewrite He1. cbn [bind]. rewrite He2. rewrite wput_app. reflexivity.
Qed.
