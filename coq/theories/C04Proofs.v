(* Conversions (C04). *)
From Coq Require Import List NArith ZArith Lia Bool String.
From DV Require Import Outcome Bits BitIO Fields Blocks Rpu Ops.
From DVgen Require Import DmData_gen Modes_gen.
Import ListNotations.
Open Scope N_scope.

Lemma surfaces_agree n : n <= 5 -> Some (mode_of_u8 n) = mode_of_cli n.
Proof.
  intros H. assert (Hc : n = 0 \/ n = 1 \/ n = 2 \/ n = 3 \/ n = 4 \/ n = 5) by lia.
  destruct Hc as [->|[->|[->|[->|[->| ->]]]]]; vm_compute; reflexivity.
Qed.

(* ---- set_fields does not touch other fields ---- *)
Lemma nth_error_set_nth_other i j v l : i <> j -> nth_error (set_nth i v l) j = nth_error l j.
Proof.
  revert i j. induction l as [|x t IH]; intros i j H; [destruct i; reflexivity|].
  destruct i, j; cbn; try reflexivity; try congruence. apply IH. congruence.
Qed.

Definition onat_eqb (a b : option nat) : bool :=
  match a, b with Some x, Some y => Nat.eqb x y | None, None => true | _, _ => false end.

Lemma set_field_other prog vs k v name :
  onat_eqb (index_of k prog 0) (index_of name prog 0) = false ->
  field_val prog (set_field prog vs k v) name = field_val prog vs name.
Proof.
  unfold field_val, set_field. intros H.
  destruct (index_of k prog 0) as [i|]; [|reflexivity].
  destruct (index_of name prog 0) as [j|]; [|reflexivity].
  cbn in H. apply Nat.eqb_neq in H. apply nth_error_set_nth_other. exact H.
Qed.

Lemma set_fields_other prog kv : forall vs name,
  forallb (fun k => negb (onat_eqb (index_of k prog 0) (index_of name prog 0))) (map fst kv) = true ->
  field_val prog (set_fields prog vs kv) name = field_val prog vs name.
Proof.
  induction kv as [|[k v] t IH]; intros vs name H; [reflexivity|].
  cbn [map fst forallb] in H. apply andb_true_iff in H as [H1 H2]. apply negb_true_iff in H1.
  cbn [set_fields]. rewrite IH by exact H2. apply set_field_other. exact H1.
Qed.

Definition kept_names : list string :=
  ["source_min_pq"; "source_max_pq"; "source_diagonal"; "signal_eotf"; "signal_bit_depth"]%string.

Lemma p81_coeffs_disjoint :
  forallb (fun name => forallb (fun k => negb (onat_eqb (index_of k dm_main_prog 0) (index_of name dm_main_prog 0)))
                               (map fst p81_coeffs)) kept_names = true.
Proof. vm_compute. reflexivity. Qed.

Lemma set_p81_field d name : In name kept_names -> dm_field (set_p81_coeffs d) name = dm_field d name.
Proof.
  intros Hin. unfold dm_field, set_p81_coeffs. cbn [dm_main].
  rewrite set_fields_other; [reflexivity|].
  pose proof p81_coeffs_disjoint as H. rewrite forallb_forall in H. apply H. exact Hin.
Qed.

(* what a conversion may do to the DM data: nothing, or set_p81_coeffs once or twice *)
Inductive dm_rel : option dmdata -> option dmdata -> Prop :=
| dm_same d : dm_rel d d
| dm_p81 d : dm_rel d (option_map set_p81_coeffs d)
| dm_p81x2 d : dm_rel d (option_map set_p81_coeffs (option_map set_p81_coeffs d)).

Lemma dm_rel_preserved a b : dm_rel a b ->
  option_map cmv29 b = option_map cmv29 a /\ option_map cmv40 b = option_map cmv40 a /\
  option_map dm_ids b = option_map dm_ids a /\ option_map dm_compressed b = option_map dm_compressed a /\
  forall name, In name kept_names ->
    option_map (fun d => dm_field d name) b = option_map (fun d => dm_field d name) a.
Proof.
  intros H. destruct H as [d|d|d]; destruct d as [d|]; cbn; repeat split; try reflexivity;
    intros name Hin; rewrite ?set_p81_field by exact Hin; reflexivity.
Qed.

Lemma rdm_refresh x : rdm (refresh x) = rdm x. Proof. reflexivity. Qed.
Lemma rdm_set_modified x : rdm (set_modified x) = rdm x. Proof. reflexivity. Qed.
Lemma rdm_remove_mapping x : rdm (remove_mapping x) = rdm x. Proof. reflexivity. Qed.
Lemma rdm_convert_to_p81 x : rdm (convert_to_p81 x) = option_map set_p81_coeffs (rdm x). Proof. reflexivity. Qed.

Lemma convert_dm_rel x m y : convert_with_mode x m = Ok y -> dm_rel (rdm x) (rdm y).
Proof.
  unfold convert_with_mode. intros H.
  apply bind_ok_inv in H as [z [Hz H]]. inversion H; subst y. clear H. rewrite rdm_refresh.
  destruct (m =? 0) eqn:E0; [inversion Hz; subst; constructor|].
  set (x' := set_modified x) in *. assert (Hx : rdm x' = rdm x) by reflexivity.
  destruct (m =? 1).
  { destruct ((dovi_profile x' =? 7) || (dovi_profile x' =? 8)); [|discriminate].
    unfold convert_to_mel in Hz. destruct (rmapping x') as [mp|].
    - apply bind_ok_inv in Hz as [q [_ Hz]]. inversion Hz; subst. cbn. constructor.
    - inversion Hz; subst. cbn. constructor. }
  destruct (m =? 2).
  { destruct ((dovi_profile x' =? 7) || (dovi_profile x' =? 8)).
    - inversion Hz; subst. unfold convert_to_p81_remove_mapping.
      destruct (el_type x') as [[|[?|?|]]|]; rewrite ?rdm_remove_mapping, rdm_convert_to_p81, Hx; constructor.
    - destruct (dovi_profile x' =? 5); [|discriminate]. unfold p5_to_p81 in Hz.
      destruct (dovi_profile x' =? 5); [|discriminate]. inversion Hz; subst. cbn. constructor. }
  destruct (m =? 3).
  { inversion Hz; subst. cbn. constructor. }
  destruct (m =? 4); [|discriminate].
  destruct ((dovi_profile x' =? 7) || (dovi_profile x' =? 8)); [|discriminate].
  inversion Hz; subst. rewrite rdm_convert_to_p81, Hx. constructor.
Qed.

Lemma convert_dm_preserved x m y : convert_with_mode x m = Ok y ->
  option_map cmv29 (rdm y) = option_map cmv29 (rdm x) /\
  option_map cmv40 (rdm y) = option_map cmv40 (rdm x) /\
  option_map dm_ids (rdm y) = option_map dm_ids (rdm x) /\
  option_map dm_compressed (rdm y) = option_map dm_compressed (rdm x) /\
  forall name, In name kept_names ->
    option_map (fun d => dm_field d name) (rdm y) = option_map (fun d => dm_field d name) (rdm x).
Proof. intros H. apply dm_rel_preserved. eapply convert_dm_rel. exact H. Qed.

Lemma convert_support x m : is_ok (convert_with_mode x m) = true ->
  (m = 1 \/ m = 4 -> dovi_profile x = 7 \/ dovi_profile x = 8) /\
  (m = 2 -> dovi_profile x = 5 \/ dovi_profile x = 7 \/ dovi_profile x = 8) /\
  m <= 4.
Proof.
  unfold convert_with_mode. intros H.
  assert (Hp : forall b : bool, dovi_profile (if b then x else set_modified x) = dovi_profile x) by (intros []; reflexivity).
  rewrite Hp in H. set (p := dovi_profile x) in *.
  assert (Hor : (p =? 7) || (p =? 8) = true -> p = 7 \/ p = 8).
  { intros Ho. apply orb_true_iff in Ho as [Ho|Ho]; apply N.eqb_eq in Ho; auto. }
  repeat split.
  - intros [->| ->]; cbn [N.eqb Pos.eqb] in H.
    + destruct ((p =? 7) || (p =? 8)) eqn:E; [auto|discriminate].
    + destruct ((p =? 7) || (p =? 8)) eqn:E; [auto|discriminate].
  - intros ->. cbn [N.eqb Pos.eqb] in H.
    destruct ((p =? 7) || (p =? 8)) eqn:E; [right; auto|].
    destruct (p =? 5) eqn:E5; [left; apply N.eqb_eq; exact E5|discriminate].
  - destruct (m =? 0) eqn:E0; [apply N.eqb_eq in E0; lia|].
    destruct (m =? 1) eqn:E1; [apply N.eqb_eq in E1; lia|].
    destruct (m =? 2) eqn:E2; [apply N.eqb_eq in E2; lia|].
    destruct (m =? 3) eqn:E3; [apply N.eqb_eq in E3; lia|].
    destruct (m =? 4) eqn:E4; [apply N.eqb_eq in E4; lia|]. discriminate.
Qed.

Lemma lossless_identity x :
  dovi_profile x = get_dovi_profile (hdr x) -> el_type x = el_type_of (rmapping x) ->
  convert_with_mode x 0 = Ok x.
Proof.
  intros H1 H2. unfold convert_with_mode. cbn [N.eqb bind]. unfold refresh. rewrite <- H1, <- H2.
  destruct x; reflexivity.
Qed.

Lemma hdr_refresh x : hdr (refresh x) = hdr x. Proof. reflexivity. Qed.

Lemma profile8_flags h : vdr_rpu_profile h = 1 ->
  get_dovi_profile (hdr_set_el h false true) = 8.
Proof. intros H. unfold get_dovi_profile. cbn. rewrite H. reflexivity. Qed.

Lemma prof_refresh z : dovi_profile (refresh z) = get_dovi_profile (hdr z). Proof. reflexivity. Qed.
Lemma eltype_refresh z : el_type (refresh z) = el_type_of (rmapping z). Proof. reflexivity. Qed.
Lemma hdr_p81 x : hdr (convert_to_p81 x) = hdr_set_el (hdr x) false true. Proof. reflexivity. Qed.
Lemma hdr_remove_mapping y : hdr (remove_mapping y) = hdr y. Proof. reflexivity. Qed.
Lemma hdr_set_modified x : hdr (set_modified x) = hdr x. Proof. reflexivity. Qed.
Lemma el_p81 x : el_type_of (rmapping (convert_to_p81 x)) = None.
Proof. unfold convert_to_p81. cbn [rmapping]. destruct (rmapping x); reflexivity. Qed.
Lemma el_remove_mapping y : el_type_of (rmapping (remove_mapping y)) = el_type_of (rmapping y).
Proof. unfold remove_mapping, with_mapping. cbn [rmapping]. destruct (rmapping y); reflexivity. Qed.

Lemma p81_rm_profile x : vdr_rpu_profile (hdr x) = 1 ->
  get_dovi_profile (hdr (convert_to_p81_remove_mapping x)) = 8 /\
  el_type_of (rmapping (convert_to_p81_remove_mapping x)) = None.
Proof.
  intros Hv. unfold convert_to_p81_remove_mapping.
  destruct (el_type x) as [[|[?|?|]]|]; rewrite ?hdr_remove_mapping, ?el_remove_mapping, hdr_p81, el_p81;
    (split; [apply profile8_flags; exact Hv|reflexivity]).
Qed.

Lemma convert_target_profile x m y : convert_with_mode x m = Ok y ->
  (m = 1 -> el_spatial_resampling_filter_flag (hdr y) = true /\ disable_residual_flag (hdr y) = false) /\
  (m = 3 -> dovi_profile y = 8 /\ el_type y = None) /\
  ((m = 2 \/ m = 4) -> vdr_rpu_profile (hdr x) = 1 \/ dovi_profile x = 5 -> dovi_profile y = 8 /\ el_type y = None).
Proof.
  unfold convert_with_mode. intros H.
  apply bind_ok_inv in H as [z [Hz H]]. inversion H; subst y. clear H.
  split; [|split].
  - intros ->. cbn [N.eqb Pos.eqb] in Hz.
    destruct (_ || _); [|discriminate]. unfold convert_to_mel in Hz.
    destruct (rmapping (set_modified x)); [apply bind_ok_inv in Hz as [q [_ Hz]]|]; inversion Hz; split; reflexivity.
  - intros ->. cbn [N.eqb Pos.eqb] in Hz. inversion Hz; subst. split; reflexivity.
  - intros Hm Hsrc. rewrite prof_refresh, eltype_refresh.
    assert (Hp : dovi_profile (set_modified x) = dovi_profile x) by reflexivity.
    destruct Hm as [-> | ->]; cbn [N.eqb Pos.eqb] in Hz; rewrite ?Hp in Hz.
    + destruct ((dovi_profile x =? 7) || (dovi_profile x =? 8)) eqn:E78.
      * inversion Hz; subst. destruct Hsrc as [Hv|H5].
        -- apply p81_rm_profile. rewrite hdr_set_modified. exact Hv.
        -- exfalso. rewrite H5 in E78. discriminate.
      * destruct (dovi_profile x =? 5) eqn:E5; [|discriminate].
        unfold p5_to_p81 in Hz. rewrite Hp, E5 in Hz. inversion Hz; subst. split; cbn; [reflexivity|].
        destruct (rmapping x); reflexivity.
    + destruct ((dovi_profile x =? 7) || (dovi_profile x =? 8)) eqn:E78; [|discriminate].
      inversion Hz; subst. destruct Hsrc as [Hv|H5].
      * rewrite hdr_p81, el_p81. split; [apply profile8_flags; rewrite hdr_set_modified; exact Hv|reflexivity].
      * exfalso. rewrite H5 in E78. discriminate.
Qed.
