(* Start-code emulation prevention: models of
   dolby_vision::utils::add_start_code_emulation_prevention_3_byte  (escape)
   dolby_vision::utils::clear_start_code_emulation_prevention_3_byte (unescape) *)
From Coq Require Import List NArith Lia Bool.
From DV Require Import Bits.
Import ListNotations.
Open Scope N_scope.

(* escape: the in-place loop `if i > 2 && d[i-2]==0 && d[i-1]==0 && d[i]<=3 { insert(i,3) }`
   seen as a left fold; acc = output so far, reversed, so `i` = length acc. *)
Definition esc_step (acc : list N) (b : N) : list N :=
  match acc with
  | p1 :: p2 :: _ :: _ =>
      if (p2 =? 0) && (p1 =? 0) && (b <=? 3) then b :: 3 :: acc else b :: acc
  | _ => b :: acc
  end.
Definition escape (l : list N) : list N := frev (fold_left esc_step l []).

(* unescape: window over the INPUT, exactly as coded *)
Fixpoint unesc_aux (p2 p1 : N) (l : list N) : list N :=
  match l with
  | [] => []
  | b :: t =>
      if (p2 =? 0) && (p1 =? 0) && (b =? 3) then unesc_aux p1 b t
      else b :: unesc_aux p1 b t
  end.
Definition unescape (l : list N) : list N :=
  match l with
  | a :: b :: t => a :: b :: unesc_aux a b t
  | _ => l
  end.

(* forward formulation of escape once at least three bytes have been emitted *)
Fixpoint esc_fwd (p2 p1 : N) (l : list N) : list N :=
  match l with
  | [] => []
  | b :: t =>
      if (p2 =? 0) && (p1 =? 0) && (b <=? 3) then 3 :: b :: esc_fwd 3 b t
      else b :: esc_fwd p1 b t
  end.

(* no byte-aligned 00 00 {00,01,02}: p2 p1 are the two bytes preceding l *)
Fixpoint cl (p2 p1 : N) (l : list N) : bool :=
  match l with
  | [] => true
  | b :: t => negb ((p2 =? 0) && (p1 =? 0) && (b <=? 2)) && cl p1 b t
  end.
Definition no_start_code_emulation (l : list N) : bool := cl 1 1 l.

(* every 00 00 03 is followed by a byte <= 3 or ends the string *)
Fixpoint esc03_ok (p2 p1 : N) (l : list N) : bool :=
  match l with
  | [] => true
  | b :: t =>
      (if (p2 =? 0) && (p1 =? 0) && (b =? 3)
       then match t with [] => true | c :: _ => c <=? 3 end else true)
      && esc03_ok p1 b t
  end.

(* ------------------------------------------------------------------ *)

Lemma fold_esc_fwd l : forall p1 p2 x rest,
  rev (fold_left esc_step l (p1 :: p2 :: x :: rest)) =
  rev (p1 :: p2 :: x :: rest) ++ esc_fwd p2 p1 l.
Proof.
  induction l as [|b t IH]; intros p1 p2 x rest.
  - cbn [fold_left esc_fwd]. rewrite app_nil_r. reflexivity.
  - cbn [fold_left esc_fwd]. unfold esc_step at 2.
    destruct ((p2 =? 0) && (p1 =? 0) && (b <=? 3)) eqn:E.
    + rewrite IH. cbn [rev]. repeat rewrite <- app_assoc. reflexivity.
    + rewrite IH. cbn [rev]. repeat rewrite <- app_assoc. reflexivity.
Qed.

Lemma escape_long a b c t : escape (a :: b :: c :: t) = a :: b :: c :: esc_fwd b c t.
Proof.
  unfold escape. rewrite frev_rev. cbn [fold_left].
  change (esc_step (esc_step (esc_step [] a) b) c) with [c; b; a].
  rewrite fold_esc_fwd. reflexivity.
Qed.

Lemma escape_short l : (length l <= 2)%nat -> escape l = l.
Proof.
  destruct l as [|a [|b [|c t]]]; intros H; try reflexivity. cbn in H. lia.
Qed.

Lemma unesc_esc_fwd l : forall p2 p1, unesc_aux p2 p1 (esc_fwd p2 p1 l) = l.
Proof.
  induction l as [|b t IH]; intros p2 p1; [reflexivity|].
  cbn [esc_fwd].
  destruct ((p2 =? 0) && (p1 =? 0) && (b <=? 3)) eqn:E.
  - cbn [unesc_aux].
    apply andb_true_iff in E as [E1 E3]. apply andb_true_iff in E1 as [E1 E2].
    rewrite E1, E2. cbn [andb N.eqb Pos.eqb].
    rewrite IH. reflexivity.
  - cbn [unesc_aux].
    destruct ((p2 =? 0) && (p1 =? 0) && (b =? 3)) eqn:E'.
    + exfalso. apply andb_true_iff in E' as [E1 E3]. rewrite E1 in E. cbn [andb] in E.
      apply N.eqb_eq in E3. subst b. discriminate.
    + rewrite IH. reflexivity.
Qed.

Theorem unescape_escape l : hd 1 l <> 0 -> unescape (escape l) = l.
Proof.
  intros H. destruct l as [|a [|b [|c t]]]; try reflexivity.
  rewrite escape_long. cbn [unescape unesc_aux]. cbn [hd] in H.
  assert (Ea : (a =? 0) = false) by (apply N.eqb_neq; exact H).
  rewrite Ea. cbn [andb]. rewrite unesc_esc_fwd. reflexivity.
Qed.

Lemma cl_esc_fwd l : forall p2 p1, cl p2 p1 (esc_fwd p2 p1 l) = true.
Proof.
  induction l as [|b t IH]; intros p2 p1; [reflexivity|].
  cbn [esc_fwd].
  destruct ((p2 =? 0) && (p1 =? 0) && (b <=? 3)) eqn:E.
  - cbn [cl]. change (3 <=? 2) with false. change (3 =? 0) with false.
    rewrite !andb_false_r. cbn [negb andb]. apply IH.
  - cbn [cl]. rewrite IH, andb_true_r.
    destruct ((p2 =? 0) && (p1 =? 0)) eqn:E2; [|reflexivity].
    cbn [andb] in *. apply N.leb_gt in E.
    destruct (b <=? 2) eqn:E3; [|reflexivity]. apply N.leb_le in E3. lia.
Qed.

(* the HEVC NAL form: 7C 01 ++ escape rpu, for any rpu whose first byte is non-zero (0x19) *)
Theorem nal_no_start_code_emulation l :
  hd 1 l <> 0 -> no_start_code_emulation (124 :: 1 :: escape l) = true.
Proof.
  intros H. unfold no_start_code_emulation.
  destruct l as [|a [|b [|c t]]].
  - reflexivity.
  - rewrite escape_short by (cbn; lia). cbn [cl N.eqb andb negb]. reflexivity.
  - rewrite escape_short by (cbn; lia). cbn [cl N.eqb andb negb]. reflexivity.
  - rewrite escape_long. cbn [hd] in H.
    assert (Ea : (a =? 0) = false) by (apply N.eqb_neq; exact H).
    cbn [cl]. change (124 =? 0) with false. change (1 =? 0) with false.
    rewrite Ea. cbn [andb negb]. rewrite ?andb_false_r. cbn [andb negb].
    apply cl_esc_fwd.
Qed.

Lemma esc03_esc_fwd l : forall p2 p1, esc03_ok p2 p1 (esc_fwd p2 p1 l) = true.
Proof.
  induction l as [|b t IH]; intros p2 p1; [reflexivity|].
  cbn [esc_fwd].
  destruct ((p2 =? 0) && (p1 =? 0) && (b <=? 3)) eqn:E.
  - apply andb_true_iff in E as [E1 E3]. apply andb_true_iff in E1 as [E1 E2].
    cbn [esc03_ok]. rewrite E1, E2. cbn [andb N.eqb Pos.eqb]. rewrite E3.
    cbn [andb]. apply IH.
  - cbn [esc03_ok]. rewrite IH, andb_true_r.
    destruct ((p2 =? 0) && (p1 =? 0)) eqn:E2; [|reflexivity].
    cbn [andb] in *. destruct (b =? 3) eqn:E3; [|reflexivity].
    apply N.eqb_eq in E3. subst b. discriminate.
Qed.

Theorem nal_03_is_escape l :
  hd 1 l <> 0 -> esc03_ok 1 1 (124 :: 1 :: escape l) = true.
Proof.
  intros H. destruct l as [|a [|b [|c t]]].
  - reflexivity.
  - rewrite escape_short by (cbn; lia). cbn [esc03_ok N.eqb andb]. reflexivity.
  - rewrite escape_short by (cbn; lia). cbn [esc03_ok N.eqb andb]. reflexivity.
  - rewrite escape_long. cbn [hd] in H.
    assert (Ea : (a =? 0) = false) by (apply N.eqb_neq; exact H).
    cbn [esc03_ok]. change (124 =? 0) with false. change (1 =? 0) with false.
    rewrite Ea. cbn [andb]. rewrite ?andb_false_r. cbn [andb].
    apply esc03_esc_fwd.
Qed.

(* canonical escaping on the parse side: a string is canonically escaped when it is the
   escape of its own unescaping *)
Definition canonically_escaped (l : list N) : bool :=
  if list_eq_dec N.eq_dec (escape (unescape l)) l then true else false.

Lemma canonical_spec l : canonically_escaped l = true -> escape (unescape l) = l.
Proof. unfold canonically_escaped. destruct (list_eq_dec _ _ _); congruence. Qed.

Lemma escape_canonical l : hd 1 l <> 0 -> canonically_escaped (escape l) = true.
Proof.
  intros H. unfold canonically_escaped. rewrite (unescape_escape l H).
  destruct (list_eq_dec _ _ _); congruence.
Qed.
